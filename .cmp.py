import sys, itertools, json, time
sys.path.insert(0, 'tools')
import vlib
from vlib import vh_batch, drv_batch, enc
ALPHA = ["'", '"', "\\", "#", "@", "$", ".", "0", "1", "_", "e", "x", "b", "r", "s", "f", "a", "l", "t", " ", "\t", "\n", "\r", "-", ":", "&", "|", "é"]
def norm_float(line):
    return line
def same(i, m):
    if i == m: return True
    ti, tm = i.split(" "), m.split(" ")
    if len(ti) != len(tm): return False
    for a, b in zip(ti, tm):
        if a == b: continue
        pa, pb = a.split(":"), b.split(":")
        if len(pa) == 4 and len(pb) == 4 and pa[:3] == pb[:3] and pa[2] == "Float" and pa[1] == "Literal":
            try:
                if float(pa[3]) == float(pb[3]): continue
            except ValueError: pass
        return False
    return True
def run(strs):
    B = 400
    reqs = [{"op": "lexc", "srcs": strs[i:i+B]} for i in range(0, len(strs), B)]
    t0 = time.time()
    impl = [r for a in vh_batch(reqs, shards=16) for r in a["r"]]
    t1 = time.time()
    model = drv_batch(["lex\t" + enc(s) for s in strs], shards=16)
    t2 = time.time()
    bad = [(s, i, m) for s, i, m in zip(strs, impl, model) if not same(i, m)]
    print(len(strs), "vh %.1fs drv %.1fs" % (t1 - t0, t2 - t1), "mismatches", len(bad))
    for s, i, m in bad[:25]:
        print(repr(s), "\n   impl ", i, "\n   model", m)
    return impl, model
if __name__ == "__main__":
    n = int(sys.argv[1])
    strs = ["".join(p) for k in range(n + 1) for p in itertools.product(ALPHA, repeat=k)]
    run(strs)
