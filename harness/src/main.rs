//! vh: line-protocol harness. One JSON request per stdin line, one JSON answer per stdout line.
//! Calls the real prqlc / prqlc-parser crates of /repo in-process.
use std::io::{BufRead, Write};
use std::panic::{catch_unwind, AssertUnwindSafe};
use std::str::FromStr;

use serde_json::{json, Value};

mod ops;
mod ops_lex;
mod ops_json;
mod ops_hooks;
mod ops_err;
/// location (file:line:col) of the last panic, recorded by the panic hook
static LAST_PANIC_AT: std::sync::Mutex<Option<String>> = std::sync::Mutex::new(None);
/// innermost prqlc / prqlc_parser function on the stack of the last panic (from the symbol table; cached per location)
static LAST_PANIC_FN: std::sync::Mutex<Option<String>> = std::sync::Mutex::new(None);
static PANIC_FN_CACHE: std::sync::Mutex<Vec<(String, String)>> = std::sync::Mutex::new(Vec::new());
fn innermost_prqlc_frame() -> String {
    let bt = std::backtrace::Backtrace::force_capture().to_string();
    for line in bt.lines() {
        let l = line.trim();
        let Some((n, rest)) = l.split_once(": ") else { continue };
        if n.parse::<u32>().is_err() {
            continue;
        }
        if rest.contains("prqlc::") || rest.contains("prqlc_parser::") {
            // drop the hash suffix
            let mut f = rest.to_string();
            if let Some(i) = f.rfind("::h") {
                if f.len() - i == 19 {
                    f.truncate(i);
                }
            }
            return f;
        }
    }
    "?".to_string()
}
mod ops_pure;

fn main() {
    // silence the default panic message; panics are reported in the answer
    std::panic::set_hook(Box::new(|info| {
        let at = info.location().map(|l| format!("{}:{}:{}", l.file(), l.line(), l.column()));
        let key = at.clone().unwrap_or_default();
        let cached = PANIC_FN_CACHE.lock().ok().and_then(|c| c.iter().find(|(k, _)| *k == key).map(|(_, v)| v.clone()));
        let f = match cached {
            // library locations (slice index, unwrap in core, …) are shared by many call sites: never cached
            Some(f) if key.starts_with("/repo/") => f,
            _ => {
                let f = innermost_prqlc_frame();
                if let Ok(mut c) = PANIC_FN_CACHE.lock() {
                    c.push((key, f.clone()));
                }
                f
            }
        };
        if let Ok(mut g) = LAST_PANIC_FN.lock() {
            *g = Some(f);
        }
        if let Ok(mut g) = LAST_PANIC_AT.lock() {
            *g = at;
        }
    }));
    let stdin = std::io::stdin();
    let stdout = std::io::stdout();
    let mut out = std::io::BufWriter::new(stdout.lock());
    for line in stdin.lock().lines() {
        let line = match line {
            Ok(l) => l,
            Err(_) => break,
        };
        if line.trim().is_empty() {
            continue;
        }
        let req: Value = match serde_json::from_str(&line) {
            Ok(v) => v,
            Err(e) => {
                writeln!(out, "{}", json!({"bad_request": e.to_string()})).unwrap();
                continue;
            }
        };
        let t0 = std::time::Instant::now();
        let res = catch_unwind(AssertUnwindSafe(|| ops::dispatch(&req)));
        let mut ans = match res {
            Ok(v) => v,
            Err(p) => {
                let msg = if let Some(s) = p.downcast_ref::<String>() {
                    s.clone()
                } else if let Some(s) = p.downcast_ref::<&str>() {
                    s.to_string()
                } else {
                    "?".to_string()
                };
                let at = LAST_PANIC_AT.lock().ok().and_then(|mut g| g.take());
                let f = LAST_PANIC_FN.lock().ok().and_then(|mut g| g.take());
                json!({"panic": msg, "at": at, "fn": f})
            }
        };
        // opt-in wall time of this request (microseconds)
        if req.get("_time").and_then(|v| v.as_bool()).unwrap_or(false) {
            if let Some(o) = ans.as_object_mut() {
                o.insert("_us".to_string(), json!(t0.elapsed().as_micros() as u64));
                // CPU time of the whole process so far (user + system), from /proc/self/stat, in ms (100 Hz ticks)
                if let Ok(st) = std::fs::read_to_string("/proc/self/stat") {
                    if let Some(rest) = st.rsplit_once(')').map(|x| x.1) {
                        let f: Vec<&str> = rest.split_whitespace().collect();
                        if f.len() > 12 {
                            let ticks = f[11].parse::<u64>().unwrap_or(0) + f[12].parse::<u64>().unwrap_or(0);
                            o.insert("_cpu_ms".to_string(), json!(ticks * 10));
                        }
                    }
                }
            }
        }
        writeln!(out, "{}", ans).unwrap();
        out.flush().unwrap();
    }
}

pub fn target_of(req: &Value) -> Result<prqlc::Target, String> {
    match req.get("target").and_then(|t| t.as_str()) {
        None => Ok(prqlc::Target::Sql(None)),
        Some(s) => prqlc::Target::from_str(s).map_err(|e| format!("{e:?}")),
    }
}
