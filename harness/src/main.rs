//! vh: line-protocol harness. One JSON request per stdin line, one JSON answer per stdout line.
//! Calls the real prqlc / prqlc-parser crates of /repo in-process.
use std::io::{BufRead, Write};
use std::panic::{catch_unwind, AssertUnwindSafe};
use std::str::FromStr;

use serde_json::{json, Value};

mod ops;
mod ops_lex;
mod ops_json;
mod ops_hooks;
mod ops_pure;

fn main() {
    // silence the default panic message; panics are reported in the answer
    std::panic::set_hook(Box::new(|_| {}));
    let stdin = std::io::stdin();
    let stdout = std::io::stdout();
    let mut out = std::io::BufWriter::new(stdout.lock());
    for line in stdin.lock().lines() {
        let line = match line {
            Ok(l) => l,
            Err(_) => break,
        };
        if line.trim().is_empty() {
            continue;
        }
        let req: Value = match serde_json::from_str(&line) {
            Ok(v) => v,
            Err(e) => {
                writeln!(out, "{}", json!({"bad_request": e.to_string()})).unwrap();
                continue;
            }
        };
        let res = catch_unwind(AssertUnwindSafe(|| ops::dispatch(&req)));
        let ans = match res {
            Ok(v) => v,
            Err(p) => {
                let msg = if let Some(s) = p.downcast_ref::<String>() {
                    s.clone()
                } else if let Some(s) = p.downcast_ref::<&str>() {
                    s.to_string()
                } else {
                    "?".to_string()
                };
                json!({"panic": msg})
            }
        };
        writeln!(out, "{}", ans).unwrap();
        out.flush().unwrap();
    }
}

pub fn target_of(req: &Value) -> Result<prqlc::Target, String> {
    match req.get("target").and_then(|t| t.as_str()) {
        None => Ok(prqlc::Target::Sql(None)),
        Some(s) => prqlc::Target::from_str(s).map_err(|e| format!("{e:?}")),
    }
}
