use std::str::FromStr;

use prqlc::{ErrorMessages, Options, Target};
use serde_json::{json, Value};

/// extension modules: each is `fn(op, req) -> Option<Value>` (None = not mine)
const EXTENSIONS: &[fn(&str, &Value) -> Option<Value>] = &[
    crate::ops_lex::dispatch,
    crate::ops_json::dispatch,
    crate::ops_hooks::dispatch,
    crate::ops_pure::dispatch,
    crate::ops_err::dispatch,
];

pub fn s<'a>(req: &'a Value, k: &str) -> &'a str {
    req.get(k).and_then(|v| v.as_str()).unwrap_or("")
}

pub fn errs(e: &ErrorMessages) -> Value {
    let v: Vec<Value> = e
        .inner
        .iter()
        .map(|m| {
            json!({
                "kind": format!("{:?}", m.kind),
                "code": m.code,
                "reason": m.reason,
                "hints": m.hints,
                "span": m.span.map(|sp| json!({"src": sp.source_id, "start": sp.start, "end": sp.end})),
                "display": m.display,
                "location": m.location.as_ref().map(|l| json!({"start": [l.start.0, l.start.1], "end": [l.end.0, l.end.1]})),
            })
        })
        .collect();
    json!({ "errors": v })
}

pub fn options(req: &Value) -> Result<Options, Value> {
    let mut o = Options::default()
        .no_format()
        .no_signature()
        .with_display(prqlc::DisplayOptions::Plain);
    if let Some(f) = req.get("format").and_then(|v| v.as_bool()) {
        o = o.with_format(f);
    }
    if let Some(f) = req.get("signature").and_then(|v| v.as_bool()) {
        o = o.with_signature_comment(f);
    }
    if let Some(t) = req.get("target").and_then(|t| t.as_str()) {
        match Target::from_str(t) {
            Ok(t) => o = o.with_target(t),
            Err(e) => return Err(json!({"target_error": format!("{:?}", e.reason)})),
        }
    }
    Ok(o)
}

pub fn dispatch(req: &Value) -> Value {
    let op = s(req, "op");
    match op {
        "ping" => json!({"pong": true}),
        "lex" => match prqlc_parser::lexer::lex_source(s(req, "src")) {
            Ok(t) => json!({"ok": serde_json::to_value(&t.0).unwrap()}),
            Err(e) => {
                let v: Vec<Value> = e
                    .iter()
                    .map(|e| {
                        json!({"reason": e.reason.to_string(),
                               "span": e.span.map(|sp| json!({"src": sp.source_id, "start": sp.start, "end": sp.end}))})
                    })
                    .collect();
                json!({"err": v})
            }
        },
        "tokens" => match prqlc::prql_to_tokens(s(req, "src")) {
            Ok(t) => json!({"ok": serde_json::to_value(&t.0).unwrap()}),
            Err(e) => errs(&e),
        },
        "compile" => {
            let o = match options(req) {
                Ok(o) => o,
                Err(v) => return v,
            };
            match prqlc::compile(s(req, "prql"), &o) {
                Ok(sql) => json!({"sql": sql}),
                Err(e) => errs(&e),
            }
        }
        "pl" => match prqlc::prql_to_pl(s(req, "prql")) {
            Ok(pl) => json!({"pl": serde_json::to_value(&pl).unwrap()}),
            Err(e) => errs(&e),
        },
        "rq" => match prqlc::prql_to_pl(s(req, "prql")).and_then(prqlc::pl_to_rq) {
            Ok(rq) => json!({"rq": serde_json::to_value(&rq).unwrap()}),
            Err(e) => errs(&e),
        },
        "fmt" => match prqlc::prql_to_pl(s(req, "prql")).and_then(|pl| prqlc::pl_to_prql(&pl)) {
            Ok(t) => json!({"prql": t}),
            Err(e) => errs(&e),
        },
        // staged chain through JSON: source -> PL -> JSON -> PL -> RQ -> JSON -> RQ -> SQL
        "staged" => {
            let o = match options(req) {
                Ok(o) => o,
                Err(v) => return v,
            };
            let r = (|| -> Result<Value, ErrorMessages> {
                let pl = prqlc::prql_to_pl(s(req, "prql"))?;
                let plj = prqlc::json::from_pl(&pl)?;
                let pl2 = prqlc::json::to_pl(&plj)?;
                let pl_eq = pl == pl2;
                let plj2 = prqlc::json::from_pl(&pl2)?;
                let rq = prqlc::pl_to_rq(pl2)?;
                let rqj = prqlc::json::from_rq(&rq)?;
                let rq2 = prqlc::json::to_rq(&rqj)?;
                let rqj2 = prqlc::json::from_rq(&rq2)?;
                let sql = prqlc::rq_to_sql(rq2, &o)?;
                Ok(json!({"sql": sql, "pl_eq": pl_eq, "pl_json_eq": plj == plj2, "rq_json_eq": rqj == rqj2}))
            })();
            match r {
                Ok(v) => v,
                Err(e) => errs(&e),
            }
        }
        "pl_json_to_sql" => {
            let o = match options(req) {
                Ok(o) => o,
                Err(v) => return v,
            };
            let r = (|| -> Result<Value, ErrorMessages> {
                let pl = prqlc::json::to_pl(s(req, "json"))?;
                let prql = prqlc::pl_to_prql(&pl).ok();
                let rq = prqlc::pl_to_rq(pl)?;
                let sql = prqlc::rq_to_sql(rq, &o)?;
                Ok(json!({"sql": sql, "prql": prql}))
            })();
            match r {
                Ok(v) => v,
                Err(e) => errs(&e),
            }
        }
        "rq_json_to_sql" => {
            let o = match options(req) {
                Ok(o) => o,
                Err(v) => return v,
            };
            let r = (|| -> Result<Value, ErrorMessages> {
                let rq = prqlc::json::to_rq(s(req, "json"))?;
                let sql = prqlc::rq_to_sql(rq, &o)?;
                Ok(json!({"sql": sql}))
            })();
            match r {
                Ok(v) => v,
                Err(e) => errs(&e),
            }
        }
        "target_from_str" => match Target::from_str(s(req, "name")) {
            Ok(Target::Sql(d)) => json!({"ok": d.map(|d| d.to_string())}),
            Err(e) => json!({"err": format!("{:?}", e.reason)}),
        },
        "target_names" => json!({"names": Target::names()}),
        // tokenize / parse emitted SQL with the sqlparser dialect prqlc itself maps the target to
        "sqlparse" => {
            use sqlparser::dialect::*;
            let d: Box<dyn Dialect> = match s(req, "dialect") {
                "ansi" => Box::new(AnsiDialect {}),
                "bigquery" => Box::new(BigQueryDialect {}),
                "clickhouse" => Box::new(ClickHouseDialect {}),
                "duckdb" => Box::new(DuckDbDialect {}),
                "mssql" => Box::new(MsSqlDialect {}),
                "mysql" => Box::new(MySqlDialect {}),
                "postgres" | "glaredb" => Box::new(PostgreSqlDialect {}),
                "redshift" => Box::new(RedshiftSqlDialect {}),
                "sqlite" => Box::new(SQLiteDialect {}),
                "snowflake" => Box::new(SnowflakeDialect {}),
                _ => Box::new(GenericDialect {}),
            };
            let sql = s(req, "sql");
            let toks = sqlparser::tokenizer::Tokenizer::new(&*d, sql).tokenize();
            let toks = match toks {
                Ok(t) => t,
                Err(e) => return json!({"tokenize_error": e.to_string()}),
            };
            let want_ast = req.get("ast").and_then(|v| v.as_bool()).unwrap_or(false);
            let want_toks = req.get("tokens").and_then(|v| v.as_bool()).unwrap_or(false);
            let mut out = serde_json::Map::new();
            if want_toks {
                out.insert("tokens".into(), serde_json::to_value(&toks).unwrap());
            }
            match sqlparser::parser::Parser::new(&*d).with_tokens(toks).parse_statements() {
                Ok(stmts) => {
                    out.insert("statements".into(), json!(stmts.len()));
                    out.insert("printed".into(), json!(stmts.iter().map(|s| s.to_string()).collect::<Vec<_>>()));
                    if want_ast {
                        out.insert("ast".into(), serde_json::to_value(&stmts).unwrap());
                    }
                }
                Err(e) => {
                    out.insert("parse_error".into(), json!(e.to_string()));
                }
            }
            Value::Object(out)
        }
        _ => {
            for f in EXTENSIONS {
                if let Some(v) = f(op, req) {
                    return v;
                }
            }
            json!({"bad_op": op})
        }
    }
}
