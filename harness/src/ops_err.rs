//! Ops for the error-location property (C13) and the no-panic property (C12).
//!  * `err_tree`  – compile a (multi-file) SourceTree stage by stage; every error with span / location /
//!                  display, the file its source_id names, the stage that failed and which files lex.
//!  * `compose`   – `ErrorMessages::composed` on arbitrary spans of an arbitrary source (each span under
//!                  its own catch_unwind): location, display or the panic message.
//!  * `b2c`       – `source[..byte].chars().count()` (the expression of `convert_lexer_error`) for byte offsets.
use std::panic::{catch_unwind, AssertUnwindSafe};
use std::path::PathBuf;

use prqlc::{ErrorMessage, ErrorMessages, MessageKind, SourceTree, Span};
use serde_json::{json, Value};

use crate::ops::s;

fn err_json(m: &ErrorMessage, tree: &SourceTree) -> Value {
    json!({
        "kind": format!("{:?}", m.kind),
        "code": m.code,
        "reason": m.reason,
        "hints": m.hints,
        "span": m.span.map(|sp| json!({"src": sp.source_id, "start": sp.start, "end": sp.end})),
        "path": m.span.and_then(|sp| tree.get_path(sp.source_id)).map(|p| p.to_string_lossy().to_string()),
        "display": m.display,
        "location": m.location.as_ref().map(|l| json!({"start": [l.start.0, l.start.1], "end": [l.end.0, l.end.1]})),
        "to_string": m.to_string(),
    })
}

fn strip(e: ErrorMessages) -> ErrorMessages {
    ErrorMessages {
        inner: e
            .inner
            .into_iter()
            .map(|e| ErrorMessage {
                display: e.display.map(|s| strip_ansi(&s)),
                ..e
            })
            .collect(),
    }
}

/// remove ANSI escape sequences (what `compile` does for DisplayOptions::Plain)
fn strip_ansi(s: &str) -> String {
    let mut out = String::with_capacity(s.len());
    let mut it = s.chars().peekable();
    while let Some(c) = it.next() {
        if c == '\u{1b}' {
            if it.peek() == Some(&'[') {
                it.next();
                for d in it.by_ref() {
                    if ('@'..='~').contains(&d) {
                        break;
                    }
                }
            }
        } else {
            out.push(c);
        }
    }
    out
}

pub fn dispatch(op: &str, req: &Value) -> Option<Value> {
    match op {
        "err_tree" => {
            let files: Vec<(PathBuf, String)> = req
                .get("files")
                .and_then(|f| f.as_array())
                .map(|a| {
                    a.iter()
                        .filter_map(|p| {
                            let p = p.as_array()?;
                            Some((PathBuf::from(p.first()?.as_str()?), p.get(1)?.as_str()?.to_string()))
                        })
                        .collect()
                })
                .unwrap_or_default();
            let lex_ok: Vec<Value> = files
                .iter()
                .map(|(p, c)| json!([p.to_string_lossy(), prqlc_parser::lexer::lex_source(c).is_ok()]))
                .collect();
            let tree = if req.get("single").and_then(|v| v.as_bool()).unwrap_or(false) && files.len() == 1 {
                SourceTree::from(files[0].1.clone())
            } else {
                SourceTree::new(files.clone(), None)
            };
            let main_path: Vec<String> = req
                .get("main_path")
                .and_then(|f| f.as_array())
                .map(|a| a.iter().filter_map(|x| x.as_str().map(str::to_string)).collect())
                .unwrap_or_default();
            let target = match crate::target_of(req) {
                Ok(t) => t,
                Err(e) => return Some(json!({"target_error": e})),
            };
            let opts = prqlc::Options::default().no_format().no_signature().with_target(target);
            let fail = |stage: &str, e: ErrorMessages| {
                let e = strip(e);
                json!({"stage": stage, "lex_ok": lex_ok,
                       "errors": e.inner.iter().map(|m| err_json(m, &tree)).collect::<Vec<_>>()})
            };
            let pl = match prqlc::prql_to_pl_tree(&tree) {
                Ok(pl) => pl,
                Err(e) => return Some(fail("parse", e)),
            };
            let db = vec!["default_db".to_string()];
            let rq = match prqlc::pl_to_rq_tree(pl, &main_path, &db) {
                Ok(rq) => rq,
                Err(e) => return Some(fail("resolve", e.composed(&tree))),
            };
            match prqlc::rq_to_sql(rq, &opts) {
                Ok(sql) => Some(json!({"sql": sql, "lex_ok": lex_ok})),
                Err(e) => Some(fail("sql", e.composed(&tree))),
            }
        }
        "compose" => {
            let src = s(req, "src").to_string();
            let spans: Vec<(usize, usize)> = req
                .get("spans")
                .and_then(|f| f.as_array())
                .map(|a| {
                    a.iter()
                        .filter_map(|p| Some((p.get(0)?.as_u64()? as usize, p.get(1)?.as_u64()? as usize)))
                        .collect()
                })
                .unwrap_or_default();
            let tree = SourceTree::from(src.clone());
            let out: Vec<Value> = spans
                .iter()
                .map(|&(a, b)| {
                    let r = catch_unwind(AssertUnwindSafe(|| {
                        let m = ErrorMessage {
                            kind: MessageKind::Error,
                            code: None,
                            reason: "probe".to_string(),
                            hints: vec![],
                            span: Some(Span { start: a, end: b, source_id: 1 }),
                            display: None,
                            location: None,
                        };
                        strip(ErrorMessages::from(m).composed(&tree))
                    }));
                    match r {
                        Ok(e) => err_json(&e.inner[0], &tree),
                        Err(p) => {
                            let msg = if let Some(s) = p.downcast_ref::<String>() {
                                s.clone()
                            } else if let Some(s) = p.downcast_ref::<&str>() {
                                s.to_string()
                            } else {
                                "?".to_string()
                            };
                            json!({"panic": msg})
                        }
                    }
                })
                .collect();
            Some(json!({"composed": out, "chars": src.chars().count(), "bytes": src.len()}))
        }
        "b2c" => {
            let src = s(req, "src");
            let out: Vec<Value> = req
                .get("bytes")
                .and_then(|f| f.as_array())
                .map(|a| {
                    a.iter()
                        .map(|b| {
                            let b = b.as_u64().unwrap_or(u64::MAX) as usize;
                            if b <= src.len() && src.is_char_boundary(b) {
                                json!(src[..b].chars().count())
                            } else {
                                Value::Null
                            }
                        })
                        .collect()
                })
                .unwrap_or_default();
            Some(json!({"chars": out}))
        }
        _ => None,
    }
}
