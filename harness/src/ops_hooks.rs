//! ops that need the `verif` cargo feature of /repo (hooks on private kernels)
use serde_json::{json, Value};

#[cfg(not(feature = "hooks"))]
pub fn dispatch(op: &str, _req: &Value) -> Option<Value> {
    match op {
        "hooks_available" => Some(json!({"hooks": false})),
        "hook_range_of_ranges" | "hook_ident" | "hook_is_keyword" | "hook_dedup" | "hook_wildcards" | "hook_split_trace" | "hook_sqlite_date" => Some(json!({"no_hooks": true})),
        _ => None,
    }
}

#[cfg(feature = "hooks")]
pub fn dispatch(op: &str, req: &Value) -> Option<Value> {
    use prqlc::sql::verif_hooks as h;
    use std::str::FromStr;
    let dialect = |req: &Value| {
        prqlc::sql::Dialect::from_str(req.get("dialect").and_then(|d| d.as_str()).unwrap_or("generic")).unwrap_or_default()
    };
    match op {
        "hooks_available" => Some(json!({"hooks": true})),
        "hook_range_of_ranges" => {
            let rs: Vec<(Option<i64>, Option<i64>)> = req["ranges"]
                .as_array()
                .map(|a| a.iter().map(|r| (r[0].as_i64(), r[1].as_i64())).collect())
                .unwrap_or_default();
            Some(match h::range_of_ranges(rs) {
                Ok((s, e)) => json!({"start": s, "end": e}),
                Err(e) => json!({"err": e}),
            })
        }
        "hook_ident" => {
            let (v, q) = h::translate_ident_part(crate::ops::s(req, "ident").to_string(), dialect(req));
            Some(json!({"value": v, "quote": q.map(|c| c.to_string())}))
        }
        "hook_is_keyword" => Some(json!({"keyword": h::is_keyword(crate::ops::s(req, "ident"), dialect(req))})),
        "hook_sqlite_date" => Some(json!({"sql": h::sqlite_date_literal(crate::ops::s(req, "value"))})),
        "hook_dedup" => {
            let items: Vec<(String, Vec<String>)> = req["items"]
                .as_array()
                .map(|a| {
                    a.iter()
                        .map(|it| {
                            (
                                it[0].as_str().unwrap_or("other").to_string(),
                                it[1].as_array().map(|x| x.iter().map(|s| s.as_str().unwrap_or("").to_string()).collect()).unwrap_or_default(),
                            )
                        })
                        .collect()
                })
                .unwrap_or_default();
            Some(json!({"kept": h::deduplicate_select_items(items)}))
        }
        "hook_wildcards" => {
            let us = |v: &Value| -> Vec<usize> { v.as_array().map(|a| a.iter().filter_map(|x| x.as_u64().map(|n| n as usize)).collect()).unwrap_or_default() };
            let cols = us(&req["cols"]);
            let decls: Vec<(usize, usize, bool)> = req["decls"]
                .as_array()
                .map(|a| a.iter().map(|d| (d[0].as_u64().unwrap_or(0) as usize, d[1].as_u64().unwrap_or(0) as usize, d[2].as_bool().unwrap_or(false))).collect())
                .unwrap_or_default();
            let insts: Vec<(usize, Vec<usize>)> = req["instances"]
                .as_array()
                .map(|a| a.iter().map(|d| (d[0].as_u64().unwrap_or(0) as usize, us(&d[1]))).collect())
                .unwrap_or_default();
            let (out, ex) = h::translate_wildcards(cols, decls, insts);
            Some(json!({"output": out, "excluded": ex}))
        }
        // compile with the split trace of pq::anchor::extract_atomic switched on
        "hook_split_trace" => {
            let o = match crate::ops::options(req) {
                Ok(o) => o,
                Err(v) => return Some(v),
            };
            h::split_trace_start();
            let r = prqlc::compile(crate::ops::s(req, "prql"), &o);
            let events = h::split_trace_take();
            Some(match r {
                Ok(sql) => json!({"sql": sql, "events": events}),
                Err(e) => {
                    let mut v = crate::ops::errs(&e);
                    v["events"] = Value::Array(events);
                    v
                }
            })
        }
        _ => None,
    }
}
