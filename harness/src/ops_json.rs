//! C15: finer observations of the JSON stages (prqlc::json::*) than the `staged` op gives.
//!
//! * `pl_json` / `rq_json`  – the exact serde_json text of the PL / RQ of a source
//! * `staged_full`          – every stage of source -> PL -> JSON -> PL -> RQ -> JSON -> RQ -> SQL with
//!                            the round-trip equalities, against one-shot `compile` and against the staged
//!                            chain *without* JSON, for a list of (target, format, signature) option sets
//! * `pl_json_rt` / `rq_json_rt` – JSON -> value -> JSON for a caller-supplied document
use std::str::FromStr;

use prqlc::{ErrorMessage, ErrorMessages, Options, SourceTree, Target};
use serde_json::{json, Value};

use crate::ops::{errs, s};

/// how often a differing case is repeated to see whether the compiler itself is unstable on it
const REPEATS: usize = 16;

fn parsed(text: &str) -> Value {
    serde_json::from_str::<Value>(text).unwrap_or(Value::Null)
}

/// errors without the parts that need the source text (display, location): the staged API has no source
fn err_core(e: &ErrorMessages) -> Value {
    let v: Vec<Value> = e
        .inner
        .iter()
        .map(|m| {
            json!({
                "kind": format!("{:?}", m.kind),
                "code": m.code,
                "reason": m.reason,
                "hints": m.hints,
                "span": m.span.map(|sp| json!({"src": sp.source_id, "start": sp.start, "end": sp.end})),
            })
        })
        .collect();
    Value::Array(v)
}

/// the parts of an error that need the source text.  The staged API has no source; a binding that holds the text composes
/// the staged error against it (`ErrorMessages::composed`) - the result must be what one-shot `compile` shows.
fn err_disp(e: &ErrorMessages) -> Value {
    let v: Vec<Value> = e
        .inner
        .iter()
        .map(|m| {
            json!({
                "display": m.display,
                "location": m.location.as_ref().map(|l| json!({"start": [l.start.0, l.start.1], "end": [l.end.0, l.end.1]})),
            })
        })
        .collect();
    Value::Array(v)
}

/// what `compile` does to the display for DisplayOptions::Plain
fn strip_ansi(s: &str) -> String {
    let mut out = String::with_capacity(s.len());
    let mut it = s.chars().peekable();
    while let Some(c) = it.next() {
        if c == '\u{1b}' {
            if it.peek() == Some(&'[') {
                it.next();
                for d in it.by_ref() {
                    if ('@'..='~').contains(&d) {
                        break;
                    }
                }
            }
        } else {
            out.push(c);
        }
    }
    out
}

/// a staged error composed against the ORIGINAL source text: {"core": .., "disp": ..} or {"panic": ..}
fn composed_against(prql: &str, e: ErrorMessages) -> Value {
    let r = std::panic::catch_unwind(std::panic::AssertUnwindSafe(|| {
        let e = e.composed(&SourceTree::from(prql));
        ErrorMessages {
            inner: e
                .inner
                .into_iter()
                .map(|m| ErrorMessage { display: m.display.map(|s| strip_ansi(&s)), ..m })
                .collect(),
        }
    }));
    match r {
        Ok(e) => json!({"core": err_core(&e), "disp": err_disp(&e)}),
        Err(_) => json!({ "panic": true }),
    }
}

fn opts(o: &Value) -> Result<Options, String> {
    let mut r = Options::default()
        .with_display(prqlc::DisplayOptions::Plain)
        .with_format(o.get("format").and_then(|v| v.as_bool()).unwrap_or(false))
        .with_signature_comment(o.get("signature").and_then(|v| v.as_bool()).unwrap_or(false));
    if let Some(t) = o.get("target").and_then(|t| t.as_str()) {
        r = r.with_target(Target::from_str(t).map_err(|e| format!("{:?}", e.reason))?);
    }
    Ok(r)
}

/// run one API call; a panic inside it is an observation of that call, not of the whole request
fn guarded<T>(f: impl FnOnce() -> Result<T, ErrorMessages>) -> Result<Result<T, ErrorMessages>, String> {
    std::panic::catch_unwind(std::panic::AssertUnwindSafe(f)).map_err(|p| {
        if let Some(s) = p.downcast_ref::<String>() {
            s.clone()
        } else if let Some(s) = p.downcast_ref::<&str>() {
            s.to_string()
        } else {
            "?".to_string()
        }
    })
}

fn res_g(r: Result<Result<String, ErrorMessages>, String>) -> Value {
    match r {
        Ok(r) => res(r),
        Err(p) => json!({ "panic": p }),
    }
}

fn res(r: Result<String, ErrorMessages>) -> Value {
    match r {
        Ok(sql) => json!({ "sql": sql }),
        Err(e) => json!({ "errors": err_core(&e) }),
    }
}

fn staged_full(req: &Value) -> Value {
    let prql = s(req, "prql");
    let mut out = serde_json::Map::new();
    let option_sets: Vec<Value> = req
        .get("options")
        .and_then(|v| v.as_array())
        .cloned()
        .unwrap_or_else(|| vec![json!({})]);

    let want_display = req.get("want_display").and_then(|v| v.as_bool()).unwrap_or(false);
    // stage 1: source -> PL
    let pl = match guarded(|| prqlc::prql_to_pl(prql)) {
        Ok(Ok(pl)) => pl,
        r => {
            out.insert("stage".into(), json!("prql_to_pl"));
            match r {
                Ok(Err(e)) => {
                    if want_display {
                        out.insert("composed".into(), composed_against(prql, e.clone()));
                    }
                    out.insert("errors".into(), err_core(&e))
                }
                Err(p) => out.insert("panic_in_prql_to_pl".into(), json!(p)),
                _ => None,
            };
            // one-shot must fail the same way under every option set
            let mut one_disp: Vec<Value> = vec![];
            let one: Vec<Value> = option_sets
                .iter()
                .map(|o| match opts(o) {
                    Ok(o) => {
                        let r = guarded(|| prqlc::compile(prql, &o));
                        if let (true, Ok(Err(e))) = (want_display, &r) {
                            one_disp.push(err_disp(e));
                        } else {
                            one_disp.push(Value::Null);
                        }
                        res_g(r)
                    }
                    Err(e) => json!({ "option_error": e }),
                })
                .collect();
            out.insert("oneshot".into(), Value::Array(one));
            if want_display {
                out.insert("oneshot_disp".into(), Value::Array(one_disp));
            }
            return Value::Object(out);
        }
    };
    // stage 2: PL -> JSON -> PL
    let plj = match prqlc::json::from_pl(&pl) {
        Ok(j) => j,
        Err(e) => {
            out.insert("stage".into(), json!("from_pl"));
            out.insert("errors".into(), err_core(&e));
            return Value::Object(out);
        }
    };
    if req.get("want_json").and_then(|v| v.as_bool()).unwrap_or(false) {
        out.insert("pl_json".into(), json!(plj));
    }
    let pl2 = match prqlc::json::to_pl(&plj) {
        Ok(p) => Some(p),
        Err(e) => {
            out.insert("to_pl_error".into(), err_core(&e));
            None
        }
    };
    if let Some(pl2) = &pl2 {
        out.insert("pl_eq".into(), json!(&pl == pl2));
        let plj2 = prqlc::json::from_pl(pl2).unwrap_or_default();
        out.insert("pl_json_eq".into(), json!(parsed(&plj) == parsed(&plj2)));
        out.insert("pl_text_eq".into(), json!(plj == plj2));
        if plj != plj2 {
            out.insert("pl_json2".into(), json!(plj2));
        }
    }
    // stage 3: PL -> RQ, from the original and from the re-read PL (a panic is an outcome like an error)
    let to_rq_stage = |pl: prqlc::pr::ModuleDef| -> Result<prqlc::ir::rq::RelationalQuery, Value> {
        match guarded(|| prqlc::pl_to_rq(pl)) {
            Ok(Ok(rq)) => Ok(rq),
            Ok(Err(e)) => Err(json!({ "errors": err_core(&e) })),
            Err(p) => Err(json!({ "panic": p })),
        }
    };
    let rq_direct = to_rq_stage(pl.clone());
    let rq_staged = pl2.clone().map(to_rq_stage);
    let mut rq2 = None;
    match (&rq_direct, &rq_staged) {
        (Ok(a), Some(Ok(b))) => {
            out.insert("rq_of_reread_pl_eq".into(), json!(a == b));
            let rqj = prqlc::json::from_rq(b).unwrap_or_default();
            if a != b {
                out.insert("rq_json_direct".into(), json!(prqlc::json::from_rq(a).unwrap_or_default()));
                // is the resolver itself unstable on this PL?  (repeat it on the ORIGINAL PL and look for b)
                let mut distinct: Vec<prqlc::ir::rq::RelationalQuery> = vec![a.clone()];
                let mut hit = false;
                for _ in 0..REPEATS {
                    if let Ok(r) = to_rq_stage(pl.clone()) {
                        if &r == b {
                            hit = true;
                        }
                        if !distinct.contains(&r) {
                            distinct.push(r);
                        }
                    }
                }
                out.insert("rq_repeat".into(), json!({"distinct_from_original_pl": distinct.len(), "reread_result_reached": hit}));
            }
            if req.get("want_json").and_then(|v| v.as_bool()).unwrap_or(false) {
                out.insert("rq_json".into(), json!(rqj));
            }
            match prqlc::json::to_rq(&rqj) {
                Ok(r2) => {
                    out.insert("rq_eq".into(), json!(b == &r2));
                    let rqj2 = prqlc::json::from_rq(&r2).unwrap_or_default();
                    out.insert("rq_json_eq".into(), json!(parsed(&rqj) == parsed(&rqj2)));
                    out.insert("rq_text_eq".into(), json!(rqj == rqj2));
                    if rqj != rqj2 {
                        out.insert("rq_json2".into(), json!(rqj2));
                    }
                    rq2 = Some(r2);
                }
                Err(e) => {
                    out.insert("to_rq_error".into(), err_core(&e));
                }
            }
        }
        (Err(a), Some(Err(b))) => {
            out.insert("rq_errors".into(), a.clone());
            out.insert("rq_errors_staged".into(), b.clone());
        }
        (a, Some(b)) => {
            out.insert(
                "rq_outcome_differs".into(),
                json!({"direct": a.as_ref().map(|_| "ok"), "staged": b.as_ref().map(|_| "ok")}),
            );
        }
        (_, None) => {}
    }
    // stage 4: per option set: one-shot, staged without JSON, staged through JSON
    let mut per = vec![];
    for o in &option_sets {
        let o = match opts(o) {
            Ok(o) => o,
            Err(e) => {
                per.push(json!({ "option_error": e }));
                continue;
            }
        };
        let one_r = guarded(|| prqlc::compile(prql, &o));
        // a rejected program: the staged error, composed against the same text, must show what one-shot shows
        let disp = match (want_display, &one_r) {
            (true, Ok(Err(e))) => {
                let st = guarded(|| {
                    let pl = prqlc::prql_to_pl(prql)?;
                    let pl = prqlc::json::to_pl(&prqlc::json::from_pl(&pl)?)?;
                    let rq = prqlc::pl_to_rq(pl)?;
                    let rq = prqlc::json::to_rq(&prqlc::json::from_rq(&rq)?)?;
                    prqlc::rq_to_sql(rq, &o)
                });
                let st = match st {
                    Ok(Ok(_)) => json!({ "sql": true }),
                    Ok(Err(e)) => composed_against(prql, e),
                    Err(p) => json!({ "panic": p }),
                };
                Some(json!({"oneshot": {"core": err_core(e), "disp": err_disp(e)}, "staged": st}))
            }
            _ => None,
        };
        let one = res_g(one_r);
        let direct = match &rq_direct {
            Ok(rq) => res_g(guarded(|| prqlc::rq_to_sql(rq.clone(), &o))),
            Err(e) => e.clone(),
        };
        let staged = if pl2.is_none() {
            json!({ "errors": out.get("to_pl_error").cloned().unwrap_or(Value::Null), "stage": "to_pl" })
        } else if let Some(Err(e)) = &rq_staged {
            let mut e = e.clone();
            e["stage"] = json!("pl_to_rq");
            e
        } else if let Some(r2) = &rq2 {
            res_g(guarded(|| prqlc::rq_to_sql(r2.clone(), &o)))
        } else {
            json!({ "errors": out.get("to_rq_error").cloned().unwrap_or(Value::Null), "stage": "to_rq" })
        };
        let mut entry = json!({"oneshot": one, "direct": direct, "staged": staged});
        if let Some(d) = disp {
            entry["display"] = d;
        }
        let mut st_cmp = entry["staged"].clone();
        if let Some(m) = st_cmp.as_object_mut() {
            m.remove("stage");
        }
        // (a one-shot panic is never equal to a staged answer: nothing to learn from repeating it)
        if entry["oneshot"].get("panic").is_none() && (entry["oneshot"] != entry["direct"] || entry["oneshot"] != st_cmp) {
            // is one-shot compile itself unstable on this input?  repeat both routes and compare the SETS of answers
            let mut os: Vec<Value> = vec![entry["oneshot"].clone()];
            let mut ss: Vec<Value> = vec![st_cmp.clone(), entry["direct"].clone()];
            for _ in 0..REPEATS {
                let v = res_g(guarded(|| prqlc::compile(prql, &o)));
                if !os.contains(&v) {
                    os.push(v);
                }
                let v = res_g(guarded(|| {
                    let pl = prqlc::prql_to_pl(prql)?;
                    let pl = prqlc::json::to_pl(&prqlc::json::from_pl(&pl)?)?;
                    let rq = prqlc::pl_to_rq(pl)?;
                    let rq = prqlc::json::to_rq(&prqlc::json::from_rq(&rq)?)?;
                    prqlc::rq_to_sql(rq, &o)
                }));
                if !ss.contains(&v) {
                    ss.push(v);
                }
            }
            let common = os.iter().any(|v| ss.contains(v));
            entry["repeat"] = json!({"oneshot_variants": os.len(), "staged_variants": ss.len(), "common": common});
        }
        per.push(entry);
    }
    out.insert("per_option".into(), Value::Array(per));
    Value::Object(out)
}

pub fn dispatch(op: &str, req: &Value) -> Option<Value> {
    Some(match op {
        "pl_json" => match prqlc::prql_to_pl(s(req, "prql")).and_then(|pl| prqlc::json::from_pl(&pl)) {
            Ok(j) => json!({ "json": j }),
            Err(e) => errs(&e),
        },
        "rq_json" => match prqlc::prql_to_pl(s(req, "prql"))
            .and_then(prqlc::pl_to_rq)
            .and_then(|rq| prqlc::json::from_rq(&rq))
        {
            Ok(j) => json!({ "json": j }),
            Err(e) => errs(&e),
        },
        "staged_full" => staged_full(req),
        // does serde_json read back the f64 it wrote?  {"texts": [..]} -> per text: [rust-exact bits, serde text, bits after serde_json read]
        "f64_rt" => {
            let v: Vec<Value> = req
                .get("texts")
                .and_then(|v| v.as_array())
                .cloned()
                .unwrap_or_default()
                .iter()
                .map(|t| {
                    let t = t.as_str().unwrap_or("");
                    match t.parse::<f64>() {
                        Ok(x) => {
                            let w = serde_json::to_string(&x).unwrap_or_default();
                            let back = serde_json::from_str::<f64>(&w).ok();
                            json!({"text": t, "written": w, "finite": x.is_finite(),
                                   "exact": back.map(|b| b.to_bits() == x.to_bits()).unwrap_or(false),
                                   "reread": back.map(|b| serde_json::to_string(&b).unwrap_or_default())})
                        }
                        Err(_) => json!({"text": t, "unparsable": true}),
                    }
                })
                .collect();
            json!({ "results": v })
        }
        // JSON -> PL -> JSON (and optionally on to SQL), for documents the caller edited
        "pl_json_rt" => match prqlc::json::to_pl(s(req, "json")) {
            Ok(pl) => {
                let j2 = prqlc::json::from_pl(&pl).unwrap_or_default();
                let pl3 = prqlc::json::to_pl(&j2);
                let mut m = json!({"json": j2, "reread_eq": pl3.map(|p| p == pl).unwrap_or(false)});
                if req.get("to_sql").and_then(|v| v.as_bool()).unwrap_or(false) {
                    let o = opts(req).unwrap_or_default();
                    m["sql"] = res(prqlc::pl_to_rq(pl).and_then(|rq| prqlc::rq_to_sql(rq, &o)));
                }
                m
            }
            Err(e) => json!({ "errors": err_core(&e) }),
        },
        "rq_json_rt" => match prqlc::json::to_rq(s(req, "json")) {
            Ok(rq) => {
                let j2 = prqlc::json::from_rq(&rq).unwrap_or_default();
                let rq3 = prqlc::json::to_rq(&j2);
                json!({"json": j2, "reread_eq": rq3.map(|p| p == rq).unwrap_or(false)})
            }
            Err(e) => json!({ "errors": err_core(&e) }),
        },
        _ => return None,
    })
}
