//! C15: finer observations of the JSON stages (prqlc::json::*) than the `staged` op gives.
//!
//! * `pl_json` / `rq_json`  – the exact serde_json text of the PL / RQ of a source
//! * `staged_full`          – every stage of source -> PL -> JSON -> PL -> RQ -> JSON -> RQ -> SQL with
//!                            the round-trip equalities, against one-shot `compile` and against the staged
//!                            chain *without* JSON, for a list of (target, format, signature) option sets
//! * `pl_json_rt` / `rq_json_rt` – JSON -> value -> JSON for a caller-supplied document
use std::str::FromStr;

use prqlc::{ErrorMessages, Options, Target};
use serde_json::{json, Value};

use crate::ops::{errs, s};

fn parsed(text: &str) -> Value {
    serde_json::from_str::<Value>(text).unwrap_or(Value::Null)
}

/// errors without the parts that need the source text (display, location): the staged API has no source
fn err_core(e: &ErrorMessages) -> Value {
    let v: Vec<Value> = e
        .inner
        .iter()
        .map(|m| {
            json!({
                "kind": format!("{:?}", m.kind),
                "code": m.code,
                "reason": m.reason,
                "hints": m.hints,
                "span": m.span.map(|sp| json!({"src": sp.source_id, "start": sp.start, "end": sp.end})),
            })
        })
        .collect();
    Value::Array(v)
}

fn opts(o: &Value) -> Result<Options, String> {
    let mut r = Options::default()
        .with_display(prqlc::DisplayOptions::Plain)
        .with_format(o.get("format").and_then(|v| v.as_bool()).unwrap_or(false))
        .with_signature_comment(o.get("signature").and_then(|v| v.as_bool()).unwrap_or(false));
    if let Some(t) = o.get("target").and_then(|t| t.as_str()) {
        r = r.with_target(Target::from_str(t).map_err(|e| format!("{:?}", e.reason))?);
    }
    Ok(r)
}

/// run one API call; a panic inside it is an observation of that call, not of the whole request
fn guarded<T>(f: impl FnOnce() -> Result<T, ErrorMessages>) -> Result<Result<T, ErrorMessages>, String> {
    std::panic::catch_unwind(std::panic::AssertUnwindSafe(f)).map_err(|p| {
        if let Some(s) = p.downcast_ref::<String>() {
            s.clone()
        } else if let Some(s) = p.downcast_ref::<&str>() {
            s.to_string()
        } else {
            "?".to_string()
        }
    })
}

fn res_g(r: Result<Result<String, ErrorMessages>, String>) -> Value {
    match r {
        Ok(r) => res(r),
        Err(p) => json!({ "panic": p }),
    }
}

fn res(r: Result<String, ErrorMessages>) -> Value {
    match r {
        Ok(sql) => json!({ "sql": sql }),
        Err(e) => json!({ "errors": err_core(&e) }),
    }
}

fn staged_full(req: &Value) -> Value {
    let prql = s(req, "prql");
    let mut out = serde_json::Map::new();
    let option_sets: Vec<Value> = req
        .get("options")
        .and_then(|v| v.as_array())
        .cloned()
        .unwrap_or_else(|| vec![json!({})]);

    // stage 1: source -> PL
    let pl = match guarded(|| prqlc::prql_to_pl(prql)) {
        Ok(Ok(pl)) => pl,
        r => {
            out.insert("stage".into(), json!("prql_to_pl"));
            match r {
                Ok(Err(e)) => out.insert("errors".into(), err_core(&e)),
                Err(p) => out.insert("panic_in_prql_to_pl".into(), json!(p)),
                _ => None,
            };
            // one-shot must fail the same way under every option set
            let one: Vec<Value> = option_sets
                .iter()
                .map(|o| match opts(o) {
                    Ok(o) => res_g(guarded(|| prqlc::compile(prql, &o))),
                    Err(e) => json!({ "option_error": e }),
                })
                .collect();
            out.insert("oneshot".into(), Value::Array(one));
            return Value::Object(out);
        }
    };
    // stage 2: PL -> JSON -> PL
    let plj = match prqlc::json::from_pl(&pl) {
        Ok(j) => j,
        Err(e) => {
            out.insert("stage".into(), json!("from_pl"));
            out.insert("errors".into(), err_core(&e));
            return Value::Object(out);
        }
    };
    if req.get("want_json").and_then(|v| v.as_bool()).unwrap_or(false) {
        out.insert("pl_json".into(), json!(plj));
    }
    let pl2 = match prqlc::json::to_pl(&plj) {
        Ok(p) => Some(p),
        Err(e) => {
            out.insert("to_pl_error".into(), err_core(&e));
            None
        }
    };
    if let Some(pl2) = &pl2 {
        out.insert("pl_eq".into(), json!(&pl == pl2));
        let plj2 = prqlc::json::from_pl(pl2).unwrap_or_default();
        out.insert("pl_json_eq".into(), json!(parsed(&plj) == parsed(&plj2)));
        out.insert("pl_text_eq".into(), json!(plj == plj2));
        if plj != plj2 {
            out.insert("pl_json2".into(), json!(plj2));
        }
    }
    // stage 3: PL -> RQ, from the original and from the re-read PL
    let rq_direct = prqlc::pl_to_rq(pl.clone());
    let rq_staged = pl2.clone().map(prqlc::pl_to_rq);
    let mut rq2 = None;
    match (&rq_direct, &rq_staged) {
        (Ok(a), Some(Ok(b))) => {
            out.insert("rq_of_reread_pl_eq".into(), json!(a == b));
            let rqj = prqlc::json::from_rq(b).unwrap_or_default();
            if a != b {
                out.insert("rq_json_direct".into(), json!(prqlc::json::from_rq(a).unwrap_or_default()));
            }
            if req.get("want_json").and_then(|v| v.as_bool()).unwrap_or(false) {
                out.insert("rq_json".into(), json!(rqj));
            }
            match prqlc::json::to_rq(&rqj) {
                Ok(r2) => {
                    out.insert("rq_eq".into(), json!(b == &r2));
                    let rqj2 = prqlc::json::from_rq(&r2).unwrap_or_default();
                    out.insert("rq_json_eq".into(), json!(parsed(&rqj) == parsed(&rqj2)));
                    out.insert("rq_text_eq".into(), json!(rqj == rqj2));
                    if rqj != rqj2 {
                        out.insert("rq_json2".into(), json!(rqj2));
                    }
                    rq2 = Some(r2);
                }
                Err(e) => {
                    out.insert("to_rq_error".into(), err_core(&e));
                }
            }
        }
        (Err(a), Some(Err(b))) => {
            out.insert("rq_errors_eq".into(), json!(err_core(a) == err_core(b)));
            out.insert("rq_errors".into(), err_core(a));
            out.insert("rq_errors_staged".into(), err_core(b));
        }
        (a, Some(b)) => {
            out.insert(
                "rq_outcome_differs".into(),
                json!({"direct": a.as_ref().map(|_| "ok").map_err(err_core), "staged": b.as_ref().map(|_| "ok").map_err(err_core)}),
            );
        }
        (_, None) => {}
    }
    // stage 4: per option set: one-shot, staged without JSON, staged through JSON
    let mut per = vec![];
    for o in &option_sets {
        let o = match opts(o) {
            Ok(o) => o,
            Err(e) => {
                per.push(json!({ "option_error": e }));
                continue;
            }
        };
        let one = res_g(guarded(|| prqlc::compile(prql, &o)));
        let direct = match &rq_direct {
            Ok(rq) => res(prqlc::rq_to_sql(rq.clone(), &o)),
            Err(e) => json!({ "errors": err_core(e) }),
        };
        let staged = if pl2.is_none() {
            json!({ "errors": out.get("to_pl_error").cloned().unwrap_or(Value::Null), "stage": "to_pl" })
        } else if let Some(Err(e)) = &rq_staged {
            json!({ "errors": err_core(e), "stage": "pl_to_rq" })
        } else if let Some(r2) = &rq2 {
            res(prqlc::rq_to_sql(r2.clone(), &o))
        } else {
            json!({ "errors": out.get("to_rq_error").cloned().unwrap_or(Value::Null), "stage": "to_rq" })
        };
        per.push(json!({"oneshot": one, "direct": direct, "staged": staged}));
    }
    out.insert("per_option".into(), Value::Array(per));
    Value::Object(out)
}

pub fn dispatch(op: &str, req: &Value) -> Option<Value> {
    Some(match op {
        "pl_json" => match prqlc::prql_to_pl(s(req, "prql")).and_then(|pl| prqlc::json::from_pl(&pl)) {
            Ok(j) => json!({ "json": j }),
            Err(e) => errs(&e),
        },
        "rq_json" => match prqlc::prql_to_pl(s(req, "prql"))
            .and_then(prqlc::pl_to_rq)
            .and_then(|rq| prqlc::json::from_rq(&rq))
        {
            Ok(j) => json!({ "json": j }),
            Err(e) => errs(&e),
        },
        "staged_full" => staged_full(req),
        // does serde_json read back the f64 it wrote?  {"texts": [..]} -> per text: [rust-exact bits, serde text, bits after serde_json read]
        "f64_rt" => {
            let v: Vec<Value> = req
                .get("texts")
                .and_then(|v| v.as_array())
                .cloned()
                .unwrap_or_default()
                .iter()
                .map(|t| {
                    let t = t.as_str().unwrap_or("");
                    match t.parse::<f64>() {
                        Ok(x) => {
                            let w = serde_json::to_string(&x).unwrap_or_default();
                            let back = serde_json::from_str::<f64>(&w).ok();
                            json!({"text": t, "written": w, "finite": x.is_finite(),
                                   "exact": back.map(|b| b.to_bits() == x.to_bits()).unwrap_or(false),
                                   "reread": back.map(|b| serde_json::to_string(&b).unwrap_or_default())})
                        }
                        Err(_) => json!({"text": t, "unparsable": true}),
                    }
                })
                .collect();
            json!({ "results": v })
        }
        // JSON -> PL -> JSON (and optionally on to SQL), for documents the caller edited
        "pl_json_rt" => match prqlc::json::to_pl(s(req, "json")) {
            Ok(pl) => {
                let j2 = prqlc::json::from_pl(&pl).unwrap_or_default();
                let pl3 = prqlc::json::to_pl(&j2);
                let mut m = json!({"json": j2, "reread_eq": pl3.map(|p| p == pl).unwrap_or(false)});
                if req.get("to_sql").and_then(|v| v.as_bool()).unwrap_or(false) {
                    let o = opts(req).unwrap_or_default();
                    m["sql"] = res(prqlc::pl_to_rq(pl).and_then(|rq| prqlc::rq_to_sql(rq, &o)));
                }
                m
            }
            Err(e) => json!({ "errors": err_core(&e) }),
        },
        "rq_json_rt" => match prqlc::json::to_rq(s(req, "json")) {
            Ok(rq) => {
                let j2 = prqlc::json::from_rq(&rq).unwrap_or_default();
                let rq3 = prqlc::json::to_rq(&j2);
                json!({"json": j2, "reread_eq": rq3.map(|p| p == rq).unwrap_or(false)})
            }
            Err(e) => json!({ "errors": err_core(&e) }),
        },
        _ => return None,
    })
}
