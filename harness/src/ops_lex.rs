//! Lexer-area ops.
//!  * `unicode_ranges`: the exact code-point ranges of the `char` predicates the lexer uses, taken from this
//!    toolchain's `std` by evaluating them on every scalar value.
//!  * `lexc`: batch lexing with a compact canonical answer per source (see `canon`).
use std::panic::{catch_unwind, AssertUnwindSafe};

use prqlc_parser::lexer::lr::{Literal, Token, TokenKind};
use serde_json::{json, Value};

fn ranges(pred: impl Fn(char) -> bool) -> Vec<[u32; 2]> {
    let mut out: Vec<[u32; 2]> = vec![];
    let mut cur: Option<(u32, u32)> = None;
    for cp in 0u32..=0x10FFFF {
        let yes = char::from_u32(cp).map(&pred).unwrap_or(false);
        match (yes, cur) {
            (true, None) => cur = Some((cp, cp)),
            (true, Some((a, _))) => cur = Some((a, cp)),
            (false, Some((a, b))) => {
                out.push([a, b]);
                cur = None;
            }
            (false, None) => {}
        }
    }
    if let Some((a, b)) = cur {
        out.push([a, b]);
    }
    out
}

fn cps(s: &str) -> String {
    let v: Vec<String> = s.chars().map(|c| (c as u32).to_string()).collect();
    v.join(",")
}

fn lit(l: &Literal) -> String {
    match l {
        Literal::Null => "Null".to_string(),
        Literal::Integer(i) => format!("Integer:{i}"),
        Literal::Float(f) => format!("Float:{f:?}"),
        Literal::Boolean(b) => format!("Boolean:{b}"),
        Literal::String(s) => format!("String:{}", cps(s)),
        Literal::RawString(s) => format!("RawString:{}", cps(s)),
        Literal::Date(s) => format!("Date:{}", cps(s)),
        Literal::Time(s) => format!("Time:{}", cps(s)),
        Literal::Timestamp(s) => format!("Timestamp:{}", cps(s)),
        Literal::ValueAndUnit(v) => format!("ValueAndUnit:{}:{}", v.n, cps(&v.unit)),
    }
}

fn kind(k: &TokenKind) -> String {
    match k {
        TokenKind::NewLine => "NewLine".into(),
        TokenKind::Ident(s) => format!("Ident:{}", cps(s)),
        TokenKind::Keyword(s) => format!("Keyword:{}", cps(s)),
        TokenKind::Literal(l) => format!("Literal:{}", lit(l)),
        TokenKind::Param(s) => format!("Param:{}", cps(s)),
        TokenKind::Range { bind_left, bind_right } => format!("Range:{}:{}", *bind_left as u8, *bind_right as u8),
        TokenKind::Interpolation(c, s) => format!("Interpolation:{}:{}", *c as u32, cps(s)),
        TokenKind::Control(c) => format!("Control:{}", *c as u32),
        TokenKind::LineWrap(cs) => {
            let v: Vec<String> = cs
                .iter()
                .map(|c| match c {
                    TokenKind::Comment(s) => format!("C{}", cps(s)),
                    TokenKind::DocComment(s) => format!("D{}", cps(s)),
                    other => format!("?{other:?}"),
                })
                .collect();
            format!("LineWrap:{}", v.join("/"))
        }
        TokenKind::Comment(s) => format!("Comment:{}", cps(s)),
        TokenKind::DocComment(s) => format!("DocComment:{}", cps(s)),
        // unit variants: ArrowThin, ArrowFat, Eq, Ne, Gte, Lte, RegexSearch, And, Or, Coalesce, DivInt, Pow, Annotate, Start
        other => format!("{other:?}"),
    }
}

fn toks(t: &[Token]) -> String {
    let v: Vec<String> = t
        .iter()
        .map(|t| format!("{}-{}:{}", t.span.start, t.span.end, kind(&t.kind)))
        .collect();
    v.join(" ")
}

/// canonical one-line answer:  `ok <start>-<end>:<Kind>[:args] ...`  |  `reject`  |  `inconsistent ...` | `panic ...`
/// `reject` is only printed when `lex_source` returned `Err` with at least one error and `lex_source_recovery`
/// returned no tokens and at least one error; `ok` only when both entry points return the same tokens and the
/// recovery entry point returns no errors.
pub fn canon(src: &str) -> String {
    let r = catch_unwind(AssertUnwindSafe(|| {
        let a = prqlc_parser::lexer::lex_source(src);
        let (bt, be) = prqlc_parser::lexer::lex_source_recovery(src, 0);
        match a {
            Ok(t) => {
                if bt.as_deref() == Some(&t.0[..]) && be.is_empty() {
                    format!("ok {}", toks(&t.0))
                } else {
                    format!("inconsistent ok-vs-recovery tokens={} errors={}", bt.is_some(), be.len())
                }
            }
            Err(e) => {
                if !e.is_empty() && bt.is_none() && !be.is_empty() {
                    "reject".to_string()
                } else {
                    format!("inconsistent err errors={} recovery_tokens={} recovery_errors={}", e.len(), bt.is_some(), be.len())
                }
            }
        }
    }));
    match r {
        Ok(s) => s,
        Err(p) => {
            let msg = if let Some(s) = p.downcast_ref::<String>() {
                s.clone()
            } else if let Some(s) = p.downcast_ref::<&str>() {
                s.to_string()
            } else {
                "?".to_string()
            };
            format!("panic {}", msg.replace('\n', " "))
        }
    }
}

pub fn dispatch(op: &str, req: &Value) -> Option<Value> {
    match op {
        "unicode_ranges" => Some(json!({
            "alphabetic": ranges(|c| c.is_alphabetic()),
            "alphanumeric": ranges(|c| c.is_alphanumeric()),
            "numeric": ranges(|c| c.is_numeric()),
            "unicode_version": format!("{}.{}.{}", char::UNICODE_VERSION.0, char::UNICODE_VERSION.1, char::UNICODE_VERSION.2),
        })),
        "lexc" => {
            let srcs = req.get("srcs").and_then(|v| v.as_array()).cloned().unwrap_or_default();
            let r: Vec<String> = srcs.iter().map(|s| canon(s.as_str().unwrap_or(""))).collect();
            Some(json!({ "r": r }))
        }
        _ => None,
    }
}
