//! ops for C11 (compilation is a pure function of sources and options):
//! call histories inside one process, concurrent calls, repeated calls, multi-file trees with a chosen
//! insertion order, and the `prqlc::debug` log API (`#[doc(hidden)] pub`).
use std::panic::{catch_unwind, AssertUnwindSafe};
use std::path::PathBuf;
use std::sync::Mutex;

use serde_json::{json, Value};

static SUPPRESS: Mutex<Vec<prqlc::debug::LogSuppressLock>> = Mutex::new(Vec::new());

fn panic_msg(p: Box<dyn std::any::Any + Send>) -> String {
    if let Some(s) = p.downcast_ref::<String>() {
        s.clone()
    } else if let Some(s) = p.downcast_ref::<&str>() {
        s.to_string()
    } else {
        "?".to_string()
    }
}

/// one request under catch_unwind (the same way `main` runs a top-level request)
fn guarded(req: &Value) -> Value {
    match catch_unwind(AssertUnwindSafe(|| crate::ops::dispatch(req))) {
        Ok(v) => v,
        Err(p) => json!({"panic": panic_msg(p)}),
    }
}

/// distinct values in order of first appearance, with multiplicities
fn distinct(vals: Vec<Value>) -> Value {
    let mut out: Vec<(Value, usize)> = Vec::new();
    for v in vals {
        if let Some(e) = out.iter_mut().find(|e| e.0 == v) {
            e.1 += 1;
        } else {
            out.push((v, 1));
        }
    }
    Value::Array(out.into_iter().map(|(v, n)| json!({"answer": v, "count": n})).collect())
}

fn tree_of(req: &Value) -> prqlc::SourceTree {
    let files: Vec<(PathBuf, String)> = req["files"]
        .as_array()
        .map(|a| {
            a.iter()
                .map(|f| (PathBuf::from(f[0].as_str().unwrap_or("")), f[1].as_str().unwrap_or("").to_string()))
                .collect()
        })
        .unwrap_or_default();
    if req.get("insert").and_then(|v| v.as_bool()).unwrap_or(false) {
        // the other public way of building a tree: SourceTree::insert one by one
        let mut t = prqlc::SourceTree::default();
        for (p, c) in files {
            t.insert(p, c);
        }
        t
    } else {
        prqlc::SourceTree::new(files, None)
    }
}

/// errors with the source id of every span mapped back to the file path (ids are positions in the caller's enumeration)
fn tree_errs(e: &prqlc::ErrorMessages, tree: &prqlc::SourceTree) -> Value {
    let mut v = crate::ops::errs(e);
    if let Some(arr) = v.get_mut("errors").and_then(|a| a.as_array_mut()) {
        for (m, em) in arr.iter_mut().zip(e.inner.iter()) {
            let path = em.span.and_then(|sp| tree.get_path(sp.source_id)).map(|p| p.to_string_lossy().to_string());
            m["span_path"] = json!(path);
        }
    }
    v
}

pub fn dispatch(op: &str, req: &Value) -> Option<Value> {
    match op {
        "debug_log_start" => {
            prqlc::debug::log_start();
            Some(json!({"ok": true}))
        }
        "debug_log_finish" => {
            let l = prqlc::debug::log_finish();
            Some(match l {
                None => json!({"log": null}),
                Some(l) => {
                    let v = serde_json::to_value(&l).unwrap_or(Value::Null);
                    let n = v.get("entries").and_then(|e| e.as_array()).map(|a| a.len());
                    let kinds: Vec<String> = v
                        .get("entries")
                        .and_then(|e| e.as_array())
                        .map(|a| {
                            a.iter()
                                .map(|e| match e.get("kind") {
                                    Some(Value::Object(o)) => o.keys().next().cloned().unwrap_or_default(),
                                    Some(Value::String(s)) => s.clone(),
                                    _ => "?".into(),
                                })
                                .collect()
                        })
                        .unwrap_or_default();
                    json!({"log": {"entries": n, "kinds": kinds}})
                }
            })
        }
        "debug_log_suppress" => {
            let l = prqlc::debug::log_suppress();
            let some = l.is_some();
            if let Some(l) = l {
                SUPPRESS.lock().unwrap_or_else(|e| e.into_inner()).push(l);
            }
            Some(json!({"suppressed": some}))
        }
        "debug_log_unsuppress" => {
            let l = SUPPRESS.lock().unwrap_or_else(|e| e.into_inner()).pop();
            let some = l.is_some();
            drop(l);
            Some(json!({"unsuppressed": some}))
        }
        "debug_log_is_enabled" => Some(json!({"enabled": prqlc::debug::log_is_enabled()})),
        "debug_log_stage" => {
            prqlc::debug::log_stage(prqlc::debug::Stage::Parsing);
            Some(json!({"ok": true}))
        }
        // PL as the JSON TEXT prqlc::json::from_pl prints (serde_json::to_value would sort object keys and hide map order)
        "pl_json_text" => Some(match prqlc::prql_to_pl(crate::ops::s(req, "prql")).and_then(|pl| prqlc::json::from_pl(&pl)) {
            Ok(t) => json!({"json": t}),
            Err(e) => crate::ops::errs(&e),
        }),
        // column-level lineage (`prqlc debug lineage`): the JSON text of prqlc::internal::json::from_lineage, parsed (object keys
        // sorted by serde_json, array order kept) plus the text itself
        "lineage" => Some(
            match prqlc::prql_to_pl(crate::ops::s(req, "prql"))
                .and_then(prqlc::internal::pl_to_lineage)
                .and_then(|fc| prqlc::internal::json::from_lineage(&fc))
            {
                Ok(t) => {
                    let v: Value = serde_json::from_str(&t).unwrap_or(Value::Null);
                    // the `ast` part is the PL (op `pl` / `pl_json_text` look at it)
                    json!({"lineage": {"frames": v.get("frames"), "nodes": v.get("nodes")}})
                }
                Err(e) => crate::ops::errs(&e),
            },
        ),
        // the intermediate representations a compile records in the debug log (`prqlc debug log`): start a log, compile, finish;
        // per entry its kind and serde value (object keys sorted, array order kept).  ReprDecl (the whole root module, std included)
        // and ReprPrql are left out.  Sequential use only: the log is a process-wide static.
        "debug_stages" => {
            // same options as op `compile` (no formatting, no signature comment, plain display), optional target
            let mut o = prqlc::Options::default().no_format().no_signature().with_display(prqlc::DisplayOptions::Plain);
            if let Some(t) = req.get("target").and_then(|t| t.as_str()) {
                match <prqlc::Target as std::str::FromStr>::from_str(t) {
                    Ok(t) => o = o.with_target(t),
                    Err(e) => return Some(json!({"target_error": format!("{:?}", e.reason)})),
                }
            }
            prqlc::debug::log_start();
            let res = catch_unwind(AssertUnwindSafe(|| prqlc::compile(crate::ops::s(req, "prql"), &o)));
            let log = prqlc::debug::log_finish();
            let result = match res {
                Ok(Ok(sql)) => json!({"sql": sql}),
                Ok(Err(e)) => crate::ops::errs(&e),
                Err(p) => json!({"panic": panic_msg(p)}),
            };
            let mut stages: Vec<Value> = Vec::new();
            if let Some(l) = log {
                let v = serde_json::to_value(&l).unwrap_or(Value::Null);
                for e in v.get("entries").and_then(|e| e.as_array()).cloned().unwrap_or_default() {
                    match e.get("kind") {
                        Some(Value::Object(o)) => {
                            for (k, x) in o {
                                if k == "ReprDecl" || k == "ReprPrql" || k == "Message" {
                                    stages.push(json!({ "kind": k }));
                                } else {
                                    stages.push(json!({"kind": k, "value": x}));
                                }
                            }
                        }
                        Some(Value::String(s)) => stages.push(json!({ "kind": s })),
                        _ => {}
                    }
                }
            }
            Some(json!({"result": result, "stages": stages}))
        }
        // a list of sub-requests, in order, inside this one process
        "history" => {
            let steps = req["steps"].as_array().cloned().unwrap_or_default();
            let answers: Vec<Value> = steps.iter().map(guarded).collect();
            Some(json!({"answers": answers}))
        }
        // the same request k times in this process: distinct answers
        "repeat" => {
            let k = req["k"].as_u64().unwrap_or(8) as usize;
            let inner = &req["req"];
            Some(json!({"distinct": distinct((0..k).map(|_| guarded(inner)).collect())}))
        }
        // n threads, each running every request of `reqs` `rounds` times (thread i starts at offset i so that
        // different programs are in flight at the same time); per request the distinct answers over all threads
        "threads" => {
            let n = req["n"].as_u64().unwrap_or(8) as usize;
            let rounds = req["rounds"].as_u64().unwrap_or(1) as usize;
            let reqs = req["reqs"].as_array().cloned().unwrap_or_default();
            let m = reqs.len();
            let barrier = std::sync::Barrier::new(n);
            let per_thread: Vec<Vec<(usize, Value)>> = std::thread::scope(|sc| {
                let hs: Vec<_> = (0..n)
                    .map(|i| {
                        let reqs = &reqs;
                        let barrier = &barrier;
                        std::thread::Builder::new()
                            .stack_size(64 * 1024 * 1024)
                            .spawn_scoped(sc, move || {
                                barrier.wait();
                                let mut out = Vec::with_capacity(m * rounds);
                                for r in 0..rounds {
                                    for j in 0..m {
                                        let idx = (j + i * (m / n.max(1) + 1) + r) % m.max(1);
                                        out.push((idx, guarded(&reqs[idx])));
                                    }
                                }
                                out
                            })
                            .unwrap()
                    })
                    .collect();
                hs.into_iter().map(|h| h.join().unwrap_or_default()).collect()
            });
            let mut by_req: Vec<Vec<Value>> = vec![Vec::new(); m];
            for t in per_thread {
                for (idx, v) in t {
                    by_req[idx].push(v);
                }
            }
            Some(json!({"per_request": by_req.into_iter().map(distinct).collect::<Vec<_>>()}))
        }
        // one thread compiles, another one restarts the debug log all the time (log_finish; log_start)
        "log_race" => {
            let rounds = req["rounds"].as_u64().unwrap_or(200) as usize;
            let inner = &req["req"];
            let stop = std::sync::atomic::AtomicBool::new(false);
            let answers: Vec<Value> = std::thread::scope(|sc| {
                let stop = &stop;
                sc.spawn(move || {
                    while !stop.load(std::sync::atomic::Ordering::Relaxed) {
                        let _ = catch_unwind(|| {
                            prqlc::debug::log_finish();
                            prqlc::debug::log_start();
                        });
                    }
                });
                let out = (0..rounds).map(|_| guarded(inner)).collect();
                stop.store(true, std::sync::atomic::Ordering::Relaxed);
                out
            });
            let _ = catch_unwind(|| prqlc::debug::log_finish());
            Some(json!({"distinct": distinct(answers)}))
        }
        // a multi-file project given as an ORDERED list of (path, content): the order is the insertion order into
        // the SourceTree (which also decides the source ids)
        "tree" => {
            let tree = tree_of(req);
            let what = crate::ops::s(req, "what");
            let main_path: Vec<String> = req["main_path"]
                .as_array()
                .map(|a| a.iter().filter_map(|x| x.as_str().map(|s| s.to_string())).collect())
                .unwrap_or_default();
            let db = ["default_db".to_string()];
            let pl = match prqlc::prql_to_pl_tree(&tree) {
                Ok(pl) => pl,
                Err(e) => return Some(tree_errs(&e, &tree)),
            };
            if what == "pl" {
                return Some(json!({"pl": serde_json::to_value(&pl).unwrap()}));
            }
            if what == "fmt" {
                return Some(match prqlc::pl_to_prql(&pl) {
                    Ok(t) => json!({"prql": t}),
                    Err(e) => tree_errs(&e, &tree),
                });
            }
            let rq = match prqlc::pl_to_rq_tree(pl, &main_path, &db) {
                Ok(rq) => rq,
                Err(e) => return Some(tree_errs(&e.composed(&tree), &tree)),
            };
            if what == "rq" {
                return Some(json!({"rq": serde_json::to_value(&rq).unwrap()}));
            }
            let o = prqlc::Options::default().no_format().no_signature().with_display(prqlc::DisplayOptions::Plain);
            Some(match prqlc::rq_to_sql(rq, &o) {
                Ok(sql) => json!({"sql": sql}),
                Err(e) => tree_errs(&e.composed(&tree), &tree),
            })
        }
        _ => None,
    }
}
