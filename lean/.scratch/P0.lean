/-
C16  Every emitted relational query (RQ) is closed and consistently identified.

`Model.Rq.wfRq` (Model/Rq.lean) is the property as an executable predicate on the decoded RQ document.

T1  lower_inv / lower_wf : every state reachable by the operations of the Lowerer model (Model/Lower.lean) satisfies the
    invariant `Model.Lower.Inv`, and every query the model emits passes `wfRq`.
    What the operations mirror, what they guard and what is not mirrored is stated at the top of Model/Lower.lean.
T2  wf_enables_backend : `wfRq rq` implies the preconditions `AnchorContext::of` / `QueryLoader` / the anchoring code rely on.
Structural lemmas: wfRq_iff, scope_visible_subset_defs, wf_append_transform, wf_defined_before_use.
Non-vacuity: a model run that emits a query with a CTE referenced twice, a join of a sub-pipeline, an append, a window and a
loop; hand-made documents rejected for each clause.
Finding: `emitted_rq_wf_counterexample` - the document the real compiler emits for `from t | sort b | select {a} | take 2`
(and the one for `sort b | aggregate .. | derive {r = row_number this}`) fails the scope clause: a `sort` is carried past
`select` / `aggregate` into the `sort` of later Takes and windows (semantic/resolver/flatten.rs).  `EmittedWf` below is therefore
proved for the model only, whose guard (c) excludes exactly this; the monitor of tools/props/c16.py checks every real RQ
against `wfRq` and lists the two classes as known findings, and checks `wfRqLax` (stale *sort* columns tolerated) on all of them.
-/
import PrqlModel.Lemmas.Rq
import PrqlModel.Lemmas.Lower
import PrqlModel.Model.RqBackend
namespace Props.C16
open Model Model.Rq Model.Lower Model.Rq.Backend

deriving instance DecidableEq for Except

/-! ## T1 -/

/-- T1a: the invariant holds in every reachable state -/
theorem lower_inv (ops : List Op) (st : St) (h : run St.init ops = some st) : Inv st :=
  run_inv inv_init h

/-- T1b: `cid.next` is above every cid defined so far and above every cid in `node_mapping`; definitions are unique -/
theorem lower_cid_above (ops : List Op) (st : St) (h : run St.init ops = some st) :
    (∀ c ∈ allDefs st, c < st.nextCid) ∧ (∀ e ∈ st.mapping, ∀ c ∈ e.2.cids, c < st.nextCid) ∧ (allDefs st).Nodup :=
  have hi := lower_inv ops st h
  ⟨hi.core.defs_lt, hi.map_lt, hi.core.defs_nodup⟩

/-- T1c: every mapped cid is defined by a relation under construction or already finished -/
theorem lower_mapping_defined (ops : List Op) (st : St) (h : run St.init ops = some st) :
    ∀ e ∈ st.mapping, ∀ c ∈ e.2.cids, c ∈ allDefs st :=
  (lower_inv ops st h).map_defs

/-- T1: whatever the model of the Lowerer emits is well formed -/
theorem lower_wf (ops : List Op) (rq : RelationalQuery) (h : lower ops = some rq) : wfRq rq = .ok () := by
  unfold lower at h
  split at h
  next st hs => exact finish_wf (lower_inv ops st hs) h
  · cases h

/-- the property-shaped statement about the compiler; proved for the model (`lower_wf`), refuted for the real compiler by
`emitted_rq_wf_counterexample` (a listed finding), monitored on every real RQ by the check -/
def EmittedWf (emit : List Op → Option RelationalQuery) : Prop := ∀ ops rq, emit ops = some rq → wfRq rq = .ok ()

theorem emittedWf_model : EmittedWf lower := lower_wf

/-! ### non-vacuity: a run of the model -/

def cA : RelCol := .single (some ['a'])
def cB : RelCol := .single (some ['b'])
def ref (c : CId) : Expr := .columnRef c
def add (a b : Expr) : Expr := .operator ['a', 'd', 'd'] (.cons a (.cons b .nil))

/--  let x = (from t | derive {c = a + b} | select {a, c})
     from x | join (from x | filter a > 0 | select {a}) (==a) | append x | derive {r = row_number this (window)} | loop (filter ..)  -/
def demoOps : List Op := [
  .declareExtern 0 [cA, cB, .wildcard],
  .beginRelation, .fromTable 10 0 none,                       -- t: a=0 b=1 *=2
  .declareAsColumn 11 (add (ref 0) (ref 1)) none false,        -- c=3
  .declareAsColumn 11 (add (ref 0) (ref 1)) none false,        -- memo hit: nothing happens
  .push (.select [0, 3]),
  .endCte 1 (some ['x']) [(cA, 0), (.single (some ['c']), 3)],
  .beginRelation, .fromTable 20 1 (some ['x']),                -- x: a=4 c=5
  .beginRelation, .fromTable 21 1 none,                        -- x again: a=6 c=7
  .push (.filter (ref 6)), .aliasColumn 22 6,
  .endInlineJoin 23 [(cA, 6)] .inner (.operator ['e', 'q'] (.cons (ref 4) (.cons (ref 8) .nil))),   -- instance a=8
  .appendTable 24 1 none,                                      -- x a third time: 9, 10
  .declareAsColumn 25 (.operator ['r', 'n'] .nil) (some { partition := [4], sort := [{ column := 5 }] }) false,  -- r=11
  .beginLoop, .push (.filter (ref 11)), .declareAsColumn 26 (add (ref 4) (ref 11)) none false, .push (.select [12]), .endLoop,
  .endCte 2 none [(cA, 4), (.single (some ['r']), 11)]
]

