import PrqlModel.Lemmas.Rq
import PrqlModel.Lemmas.Lower
import PrqlModel.Model.RqBackend
open Model Model.Rq Model.Lower Model.Rq.Backend
deriving instance DecidableEq for Except
def cA : RelCol := .single (some ['a'])
def cB : RelCol := .single (some ['b'])
def ref (c : CId) : Expr := .columnRef c
def add (a b : Expr) : Expr := .operator ['a', 'd', 'd'] (.cons a (.cons b .nil))
def tT : TableDecl := { id := 0, relation := { kind := .externRef [['t']], columns := [cA, cB] } }
def fromT : Transform := .from_ { source := 0, columns := [(cA, 0), (cB, 1)] }
def mk (tables : List TableDecl) (ts : List Transform) (cols : List RelCol) : RelationalQuery :=
  { tables := tables, relation := { kind := .pipeline ts, columns := cols } }
def cmp2 : Transform := .compute { id := 2, expr := add (ref 0) (ref 1) }
def cX : RelCol := .single (some ['x'])
set_option maxRecDepth 2000 in
example : wfRq (mk [tT] [fromT, .select [0]] [cA]) = .ok () := by decide
