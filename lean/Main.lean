import PrqlModel.Drv
def main : IO Unit := Drv.main
