import PrqlModel.Model.Target
import PrqlModel.Model.Json
import PrqlModel.Props.C18
