import PrqlModel.Model.Target
import PrqlModel.Model.Json
import PrqlModel.Model.SerdeModel
import PrqlModel.Lemmas.Serde
import PrqlModel.Props.C18
import PrqlModel.Props.C15
import PrqlModel.Drv
