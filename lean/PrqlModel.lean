import PrqlModel.Model.Target
import PrqlModel.Model.Text
import PrqlModel.Props.C18
