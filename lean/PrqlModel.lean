import PrqlModel.Model.Target
import PrqlModel.Props.C18
