import PrqlModel.Model.Target
import PrqlModel.Model.Lex
import PrqlModel.Lemmas.Lex
import PrqlModel.Props.C18
import PrqlModel.Props.C17
