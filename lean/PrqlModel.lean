import PrqlModel.Model.Target
import PrqlModel.Model.Text
import PrqlModel.Props.C18
import PrqlModel.Lemmas.Text
import PrqlModel.Props.C13
import PrqlModel.Props.C12
