import PrqlModel.Model.Target
import PrqlModel.Model.Lex
import PrqlModel.Props.C18
