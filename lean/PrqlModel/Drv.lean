/-
Line-protocol driver: one request per line, one answer per line.
Fields are TAB separated; a string field is a space-separated list of decimal code points.
Each model area contributes a handler `List String → Option String` (none = not mine).
-/
import PrqlModel.Drv.Util
import PrqlModel.Drv.Target
import PrqlModel.Drv.Rel
import PrqlModel.Drv.Lex
import PrqlModel.Drv.Take
import PrqlModel.Drv.Json
import PrqlModel.Drv.Projection
import PrqlModel.Drv.Wildcards
import PrqlModel.Drv.Clause
import PrqlModel.Drv.Window
import PrqlModel.Drv.Lit
import PrqlModel.Drv.Names
import PrqlModel.Drv.Text
import PrqlModel.Drv.Order
import PrqlModel.Drv.Expr
import PrqlModel.Drv.Rq
import PrqlModel.Drv.Scope
import PrqlModel.Drv.Anchor
import PrqlModel.Drv.InferSorts
import PrqlModel.Drv.Flatten
import PrqlModel.Drv.CteOrder
import PrqlModel.Drv.Preprocess
import PrqlModel.Drv.Positional
import PrqlModel.Drv.SelectPipe
namespace Drv

def handlers : List (List String → Option String) := [
  Drv.Target.handle,
  Drv.Rel.handle,
  Drv.Lex.handle,
  Drv.Take.handle,
  Drv.Json.handle,
  Drv.Projection.handle,
  Drv.Wildcards.handle,
  Drv.Clause.handle,
  Drv.Window.handle,
  Drv.Lit.handle,
  Drv.Names.handle,
  Drv.Text.handle,
  Drv.Order.handle,
  Drv.Expr.handle,
  Drv.Rq.handle,
  Drv.Scope.handle,
  Drv.Anchor.handle,
  Drv.InferSorts.handle,
  Drv.Flatten.handle,
  Drv.CteOrder.handle,
  Drv.Preprocess.handle,
  Drv.Positional.handle,
  Drv.SelectPipe.handle
]

def handle (fields : List String) : String :=
  if fields == ["ping"] then "pong" else
  match handlers.findSome? (fun h => h fields) with
  | some a => a
  | none => "bad-op"

partial def loop (h : IO.FS.Stream) (out : IO.FS.Stream) : IO Unit := do
  let line ← h.getLine
  if line.isEmpty then return ()
  let l := String.ofList (line.toList.filter (fun c => c != '\n' && c != '\r'))
  out.putStrLn (handle (l.splitOn "\t"))
  out.flush
  loop h out

def main : IO Unit := do loop (← IO.getStdin) (← IO.getStdout)
end Drv
