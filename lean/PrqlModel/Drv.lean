/-
Line-protocol driver: one request per line, one answer per line.
Fields are TAB separated; a string field is a space-separated list of decimal code points.
-/
import PrqlModel.Model.Target
namespace Drv
open Model Gen

def decStr (f : String) : List Char :=
  (f.splitOn " ").filterMap fun w => w.toNat?.map Char.ofNat

def encStr (s : List Char) : String :=
  " ".intercalate (s.map fun c => toString c.toNat)

def optDialect (f : String) : Option Dialect :=
  if f == "-" then none else dialectFromStr f.toList

def handle (fields : List String) : String :=
  match fields with
  | ["ping"] => "pong"
  | ["choose", opt, hasHeader, header] =>
    let o := optDialect opt
    let h := if hasHeader == "1" then some (decStr header) else none
    match chooseDialect o h with
    | .ok d => "ok " ++ d.name
    | .error e => "err " ++ encStr e
  | ["target_from_str", s] =>
    match targetFromStr (decStr s) with
    | .ok none => "ok -"
    | .ok (some d) => "ok " ++ d.name
    | .error _ => "err"
  | _ => "bad-op"

partial def loop (h : IO.FS.Stream) (out : IO.FS.Stream) : IO Unit := do
  let line ← h.getLine
  if line.isEmpty then return ()
  let l := String.ofList (line.toList.filter (fun c => c != '\n' && c != '\r'))
  out.putStrLn (handle (l.splitOn "\t"))
  out.flush
  loop h out

def main : IO Unit := do loop (← IO.getStdin) (← IO.getStdout)
end Drv
