import PrqlModel.Drv.Util
import PrqlModel.Model.Anchor
import PrqlModel.Model.Reorder
/-
Line protocol for the splitter mirror.

cids   : comma separated numbers, empty = []
ex     : prefix tokens separated by blanks: `c<N>` column, `l` leaf, `K<n>` case, `O<n>` operator/array, `S<n>` s-string
         (n = number of children that follow)
tr     : fields separated by `|`:
         from|cids  join|cids|ex  compute|id|isAgg(0/1)|win(`-` none, `w`+cids)|ex  filter|ex  aggregate|cids|cids
         sort|cids  sqlsort|cids  take|ex|cids|cids  select|cids  distinct  distincton|cids  union|cids  except|cids
         intersect|cids  loop  append
pipe   : transforms separated by `;`
decls  : compute declarations `id|isAgg|win|ex` separated by `;`

asplit <decls> <pipe> <output cids>  ->  rest=<n> missing=<cids> select=<cids> kept=<pipe>
aanchor <next> <cids at split> <pipe> ->  new=<cids> pipe=<pipe>
areorder <pipe> -> <pipe>   (preprocess::reorder)
aextract <decls> <pipe> <next> <requested output> -> out=<cids> select_is_output=<bool> stashed=<n> atomic=<pipe>   (extract_atomic)
-/
namespace Drv.Anchor
open Model.Anchor

def cids (s : String) : Option (List Nat) :=
  if s.isEmpty then some [] else (s.splitOn ",").mapM (·.toNat?)

def showCids (l : List Nat) : String := ",".intercalate (l.map toString)

def mkArgs : List Ex → Ex
  | [] => .nil
  | a :: r => .cons a (mkArgs r)

mutual
def parseEx : Nat → List String → Option (Ex × List String)
  | 0, _ => none
  | _, [] => none
  | fuel + 1, tok :: rest =>
    let body := (tok.drop 1).toString
    match tok.front with
    | 'c' => body.toNat?.map fun n => (.col n, rest)
    | 'l' => some (.leaf, rest)
    | 'K' => body.toNat?.bind fun n => (parseArgs fuel n rest).map fun (as, r) => (.case (mkArgs as), r)
    | 'O' => body.toNat?.bind fun n => (parseArgs fuel n rest).map fun (as, r) => (.op (mkArgs as), r)
    | 'S' => body.toNat?.bind fun n => (parseArgs fuel n rest).map fun (as, r) => (.sstr (mkArgs as), r)
    | _ => none
def parseArgs : Nat → Nat → List String → Option (List Ex × List String)
  | 0, _, _ => none
  | _, 0, toks => some ([], toks)
  | fuel + 1, n + 1, toks =>
    match parseEx fuel toks with
    | some (e, r) => (parseArgs fuel n r).map fun (es, r') => (e :: es, r')
    | none => none
end

def ex (s : String) : Option Ex :=
  let toks := (s.splitOn " ").filter (· ≠ "")
  match parseEx (2 * toks.length + 2) toks with
  | some (e, []) => some e
  | _ => none

def argList : Ex → List Ex
  | .cons h t => h :: argList t
  | _ => []

def showEx : Ex → String
  | .col c => "c" ++ toString c
  | .leaf => "l"
  | .case a => node "K" a
  | .op a => node "O" a
  | .sstr a => node "S" a
  | .cons h t => showEx h ++ " " ++ showEx t
  | .nil => ""
where
  node (tag : String) (a : Ex) : String :=
    let n := (argList a).length
    if n == 0 then tag ++ "0" else tag ++ toString n ++ " " ++ showArgs a
  showArgs : Ex → String
    | .cons h .nil => showEx h
    | .cons h t => showEx h ++ " " ++ showArgs t
    | _ => ""

def win (s : String) : Option (Option (List Nat)) :=
  if s == "-" then some none
  else if s.startsWith "w" then (cids (s.drop 1).toString).map some
  else none

def showWin : Option (List Nat) → String
  | none => "-"
  | some l => "w" ++ showCids l

def comp (f : List String) : Option Comp :=
  match f with
  | [id, agg, w, e] => do
    let id ← id.toNat?
    let w ← win w
    let e ← ex e
    pure { id := id, expr := e, win := w, isAgg := agg == "1" }
  | _ => none

def tr (s : String) : Option Tr :=
  match s.splitOn "|" with
  | ["from", c] => (cids c).map .from
  | ["join", c, e] => do pure (.join (← cids c) (← ex e))
  | "compute" :: f => (comp f).map .compute
  | ["filter", e] => (ex e).map .filter
  | ["aggregate", p, c] => do pure (.aggregate (← cids p) (← cids c))
  | ["sort", c] => (cids c).map .sort
  | ["sqlsort", c] => (cids c).map .sqlSort
  | ["take", e, p, so] => do pure (.take (← ex e) (← cids p) (← cids so))
  | ["select", c] => (cids c).map .select
  | ["distinct"] => some .distinct
  | ["distincton", c] => (cids c).map .distinctOn
  | ["union", c] => (cids c).map .union
  | ["except", c] => (cids c).map .except
  | ["intersect", c] => (cids c).map .intersect
  | ["loop"] => some .loop
  | ["append"] => some .append
  | _ => none

def showTr : Tr → String
  | .from c => "from|" ++ showCids c
  | .join c e => "join|" ++ showCids c ++ "|" ++ showEx e
  | .compute c => "compute|" ++ toString c.id ++ "|" ++ (if c.isAgg then "1" else "0") ++ "|" ++ showWin c.win ++ "|" ++ showEx c.expr
  | .filter e => "filter|" ++ showEx e
  | .aggregate p c => "aggregate|" ++ showCids p ++ "|" ++ showCids c
  | .sort c => "sort|" ++ showCids c
  | .sqlSort c => "sqlsort|" ++ showCids c
  | .take e p s => "take|" ++ showEx e ++ "|" ++ showCids p ++ "|" ++ showCids s
  | .select c => "select|" ++ showCids c
  | .distinct => "distinct"
  | .distinctOn c => "distincton|" ++ showCids c
  | .union c => "union|" ++ showCids c
  | .except c => "except|" ++ showCids c
  | .intersect c => "intersect|" ++ showCids c
  | .loop => "loop"
  | .append => "append"

def pipe (s : String) : Option (List Tr) :=
  if s.isEmpty then some [] else (s.splitOn ";").mapM tr

def showPipe (p : List Tr) : String := ";".intercalate (p.map showTr)

def decls (s : String) : Option (List Comp) :=
  if s.isEmpty then some [] else (s.splitOn ";").mapM fun d => comp (d.splitOn "|")

def handle (fields : List String) : Option String :=
  match fields with
  | ["asplit", d, p, out] =>
    match decls d, pipe p, cids out with
    | some d, some p, some out =>
      let r := splitOffBack d p out
      some s!"rest={r.rest.length} missing={showCids r.missing} select={showCids r.select} kept={showPipe r.kept}"
    | _, _, _ => some "bad-request"
  | ["aanchor", next, cs, p] =>
    match next.toNat?, cids cs, pipe p with
    | some n, some cs, some p =>
      let (new, q) := anchorSplit n cs p
      some s!"new={showCids new} pipe={showPipe q}"
    | _, _, _ => some "bad-request"
  | ["aextract", d, p, next, out] =>
    match decls d, pipe p, next.toNat?, cids out with
    | some d, some p, some n, some out =>
      let e := extractAtomic d n p out
      let selOk := selectOf e.atomic == some e.output
      some s!"out={showCids e.output} select_is_output={selOk} dsc={showCids (determineSelect p)} stashed={e.stashed.length} atomic={showPipe e.atomic}"
    | _, _, _, _ => some "bad-request"
  | ["areorder", p] =>
    match pipe p with
    | some p => some (showPipe (Model.Reorder.reorderTr p))
    | none => some "bad-request"
  | ["ascope", d, p, out] =>
    match decls d, pipe p, cids out with
    | some d, some p, some out => some s!"wf={wfPipe p out} closed={splitClosedB d p out}"
    | _, _, _ => some "bad-request"
  | _ => none

end Drv.Anchor
