import PrqlModel.Drv.Take
import PrqlModel.Drv.Target
import PrqlModel.Model.Clause
namespace Drv.Clause
open Model.Clause Model.Take Gen

def showFill : OrderFill → String
  | .none => "-" | .selectNull => "select-null" | .firstProjection => "first-projection"

/-- `clauses <dialect> <ranges> <orderEmpty 0/1> <distinct 0/1>` -/
def handle (fields : List String) : Option String :=
  match fields with
  | ["clauses", d, rs, ob, dist] =>
    match Model.dialectFromStr d.toList with
    | some dl =>
      let c := emitFor dl (rangeOfRanges (Drv.Take.parseRanges rs)) (ob == "1") (dist == "1")
      some s!"limit={Drv.Take.showOpt c.limit} offset={Drv.Take.showOpt c.offset} rows={c.offsetRows && c.offset.isSome} fetch={Drv.Take.showOpt c.fetch} fill={showFill c.orderFill}"
    | none => some "bad-dialect"
  | ["setquant", d, dist] =>
    match Model.dialectFromStr d.toList with
    | some dl => some (match setQuantifierFor dl (dist == "1") with | .distinct => "DISTINCT" | .bare => "-" | .all => "ALL")
    | none => some "bad-dialect"
  | _ => none
end Drv.Clause
