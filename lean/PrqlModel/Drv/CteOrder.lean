import PrqlModel.Drv.Util
import PrqlModel.Model.CteOrder
/-
actes <extern tids> <bodies> <main refs>  ->  log
tids: comma separated; ref: `<tid>:<preferCte 0/1>:<allowCtes 0/1>:<body id>`; refs: refs separated by `,`;
bodies: `<body id>=<refs>` separated by `;`
log: events separated by blanks: `r<tid>` use by name, `s<tid>` / `e<tid>` sub-query begin / end, `b<tid>` CTE begin, `p<tid>` CTE pushed
-/
namespace Drv.CteOrder
open Model.CteOrder

def nats (s : String) : Option (List Nat) := if s.isEmpty then some [] else (s.splitOn ",").mapM (·.toNat?)

def ref (s : String) : Option Ref :=
  match s.splitOn ":" with
  | [t, p, a, bid] => do pure { tid := (← t.toNat?), preferCte := p == "1", allowCtes := a == "1", bodyId := (← bid.toNat?) }
  | _ => none

def refs (s : String) : Option (List Ref) := if s.isEmpty then some [] else (s.splitOn ",").mapM ref

def bodies (s : String) : Option Bodies :=
  if s.isEmpty then some [] else
  (s.splitOn ";").mapM fun e =>
    match e.splitOn "=" with
    | [t, rs] => do pure ((← t.toNat?), (← refs rs))
    | _ => none

def showEv : Ev → String
  | .useRef t => s!"r{t}"
  | .subBegin t => s!"s{t}"
  | .subEnd t => s!"e{t}"
  | .cteBegin t => s!"b{t}"
  | .ctePush t => s!"p{t}"

def handle (fields : List String) : Option String :=
  match fields with
  | ["actes", ex, bs, main] =>
    match nats ex, bodies bs, refs main with
    | some ex, some bs, some main =>
      some (" ".intercalate ((compileMain bs (bs.length + 2) ex main).map showEv))
    | _, _, _ => some "bad-request"
  | _ => none

end Drv.CteOrder
