/- drv handlers for the expression pipeline (C02):
  `c02parse <tokens>`                     → tree parsed by Model.Pratt.parseToks, or `err`
  `c02expr <dialect> <tree>`              → `src=… rq=… sql=… reparse=… sqlparse=…`
  `c02eval <dialect> <tree> <ncols> <dom>` → documented values and Lean-SQLite values over dom^ncols -/
import PrqlModel.Drv.SExp
import PrqlModel.Drv.Util
import PrqlModel.Model.Pratt
import PrqlModel.Model.SqlExpr
import PrqlModel.Model.SqlPrec
import PrqlModel.Model.Fmt
namespace Drv.Expr
open Drv Gen.Pratt Model.PExpr Model.Pratt Model.SqlExpr Model.Val

def binop? (s : String) : Option BinOp := BinOp.all.find? fun o => o.name == s
def unop? (s : String) : Option UnOp := UnOp.all.find? fun o => o.name == s

partial def sexpr? : SExp → Option SExpr
  | .list [.atom "col", i] => i.nat?.map .col
  | .list [.atom "null"] => some (.lit .null)
  | .list [.atom "int", i] => i.int?.map fun n => .lit (.int n)
  | .list [.atom "bool", i] => i.nat?.map fun n => .lit (.bool (n != 0))
  | .list [.atom "float", m, e] => do pure (.lit (.float (← m.int?) (← e.nat?)))
  | .list [.atom "str", s] => s.str?.map fun x => .lit (.str x)
  | .list [.atom "un", .atom o, e] => do pure (.un (← unop? o) (← sexpr? e))
  | .list [.atom "bin", .atom o, l, r] => do pure (.bin (← binop? o) (← sexpr? l) (← sexpr? r))
  | .list [.atom "case", c, v, r] => do pure (.caseB (← sexpr? c) (← sexpr? v) (← sexpr? r))
  | .list [.atom "caseend"] => some .caseEnd
  | .list [.atom "in", x, lo, hi] => do pure (.inRange (← sexpr? x) (← sexpr? lo) (← sexpr? hi))
  | .list [.atom "fn1", .atom "abs", x] => do pure (.fn1 .abs (← sexpr? x))
  | .list [.atom "call2", .atom o, l, r] => do pure (.call2 (← binop? o) (← sexpr? l) (← sexpr? r))
  | _ => none

def showLit : Lit → String
  | .null => "(null)"
  | .int i => s!"(int {i})"
  | .bool b => s!"(bool {if b then 1 else 0})"
  | .float m e => s!"(float {m} {e})"
  | .str s => s!"(str s:{".".intercalate (s.map fun c => toString c.toNat)})"

def showS : SExpr → String
  | .col i => s!"(col {i})"
  | .lit l => showLit l
  | .un o e => s!"(un {o.name} {showS e})"
  | .bin o l r => s!"(bin {o.name} {showS l} {showS r})"
  | .caseB c v r => s!"(case {showS c} {showS v} {showS r})"
  | .caseEnd => "(caseend)"
  | .inRange x lo hi => s!"(in {showS x} {showS lo} {showS hi})"
  | .fn1 _ x => s!"(fn1 abs {showS x})"
  | .call2 o l r => s!"(call2 {o.name} {showS l} {showS r})"

/-- RQ tree, canonical: operators by std name, arguments in RQ order -/
def showP : PExpr → String
  | .col i => s!"(col {i})"
  | .lit l => showLit l
  | .un o a => s!"(op {String.ofList ((Gen.Expand.unName o).getD [])} {showP a})"
  | .bin o a b => s!"(op {String.ofList (Gen.Expand.binName o)} {showP a} {showP b})"
  | .caseB c v r => s!"(case {showP c} {showP v} {showP r})"
  | .caseEnd => "(caseend)"
  | .between x lo hi => s!"(between {showP x} {showP lo} {showP hi})"
  | .fn1 f x => s!"(op {String.ofList (fn1Std f)} {showP x})"

def dialect? : String → Option Dialect
  | "generic" => some .generic
  | "sqlite" => some .sqlite
  | _ => none

def rtok? (s : String) : Option RTok :=
  if s == "(" then some .lp else if s == ")" then some .rp
  else if s == "null" then some (.atom (.lit .null))
  else if s == "true" then some (.atom (.lit (.bool true)))
  else if s == "false" then some (.atom (.lit (.bool false)))
  else match s.toNat? with
    | some n => some (.atom (.lit (.int n)))
    | none =>
      match s.toList with
      | [c] =>
        if 'a' ≤ c && c ≤ 'z' then some (.atom (.col (c.toNat - 'a'.toNat)))
        else some (.sym (.ctrl c))
      | cs => (Gen.Lex.multiCharOps.find? fun x => x.1 == cs).map fun x => .sym (.kind x.2.1)

def showRat (q : Rat) : String := if q.den == 1 then toString q.num else s!"{q.num}/{q.den}"

def showV : Option Value → String
  | none => "U"
  | some .null => "N"
  | some (.num q) => showRat q

def showSV : Option SVal → String
  | none => "U"
  | some .null => "N"
  | some (.int i) => s!"i:{i}"
  | some (.real q) => s!"r:{showRat q}"

/-- all rows of dom^n, first column slowest -/
def rows (dom : List Int) : Nat → List (List Int)
  | 0 => [[]]
  | n + 1 => dom.flatMap fun v => (rows dom n).map (v :: ·)

/-- NULL is encoded as the atom `N` in the domain -/
def domVal? (s : String) : Option (Option Int) := if s == "N" then some none else s.toInt?.map some

/-- exactness: every number met while evaluating is a dyadic rational of moderate size (so IEEE arithmetic is exact too) -/
def dyadic (q : Rat) : Bool :=
  let rec pow2 (fuel d : Nat) : Bool :=
    match fuel with
    | 0 => false
    | f + 1 => if d == 1 then true else if d % 2 == 0 then pow2 f (d / 2) else false
  pow2 64 q.den && q.num.natAbs < 9007199254740992 && q.den < 9007199254740992

def subExprs : SExpr → List SExpr
  | e@(.un _ a) => e :: subExprs a
  | e@(.bin _ l r) => e :: (subExprs l ++ subExprs r)
  | e@(.caseB c v r) => e :: (subExprs c ++ subExprs v ++ subExprs r)
  | e@(.inRange x lo hi) => e :: (subExprs x ++ subExprs lo ++ subExprs hi)
  | e@(.fn1 _ x) => e :: subExprs x
  | e@(.call2 _ l r) => e :: (subExprs l ++ subExprs r)
  | e => [e]

def hasPow : SExpr → Bool
  | .bin .Pow _ _ => true
  | .call2 .Pow _ _ => true
  | _ => false

def exactAt (ρ : Env) (subs : List SExpr) : Bool :=
  subs.all fun s => !hasPow s && match evalDoc ρ s with
    | some (.num q) => dyadic q
    | _ => true

def handle (fields : List String) : Option String :=
  match fields with
  | ["c02parse", toks] =>
    match ((toks.splitOn " ").filter (· != "")).mapM rtok? with
    | none => some "err lex"
    | some ts => match parseToks ts with
      | none => some "err"
      | some e => some (showS e)
  | ["c02expr", d, tree] =>
    match dialect? d, (SExp.ofString tree).bind sexpr? with
    | some dl, some e =>
      let src := srcText e
      let p := staticEval (expand e)
      let sql := sqlPrint dl p
      let opFragment := (srcToks e).all fun t => match t with | .word _ => false | _ => true
      let reparse := if opFragment then (if parseToks (srcToks e) == some e then "ok" else "bad") else "na"
      let sp := match sql with
        | none => "na"
        | some s => if (sqlParse s).isSome then "ok" else "none"
      -- the emitter seen as `PrecU.pr npEmit` (the object of theorem sql_print_parse_partial) prints the same tokens
      let prec := match Model.SqlPrec.toTree dl p, sql with
        | some t, some s => if Model.SqlPrec.treeToks Model.SqlPrec.npEmit t == sqlLex s then "ok" else "bad"
        | _, _ => "na"
      some s!"src={encStr src}\trq={showP p}\tsql={match sql with | some s => encStr s | none => "-"}\treparse={reparse}\tsqlparse={sp}\tprec={prec}"
    | _, _ => some "err request"
  | ["c14fmt", tree] =>
    match (SExp.ofString tree).bind sexpr? with
    | some e =>
      -- on the operator fragment the text is the rendering of `PrecU.pr fmtNp` (the object of theorem fmt_parse_roundtrip)
      let prec := match Model.Fmt.ofSExpr? e with
        | some t => if Model.Fmt.renderF (PrecU.pr Model.Fmt.fmtNp t) == Model.Fmt.fmtExpr e then "ok" else "bad"
        | none => "na"
      some s!"src={encStr (srcText e)}\tfmt={encStr (Model.Fmt.fmtExpr e)}\tprec={prec}"
    | none => some "err request"
  | ["c14lit", kind, text] =>
    -- display of a literal / identifier given as text: str | ident | alias
    let s := decStr text
    if kind == "str" then some (encStr (Model.Fmt.litDisplay (.str s)))
    else if kind == "ident" then some (encStr (Model.Fmt.displayIdentPart s))
    else if kind == "alias" then some (encStr (Model.Fmt.writeIdentPart s))
    else some "err request"
  | ["c02eval", d, tree, ncols, dom] =>
    match dialect? d, (SExp.ofString tree).bind sexpr?, ncols.toNat?, ((dom.splitOn " ").filter (· != "")).mapM domVal? with
    | some dl, some e, some n, some dm =>
      let subs := subExprs e
      let sqlE := (sqlPrint dl (staticEval (expand e))).bind sqlParse
      -- cross product with NULL: encode the domain as Option Int
      let idx := rows (List.range dm.length |>.map Int.ofNat) n
      let out := idx.map fun r =>
        let vals : List (Option Int) := r.map fun i => (dm.getD i.toNat none)
        let ρ : Env := vals.map fun | none => Value.null | some i => Value.num i
        let σ : SEnv := vals.map fun | none => SVal.null | some i => SVal.int i
        let dv := evalDoc ρ e
        let ex := exactAt ρ subs
        let sv := match sqlE with
          | some q => showSV (evalS σ q)
          | none => "P"
        s!"{showV dv}{if ex then "" else "~"} {sv}"
      some (";".intercalate out)
    | _, _, _, _ => some "err request"
  | _ => none

end Drv.Expr
