import PrqlModel.Drv.SExp
import PrqlModel.Model.Flatten
/-
aflatten <pipeline s-expression>  ->  flat output
pipeline: `( t1 t2 .. )` in pipeline order; transforms: `( sort <by> )`, `( group <byEmpty 0/1> <byId> ( inner ) )`,
          `( window <frame> ( inner ) )`, `( join ( side ) )`, `( append ( side ) )`, `( other <tag> )`
output  : items separated by blanks: `<tag>:<by>:<partition>:<frame>:<sort>`, `<` and `>` around a flattened argument
-/
namespace Drv.Flatten
open Model.Flatten Drv

mutual
def pipeOf : PL → List SExp → Option PL
  | acc, [] => some acc
  | acc, x :: rest =>
    match trOf acc x with
    | some p => pipeOf p rest
    | none => none
def trOf : PL → SExp → Option PL
  | init, .list [.atom "sort", b] => b.nat?.map fun n => .sort init n
  | init, .list [.atom "group", e, b, .list inner] =>
    match e.nat?, b.nat?, pipeOf .nil inner with
    | some e, some b, some i => some (.group init (e == 1) b i)
    | _, _, _ => none
  | init, .list [.atom "window", f, .list inner] =>
    match f.nat?, pipeOf .nil inner with
    | some f, some i => some (.window init f i)
    | _, _ => none
  | init, .list [.atom "join", .list side] => (pipeOf .nil side).map fun s => .join init s
  | init, .list [.atom "append", .list side] => (pipeOf .nil side).map fun s => .append init s
  | init, .list [.atom "other", t] => t.nat?.map fun n => .other init n
  | _, _ => none
end

def showOut : Out → String
  | .tr t b p f s => s!"{t}:{b}:{p}:{f}:{s}"
  | .sideBegin => "<"
  | .sideEnd => ">"

def handle (fields : List String) : Option String :=
  match fields with
  | ["aflatten", s] =>
    match SExp.ofString s with
    | some (.list xs) =>
      match pipeOf .nil xs with
      | some p => some (" ".intercalate ((flatten p).map showOut))
      | none => some "bad-request"
    | _ => some "bad-request"
  | _ => none

end Drv.Flatten
