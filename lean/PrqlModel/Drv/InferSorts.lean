import PrqlModel.Drv.Util
import PrqlModel.Model.InferSorts
/-
isorts <main 0/1> <transforms>  ->  <output transforms> | sorting=<sorting> do=<0/1>
transforms separated by `;`:  from:<sorting>:<0/1>  sort:<sorting>  distinct  aggregate  join  take:<plain 0/1>:<sorting>
                              distincton  select:<cids>  other        (output also: emit:<sorting>)
sorting: comma separated `<cid>+` (ascending) / `<cid>-` (descending); cids: comma separated
istore <events>  events separated by `;`: `ins:<tid>:<sorting>:<0/1>` / `read:<tid>`  ->  answers of the reads, separated by `;`
-/
namespace Drv.InferSorts
open Model.InferSorts

def sorting (s : String) : Option Sorting :=
  if s.isEmpty then some [] else
  (s.splitOn ",").mapM fun w =>
    let cs := w.toList
    match cs.getLast?, (String.ofList cs.dropLast).toNat? with
    | some '+', some n => some (n, false)
    | some '-', some n => some (n, true)
    | _, _ => none

def showSorting (s : Sorting) : String :=
  ",".intercalate (s.map fun c => toString c.1 ++ (if c.2 then "-" else "+"))

def cids (s : String) : Option (List Nat) :=
  if s.isEmpty then some [] else (s.splitOn ",").mapM (·.toNat?)

def tr (s : String) : Option STr :=
  match s.splitOn ":" with
  | ["from", so, f] => (sorting so).map fun x => .from x (f == "1")
  | ["sort", so] => (sorting so).map .sort
  | ["distinct"] => some .distinct
  | ["aggregate"] => some .aggregate
  | ["join"] => some .join
  | ["take", p, so] => (sorting so).map fun x => .take (p == "1") x
  | ["distincton"] => some .distinctOn
  | ["select", c] => (cids c).map .select
  | ["other"] => some .other
  | _ => none

def b (x : Bool) : String := if x then "1" else "0"

def showTr : STr → String
  | .from so f => s!"from:{showSorting so}:{b f}"
  | .sort so => s!"sort:{showSorting so}"
  | .distinct => "distinct"
  | .aggregate => "aggregate"
  | .join => "join"
  | .take p so => s!"take:{b p}:{showSorting so}"
  | .distinctOn => "distincton"
  | .select c => "select:" ++ ",".intercalate (c.map toString)
  | .other => "other"

def showO : OTr → String
  | .emitted so => "emit:" ++ showSorting so
  | .keep t => showTr t

def handle (fields : List String) : Option String :=
  match fields with
  | ["isorts", main, ts] =>
    match (if ts.isEmpty then some [] else (ts.splitOn ";").mapM tr) with
    | some ts =>
      let (st, out) := inferBlock (main == "1") ts
      some (";".intercalate (out.map showO) ++ s!" | sorting={showSorting st.sorting} do={b st.fromDO}")
    | none => some "bad-request"
  | ["istore", evs] =>
    let go := (evs.splitOn ";").foldl (fun (acc : Store × List String) e =>
      match e.splitOn ":" with
      | ["ins", tid, so, f] =>
        match tid.toNat?, sorting so with
        | some t, some x => (acc.1.insert t (x, f == "1"), acc.2)
        | _, _ => (acc.1, acc.2 ++ ["bad"])
      | ["read", tid] =>
        match tid.toNat? with
        | some t => let r := acc.1.read t; (acc.1, acc.2 ++ [s!"{showSorting r.1}:{b r.2}"])
        | none => (acc.1, acc.2 ++ ["bad"])
      | _ => (acc.1, acc.2 ++ ["bad"])) (({} : Store), [])
    some (";".intercalate go.2)
  | _ => none

end Drv.InferSorts
