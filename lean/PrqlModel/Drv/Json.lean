/-
JSON documents as request fields.  A JSON text travels like every other string field
(space-separated decimal code points, see Drv/Util.lean); `Drv.Json.field` turns it into a
`Model.Json` value.  Other handlers use

  match Drv.Json.field f with | some j => … | none => some "bad-json"

and then `Model.Json.{get?, path?, members, items, item?, asStr, asInt, asNat, asBool, isNull}`.

Ops of this handler (used by C15 as the tie for Model/Json.lean):
  json_print <doc>            -> ok <enc (print (parse doc))> | err
  json_stat  <doc>            -> ok nulls bools ints texts strs arrs objs intsum strlen keylen depth | err
  json_get   <doc> <step>...  -> ok <enc (print v)> | none | err     (step = enc key, or `#n` for an index)
  json_rt    <doc>            -> ok 1|0  (parse (print (parse doc)) = parse doc) | err
-/
import PrqlModel.Drv.Util
import PrqlModel.Model.Json
namespace Drv.Json
open Model Model.Json Drv

/-- parse a code-point encoded field as a JSON document -/
def field (f : String) : Option Model.Json := Model.Json.parse (decStr f)

/-- text of a value, as an answer field -/
def render (j : Model.Json) : String := encStr (Model.Json.print j)

structure Stat where
  nulls : Nat := 0
  bools : Nat := 0
  ints : Nat := 0
  texts : Nat := 0
  strs : Nat := 0
  arrs : Nat := 0
  objs : Nat := 0
  intsum : Int := 0
  strlen : Nat := 0
  keylen : Nat := 0

mutual
def stat : Model.Json → Stat → Stat
  | .null, s => { s with nulls := s.nulls + 1 }
  | .bool _, s => { s with bools := s.bools + 1 }
  | .num (.int i), s => { s with ints := s.ints + 1, intsum := s.intsum + i }
  | .num (.text _), s => { s with texts := s.texts + 1 }
  | .str x, s => { s with strs := s.strs + 1, strlen := s.strlen + x.length }
  | .arr xs, s => statL xs { s with arrs := s.arrs + 1 }
  | .obj ms, s => statM ms { s with objs := s.objs + 1 }
def statL : JList → Stat → Stat
  | .nil, s => s
  | .cons x xs, s => statL xs (stat x s)
def statM : JMembers → Stat → Stat
  | .nil, s => s
  | .cons k v ms, s => statM ms (stat v { s with keylen := s.keylen + k.length })
end

def step (j : Model.Json) (s : String) : Option Model.Json :=
  if s.startsWith "#" then (s.drop 1).toNat?.bind fun n => item? n j
  else get? (decStr s) j

def handle (fields : List String) : Option String :=
  match fields with
  | ["json_print", d] =>
    match field d with
    | some j => some ("ok " ++ render j)
    | none => some "err"
  | ["json_rt", d] =>
    match field d with
    | some j => some (if Model.Json.parse (Model.Json.print j) = some j then "ok 1" else "ok 0")
    | none => some "err"
  | ["json_stat", d] =>
    match field d with
    | some j =>
      let s := stat j {}
      some (s!"ok {s.nulls} {s.bools} {s.ints} {s.texts} {s.strs} {s.arrs} {s.objs} {s.intsum} {s.strlen} {s.keylen} {depth j}")
    | none => some "err"
  | "json_get" :: d :: steps =>
    match field d with
    | some j =>
      match steps.foldl (fun (o : Option Model.Json) s => o.bind (step · s)) (some j) with
      | some v => some ("ok " ++ render v)
      | none => some "none"
    | none => some "err"
  | _ => none
end Drv.Json
