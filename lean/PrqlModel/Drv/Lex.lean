import PrqlModel.Drv.Util
import PrqlModel.Model.Lex
/-! `lex\t<code points>` → `ok <start>-<end>:<Kind>[:args] …` | `reject`  (same canonical line as the harness op `lexc`;
float literals carry the model's normalised text instead of Rust's `{:?}` of the parsed f64). -/
namespace Drv.Lex
open Model.Lex Drv

def cps (s : List Char) : String := ",".intercalate (s.map fun c => toString c.toNat)

def lit : Lit → String
  | .null => "Null"
  | .integer i => s!"Integer:{i}"
  | .float t => "Float:" ++ String.ofList t
  | .boolean b => "Boolean:" ++ (if b then "true" else "false")
  | .string s => "String:" ++ cps s
  | .rawString s => "RawString:" ++ cps s
  | .date s => "Date:" ++ cps s
  | .time s => "Time:" ++ cps s
  | .timestamp s => "Timestamp:" ++ cps s
  | .valueAndUnit n u => s!"ValueAndUnit:{n}:" ++ cps u

def b01 (b : Bool) : String := if b then "1" else "0"

def kind : Kind → String
  | .newLine => "NewLine"
  | .ident s => "Ident:" ++ cps s
  | .keyword s => "Keyword:" ++ cps s
  | .literal l => "Literal:" ++ lit l
  | .param s => "Param:" ++ cps s
  | .range l r => "Range:" ++ b01 l ++ ":" ++ b01 r
  | .interpolation c s => s!"Interpolation:{c.toNat}:" ++ cps s
  | .control c => s!"Control:{c.toNat}"
  | .op o => o.name
  | .annotate => "Annotate"
  | .comment s => "Comment:" ++ cps s
  | .docComment s => "DocComment:" ++ cps s
  | .lineWrap cs => "LineWrap:" ++ "/".intercalate (cs.map fun c => (if c.1 then "D" else "C") ++ cps c.2)
  | .start => "Start"

def token (t : Token) : String := s!"{t.start}-{t.stop}:" ++ kind t.kind

def answer (src : List Char) : String :=
  match lex src with
  | .ok toks => "ok " ++ " ".intercalate (toks.map token)
  | .error _ => "reject"

def handle (fields : List String) : Option String :=
  match fields with
  | ["lex", s] => some (answer (decStr s))
  | "lexb" :: ss => some ("\x1f".intercalate (ss.map fun s => answer (decStr s)))
  | _ => none
end Drv.Lex
