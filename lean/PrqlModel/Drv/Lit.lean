import PrqlModel.Drv.Util
import PrqlModel.Drv.Lex
import PrqlModel.Model.Lit
/-! C08 driver.
`lit_token\t<src>`        → `<Kind line as in Drv.Lex>` | `none`      (the slice as exactly one token)
`sql_quote\t<value>`      → code points of `sqlQuote value`
`sql_quote_std\t<value>`  → code points of plain doubling
`sql_quote_raw\t<v>`      → code points of sqlparser's printer on the un-doubled value
`sql_lex\t<mode>\t<text>` → `some <value>|<rest>` | `none`   mode ∈ std, bs, bsw
`emit_lit\t<src>`         → code points of the SQL text of the literal | `outside` | `none`
`fstr\t<content>`         → items `S<cps>` / `E<part>/<part>…[:F<cps>]` separated by `;` | `none`
`print_int\t<int>`        → code points
-/
namespace Drv.Lit
open Model.Lex Model.Lit Drv

def optPair : Option (Src × Src) → String
  | some (v, r) => "some " ++ encStr v ++ "|" ++ encStr r
  | none => "none"

def item : FItem → String
  | .str s => "S" ++ Drv.Lex.cps s
  | .expr p f => "E" ++ "/".intercalate (p.map Drv.Lex.cps) ++ (match f with | some x => ":F" ++ Drv.Lex.cps x | none => "")

def handle (fields : List String) : Option String :=
  match fields with
  | ["lit_token", s] => some (match tokenOfSlice (decStr s) with | some k => Drv.Lex.kind k | none => "none")
  | ["sqlite_date", v] => some (encStr (sqliteDateLiteral (decStr v)))
  | ["sql_quote", v] => some (encStr (sqlQuote (decStr v)))
  | ["sql_quote_std", v] => some (encStr (sqlQuoteStd (decStr v)))
  | ["sql_quote_raw", v] => some (encStr (sqlQuoteRaw (decStr v)))
  | ["sql_lex", "std", t] => some (optPair (sqlLexString (decStr t)))
  | ["sql_lex", "bs", t] => some (optPair (sqlLexStringBs false (decStr t)))
  | ["sql_lex", "bsw", t] => some (optPair (sqlLexStringBs true (decStr t)))
  | ["emit_lit", s] => some (match litOfSlice (decStr s) with
      | none => "none"
      | some l => match emitLit l with | some t => "ok " ++ encStr t | none => "outside")
  | ["fstr", s] => some (match fstrItems (decStr s) with
      | some is => "ok " ++ ";".intercalate (is.map item)
      | none => "none")
  | ["print_int", i] => some (match i.toInt? with | some n => encStr (printInt n) | none => "none")
  | _ => none
end Drv.Lit
