import PrqlModel.Drv.Util
import PrqlModel.Model.Names
/-! C09 driver.
`ident\t<dialect>\t<name>`    → `bare <text cps>` | `quoted <quote code point> <text cps>`
`ident_value\t<dialect>\t<name>` → code points of the `Ident` value (quote character doubled when quoted)
`is_keyword\t<dialect>\t<name>` → `true` | `false`
`lex_ident\t<dialect>\t<text>` → `some <name>|<rest>` | `none`
`assign\t<prefix>\t<counter>\t<name or ->…` → `ok <counter> <name>;<name>…` | `none`     (names: code points, `-` = unnamed)
`split\t<prefix>\t<counter>\t<name or ->…`  → `<counter> <name or ->;…`
-/
namespace Drv.Names
open Model.Names Drv Gen

def dialectOf (s : String) : Option Dialect := Dialect.all.find? fun d => d.name == s

def optName (f : String) : Option (List Char) := if f == "-" then none else some (decStr f)

def handle (fields : List String) : Option String :=
  match fields with
  | ["ident", d, s] => some (match dialectOf d with
      | none => "bad-dialect"
      | some d => match identPart d (decStr s) with
        | (_, none) => "bare " ++ encStr (emitIdent d (decStr s))
        | (_, some q) => s!"quoted {q.toNat} " ++ encStr (emitIdent d (decStr s)))
  | ["ident_value", d, s] => some (match dialectOf d with
      | none => "bad-dialect"
      | some d => encStr (identPart d (decStr s)).1)
  | ["is_keyword", d, s] => some (match dialectOf d with
      | none => "bad-dialect"
      | some d => if isKeyword d (decStr s) then "true" else "false")
  | ["lex_ident", d, t] => some (match dialectOf d with
      | none => "bad-dialect"
      | some d => match sqlLexIdent d (decStr t) with
        | some (v, r) => "some " ++ encStr v ++ "|" ++ encStr r
        | none => "none")
  | "assign" :: pre :: n :: names => some (match assignSeq (decStr pre) (names.map optName) [] n.toNat! with
      | some (xs, n') => s!"ok {n'} " ++ ";".intercalate (xs.map encStr)
      | none => "none")
  | "split" :: pre :: n :: names =>
      let r := splitNames (decStr pre) (names.map optName) [] n.toNat!
      some (s!"{r.2} " ++ ";".intercalate (r.1.map fun o => match o with | some x => encStr x | none => "-"))
  | _ => none
end Drv.Names
