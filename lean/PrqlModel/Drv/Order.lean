import PrqlModel.Drv.Util
import PrqlModel.Model.Order
namespace Drv.Order
open Model.Order

def showObs : Obs → String
  | .unit => "ok"
  | .panic => "panic"
  | .logSome n => if n > 0 then "log+" else "log0"
  | .logNone => "nolog"
  | .token b => if b then "tok1" else "tok0"
  | .enabled b => if b then "en1" else "en0"

/-- sequential history over the letters S(tart) F(inish) E(ntry = log_stage) U (suppress) D (drop the newest token the
caller holds, `notoken` if it holds none) Q (is_enabled) C(ompile); `toks` = tokens the caller holds -/
def runLetters : Log → Nat → List Char → List String
  | _, _, [] => []
  | s, toks, c :: rest =>
    let logOp (op : Op) := (step s op, toks)
    match c with
    | 'C' =>
      let (res, s') := runCompile () s compileOps false []
      (match res with | .value _ => "ok" | .panicked => "panic") :: runLetters s' toks rest
    | 'D' =>
      if toks = 0 then "notoken" :: runLetters s toks rest
      else let (s', o) := step s .unsuppress; showObs o :: runLetters s' (toks - 1) rest
    | 'U' =>
      let (s', o) := step s .suppress
      showObs o :: runLetters s' (if o == .token true then toks + 1 else toks) rest
    | _ =>
      let op := match c with | 'S' => Op.start | 'F' => Op.finish | 'E' => Op.entry | _ => Op.isEnabled
      let ((s', o), t) := logOp op
      showObs o :: runLetters s' t rest

/-- `loghist <letters>` → space separated observations -/
def handle (fields : List String) : Option String :=
  match fields with
  | ["loghist", h] => some (" ".intercalate (runLetters .absent 0 h.toList))
  | _ => none
end Drv.Order
