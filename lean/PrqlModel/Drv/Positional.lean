import PrqlModel.Drv.Util
import PrqlModel.Model.Positional
/-
Line protocol for the mirror of the positional mapper.

cids   : comma separated numbers, empty = []
sel    : `-` (no requirements) or `s` followed by cids
pipe   : `;`-separated: `c<id>` compute, `s<cids>` select, `a<cids>` aggregate (its compute list), `u<riid>` set operation, `o`
ops    : `;`-separated: `S|<before>|<after>|<riid>` compute_and_store_mapping, `A|<riid>` activate_mapping, `P|<output>` apply

posconstraints <sel> <pipe> -> `riid:cids` joined by `;`
posrun <ops>                -> one answer per op joined by `;`: S -> the mapping stored for riid afterwards or `-`,
                               A -> the active mapping or `-`, P -> the re-projected output
-/
namespace Drv.Positional
open Model.Positional

def cids (s : String) : Option (List Nat) :=
  if s.isEmpty then some [] else (s.splitOn ",").mapM (·.toNat?)

def showCids (l : List Nat) : String := ",".intercalate (l.map toString)

def tr (s : String) : Option Tr :=
  let body := (s.drop 1).toString
  match s.front with
  | 'c' => body.toNat?.map .compute
  | 's' => (cids body).map .select
  | 'a' => (cids body).map .aggregate
  | 'u' => body.toNat?.map .setop
  | 'o' => some .other
  | _ => none

def pipe (s : String) : Option (List Tr) :=
  if s.isEmpty then some [] else (s.splitOn ";").mapM tr

def sel (s : String) : Option (Option (List Nat)) :=
  if s == "-" then some none
  else if s.startsWith "s" then (cids (s.drop 1).toString).map some
  else none

def showOpt : Option (List Nat) → String
  | none => "-"
  | some l => "m" ++ showCids l

def runOps : Mapper → List String → Option (List String)
  | _, [] => some []
  | m, op :: rest =>
    match op.splitOn "|" with
    | ["S", b, a, r] => do
      let m' := computeAndStore m (← cids b) (← cids a) (← r.toNat?)
      let more ← runOps m' rest
      pure (showOpt (lookup m'.store (← r.toNat?)) :: more)
    | ["A", r] => do
      let m' := activate m (← r.toNat?)
      let more ← runOps m' rest
      pure (showOpt m'.active :: more)
    | ["P", o] => do
      let more ← runOps m rest
      pure (showCids (apply m (← cids o)) :: more)
    | _ => none

def handle (fields : List String) : Option String :=
  match fields with
  | ["posconstraints", s, p] =>
    match sel s, pipe p with
    | some s, some p => some (";".intercalate ((constraints s p).map fun (r, cs) => toString r ++ ":" ++ showCids cs))
    | _, _ => some "bad-request"
  | ["posrun", ops] =>
    match runOps {} (if ops.isEmpty then [] else ops.splitOn ";") with
    | some out => some (";".intercalate out)
    | none => some "bad-request"
  | _ => none

end Drv.Positional
