import PrqlModel.Drv.Util
import PrqlModel.Model.Preprocess
/-
Line protocol for the mirror of the preprocess stages distinct / union / except / intersect.

cids  : comma separated numbers, empty = []
cs    : comma separated sort columns `<cid>a` / `<cid>d`
bd    : `-` absent, `i<int>` integer literal, `x` other expression
pe    : prefix tokens separated by blanks: `c<N>` column, `n` null, `i<int>`, `t` true, `E` eq, `A` and, `G` gte, `L` lte
        (two children follow), `o<N>` opaque
tr    : fields separated by `|`:
        from|cids  join|side(I/L/R/F)|cids|pe  take|bd|bd|cids|cs  filter|pe  select|cids  aggregate|cids|cids  append|cids
        rownumber|id|frame(R/G)|cids|cs  distinct  distincton|cids  sqlsort|cs  union|cids|0/1  except|cids|0/1
        intersect|cids|0/1  other|N
pipe  : transforms separated by `;`
cfg   : supports_distinct_on|except_all|intersect_all|wildcard cids   (0/1 flags)

infos : one entry per transform, separated by `;`: `n` (not looked at) or `s:<cids read>:<defined cid or ->`
pdistinct  <cfg> <next> <pipe> <infos> -> ok next=<n> <pipe> | err
pprune     <pipe> <infos>              -> ok <cids>/<cids>/..   (columns of the From / Join instances after prune_inputs, in pipeline order)
punion     <pipe>              -> ok <pipe>
pexcept    <cfg> <pipe>        -> ok <pipe> | err
pintersect <cfg> <pipe>        -> ok <pipe> | err
-/
namespace Drv.Preprocess
open Model.Preprocess

def cids (s : String) : Option (List Nat) :=
  if s.isEmpty then some [] else (s.splitOn ",").mapM (·.toNat?)

def showCids (l : List Nat) : String := ",".intercalate (l.map toString)

def cs1 (s : String) : Option CS :=
  let body := (s.dropEnd 1).toString
  match s.back, body.toNat? with
  | 'a', some n => some { col := n, desc := false }
  | 'd', some n => some { col := n, desc := true }
  | _, _ => none

def css (s : String) : Option (List CS) :=
  if s.isEmpty then some [] else (s.splitOn ",").mapM cs1

def showCss (l : List CS) : String :=
  ",".intercalate (l.map fun c => toString c.col ++ (if c.desc then "d" else "a"))

def bd (s : String) : Option (Option Bd) :=
  if s == "-" then some none
  else if s == "x" then some (some .nonint)
  else if s.startsWith "i" then (s.drop 1).toString.toInt?.map fun i => some (.int i)
  else none

def showBd : Option Bd → String
  | none => "-"
  | some .nonint => "x"
  | some (.int i) => "i" ++ toString i

def parsePE : Nat → List String → Option (PE × List String)
  | 0, _ => none
  | _, [] => none
  | fuel + 1, tok :: rest =>
    let body := (tok.drop 1).toString
    let bin (mk : PE → PE → PE) : Option (PE × List String) :=
      match parsePE fuel rest with
      | some (a, r) => (parsePE fuel r).map fun (b, r') => (mk a b, r')
      | none => none
    match tok.front with
    | 'c' => body.toNat?.map fun n => (.col n, rest)
    | 'n' => some (.null, rest)
    | 'i' => body.toInt?.map fun n => (.int n, rest)
    | 't' => some (.tru, rest)
    | 'o' => body.toNat?.map fun n => (.other n, rest)
    | 'E' => bin .eq
    | 'A' => bin .and
    | 'G' => bin .gte
    | 'L' => bin .lte
    | _ => none

def pe (s : String) : Option PE :=
  let toks := (s.splitOn " ").filter (· ≠ "")
  match parsePE (2 * toks.length + 2) toks with
  | some (e, []) => some e
  | _ => none

def showPE : PE → String
  | .col c => "c" ++ toString c
  | .null => "n"
  | .int i => "i" ++ toString i
  | .tru => "t"
  | .other n => "o" ++ toString n
  | .eq a b => "E " ++ showPE a ++ " " ++ showPE b
  | .and a b => "A " ++ showPE a ++ " " ++ showPE b
  | .gte a b => "G " ++ showPE a ++ " " ++ showPE b
  | .lte a b => "L " ++ showPE a ++ " " ++ showPE b

def side : String → Option Side
  | "I" => some .inner | "L" => some .left | "R" => some .right | "F" => some .full | _ => none

def showSide : Side → String
  | .inner => "I" | .left => "L" | .right => "R" | .full => "F"

def flag : String → Option Bool
  | "0" => some false | "1" => some true | _ => none

def showFlag (b : Bool) : String := if b then "1" else "0"

def tr (s : String) : Option Tr :=
  match s.splitOn "|" with
  | ["from", c] => (cids c).map .from
  | ["join", sd, c, e] => do pure (.join (← side sd) (← cids c) (← pe e))
  | ["take", s, e, p, so] => do pure (.take (← bd s) (← bd e) (← cids p) (← css so))
  | ["filter", e] => (pe e).map .filter
  | ["select", c] => (cids c).map .select
  | ["aggregate", p, c] => do pure (.aggregate (← cids p) (← cids c))
  | ["append", c] => (cids c).map .append
  | ["rownumber", id, f, p, so] => do
    let fr ← (match f with | "R" => some Frame.rowsAll | "G" => some Frame.rangeToCurrent | _ => none)
    pure (.rowNumber (← id.toNat?) fr (← cids p) (← css so))
  | ["distinct"] => some .distinct
  | ["distincton", c] => (cids c).map .distinctOn
  | ["sqlsort", so] => (css so).map .sqlSort
  | ["union", c, d] => do pure (.union (← cids c) (← flag d))
  | ["except", c, d] => do pure (.except (← cids c) (← flag d))
  | ["intersect", c, d] => do pure (.intersect (← cids c) (← flag d))
  | ["other", n] => n.toNat?.map .other
  | _ => none

def showTr : Tr → String
  | .from c => "from|" ++ showCids c
  | .join sd c e => "join|" ++ showSide sd ++ "|" ++ showCids c ++ "|" ++ showPE e
  | .take s e p so => "take|" ++ showBd s ++ "|" ++ showBd e ++ "|" ++ showCids p ++ "|" ++ showCss so
  | .filter e => "filter|" ++ showPE e
  | .select c => "select|" ++ showCids c
  | .aggregate p c => "aggregate|" ++ showCids p ++ "|" ++ showCids c
  | .append c => "append|" ++ showCids c
  | .rowNumber id f p so =>
    "rownumber|" ++ toString id ++ "|" ++ (match f with | .rowsAll => "R" | .rangeToCurrent => "G") ++ "|" ++ showCids p ++ "|" ++ showCss so
  | .distinct => "distinct"
  | .distinctOn c => "distincton|" ++ showCids c
  | .sqlSort so => "sqlsort|" ++ showCss so
  | .union c d => "union|" ++ showCids c ++ "|" ++ showFlag d
  | .except c d => "except|" ++ showCids c ++ "|" ++ showFlag d
  | .intersect c d => "intersect|" ++ showCids c ++ "|" ++ showFlag d
  | .other n => "other|" ++ toString n

def pipe (s : String) : Option (List Tr) :=
  if s.isEmpty then some [] else (s.splitOn ";").mapM tr

def showPipe (p : List Tr) : String := ";".intercalate (p.map showTr)

def cfg (s : String) : Option Cfg :=
  match s.splitOn "|" with
  | [a, b, c, w] => do
    pure { supportsDistinctOn := ← flag a, exceptAll := ← flag b, intersectAll := ← flag c, wildcards := ← cids w }
  | _ => none

def info (s : String) : Option Info :=
  match s.splitOn ":" with
  | ["n"] => some { reads := none, defines := none }
  | ["s", r, d] => do
    let rs ← cids r
    if d == "-" then pure { reads := some rs, defines := none }
    else pure { reads := some rs, defines := some (← d.toNat?) }
  | _ => none

def infos (s : String) : Option (List Info) :=
  if s.isEmpty then some [] else (s.splitOn ";").mapM info

def handle (fields : List String) : Option String :=
  match fields with
  | ["pdistinct", c, next, p, is] =>
    match cfg c, next.toNat?, pipe p, infos is with
    | some c, some n, some p, some is =>
      if p.length != is.length then some "bad-request" else
      match distinct c n (p.zip is) with
      | some (q, n') => some s!"ok next={n'} {showPipe q}"
      | none => some "err"
    | _, _, _, _ => some "bad-request"
  | ["pprune", p, is] =>
    match pipe p, infos is with
    | some p, some is =>
      if p.length != is.length then some "bad-request" else
      some ("ok " ++ "/".intercalate ((pruneInputs (p.zip is)).map showCids))
    | _, _ => some "bad-request"
  | ["punion", p] =>
    match pipe p with
    | some p => some s!"ok {showPipe (union p)}"
    | none => some "bad-request"
  | ["pexcept", c, p] =>
    match cfg c, pipe p with
    | some c, some p => some (match except c p with | some q => s!"ok {showPipe q}" | none => "err")
    | _, _ => some "bad-request"
  | ["pintersect", c, p] =>
    match cfg c, pipe p with
    | some c, some p => some (match intersect c p with | some q => s!"ok {showPipe q}" | none => "err")
    | _, _ => some "bad-request"
  | _ => none

end Drv.Preprocess
