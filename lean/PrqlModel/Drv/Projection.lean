import PrqlModel.Drv.Util
import PrqlModel.Model.Projection
namespace Drv.Projection
open Model.Projection

def ident (s : String) : Ident := (s.splitOn ".").filterMap fun w => w.toNat?.map Char.ofNat

/-- items separated by `;`: `c:<id>|<id>…`, `a:<id>`, `o`; identifiers are dot-separated code points -/
def item (s : String) : Item :=
  if s.startsWith "c:" then .compound (((s.drop 2).toString.splitOn "|").map ident)
  else if s.startsWith "a:" then .aliased (ident (s.drop 2).toString)
  else .other

def handle (fields : List String) : Option String :=
  match fields with
  | ["dedup", items] =>
    let its := if items == "" then [] else (items.splitOn ";").map item
    some (" ".intercalate ((kept its).map toString))
  | _ => none
end Drv.Projection
