import PrqlModel.Drv.Util
import PrqlModel.Model.Projection
namespace Drv.Projection
open Model.Projection

def ident (s : String) : Ident := (s.splitOn ".").filterMap fun w => w.toNat?.map Char.ofNat

/-- items separated by `;`: `c:<id>|<id>…`, `a:<id>`, `o`; identifiers are dot-separated code points -/
def item (s : String) : Item :=
  if s.startsWith "c:" then .compound (((s.drop 2).toString.splitOn "|").map ident)
  else if s.startsWith "a:" then .aliased (ident (s.drop 2).toString)
  else .other

def handle (fields : List String) : Option String :=
  match fields with
  | ["dedup", items] =>
    let its := if items == "" then [] else (items.splitOn ";").map item
    some (" ".intercalate ((kept its).map toString))
  | ["selalias", inf, exp, fresh] =>
    -- a name is `-` (absent) or `n:` followed by dot-separated code points
    let nm (x : String) : Option Ident := if x == "-" then none else some (ident (x.drop 2).toString)
    let show_ (x : Option Ident) : String := match x with
      | none => "-"
      | some i => "n:" ++ ".".intercalate (i.map fun c => toString c.toNat)
    some (show_ (aliasOf (nm inf) (nm exp) (ident (fresh.drop 2).toString)) ++ " " ++ show_ (resultName (nm inf) (nm exp) (ident (fresh.drop 2).toString)))
  | _ => none
end Drv.Projection
