/- drv handler for the relational reference semantics: `eval <db sexp> <prog sexp>` -/
import PrqlModel.Drv.SExp
import PrqlModel.Model.Rel
namespace Drv.Rel
open Model.Rel Drv

def value? : SExp → Option Value
  | .atom "N" => some .null
  | .atom "T" => some (.bool true)
  | .atom "F" => some (.bool false)
  | a@(.atom s) =>
    if s.startsWith "s:" then a.str?.map .str else s.toInt?.map .int
  | _ => none

def binop? : String → Option BinOp
  | "add" => some .add | "sub" => some .sub | "mul" => some .mul
  | "eq" => some .eq | "ne" => some .ne | "lt" => some .lt | "le" => some .le | "gt" => some .gt | "ge" => some .ge
  | "and" => some .and | "or" => some .or | "coalesce" => some .coalesce | "concat" => some .concat
  | _ => none

partial def expr? : SExp → Option Expr
  | .list [.atom "col", i] => i.nat?.map .col
  | .list [.atom "lit", v] => (value? v).map .lit
  | .list [.atom "neg", a] => (expr? a).map .neg
  | .list [.atom "not", a] => (expr? a).map .not
  | .list [.atom "isnull", a] => (expr? a).map .isNull
  | .list [.atom "notnull", a] => (expr? a).map .notNull
  | .list [.atom "ite", c, t, e] => do pure (.ite (← expr? c) (← expr? t) (← expr? e))
  | .list [.atom op, a, b] => do pure (.bin (← binop? op) (← expr? a) (← expr? b))
  | _ => none

def optNat? : SExp → Option (Option Nat)
  | .atom "-" => some none
  | a => a.nat?.map some

def optInt? : SExp → Option (Option Int)
  | .atom "-" => some none
  | a => a.int?.map some

def list? (f : SExp → Option α) : SExp → Option (List α)
  | .list xs => xs.mapM f
  | _ => none

def key? : SExp → Option SortKey
  | .list [.atom "asc", e] => (expr? e).map (·, false)
  | .list [.atom "desc", e] => (expr? e).map (·, true)
  | _ => none

def aggfn? : String → Option AggFn
  | "sum" => some .sum | "count" => some .count | "min" => some .min | "max" => some .max
  | "count_distinct" => some .countDistinct | "any" => some .any | "all" => some .all
  | _ => none

def agg? : SExp → Option Agg
  | .list [.atom f, e] => do pure (← aggfn? f, ← expr? e)
  | _ => none

def src? : SExp → Option Src
  | .list [.atom "base", i] => i.nat?.map .base
  | .list [.atom "ref", i] => i.nat?.map .ref
  | _ => none

def side? : String → Option JoinSide
  | "inner" => some .inner | "left" => some .left | "right" => some .right | "full" => some .full
  | _ => none

def winfn? : SExp → Option WinFn
  | .atom "sum" => some .sum | .atom "count" => some .count | .atom "min" => some .min | .atom "max" => some .max
  | .atom "row_number" => some .rowNumber | .atom "rank" => some .rank | .atom "rank_dense" => some .rankDense
  | .atom "first" => some .first | .atom "last" => some .last
  | .atom "sum_null" => some .sumNull | .atom "first_implicit" => some .firstImplicit | .atom "last_implicit" => some .lastImplicit
  | .list [.atom "lag", n] => n.nat?.map .lag
  | .list [.atom "lead", n] => n.nat?.map .lead
  | _ => none

def frame? : SExp → Option (Option Frame)
  | .atom "-" => some none
  | .list [lo, hi] => do pure (some { lo := ← optInt? lo, hi := ← optInt? hi })
  | _ => none

def window? : SExp → Option Window
  | .list [part, order, fr, fn, arg] => do
    pure { partition := ← list? SExp.nat? part, order := ← list? key? order, frame := ← frame? fr,
           fn := ← winfn? fn, arg := ← expr? arg }
  | _ => none

def tr? : SExp → Option Tr
  | .list [.atom "select", es] => (list? expr? es).map .select
  | .list [.atom "derive", es] => (list? expr? es).map .derive
  | .list [.atom "filter", e] => (expr? e).map .filter
  | .list [.atom "sort", ks] => (list? key? ks).map .sort
  | .list [.atom "take", lo, hi] => do pure (.take (← optNat? lo) (← optNat? hi))
  | .list [.atom "aggregate", as] => (list? agg? as).map .aggregate
  | .list [.atom "group_agg", by_, as] => do pure (.groupAgg (← list? SExp.nat? by_) (← list? agg? as))
  | .list [.atom "group_take", by_, ks, lo, hi] => do
    pure (.groupTake (← list? SExp.nat? by_) (← list? key? ks) (← optNat? lo) (← optNat? hi))
  | .list [.atom "group_sort", by_, ks] => do pure (.groupSort (← list? SExp.nat? by_) (← list? key? ks))
  | .list [.atom "window", by_, ws] => do pure (.window (← list? SExp.nat? by_) (← list? window? ws))
  | .list [.atom "join", .atom side, right, lw, rw, cond] => do
    pure (.join (← side? side) (← src? right) (← lw.nat?) (← rw.nat?) (← expr? cond))
  | .list [.atom "append", right] => (src? right).map .append
  | _ => none

def pipe? : SExp → Option Pipe
  | .list [s, trs] => do pure { src := ← src? s, trs := ← list? tr? trs }
  | _ => none

def prog? : SExp → Option Prog
  | .list [lets, main] => do pure { lets := ← list? pipe? lets, main := ← pipe? main }
  | _ => none

def db? : SExp → Option Db := list? (list? (list? value?))

def showValue : Value → String
  | .null => "N"
  | .int i => toString i
  | .bool true => "T"
  | .bool false => "F"
  | .str s => "s:" ++ ".".intercalate (s.map fun c => toString c.toNat)

def showRows (rows : List Row) : String :=
  ";".intercalate (rows.map fun r => ",".intercalate (r.map showValue))

def b (x : Bool) : String := if x then "1" else "0"

def handle (fields : List String) : Option String :=
  match fields with
  | ["eval", db, prog] =>
    match (SExp.ofString db).bind db?, (SExp.ofString prog).bind prog? with
    | some d, some p =>
      let t := evalSrc d p
      some s!"ok {b t.sorted} {b t.ties} {b t.ambig} {t.rows.length} {showRows t.rows}"
    | none, _ => some "bad-db"
    | _, none => some "bad-prog"
  | _ => none

end Drv.Rel
