/-
Handler for C16:  wfrq <rq json document>  ->  ok <#tables> <#defs> <#uses> | bad <reason code>; lax ok | bad <reason code>; lax bad <reason code>
                             | undecodable | bad-json     (lax = wfRqLax, see Model/Rq.lean)
The document is the serde JSON of `RelationalQuery` exactly as prqlc emits it.
-/
import PrqlModel.Drv.Util
import PrqlModel.Drv.Json
import PrqlModel.Model.Rq
namespace Drv.Rq
open Model Model.Rq

def handle (fields : List String) : Option String :=
  match fields with
  | ["wfrq", d] =>
    match Drv.Json.field d with
    | none => some "bad-json"
    | some j =>
      match Model.Rq.ofJson j with
      | none => some "undecodable"
      | some rq =>
        match wfRq rq with
        | .ok _ => some s!"ok {rq.tables.length} {rq.defs.length} {rq.uses.length}"
        | .error e =>
          let lax := match wfRqLax rq with
            | .ok _ => "ok"
            | .error e2 => "bad " ++ e2.code
          some ("bad " ++ e.code ++ "; lax " ++ lax)
  | _ => none
end Drv.Rq
