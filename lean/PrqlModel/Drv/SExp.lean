/- S-expression reader for structured requests: tokens separated by single spaces, `(` and `)` are tokens. -/
namespace Drv

inductive SExp
  | atom (s : String)
  | list (xs : List SExp)
  deriving Repr, Inhabited

/-- stack-based reader; `none` on unbalanced input -/
def SExp.read (toks : List String) : Option SExp :=
  let rec go (toks : List String) (stack : List (List SExp)) : Option SExp :=
    match toks with
    | [] => match stack with
      | [[x]] => some x
      | _ => none
    | "(" :: rest => go rest ([] :: stack)
    | ")" :: rest =>
      match stack with
      | top :: next :: more => go rest ((SExp.list top.reverse :: next) :: more)
      | _ => none
    | "" :: rest => go rest stack
    | a :: rest =>
      match stack with
      | top :: more => go rest ((SExp.atom a :: top) :: more)
      | [] => none
  go toks [[]]

def SExp.ofString (s : String) : Option SExp := SExp.read (s.splitOn " ")

def SExp.nat? : SExp → Option Nat
  | .atom s => s.toNat?
  | _ => none

def SExp.int? : SExp → Option Int
  | .atom s => s.toInt?
  | _ => none

/-- string atom: `s:` followed by dot-separated code points -/
def SExp.str? : SExp → Option (List Char)
  | .atom s =>
    if s.startsWith "s:" then
      some (((s.drop 2).toString.splitOn ".").filterMap fun w => w.toNat?.map Char.ofNat)
    else none
  | _ => none

end Drv
