/-
Handlers for C10 (Model/Scope.lean).

  scope <program s-expression>      -> ok <final frame> | err unknown <ref> | err ambiguous <ref> | err not-relation | bad-request
  resolve <frame s-expression> <ref> [<global> ...]
                                    -> ok column <input|->.<name> | ok inferred <input>.<name> | ok global <name>
                                       | err unknown | err ambiguous | bad-request
  bindargs <#positional params> <named params> <#positional args> <named args>
                                    -> ok | too-many | missing | unknown-named <name>      (Model.Fn.bindArgs)

program  := ( ( global* ) ( pipeline* ) pipeline )          the `let` / inline pipelines in order, then the main pipeline
pipeline := ( source alias step* )                           alias := - | name
source   := ( table name - ) | ( table name ( col* ) ) | ( let name idx ) | ( inline idx ) | ( scalar )
step     := ( select item* ) | ( derive item* ) | ( filter ref* ) | ( sort item* ) | ( take ) | ( aggregate item* )
          | ( groupagg ( item* ) ( item* ) ) | ( groupwin ( item* ) ( item* ) )
          | ( join source alias ( ref* ) ( ref* ) ( ref* ) ) | ( append source )
item     := ( alias plain ref* )                             plain := 0 | 1
ref      := name | qualifier.name
frame    := ( col* )    col := ( s name|- input|- ) | ( all input )
Names are plain atoms (identifier characters only).
-/
import PrqlModel.Drv.SExp
import PrqlModel.Model.Scope
namespace Drv.Scope
open Model.Scope Drv

def name? : SExp → Option Name
  | .atom s => if s == "-" || s.isEmpty then none else some s.toList
  | _ => none

def optName? : SExp → Option (Option Name)
  | .atom "-" => some none
  | a => (name? a).map some

def ref? : SExp → Option Ref
  | .atom s =>
    match s.splitOn "." with
    | [n] => if n.isEmpty then none else some { name := n.toList }
    | [q, n] => if n.isEmpty || q.isEmpty then none else some { qual := some q.toList, name := n.toList }
    | _ => none
  | _ => none

def list? {α : Type} (f : SExp → Option α) : SExp → Option (List α)
  | .list xs => xs.mapM f
  | _ => none

def item? : SExp → Option Item
  | .list (a :: .atom p :: refs) => do
    let al ← optName? a
    let rs ← refs.mapM ref?
    pure { alias := al, refs := rs, plain := p == "1" }
  | _ => none

def source? : SExp → Option Source
  | .list [.atom "table", n, .atom "-"] => (name? n).map fun n => .table n none
  | .list [.atom "table", n, cols] => do pure (.table (← name? n) (some (← list? name? cols)))
  | .list [.atom "let", n, i] => do pure (.letRef (← name? n) (← i.nat?))
  | .list [.atom "inline", i] => i.nat?.map .inline
  | .list [.atom "scalar"] => some .scalar
  | _ => none

def step? : SExp → Option Step
  | .list (.atom "select" :: items) => (items.mapM item?).map .select
  | .list (.atom "derive" :: items) => (items.mapM item?).map .derive
  | .list (.atom "filter" :: refs) => (refs.mapM ref?).map .filter
  | .list (.atom "sort" :: items) => (items.mapM item?).map .sort
  | .list [.atom "take"] => some .take
  | .list (.atom "aggregate" :: items) => (items.mapM item?).map .aggregate
  | .list [.atom "groupagg", ks, items] => do pure (.groupAgg (← list? item? ks) (← list? item? items))
  | .list [.atom "groupwin", ks, items] => do pure (.groupWin (← list? item? ks) (← list? item? items))
  | .list [.atom "join", s, a, b, l, r] => do
    pure (.join (← source? s) (← optName? a) (← list? ref? b) (← list? ref? l) (← list? ref? r))
  | .list [.atom "append", s] => (source? s).map .append
  | _ => none

def pipeline? : SExp → Option Pipeline
  | .list (s :: a :: steps) => do pure { src := (← source? s), alias := (← optName? a), steps := (← steps.mapM step?) }
  | _ => none

def program? : SExp → Option Program
  | .list [gs, lets, main] => do
    let g ← list? name? gs
    pure { env := { globals := g ++ Gen.stdTopLevel }, lets := (← list? pipeline? lets), main := (← pipeline? main) }
  | _ => none

def col? : SExp → Option Col
  | .list [.atom "s", n, i] => do pure (.single (← optName? n) (← optName? i))
  | .list [.atom "all", i] => (name? i).map .all
  | _ => none

def showName (n : Name) : String := String.ofList n

def showRef (r : Ref) : String :=
  match r.qual with
  | some q => showName q ++ "." ++ showName r.name
  | none => showName r.name

def showCol : Col → String
  | .single n i => (match i with | some i => showName i ++ "." | none => "") ++ (match n with | some n => showName n | none => "?")
  | .all i => showName i ++ ".*"
  | .thatSingle n i => "that." ++ (match i with | some i => showName i ++ "." | none => "") ++ (match n with | some n => showName n | none => "?")

def showErr : ScopeErr → String
  | .unknown r => "err unknown " ++ showRef r
  | .ambiguous r => "err ambiguous " ++ showRef r
  | .notRelation => "err not-relation"

def handle (fields : List String) : Option String :=
  match fields with
  | ["scope", prog] =>
    match (SExp.ofString prog).bind program? with
    | none => some "bad-request"
    | some p =>
      match firstError p with
      | some e => some (showErr e)
      | none =>
        let fr := p.main.frame p.env (letFrames p.env p.lets [])
        some ("ok " ++ ",".intercalate (fr.map showCol))
  | "resolve" :: frame :: r :: globals =>
    match (SExp.ofString frame).bind (list? col?), ref? (.atom r) with
    | some fr, some r =>
      let env : Env := { globals := globals.map String.toList ++ Gen.stdTopLevel }
      match resolve env fr r with
      | .ok (.column i n) => some ("ok column " ++ (match i with | some i => showName i | none => "-") ++ "." ++ showName n)
      | .ok (.thatColumn i n) => some ("ok that-column " ++ (match i with | some i => showName i | none => "-") ++ "." ++ showName n)
      | .ok (.inferred i n) => some ("ok inferred " ++ showName i ++ "." ++ showName n)
      | .ok (.global n) => some ("ok global " ++ showName n)
      | .error (.unknown _) => some "err unknown"
      | .error (.ambiguous _) => some "err ambiguous"
      | .error .notRelation => some "err not-relation"
    | _, _ => some "bad-request"
  | ["bindargs", npos, named, gpos, gnamed] =>
    -- Model.Fn.bindArgs on a declaration with `npos` positional and the given named parameters, called with `gpos`
    -- positional and the given named arguments
    match npos.toNat?, gpos.toNat? with
    | some np, some gp =>
      let names (s : String) : List (List Char) := (s.splitOn " ").filter (· ≠ "") |>.map String.toList
      let lit : Model.Rel.Expr := .lit .null
      let decl : Model.Fn.FnDecl := { positional := np, named := (names named).map fun n => (n, lit), body := lit }
      match Model.Fn.bindArgs decl (List.replicate gp lit) ((names gnamed).map fun n => (n, lit)) with
      | .ok _ => some "ok"
      | .error .tooManyPositional => some "too-many"
      | .error .missingPositional => some "missing"
      | .error (.unknownNamed n) => some ("unknown-named " ++ showName n)
    | _, _ => some "bad-request"
  | _ => none
end Drv.Scope
