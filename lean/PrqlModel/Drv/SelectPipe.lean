import PrqlModel.Drv.Util
import PrqlModel.Model.SelectPipe
/-
Line protocol for the mirror of the clause assembly of translate_select_pipeline.

pipe : `;`-separated: `F` from, `J` join, `S<cids>` select, `W<tag>` filter, `A<cids>|<cids>` aggregate (partition|compute),
       `O<cs>` sort (`<cid>a` / `<cid>d`, comma separated), `T<s>:<e>` take (bound `-` or a number), `D` distinct,
       `N<cids>` distinct on, `X` anything else
selparts <pipe> -> proj=<cids>/<cids>.. order=<cs> nsorts=<n> ranges=<s>:<e>/.. take=<s>:<e> distinct=<0/1> don=<cids>/.. where=<tags> having=<tags> group=<cids>
-/
namespace Drv.SelectPipe
open Model.SelectPipe

def cids (s : String) : Option (List Nat) :=
  if s.isEmpty then some [] else (s.splitOn ",").mapM (·.toNat?)

def showCids (l : List Nat) : String := ",".intercalate (l.map toString)

def cs1 (s : String) : Option CS :=
  let body := (s.dropEnd 1).toString
  match s.back, body.toNat? with
  | 'a', some n => some { col := n, desc := false }
  | 'd', some n => some { col := n, desc := true }
  | _, _ => none

def css (s : String) : Option (List CS) :=
  if s.isEmpty then some [] else (s.splitOn ",").mapM cs1

def showCss (l : List CS) : String :=
  ",".intercalate (l.map fun c => toString c.col ++ (if c.desc then "d" else "a"))

def bound (s : String) : Option (Option Nat) :=
  if s == "-" then some none else s.toNat?.map some

def showBound : Option Nat → String
  | none => "-"
  | some n => toString n

def showRange (r : Model.Take.Range) : String := showBound r.1 ++ ":" ++ showBound r.2

def tr (s : String) : Option Tr :=
  let body := (s.drop 1).toString
  match s.front with
  | 'F' => some .from
  | 'J' => some .join
  | 'S' => (cids body).map .select
  | 'W' => body.toNat?.map .filter
  | 'A' => match body.splitOn "|" with
    | [p, c] => do pure (.aggregate (← cids p) (← cids c))
    | _ => none
  | 'O' => (css body).map .sort
  | 'T' => match body.splitOn ":" with
    | [a, b] => do pure (.take (← bound a, ← bound b))
    | _ => none
  | 'D' => some .distinct
  | 'N' => (cids body).map .distinctOn
  | 'X' => some .other
  | _ => none

def pipe (s : String) : Option (List Tr) :=
  if s.isEmpty then some [] else (s.splitOn ";").mapM tr

def handle (fields : List String) : Option String :=
  match fields with
  | ["selparts", p] =>
    match pipe p with
    | some p =>
      let q := parts p
      some (s!"proj={"/".intercalate (q.projections.map showCids)} order={showCss q.orderBy} nsorts={q.sorts.length} " ++
            s!"ranges={"/".intercalate (q.ranges.map showRange)} take={showRange q.take} distinct={if q.isDistinct then 1 else 0} " ++
            s!"don={"/".intercalate (q.distinctOns.map showCids)} where={showCids q.where_} having={showCids q.having} group={showCids q.groupBy}")
    | none => some "bad-request"
  | _ => none

end Drv.SelectPipe
