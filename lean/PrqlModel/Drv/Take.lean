import PrqlModel.Drv.Util
import PrqlModel.Model.Take
namespace Drv.Take
open Model.Take

def optNat (s : String) : Option Nat := if s == "-" then none else s.toNat?

def parseRanges (f : String) : List Range :=
  (f.splitOn ";").filterMap fun r =>
    match r.splitOn "," with
    | [a, b] => some (optNat a, optNat b)
    | _ => none

def showOpt : Option Nat → String
  | none => "-"
  | some n => toString n

/-- `ranges <s,e;s,e;…>` → `<start> <end> <limit> <offset>` of the folded range -/
def handle (fields : List String) : Option String :=
  match fields with
  | ["ranges", rs] =>
    let r := rangeOfRanges (parseRanges rs)
    let lo := limitOffsetOf r
    some s!"{showOpt r.1} {showOpt r.2} {showOpt lo.1} {lo.2}"
  | _ => none
end Drv.Take
