import PrqlModel.Drv.Util
import PrqlModel.Model.Target
namespace Drv.Target
open Model Gen Drv

def optDialect (f : String) : Option Dialect :=
  if f == "-" then none else dialectFromStr f.toList

def handle (fields : List String) : Option String :=
  match fields with
  | ["choose", opt, hasHeader, header] =>
    let o := optDialect opt
    let h := if hasHeader == "1" then some (decStr header) else none
    match chooseDialect o h with
    | .ok d => some ("ok " ++ d.name)
    | .error e => some ("err " ++ encStr e)
  | ["target_from_str", s] =>
    match targetFromStr (decStr s) with
    | .ok none => some "ok -"
    | .ok (some d) => some ("ok " ++ d.name)
    | .error _ => some "err"
  | _ => none
end Drv.Target
