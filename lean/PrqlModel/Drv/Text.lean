import PrqlModel.Drv.Util
import PrqlModel.Model.Text
/-! driver ops of Model/Text:
  b2c      <src> <bytes…>            -> per byte offset: char offset or `-` (Rust slice would panic)
  linecol  <src> <offs…>             -> per char offset: `l:c` or `-`
  compose  <src> <start> <stop>      -> `l:c l:c`, `panic-bounds` (the location assert) or `panic-order` (ariadne label)
  lexconv  <src> <bs> <be>           -> `cs ce <reason>` or `panic`
  mapspan  <s:e s:e …> <i> <j>       -> `start stop`
  linetext <src> <l>                 -> text of line l (without terminators) or `-`
  interp   <tokstart> <a> <b>        -> `start stop` of the rebased inner span
-/
namespace Drv.Text
open Model.Text Drv

def nats (f : String) : List Nat := (f.splitOn " ").filterMap (·.toNat?)

def lc (x : Option (Nat × Nat)) : String :=
  match x with
  | some (l, c) => toString l ++ ":" ++ toString c
  | none => "-"

def parseTok (w : String) : Option Tok :=
  match w.splitOn ":" with
  | [a, b] => match a.toNat?, b.toNat? with
    | some a, some b => some ⟨a, b⟩
    | _, _ => none
  | _ => none

def handle (fields : List String) : Option String :=
  match fields with
  | ["b2c", src, bytes] =>
    let s := decStr src
    some (" ".intercalate ((nats bytes).map fun b => match charOfByte s b with | some k => toString k | none => "-"))
  | ["linecol", src, offs] =>
    let s := decStr src
    some (" ".intercalate ((nats offs).map fun o => lc (lineCol s o)))
  | ["compose", src, a, b] =>
    match a.toNat?, b.toNat? with
    | some a, some b =>
      match composed (decStr src) ⟨a, b, 1⟩ with
      | .ok l => some (lc (some l.startLC) ++ " " ++ lc (some l.endLC))
      | .panicOutOfBounds => some "panic-bounds"
      | .panicLabelOrder => some "panic-order"
    | _, _ => none
  | ["lexconv", src, a, b] =>
    match a.toNat?, b.toNat? with
    | some a, some b =>
      match convertLexerError (decStr src) a b 0 with
      | some e => some (toString e.span.start ++ " " ++ toString e.span.stop ++ "\t" ++ encStr e.reason)
      | none => some "panic"
    | _, _ => none
  | ["mapspan", toks, i, j] =>
    match i.toNat?, j.toNat? with
    | some i, some j =>
      let sp := mapSpan ((toks.splitOn " ").filterMap parseTok) i j 1
      some (toString sp.start ++ " " ++ toString sp.stop)
    | _, _ => none
  | ["linetext", src, l] =>
    match l.toNat? with
    | some l => match lineText (decStr src) l with
      | some t => some ("ok " ++ encStr t)
      | none => some "-"
    | none => none
  | ["interp", t, a, b] =>
    match t.toNat?, a.toNat?, b.toNat? with
    | some t, some a, some b =>
      let sp := interpRebase (interpBase ⟨t, t, 1⟩) a b
      some (toString sp.start ++ " " ++ toString sp.stop)
    | _, _, _ => none
  | _ => none
end Drv.Text
