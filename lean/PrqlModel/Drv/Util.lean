/- Line-protocol helpers. A string field is a space-separated list of decimal code points. -/
namespace Drv

def decStr (f : String) : List Char :=
  (f.splitOn " ").filterMap fun w => w.toNat?.map Char.ofNat

def encStr (s : List Char) : String :=
  " ".intercalate (s.map fun c => toString c.toNat)

end Drv
