import PrqlModel.Drv.Util
import PrqlModel.Model.Wildcards
namespace Drv.Wildcards
open Model.Wildcards

def nats (s : String) : List Nat := (s.splitOn " ").filterMap (·.toNat?)

/-- `wildcards <cols> <decls> <instances>`: cols = space separated cids; decls = `cid:riid` of the WILDCARD
columns separated by `;`; instances = `riid:cid cid …` separated by `;`.
answer: `<output cids> | k:e e;k:e …` -/
def handle (fields : List String) : Option String :=
  match fields with
  | ["wildcards", cols, decls, insts] =>
    let pair (s : String) : Option (Nat × String) :=
      match s.splitOn ":" with
      | [a, b] => a.toNat?.map (·, b)
      | _ => none
    let ds := (decls.splitOn ";").filterMap fun s => (pair s).bind fun (c, r) => r.toNat?.map (c, ·)
    let is := (insts.splitOn ";").filterMap fun s => (pair s).map fun (r, cs) => (r, nats cs)
    let env : Env := { wild := fun c => ds.lookup c, orig := fun r => (is.lookup r).getD [] }
    let (out, E) := run env (nats cols)
    let ex := (exclCanon E).map fun (k, s) => toString k ++ ":" ++ " ".intercalate (s.map toString)
    some (" ".intercalate (out.map toString) ++ " | " ++ ";".intercalate ex)
  | _ => none
end Drv.Wildcards
