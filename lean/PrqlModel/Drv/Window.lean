import PrqlModel.Drv.Util
import PrqlModel.Model.Window
namespace Drv.Window
open Model.Window

def optInt (s : String) : Option Int := if s == "-" then none else s.toInt?

def showBound : Bound → String
  | .unboundedPreceding => "UNBOUNDED PRECEDING"
  | .preceding n => s!"{n} PRECEDING"
  | .currentRow => "CURRENT ROW"
  | .following n => s!"{n} FOLLOWING"
  | .unboundedFollowing => "UNBOUNDED FOLLOWING"

/-- `winframe <supportsFrame 0/1> <sortEmpty 0/1> <expanding 0/1> <rolling> <rowsLo> <rowsHi> <rangeLo> <rangeHi>`
    → the frame clause text or `-` -/
def handle (fields : List String) : Option String :=
  match fields with
  | ["winframe", sup, se, ex, rolling, rl, rh, gl, gh] =>
    let p := windowParams (ex == "1") (rolling.toInt?.getD 0) (optInt rl, optInt rh) (optInt gl, optInt gh)
    match emitFrame (sup == "1") (se == "1") p with
    | none => some "-"
    | some (k, b1, b2) =>
      some s!"{if k == .rows then "ROWS" else "RANGE"} BETWEEN {showBound b1} AND {showBound b2}"
  | _ => none
end Drv.Window
