/-
Aggregation of the reference semantics does not depend on the order of the rows – this is why the compiler
may drop a sort that precedes an aggregate (sql/pq/postprocess.rs clears the sorting at `Aggregate`).
  * `aggVal_perm`   count, sum, count_distinct, any, all: unconditionally; min / max: when the values of the
                    column are not "equal but different" (`true` and `1` compare equal in SQLite: a column
                    that mixes booleans and integers has no well-defined minimum) – `ValAntisym`
  * `aggRow_perm`   the row of aggregates
  * `groupRows_perm` `group by_ (aggregate aggs)`: the GROUPS come in order of first occurrence, so a different
                    input order permutes the result rows (and nothing else)
Core Lean only.
-/
import PrqlModel.Lemmas.ValueOrd
namespace Lemmas.AggPerm
open Model.Rel Std

/-! ### dedup -/

section Dedup
variable {β : Type} [BEq β] [LawfulBEq β]

theorem mem_dedup_iff {x : β} {l : List β} : x ∈ dedup l ↔ x ∈ l := by
  induction l with
  | nil => simp [dedup]
  | cons y ys ih =>
    simp only [dedup, List.mem_cons, List.mem_filter, ih]
    constructor
    · rintro (h | ⟨h, _⟩)
      · exact Or.inl h
      · exact Or.inr h
    · rintro (h | h)
      · exact Or.inl h
      · by_cases hxy : x = y
        · exact Or.inl hxy
        · exact Or.inr ⟨h, by simpa using hxy⟩

theorem nodup_dedup (l : List β) : (dedup l).Nodup := by
  induction l with
  | nil => exact List.Pairwise.nil
  | cons y ys ih =>
    simp only [dedup]
    refine List.pairwise_cons.mpr ⟨?_, List.Pairwise.filter _ ih⟩
    intro a ha
    have := (List.mem_filter.mp ha).2
    intro h; subst h; simp at this

theorem dedup_perm {l1 l2 : List β} (h : l1.Perm l2) : (dedup l1).Perm (dedup l2) := by
  rw [List.perm_ext_iff_of_nodup (nodup_dedup l1) (nodup_dedup l2)]
  intro a; rw [mem_dedup_iff, mem_dedup_iff]; exact h.mem_iff

end Dedup

/-! ### min / max -/

/-- no two DIFFERENT values of the list compare equal -/
def ValAntisym (vals : List Value) : Prop := ∀ a ∈ vals, ∀ b ∈ vals, a.cmp b = .eq → a = b

theorem ValAntisym.sub {l1 l2 : List Value} (h : ValAntisym l2) (hs : ∀ a ∈ l1, a ∈ l2) : ValAntisym l1 :=
  fun a ha b hb => h a (hs a ha) b (hs b hb)

/-- one step of the running minimum for a comparison `c` (the running maximum is the one for the opposite) -/
def pick (c : Value → Value → Ordering) (acc v : Value) : Value :=
  match acc with
  | .null => v
  | a => if c v a == .lt then v else a

theorem pick_nonnull {c : Value → Value → Ordering} {a v : Value} (ha : a ≠ .null) :
    pick c a v = if c v a == .lt then v else a := by
  cases a <;> first | rfl | exact absurd rfl ha

/-- the running minimum from a non-null start over non-null values is a least element -/
theorem foldl_pick_least (c : Value → Value → Ordering) [TransCmp c] (l : List Value) (a : Value)
    (ha : a ≠ .null) (hl : ∀ v ∈ l, v ≠ .null) :
    l.foldl (pick c) a ∈ a :: l ∧ ∀ v ∈ a :: l, (c (l.foldl (pick c) a) v).isLE = true := by
  induction l generalizing a with
  | nil =>
    refine ⟨List.mem_cons_self .., ?_⟩
    intro v hv
    rw [List.mem_singleton.mp hv]
    simp [List.foldl, ReflCmp.compare_self (cmp := c)]
  | cons v l ih =>
    have hv : v ≠ .null := hl v (List.mem_cons_self ..)
    have hl' : ∀ u ∈ l, u ≠ .null := fun u hu => hl u (List.mem_cons_of_mem _ hu)
    simp only [List.foldl_cons]
    rw [pick_nonnull ha]
    by_cases hlt' : (c v a == .lt) = true
    · have hlt : c v a = .lt := by simpa using hlt'
      rw [if_pos hlt']
      obtain ⟨hm, hle⟩ := ih v hv hl'
      refine ⟨?_, ?_⟩
      · rcases List.mem_cons.mp hm with h | h
        · rw [h]; simp
        · exact List.mem_cons_of_mem _ (List.mem_cons_of_mem _ h)
      · intro u hu
        rcases List.mem_cons.mp hu with rfl | hu
        · exact TransCmp.isLE_trans (hle v (List.mem_cons_self ..)) (by simp [hlt])
        · exact hle u hu
    · have hlt : ¬ c v a = .lt := by simpa using hlt'
      rw [if_neg hlt']
      obtain ⟨hm, hle⟩ := ih a ha hl'
      refine ⟨?_, ?_⟩
      · rcases List.mem_cons.mp hm with h | h
        · rw [h]; simp
        · exact List.mem_cons_of_mem _ (List.mem_cons_of_mem _ h)
      · intro u hu
        rcases List.mem_cons.mp hu with rfl | hu
        · exact hle _ (List.mem_cons_self ..)
        · rcases List.mem_cons.mp hu with rfl | hu
          · have hav : (c a u).isLE = true := by
              rw [OrientedCmp.eq_swap (cmp := c)]
              cases h : c u a <;> simp_all
            exact TransCmp.isLE_trans (hle a (List.mem_cons_self ..)) hav
          · exact hle u (List.mem_cons_of_mem _ hu)

theorem foldl_pick_perm (c : Value → Value → Ordering) [TransCmp c] {l1 l2 : List Value}
    (hp : l1.Perm l2) (hn : ∀ v ∈ l1, v ≠ .null) (hanti : ∀ a ∈ l1, ∀ b ∈ l1, c a b = .eq → a = b) :
    l1.foldl (pick c) .null = l2.foldl (pick c) .null := by
  cases l1 with
  | nil => rw [hp.nil_eq]
  | cons x xs =>
    cases l2 with
    | nil => exact absurd hp.symm.nil_eq (by simp)
    | cons y ys =>
      have hn2 : ∀ v ∈ y :: ys, v ≠ .null := fun v hv => hn v (hp.mem_iff.mpr hv)
      simp only [List.foldl_cons, pick]
      obtain ⟨hm1, hle1⟩ := foldl_pick_least c xs x (hn x (List.mem_cons_self ..))
        (fun v hv => hn v (List.mem_cons_of_mem _ hv))
      obtain ⟨hm2, hle2⟩ := foldl_pick_least c ys y (hn2 y (List.mem_cons_self ..))
        (fun v hv => hn2 v (List.mem_cons_of_mem _ hv))
      have hm2' := hp.mem_iff.mpr hm2
      have h12 := hle1 _ hm2'
      have h21 := hle2 _ (hp.mem_iff.mp hm1)
      exact hanti _ hm1 _ hm2' (OrientedCmp.isLE_antisymm h12 h21)

/-! ### aggregates -/

theorem foldl_add_perm {l1 l2 : List Int} (h : l1.Perm l2) (z : Int) :
    l1.foldl (· + ·) z = l2.foldl (· + ·) z :=
  h.foldl_eq' (fun x _ y _ z => by omega) z

theorem aggVal_min_eq (l : List Value) :
    aggVal .min l = (l.filter (· != Value.null)).foldl (pick Value.cmp) .null := by
  simp only [aggVal]; congr 1

theorem aggVal_max_eq (l : List Value) :
    aggVal .max l = (l.filter (· != Value.null)).foldl (pick (fun a b => Value.cmp b a)) .null := by
  simp only [aggVal]; congr 1
  funext acc v
  have h : (v.cmp acc == .gt) = (acc.cmp v == .lt) := by
    rw [OrientedCmp.eq_swap (cmp := Value.cmp) (a := acc)]; cases v.cmp acc <;> rfl
  cases acc <;> simp only [pick, h]

/-- **an aggregate does not depend on the order of its input** -/
theorem aggVal_perm (f : AggFn) {l1 l2 : List Value} (hp : l1.Perm l2)
    (hf : (f = .min ∨ f = .max) → ValAntisym l1) : aggVal f l1 = aggVal f l2 := by
  have hnn := hp.filter (· != Value.null)
  have hnull : ∀ v ∈ l1.filter (· != Value.null), v ≠ .null := by
    intro v hv; simpa using (List.mem_filter.mp hv).2
  cases f with
  | count => simp [aggVal, hp.length_eq]
  | sum => simp only [aggVal]; rw [foldl_add_perm (hnn.filterMap _)]
  | countDistinct => simp only [aggVal]; rw [(dedup_perm hnn).length_eq]
  | any => simp only [aggVal]; rw [hnn.any_eq]
  | all => simp only [aggVal]; rw [hnn.all_eq]
  | min =>
    rw [aggVal_min_eq, aggVal_min_eq]
    apply foldl_pick_perm Value.cmp hnn hnull
    have := (hf (Or.inl rfl)).sub (l1 := l1.filter (· != Value.null)) (fun a ha => (List.mem_filter.mp ha).1)
    exact this
  | max =>
    rw [aggVal_max_eq, aggVal_max_eq]
    have : TransCmp (fun a b => Value.cmp b a) := TransCmp.opposite
    apply foldl_pick_perm _ hnn hnull
    have hs := (hf (Or.inr rfl)).sub (l1 := l1.filter (· != Value.null)) (fun a ha => (List.mem_filter.mp ha).1)
    intro a ha b hb hab
    exact (hs b hb a ha hab).symm

/-- the min / max arguments take no "equal but different" values on the rows -/
def AggOk (aggs : List Agg) (rows : List Row) : Prop :=
  ∀ a ∈ aggs, (a.1 = .min ∨ a.1 = .max) → ValAntisym (rows.map a.2.eval)

theorem AggOk.sub {aggs : List Agg} {l1 l2 : List Row} (h : AggOk aggs l2) (hs : ∀ r ∈ l1, r ∈ l2) :
    AggOk aggs l1 := by
  intro a ha hm
  refine (h a ha hm).sub ?_
  intro v hv
  obtain ⟨r, hr, rfl⟩ := List.mem_map.mp hv
  exact List.mem_map.mpr ⟨r, hs r hr, rfl⟩

theorem aggRow_perm (aggs : List Agg) {l1 l2 : List Row} (hp : l1.Perm l2) (hok : AggOk aggs l1) :
    aggRow aggs l1 = aggRow aggs l2 := by
  simp only [aggRow]
  apply List.map_congr_left
  intro a ha
  exact aggVal_perm a.1 (hp.map _) (hok a ha)

/-- the rows of `group (aggregate)` for an arbitrary key function -/
def groupRows (key : Row → Row) (aggs : List Agg) (rows : List Row) : List Row :=
  (dedup (rows.map key)).map fun k => k ++ aggRow aggs (rows.filter fun r => key r == k)

theorem groupRows_perm (key : Row → Row) (aggs : List Agg) {l1 l2 : List Row} (hp : l1.Perm l2)
    (hok : AggOk aggs l1) : (groupRows key aggs l1).Perm (groupRows key aggs l2) := by
  simp only [groupRows]
  have h1 : (dedup (l1.map key)).map (fun k => k ++ aggRow aggs (l1.filter fun r => key r == k))
      = (dedup (l1.map key)).map (fun k => k ++ aggRow aggs (l2.filter fun r => key r == k)) := by
    apply List.map_congr_left
    intro k _
    rw [aggRow_perm aggs (hp.filter _) (hok.sub (fun r hr => (List.mem_filter.mp hr).1))]
  rw [h1]
  exact (dedup_perm (hp.map key)).map _

end Lemmas.AggPerm
