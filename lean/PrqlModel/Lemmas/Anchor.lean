/-
Scope invariant of the back-to-front scan of `split_off_back` (Model/Anchor.lean).

For a well-formed pipeline the final requirement list `R` of the scan is a *self-supporting* set: it contains every
column the SELECT built from the atomic part reads, and every column of `R` is either provided from outside (it is then
in `missing`, i.e. selected by the preceding part, which defines it), a column of a relation instance of the atomic part,
or a compute kept in the atomic part whose own reads lie in `R` again.
-/
import PrqlModel.Model.Anchor
namespace Lemmas.Anchor
open Gen.Split Model.Split Model.Anchor

/-! ### requirement lists -/

@[simp] theorem reqCols_append (a b : List Req) : reqCols (a ++ b) = reqCols a ++ reqCols b := by
  simp [reqCols]
@[simp] theorem reqCols_fromCids (cs : List CId) : reqCols (fromCids cs) = cs := by
  simp [reqCols, fromCids, Function.comp_def]
@[simp] theorem reqCols_allowUpTo (rs : List Req) (m : Cx) : reqCols (allowUpTo rs m) = reqCols rs := by
  simp [reqCols, allowUpTo, Function.comp_def]
@[simp] theorem reqCols_shouldSelect (rs : List Req) (b : Bool) : reqCols (shouldSelect rs b) = reqCols rs := by
  simp [reqCols, shouldSelect, Function.comp_def]

theorem isRequired_iff (rs : List Req) (c : CId) : isRequired rs c = true ↔ c ∈ reqCols rs := by
  simp [isRequired, reqCols]

theorem mem_dedup (l : List CId) (c : CId) : c ∈ dedup l ↔ c ∈ l := by
  induction l with
  | nil => simp [dedup]
  | cons x xs ih =>
    simp only [dedup, List.mem_cons, List.mem_filter, ih]
    by_cases h : c = x <;> simp [h]

/-- the requirement columns of a transform are columns it mentions -/
theorem getReq_subset_reads (t : Tr) (f : List Kind) (prev : List Req) (c : CId)
    (h : c ∈ reqCols (getRequirements t f prev)) : c ∈ t.reads := by
  cases t <;> simp only [getRequirements, Tr.reads] at h ⊢
  case join cols e => simpa using h
  case compute comp =>
    split at h
    · cases hw : comp.win with
      | none => simp [hw] at h; simp [Comp.allReads, h]
      | some w =>
        simp [hw] at h
        simp only [Comp.allReads, Comp.winCids, hw, Option.getD_some, List.mem_append]
        exact h
    · simp [reqCols] at h
  case filter e => simpa using h
  case aggregate p cs => simp at h; simp [h]
  case sort cs =>
    split at h
    · simpa using h
    · simp [reqCols] at h
  case sqlSort cs =>
    split at h
    · simpa using h
    · simp [reqCols] at h
  case take r p s => simp at h; simp [h]
  case distinctOn cs => simpa using h
  all_goals simp [reqCols] at h

/-- every root of a kept transform is among its requirement columns
(`agg`: an Aggregate is among the recorded following kinds) -/
theorem roots_subset_getReq (t : Tr) (f : List Kind) (prev : List Req) (agg : Bool)
    (hf : f.contains .Aggregate = agg ∨ t.isAgg = true) (c : CId) (h : c ∈ t.roots agg) :
    c ∈ reqCols (getRequirements t f prev) := by
  cases t <;> simp only [Tr.roots, getRequirements] at h ⊢
  case join cols e => simpa using h
  case filter e => simpa using h
  case aggregate p cs => simpa using h
  case sort cs =>
    simp only [Tr.isAgg, Bool.false_eq_true, or_false] at hf
    cases agg <;> simp_all
  case sqlSort cs =>
    simp only [Tr.isAgg, Bool.false_eq_true, or_false] at hf
    cases agg <;> simp_all
  case take r p s => simpa using h
  case distinctOn cs => simpa using h
  all_goals simp at h

/-- a compute that is required when it is scanned hands all its reads on -/
theorem compute_reads_required (comp : Comp) (f : List Kind) (prev : List Req)
    (hreq : comp.id ∈ reqCols prev) (d : CId) (hd : d ∈ comp.allReads) :
    d ∈ reqCols (getRequirements (.compute comp) f prev) := by
  have : isRequired prev comp.id = true := (isRequired_iff _ _).2 hreq
  simp only [getRequirements, this, if_true]
  simp only [Comp.allReads, Comp.winCids, List.mem_append] at hd
  cases hw : comp.win with
  | none => simp [hw] at hd ⊢; exact hd
  | some w => simp [hw] at hd ⊢; exact hd

/-! ### the scan step in normal form -/

theorem kind_isAgg (t : Tr) : (t.kind == Kind.Aggregate) = t.isAgg := by
  cases t <;> simp [Tr.kind, Tr.isAgg]
  case compute c => split <;> simp

theorem record_contains_agg (t : Tr) (f : List Kind) :
    (record t.kind f).contains .Aggregate = (t.isAgg || f.contains .Aggregate) := by
  unfold record
  split
  · rw [List.contains_cons, ← kind_isAgg]
    cases h1 : t.kind == Kind.Aggregate <;> cases h2 : Kind.Aggregate == t.kind <;> simp_all
  · next h =>
    have : t.isAgg = false := by
      cases t <;> simp_all [Tr.kind, Tr.isAgg, recorded]
    simp [this]

/-- what a successful scan step does to the state -/
theorem scanStep_some (decls : List Comp) (s s' x : Scan) (t : Tr)
    (h : scanStep decls s t = (some s', x)) :
    s'.following = record t.kind s.following ∧
    (∀ c, c ∈ reqCols s'.required ↔
      c ∈ reqCols s.required ∨ c ∈ reqCols (getRequirements t (record t.kind s.following) s.required)) ∧
    (∀ c, c ∈ s'.avail ↔ c ∈ t.defs ∨ c ∈ s.avail) ∧
    s'.kept = (if t.isSelect then s.kept else t :: s.kept) := by
  unfold scanStep at h
  split at h
  · simp at h
  · cases t <;> simp only [Tr.isSelect, Tr.defs] at h ⊢
    case compute comp =>
      split at h
      · simp only [Prod.mk.injEq, Option.some.injEq] at h
        obtain ⟨rfl, _⟩ := h
        simp
      · simp at h
    case aggregate p cs =>
      split at h
      · simp only [Prod.mk.injEq, Option.some.injEq] at h
        obtain ⟨rfl, _⟩ := h
        simp
      · simp at h
    all_goals
      simp only [Prod.mk.injEq, Option.some.injEq] at h
      obtain ⟨rfl, _⟩ := h
      simp

/-- what the state left behind by a stopping step looks like -/
theorem scanStep_none (decls : List Comp) (s x : Scan) (t : Tr)
    (h : scanStep decls s t = (none, x)) :
    x.kept = s.kept ∧ x.avail = s.avail ∧
    (∀ c, c ∈ reqCols x.required →
      c ∈ reqCols s.required ∨ c ∈ reqCols (getRequirements t (record t.kind s.following) s.required)) ∧
    (∀ c, c ∈ reqCols s.required → c ∈ reqCols x.required) ∧
    (∀ r ∈ s.required, r ∈ x.required) := by
  unfold scanStep at h
  split at h
  · simp only [Prod.mk.injEq, true_and] at h
    subst h
    simp
    intro c hc; exact Or.inl hc
  · cases t <;> simp only at h
    case compute comp =>
      split at h
      · simp at h
      · simp only [Prod.mk.injEq, true_and] at h
        subst h
        simp
        exact ⟨fun c hc => Or.inl hc, fun r hr => Or.inl hr⟩
    case aggregate p cs =>
      split at h
      · simp at h
      · simp only [Prod.mk.injEq, true_and] at h
        subst h
        simp
        exact ⟨fun c hc => Or.inl hc, fun r hr => Or.inl hr⟩
    all_goals simp at h

/-! ### the invariant -/

theorem mem_defsOf (p : List Tr) (c : CId) : c ∈ defsOf p ↔ ∃ t ∈ p, c ∈ t.defs := by
  simp [defsOf]

theorem mem_defsOf_cons (t : Tr) (p : List Tr) (c : CId) : c ∈ defsOf (t :: p) ↔ c ∈ t.defs ∨ c ∈ defsOf p := by
  simp [defsOf]

theorem mem_defsOf_reverse (p : List Tr) (c : CId) : c ∈ defsOf p.reverse ↔ c ∈ defsOf p := by
  simp [defsOf]

theorem inst_subset_defs (t : Tr) (c : CId) (h : c ∈ t.inst) : c ∈ t.defs := by
  cases t <;> simp_all [Tr.inst, Tr.defs]

/-- `front`: the transforms not yet scanned (reversed); `all`: the defined columns of the whole pipeline -/
structure Inv (all : List CId) (front : List Tr) (s : Scan) : Prop where
  avail : ∀ c, c ∈ s.avail ↔ c ∈ defsOf s.kept
  roots : ∀ pre t post, s.kept = pre ++ t :: post → ∀ c ∈ t.roots (hasAgg (t :: post)), c ∈ reqCols s.required
  comps : ∀ comp, Tr.compute comp ∈ s.kept → comp.id ∈ reqCols s.required →
            ∀ d ∈ comp.allReads, d ∈ reqCols s.required
  defined : ∀ c ∈ reqCols s.required, c ∈ all
  keptFresh : ∀ c ∈ defsOf s.kept, c ∉ defsOf front
  frontDefined : ∀ c ∈ defsOf front, c ∈ all
  split : ∀ c ∈ all, c ∈ defsOf front ∨ c ∈ defsOf s.kept

/-- requirement columns may be added freely as long as they are defined in the unscanned front -/
theorem Inv.extend {all front s} (h : Inv all front s) (x : Scan) (hk : x.kept = s.kept) (ha : x.avail = s.avail)
    (hnew : ∀ c, c ∈ reqCols x.required → c ∈ reqCols s.required ∨ c ∈ defsOf front)
    (hold : ∀ c, c ∈ reqCols s.required → c ∈ reqCols x.required) : Inv all front x := by
  refine ⟨?_, ?_, ?_, ?_, ?_, h.frontDefined, ?_⟩
  · rw [ha, hk]; exact h.avail
  · rw [hk]; intro pre t post e c hc; exact hold c (h.roots pre t post e c hc)
  · rw [hk]; intro comp hm hid d hd
    rcases hnew _ hid with h1 | h1
    · exact hold d (h.comps comp hm h1 d hd)
    · exact absurd h1 (h.keptFresh _ ((mem_defsOf _ _).2 ⟨_, hm, by simp [Tr.defs]⟩))
  · intro c hc
    rcases hnew c hc with h1 | h1
    · exact h.defined c h1
    · exact h.frontDefined c h1
  · rw [hk]; exact h.keptFresh
  · rw [hk]; exact h.split

theorem hasAgg_cons (t : Tr) (l : List Tr) : hasAgg (t :: l) = (t.isAgg || hasAgg l) := by
  simp [hasAgg]

/-- one successful step keeps the invariant (with `follows`: the `following` set knows about an Aggregate exactly when
one has been kept) -/
theorem Inv.step {all : List CId} {before : List Tr} {s s' x : Scan} {t : Tr} (decls : List Comp)
    (h : Inv all (t :: before) s) (hfol : s.following.contains .Aggregate = hasAgg s.kept)
    (hreads : ∀ c ∈ t.reads, c ∈ defsOf before ∨ c ∈ t.inst)
    (hfresh : ∀ d ∈ t.defs, d ∉ defsOf before)
    (hs : scanStep decls s t = (some s', x)) :
    Inv all before s' ∧ s'.following.contains .Aggregate = hasAgg s'.kept := by
  obtain ⟨hf', hr', ha', hk'⟩ := scanStep_some decls s s' x t hs
  have hreq_front : ∀ c, c ∈ reqCols (getRequirements t (record t.kind s.following) s.required) →
      c ∈ defsOf (t :: before) := by
    intro c hc
    rcases hreads c (getReq_subset_reads _ _ _ _ hc) with h1 | h1
    · exact (mem_defsOf_cons _ _ _).2 (Or.inr h1)
    · exact (mem_defsOf_cons _ _ _).2 (Or.inl (inst_subset_defs _ _ h1))
  have hselect_defs : t.isSelect = true → t.defs = [] := by
    intro hsel; cases t <;> simp_all [Tr.isSelect, Tr.defs]
  have hkept_defs : ∀ c, c ∈ defsOf s'.kept ↔ c ∈ t.defs ∨ c ∈ defsOf s.kept := by
    intro c
    rw [hk']
    by_cases hsel : t.isSelect = true
    · simp [hsel, hselect_defs hsel]
    · simp [hsel, mem_defsOf_cons]
  have hfolnew : s'.following.contains .Aggregate = hasAgg s'.kept := by
    rw [hf', record_contains_agg, hfol, hk']
    by_cases hsel : t.isSelect = true
    · have : t.isAgg = false := by cases t <;> simp_all [Tr.isSelect, Tr.isAgg]
      simp [hsel, this]
    · simp [hsel, hasAgg_cons]
  refine ⟨⟨?_, ?_, ?_, ?_, ?_, ?_, ?_⟩, hfolnew⟩
  · intro c
    rw [ha', hkept_defs, h.avail]
  · intro pre t' post e c hc
    rw [hk'] at e
    by_cases hsel : t.isSelect = true
    · simp only [hsel, if_true] at e
      exact (hr' c).2 (Or.inl (h.roots pre t' post e c hc))
    · simp only [hsel] at e
      cases pre with
      | nil =>
        simp only [List.nil_append, Bool.false_eq_true, if_false, List.cons.injEq] at e
        obtain ⟨rfl, rfl⟩ := e
        refine (hr' c).2 (Or.inr (roots_subset_getReq _ _ _ _ ?_ c hc))
        rw [record_contains_agg, hfol, hasAgg_cons]
        exact Or.inl rfl
      | cons p ps =>
        simp only [List.cons_append, Bool.false_eq_true, if_false, List.cons.injEq] at e
        exact (hr' c).2 (Or.inl (h.roots ps t' post e.2 c hc))
  · intro comp hm hid d hd
    rw [hk'] at hm
    have hold : Tr.compute comp ∈ s.kept → d ∈ reqCols s'.required := by
      intro hm'
      rcases (hr' _).1 hid with h1 | h1
      · exact (hr' d).2 (Or.inl (h.comps comp hm' h1 d hd))
      · exact absurd (hreq_front _ h1) (h.keptFresh _ ((mem_defsOf _ _).2 ⟨_, hm', by simp [Tr.defs]⟩))
    by_cases hsel : t.isSelect = true
    · simp only [hsel, if_true] at hm
      exact hold hm
    · simp only [hsel, Bool.false_eq_true, if_false, List.mem_cons] at hm
      rcases hm with rfl | hm
      · -- the compute just scanned
        have hidold : comp.id ∈ reqCols s.required := by
          rcases (hr' _).1 hid with h1 | h1
          · exact h1
          · exfalso
            rcases hreads _ (getReq_subset_reads _ _ _ _ h1) with h2 | h2
            · exact hfresh comp.id (by simp [Tr.defs]) h2
            · simp [Tr.inst] at h2
        exact (hr' d).2 (Or.inr (compute_reads_required comp _ _ hidold d hd))
      · exact hold hm
  · intro c hc
    rcases (hr' c).1 hc with h1 | h1
    · exact h.defined c h1
    · exact h.frontDefined c (hreq_front c h1)
  · intro c hc
    rcases (hkept_defs c).1 hc with h1 | h1
    · exact hfresh c h1
    · intro hb
      exact h.keptFresh c h1 ((mem_defsOf_cons _ _ _).2 (Or.inr hb))
  · intro c hc
    exact h.frontDefined c ((mem_defsOf_cons _ _ _).2 (Or.inr hc))
  · intro c hc
    rcases h.split c hc with h1 | h1
    · rcases (mem_defsOf_cons _ _ _).1 h1 with h2 | h2
      · exact Or.inr ((hkept_defs c).2 (Or.inl h2))
      · exact Or.inl h2
    · exact Or.inr ((hkept_defs c).2 (Or.inr h1))

/-- propositional reading of `wfRev` -/
theorem wfRev_cons (t : Tr) (before : List Tr) (h : wfRev (t :: before) = true) :
    (∀ c ∈ t.reads, c ∈ defsOf before ∨ c ∈ t.inst) ∧ (∀ d ∈ t.defs, d ∉ defsOf before) ∧ wfRev before = true := by
  simp only [wfRev, Bool.and_eq_true, List.all_eq_true, Bool.or_eq_true, List.contains_iff_mem,
    Bool.not_eq_true'] at h
  refine ⟨fun c hc => ?_, fun d hd => ?_, h.2⟩
  · simpa using h.1.1 c hc
  · have := h.1.2 d hd
    simpa using this

/-- the whole scan: the final state satisfies the invariant with respect to the part left in front -/
theorem scanRev_inv (decls : List Comp) (all : List CId) (rev : List Tr) (s : Scan)
    (h : Inv all rev s) (hfol : s.following.contains .Aggregate = hasAgg s.kept) (hwf : wfRev rev = true) :
    Inv all (scanRev decls rev s).2.reverse (scanRev decls rev s).1 := by
  induction rev generalizing s with
  | nil => simpa [scanRev] using h
  | cons t before ih =>
    obtain ⟨hreads, hfresh, hwf'⟩ := wfRev_cons t before hwf
    simp only [scanRev]
    cases hs : scanStep decls s t with
    | mk o x =>
      cases o with
      | some s' =>
        simp only
        obtain ⟨hinv, hfol'⟩ := Inv.step decls h hfol hreads hfresh hs
        exact ih s' hinv hfol' hwf'
      | none =>
        simp only [List.reverse_reverse]
        obtain ⟨hk, ha, hnew, hold, _⟩ := scanStep_none decls s x t hs
        refine h.extend x hk ha ?_ hold
        intro c hc
        rcases hnew c hc with h1 | h1
        · exact Or.inl h1
        · right
          rcases hreads c (getReq_subset_reads _ _ _ _ h1) with h2 | h2
          · exact (mem_defsOf_cons _ _ _).2 (Or.inr h2)
          · exact (mem_defsOf_cons _ _ _).2 (Or.inl (inst_subset_defs _ _ h2))

/-! ### the certificate -/

/-- every column of `R` is external, a column of a relation instance of the segment, or a compute of the segment
whose own reads lie in `R` again -/
def SelfSupporting (ext : List CId) (seg : List Tr) (R : List CId) : Prop :=
  ∀ c ∈ R, c ∈ ext ∨ c ∈ instCols seg ∨
    ∃ comp, Tr.compute comp ∈ seg ∧ comp.id = c ∧ ∀ d ∈ comp.allReads, d ∈ R

theorem defs_inst_or_compute (seg : List Tr) (c : CId) (h : c ∈ defsOf seg) :
    c ∈ instCols seg ∨ ∃ comp, Tr.compute comp ∈ seg ∧ comp.id = c := by
  obtain ⟨t, ht, hc⟩ := (mem_defsOf _ _).1 h
  cases t <;> simp only [Tr.defs, List.mem_singleton, List.not_mem_nil] at hc
  case «from» cs => exact Or.inl (by simp only [instCols, List.mem_flatMap]; exact ⟨_, ht, by simpa [Tr.inst] using hc⟩)
  case join cs e => exact Or.inl (by simp only [instCols, List.mem_flatMap]; exact ⟨_, ht, by simpa [Tr.inst] using hc⟩)
  case compute comp => exact Or.inr ⟨comp, ht, hc.symm⟩

theorem selfSupportingB_iff (ext : List CId) (seg : List Tr) (R : List CId) :
    selfSupportingB ext seg R = true ↔ SelfSupporting ext seg R := by
  simp only [selfSupportingB, SelfSupporting, List.all_eq_true, Bool.or_eq_true, List.contains_iff_mem,
    List.any_eq_true]
  constructor
  · intro h c hc
    rcases h c hc with (h1 | h1) | ⟨t, ht, h2⟩
    · exact Or.inl h1
    · exact Or.inr (Or.inl h1)
    · cases t <;> simp only [Bool.false_eq_true] at h2
      rename_i comp
      simp only [Bool.and_eq_true, beq_iff_eq, List.all_eq_true, List.contains_iff_mem] at h2
      exact Or.inr (Or.inr ⟨comp, ht, h2.1, h2.2⟩)
  · intro h c hc
    rcases h c hc with h1 | h1 | ⟨comp, hm, hid, hr⟩
    · exact Or.inl (Or.inl h1)
    · exact Or.inl (Or.inr h1)
    · refine Or.inr ⟨_, hm, ?_⟩
      simp only [Bool.and_eq_true, beq_iff_eq, List.all_eq_true, List.contains_iff_mem]
      exact ⟨hid, hr⟩

/-! ### the split as a whole -/

theorem scanRev_mono (decls : List Comp) (rev : List Tr) (s : Scan) (c : CId) (h : c ∈ reqCols s.required) :
    c ∈ reqCols (scanRev decls rev s).1.required := by
  induction rev generalizing s with
  | nil => simpa [scanRev] using h
  | cons t before ih =>
    simp only [scanRev]
    cases hs : scanStep decls s t with
    | mk o x =>
      cases o with
      | some s' =>
        simp only
        exact ih s' (((scanStep_some decls s s' x t hs).2.1 c).2 (Or.inl h))
      | none =>
        simp only
        exact (scanStep_none decls s x t hs).2.2.2.1 c h

def initScan (out : List CId) : Scan := { required := shouldSelect (allowUpTo (fromCids out) Cx.highest) true }

theorem mem_select_fold (sel out : List CId) (c : CId)
    (h : c ∈ sel.foldl (fun out c => if out.contains c then out else out ++ [c]) out) : c ∈ out ∨ c ∈ sel := by
  induction sel generalizing out with
  | nil => exact Or.inl (by simpa using h)
  | cons x xs ih =>
    simp only [List.foldl_cons] at h
    rcases ih _ h with h1 | h1
    · split at h1
      · exact Or.inl h1
      · rcases List.mem_append.1 h1 with h2 | h2
        · exact Or.inl h2
        · exact Or.inr (by simp at h2; simp [h2])
    · exact Or.inr (List.mem_cons_of_mem _ h1)

/-- **Scope theorem of one split.** For a well-formed pipeline the final requirement columns `R` of the scan contain the
output, the Select of the atomic part and every root of every kept transform; `R` is self-supporting in the atomic part
relative to `missing`; and every missing column is defined by the part that stays in front. -/
theorem split_scope (decls : List Comp) (p : List Tr) (out : List CId) (hwf : wfPipe p out = true) :
    (∀ c ∈ out, c ∈ finalRequired decls p out) ∧
    (∀ c ∈ (splitOffBack decls p out).select, c ∈ finalRequired decls p out) ∧
    (∀ pre t post, (splitOffBack decls p out).kept = pre ++ t :: post →
        ∀ c ∈ t.roots (hasAgg (t :: post)), c ∈ finalRequired decls p out) ∧
    SelfSupporting (splitOffBack decls p out).missing (splitOffBack decls p out).kept (finalRequired decls p out) ∧
    (∀ c ∈ (splitOffBack decls p out).missing, c ∈ defsOf (splitOffBack decls p out).rest) ∧
    (∀ c ∈ (splitOffBack decls p out).missing, c ∈ finalRequired decls p out) := by
  simp only [wfPipe, Bool.and_eq_true, List.all_eq_true, List.contains_iff_mem] at hwf
  obtain ⟨hrev, hout⟩ := hwf
  have hinit : Inv (defsOf p) p.reverse (initScan out) := by
    refine ⟨?_, ?_, ?_, ?_, ?_, ?_, ?_⟩
    · intro c; simp [initScan, defsOf]
    · intro pre t post e; simp [initScan] at e
    · intro comp hm; simp [initScan] at hm
    · intro c hc; simp [initScan] at hc; exact hout c hc
    · intro c hc; simp [initScan, defsOf] at hc
    · intro c hc; exact (mem_defsOf_reverse p c).1 hc
    · intro c hc; exact Or.inl ((mem_defsOf_reverse p c).2 hc)
  have hfol : (initScan out).following.contains .Aggregate = hasAgg (initScan out).kept := by
    simp [initScan, hasAgg]
  have hI := scanRev_inv decls (defsOf p) p.reverse (initScan out) hinit hfol hrev
  have hR : finalRequired decls p out = reqCols (scanRev decls p.reverse (initScan out)).1.required := rfl
  have hmissing : ∀ c, c ∈ (splitOffBack decls p out).missing ↔
      c ∈ finalRequired decls p out ∧ c ∉ (scanRev decls p.reverse (initScan out)).1.avail := by
    intro c
    simp only [splitOffBack, List.mem_filter, mem_dedup, Bool.not_eq_true', hR]
    constructor
    · rintro ⟨h1, h2⟩; exact ⟨h1, by simpa [initScan] using h2⟩
    · rintro ⟨h1, h2⟩; exact ⟨h1, by simpa [initScan] using h2⟩
  have hkept : (splitOffBack decls p out).kept = (scanRev decls p.reverse (initScan out)).1.kept := rfl
  have hrest : (splitOffBack decls p out).rest = (scanRev decls p.reverse (initScan out)).2 := rfl
  have houtR : ∀ c ∈ out, c ∈ finalRequired decls p out := by
    intro c hc
    rw [hR]
    exact scanRev_mono decls p.reverse (initScan out) c (by simp [initScan, hc])
  refine ⟨houtR, ?_, ?_, ?_, ?_, fun c hc => ((hmissing c).1 hc).1⟩
  · intro c hc
    have : c ∈ out ∨ c ∈ ((scanRev decls p.reverse (initScan out)).1.required.filter (·.selected)).map (·.col) :=
      mem_select_fold _ _ _ hc
    rcases this with h1 | h1
    · exact houtR c h1
    · rw [hR]
      simp only [List.mem_map, List.mem_filter] at h1
      obtain ⟨r, ⟨hr, _⟩, rfl⟩ := h1
      simp only [reqCols, List.mem_map]
      exact ⟨r, hr, rfl⟩
  · intro pre t post e c hc
    rw [hkept] at e
    rw [hR]
    exact hI.roots pre t post e c hc
  · intro c hc
    by_cases hav : c ∈ (scanRev decls p.reverse (initScan out)).1.avail
    · right
      rw [hkept]
      rcases defs_inst_or_compute _ c ((hI.avail c).1 hav) with h1 | ⟨comp, hm, hid⟩
      · exact Or.inl h1
      · refine Or.inr ⟨comp, hm, hid, ?_⟩
        rw [hR] at hc ⊢
        exact hI.comps comp hm (hid ▸ hc)
    · exact Or.inl ((hmissing c).2 ⟨hc, hav⟩)
  · intro c hc
    obtain ⟨h1, h2⟩ := (hmissing c).1 hc
    rw [hrest]
    rw [hR] at h1
    rcases hI.split c (hI.defined c h1) with h3 | h3
    · exact (mem_defsOf_reverse _ c).1 h3
    · exact absurd ((hI.avail c).2 h3) h2

theorem splitClosedB_of_wf (decls : List Comp) (p : List Tr) (out : List CId) (hwf : wfPipe p out = true) :
    splitClosedB decls p out = true := by
  obtain ⟨_, h2, _, h4, h5, _⟩ := split_scope decls p out hwf
  simp only [splitClosedB, Bool.and_eq_true, List.all_eq_true, List.contains_iff_mem]
  exact ⟨⟨(selfSupportingB_iff _ _ _).2 h4, h5⟩, h2⟩

/-! ### anchor_split: the redirect closes the atomic part -/

theorem lookup_of_mem_keys (l : List (CId × CId)) (c : CId) (h : c ∈ l.map Prod.fst) :
    ∃ v, l.lookup c = some v ∧ (c, v) ∈ l := by
  induction l with
  | nil => simp at h
  | cons x xs ih =>
    obtain ⟨k, v⟩ := x
    by_cases hk : c = k
    · subst hk; exact ⟨v, by simp [List.lookup], by simp⟩
    · have : c ∈ xs.map Prod.fst := by
        simp only [List.map_cons, List.mem_cons] at h
        rcases h with h | h
        · exact absurd h hk
        · exact h
      obtain ⟨w, h1, h2⟩ := ih this
      refine ⟨w, ?_, List.mem_cons_of_mem _ h2⟩
      simp only [List.lookup]
      have : (c == k) = false := by simpa using hk
      simp [this, h1]

theorem lookup_none_of_not_mem_keys (l : List (CId × CId)) (c : CId) (h : c ∉ l.map Prod.fst) :
    l.lookup c = none := by
  induction l with
  | nil => simp [List.lookup]
  | cons x xs ih =>
    obtain ⟨k, v⟩ := x
    simp only [List.map_cons, List.mem_cons, not_or] at h
    simp only [List.lookup]
    have : (c == k) = false := by simpa using h.1
    simp [this, ih h.2]

theorem redirect_mem (cols new : List CId) (hlen : cols.length = new.length) (c : CId) (hc : c ∈ cols) :
    redirect (cols.zip new) c ∈ new := by
  have hk : c ∈ ((cols.zip new).reverse).map Prod.fst := by
    rw [List.map_reverse, List.mem_reverse, List.map_fst_zip (by omega)]
    exact hc
  obtain ⟨v, h1, h2⟩ := lookup_of_mem_keys _ c hk
  simp only [redirect, h1, Option.getD_some]
  have : (c, v) ∈ cols.zip new := List.mem_reverse.1 h2
  exact (List.of_mem_zip this).2

theorem redirect_id (cols new : List CId) (c : CId) (hc : c ∉ cols) : redirect (cols.zip new) c = c := by
  have hk : c ∉ ((cols.zip new).reverse).map Prod.fst := by
    rw [List.map_reverse, List.mem_reverse]
    intro h
    obtain ⟨⟨a, b⟩, hab, rfl⟩ := List.mem_map.1 h
    exact hc (List.of_mem_zip hab).1
  simp [redirect, lookup_none_of_not_mem_keys _ c hk]

theorem reads_map (f : CId → CId) (e : Ex) : (e.map f).reads = e.reads.map f := by
  induction e <;> simp_all [Ex.map, Ex.reads]

theorem allReads_map (f : CId → CId) (c : Comp) : (c.map f).allReads = c.allReads.map f := by
  simp only [Comp.allReads, Comp.map, reads_map, Comp.winCids, List.map_append]
  cases c.win <;> simp

theorem inst_map (f : CId → CId) (t : Tr) : (t.map f).inst = t.inst := by
  cases t <;> simp [Tr.map, Tr.inst]

theorem instCols_map (f : CId → CId) (seg : List Tr) : instCols (seg.map (Tr.map f)) = instCols seg := by
  simp [instCols, List.flatMap_map, inst_map]

theorem isAgg_map (f : CId → CId) (t : Tr) : (t.map f).isAgg = t.isAgg := by
  cases t <;> simp [Tr.map, Tr.isAgg]

theorem hasAgg_map (f : CId → CId) (seg : List Tr) : hasAgg (seg.map (Tr.map f)) = hasAgg seg := by
  simp [hasAgg, List.any_map, Function.comp_def, isAgg_map]

theorem roots_map (f : CId → CId) (t : Tr) (agg : Bool) : (t.map f).roots agg = (t.roots agg).map f := by
  cases t <;> simp [Tr.map, Tr.roots, reads_map]
  all_goals split <;> simp

/-- a self-supporting set stays self-supporting under the redirect when the external columns become the columns of
the new relation instance that heads the pipeline: nothing is external any more -/
theorem selfSupporting_anchor (ext new : List CId) (seg : List Tr) (R : List CId)
    (hlen : ext.length = new.length) (h : SelfSupporting ext seg R) :
    SelfSupporting [] (.from new :: seg.map (Tr.map (redirect (ext.zip new)))) (R.map (redirect (ext.zip new))) := by
  intro c' hc'
  obtain ⟨c, hc, rfl⟩ := List.mem_map.1 hc'
  right
  by_cases hext : c ∈ ext
  · left
    simp only [instCols, List.flatMap_cons, Tr.inst, List.mem_append]
    exact Or.inl (redirect_mem ext new hlen c hext)
  · rcases h c hc with h1 | h1 | ⟨comp, hm, hid, hr⟩
    · exact absurd h1 hext
    · left
      rw [redirect_id ext new c hext]
      simp only [instCols, List.flatMap_cons, Tr.inst, List.mem_append]
      right
      have := instCols_map (redirect (ext.zip new)) seg
      simp only [instCols] at this
      rw [this]
      exact h1
    · right
      refine ⟨comp.map (redirect (ext.zip new)), ?_, by simp [Comp.map, hid], ?_⟩
      · exact List.mem_cons_of_mem _ (List.mem_map.2 ⟨_, hm, rfl⟩)
      · intro d' hd'
        rw [allReads_map] at hd'
        obtain ⟨d, hd, rfl⟩ := List.mem_map.1 hd'
        exact List.mem_map.2 ⟨d, hr d hd, rfl⟩

theorem SelfSupporting.cons {ext seg R} (t : Tr) (h : SelfSupporting ext seg R) : SelfSupporting ext (t :: seg) R := by
  intro c hc
  rcases h c hc with h1 | h1 | ⟨comp, hm, hid, hr⟩
  · exact Or.inl h1
  · exact Or.inr (Or.inl (by simp only [instCols, List.flatMap_cons, List.mem_append]; exact Or.inr h1))
  · exact Or.inr (Or.inr ⟨comp, List.mem_cons_of_mem _ hm, hid, hr⟩)

/-! ### the recursion over sub-queries inherits well-formedness -/

theorem scanRev_rest_suffix (decls : List Comp) (rev : List Tr) (s : Scan) :
    (scanRev decls rev s).2.reverse <:+ rev := by
  induction rev generalizing s with
  | nil => simp [scanRev]
  | cons t before ih =>
    simp only [scanRev]
    cases hs : scanStep decls s t with
    | mk o x =>
      cases o with
      | some s' =>
        simp only
        exact List.IsSuffix.trans (ih s') (List.suffix_cons t before)
      | none => simp

theorem wfRev_suffix (l₁ l₂ : List Tr) (h : l₁ <:+ l₂) (hw : wfRev l₂ = true) : wfRev l₁ = true := by
  induction l₂ with
  | nil =>
    have : l₁ = [] := List.eq_nil_of_suffix_nil h
    subst this; exact hw
  | cons t rest ih =>
    rcases List.suffix_cons_iff.1 h with rfl | h'
    · exact hw
    · exact ih h' (wfRev_cons t rest hw).2.2

/-- the pipeline that stays in front, closed by the Select of the missing columns, is again a well-formed input of
`extract_atomic` whose output columns are the missing columns: the hypothesis of the scope theorem is inherited by every
level of the recursion over sub-queries -/
theorem preceding_wf (decls : List Comp) (p : List Tr) (out : List CId) (hwf : wfPipe p out = true) :
    wfPipe ((splitOffBack decls p out).rest ++ [.select (splitOffBack decls p out).missing])
      (splitOffBack decls p out).missing = true := by
  have hmiss := (split_scope decls p out hwf).2.2.2.2.1
  simp only [wfPipe, Bool.and_eq_true, List.all_eq_true, List.contains_iff_mem] at hwf ⊢
  obtain ⟨hrev, _⟩ := hwf
  have hsuf : (splitOffBack decls p out).rest.reverse <:+ p.reverse :=
    scanRev_rest_suffix decls p.reverse _
  have hrest : wfRev (splitOffBack decls p out).rest.reverse = true := wfRev_suffix _ _ hsuf hrev
  constructor
  · simp only [List.reverse_append, List.reverse_cons, List.reverse_nil, List.nil_append, List.singleton_append,
      wfRev, Tr.reads, Tr.defs, Tr.inst, List.all_nil, Bool.and_true, List.all_eq_true,
      Bool.or_eq_true, List.contains_iff_mem, hrest]
    exact fun c hc => Or.inl ((mem_defsOf_reverse _ c).2 (hmiss c hc))
  · intro c hc
    have := hmiss c hc
    simp only [defsOf, List.flatMap_append, List.mem_append] at this ⊢
    exact Or.inl this

/-! ### extract_atomic as a whole: the final Select is exactly the requested output -/

/-- the Select of the atomic part is the requested output followed by columns that are not in it -/
theorem select_fold_shape (sel out : List CId) :
    ∃ ext, sel.foldl (fun out c => if out.contains c then out else out ++ [c]) out = out ++ ext ∧
      ∀ c ∈ ext, c ∉ out := by
  induction sel generalizing out with
  | nil => exact ⟨[], by simp⟩
  | cons x xs ih =>
    simp only [List.foldl_cons]
    by_cases hx : out.contains x = true
    · simp only [hx, if_true]; exact ih out
    · simp only [hx, Bool.false_eq_true, if_false]
      obtain ⟨ext, h1, h2⟩ := ih (out ++ [x])
      refine ⟨x :: ext, by rw [h1]; simp, ?_⟩
      intro c hc
      rcases List.mem_cons.1 hc with rfl | hc
      · simpa using hx
      · intro hco; exact h2 c hc (List.mem_append_left _ hco)

theorem splitOffBack_select_shape (decls : List Comp) (p : List Tr) (out : List CId) :
    ∃ ext, (splitOffBack decls p out).select = out ++ ext ∧ ∀ c ∈ ext, c ∉ out :=
  select_fold_shape _ out

theorem no_extra_means_equal (out ext : List CId) (hext : ∀ c ∈ ext, c ∉ out)
    (h : (out ++ ext).any (fun c => !out.contains c) = false) : ext = [] := by
  cases ext with
  | nil => rfl
  | cons x xs =>
    exfalso
    have hx := hext x (by simp)
    have : (out ++ x :: xs).any (fun c => !out.contains c) = true := by
      simp only [List.any_eq_true, Bool.not_eq_true', List.mem_append, List.mem_cons]
      exact ⟨x, Or.inr (Or.inl rfl), by simpa using hx⟩
    rw [this] at h; cases h

theorem selectOf_cons_select (cs : List CId) (rest : List Tr) : selectOf (.select cs :: rest) = some cs := by
  simp [selectOf]

theorem selectOf_from_cons (cs : List CId) (rest : List Tr) : selectOf (.from cs :: rest) = selectOf rest := by
  simp [selectOf]


theorem anchorSplit_snd (next : CId) (cols : List CId) (atomic : List Tr) :
    (anchorSplit next cols atomic).2 =
      .from (anchorSplit next cols atomic).1 ::
        atomic.map (Tr.map (redirect (cols.zip (anchorSplit next cols atomic).1))) := rfl

theorem anchorSplit_fst_length (next : CId) (cols : List CId) (atomic : List Tr) :
    (anchorSplit next cols atomic).1.length = cols.length := by simp [anchorSplit]

/-- second half of `extract_atomic`: whatever the first half produced, the returned pipeline selects exactly the
(redirected) requested columns - same number, same order, repetitions kept -, provided that a Select without extra
columns is the requested list itself -/
theorem stage2_selects_output (s : Stage1) (sel : List CId) (hsel : selectOf s.atomic = some sel)
    (hexact : sel.any (fun c => !s.out1.contains c) = false → sel = s.out1) :
    selectOf (stage2 s).atomic = some (stage2 s).output ∧ (stage2 s).output.length = s.out1.length := by
  unfold stage2
  simp only [hsel, Option.getD_some]
  by_cases hany : sel.any (fun c => !s.out1.contains c) = true
  · simp only [hany, if_true]
    refine ⟨?_, by simp⟩
    rw [anchorSplit_snd, selectOf_from_cons]
    simp [selectOf, Tr.map]
  · have hf : sel.any (fun c => !s.out1.contains c) = false := by simpa using hany
    simp only [hf, Bool.false_eq_true, if_false]
    refine ⟨?_, ?_⟩
    · rw [hsel, hexact hf]
    · trivial

/-- **extract_atomic selects exactly the requested columns.** `hinj`: the redirect of the split does not map a column
outside the requested output onto the image of a requested one (it is injective on the ids in play: the new ids are
fresh and pairwise distinct - `IdGenerator`). -/
theorem extract_selects_output (decls : List Comp) (next : CId) (p : List Tr) (out : List CId)
    (hinj : ∀ a ∈ (splitOffBack decls p out).select,
      redirect ((splitOffBack decls p out).missing.zip
        (anchorSplit next (splitOffBack decls p out).missing (splitOffBack decls p out).atomic).1) a ∈
      out.map (redirect ((splitOffBack decls p out).missing.zip
        (anchorSplit next (splitOffBack decls p out).missing (splitOffBack decls p out).atomic).1)) → a ∈ out) :
    selectOf (extractAtomic decls next p out).atomic = some (extractAtomic decls next p out).output ∧
    (extractAtomic decls next p out).output.length = out.length := by
  obtain ⟨ext, hshape, hext⟩ := splitOffBack_select_shape decls p out
  unfold extractAtomic
  by_cases hrest : (splitOffBack decls p out).rest.isEmpty = true
  · -- nothing stays in front
    have hs1 : stage1 decls next p out =
        { atomic := (splitOffBack decls p out).atomic, stashed := [], out1 := out, next1 := next } := by
      simp [stage1, hrest]
    rw [hs1]
    have := stage2_selects_output
      { atomic := (splitOffBack decls p out).atomic, stashed := [], out1 := out, next1 := next }
      (splitOffBack decls p out).select (selectOf_cons_select _ _)
      (by
        intro h
        simp only at h
        rw [hshape] at h ⊢
        rw [no_extra_means_equal out ext hext h]; simp)
    simpa using this
  · -- a split: everything goes through the redirect
    have hrest' : (splitOffBack decls p out).rest.isEmpty = false := by simpa using hrest
    have hs1 : stage1 decls next p out =
        { atomic := (anchorSplit next (splitOffBack decls p out).missing (splitOffBack decls p out).atomic).2,
          stashed := [(splitOffBack decls p out).rest ++ [.select (splitOffBack decls p out).missing]],
          out1 := out.map (redirect ((splitOffBack decls p out).missing.zip
            (anchorSplit next (splitOffBack decls p out).missing (splitOffBack decls p out).atomic).1)),
          next1 := next + (splitOffBack decls p out).missing.length } := by
      simp [stage1, hrest']
    rw [hs1]
    have hselOf : selectOf (anchorSplit next (splitOffBack decls p out).missing (splitOffBack decls p out).atomic).2 =
        some ((splitOffBack decls p out).select.map (redirect ((splitOffBack decls p out).missing.zip
          (anchorSplit next (splitOffBack decls p out).missing (splitOffBack decls p out).atomic).1))) := by
      rw [anchorSplit_snd, selectOf_from_cons]
      simp [SplitResult.atomic, selectOf, Tr.map]
    have := stage2_selects_output
      { atomic := (anchorSplit next (splitOffBack decls p out).missing (splitOffBack decls p out).atomic).2,
        stashed := [(splitOffBack decls p out).rest ++ [.select (splitOffBack decls p out).missing]],
        out1 := out.map (redirect ((splitOffBack decls p out).missing.zip
          (anchorSplit next (splitOffBack decls p out).missing (splitOffBack decls p out).atomic).1)),
        next1 := next + (splitOffBack decls p out).missing.length }
      _ hselOf
      (by
        intro h
        -- no image outside the image of `out`, hence (injectivity) no extra column
        have hext0 : ext = [] := by
          cases hx : ext with
          | nil => rfl
          | cons x xs =>
            exfalso
            have hxsel : x ∈ (splitOffBack decls p out).select := by rw [hshape, hx]; simp
            have himg := List.any_eq_false.1 h _ (List.mem_map_of_mem hxsel)
            have himg' : redirect ((splitOffBack decls p out).missing.zip
                (anchorSplit next (splitOffBack decls p out).missing (splitOffBack decls p out).atomic).1) x ∈
                out.map (redirect ((splitOffBack decls p out).missing.zip
                (anchorSplit next (splitOffBack decls p out).missing (splitOffBack decls p out).atomic).1)) := by
              simpa using himg
            exact hext x (by rw [hx]; simp) (hinj x hxsel himg')
        rw [hshape, hext0]; simp)
    simpa using this


theorem zip_snd_unique (l₁ l₂ : List CId) (h : l₂.Nodup) (a b v : CId)
    (ha : (a, v) ∈ l₁.zip l₂) (hb : (b, v) ∈ l₁.zip l₂) : a = b := by
  induction l₁ generalizing l₂ with
  | nil => simp at ha
  | cons x xs ih =>
    cases l₂ with
    | nil => simp at ha
    | cons y ys =>
      simp only [List.zip_cons_cons, List.mem_cons, Prod.mk.injEq] at ha hb
      have hy := List.nodup_cons.1 h
      rcases ha with ⟨rfl, rfl⟩ | ha
      · rcases hb with ⟨rfl, _⟩ | hb
        · rfl
        · exact absurd (List.of_mem_zip hb).2 hy.1
      · rcases hb with ⟨rfl, rfl⟩ | hb
        · exact absurd (List.of_mem_zip ha).2 hy.1
        · exact ih ys hy.2 ha hb

theorem redirect_pair (cols new : List CId) (hlen : cols.length = new.length) (c : CId) (hc : c ∈ cols) :
    (c, redirect (cols.zip new) c) ∈ cols.zip new := by
  have hk : c ∈ ((cols.zip new).reverse).map Prod.fst := by
    rw [List.map_reverse, List.mem_reverse, List.map_fst_zip (by omega)]
    exact hc
  obtain ⟨v, h1, h2⟩ := lookup_of_mem_keys _ c hk
  simp only [redirect, h1, Option.getD_some]
  exact List.mem_reverse.1 h2

theorem fresh_nodup (next n : Nat) : ((List.range n).map (· + next)).Nodup := by
  rw [List.nodup_iff_pairwise_ne, List.pairwise_map]
  exact (List.nodup_iff_pairwise_ne.1 (List.nodup_range (n := n))).imp (fun h => by omega)

theorem fresh_ge (next n : Nat) : ∀ v ∈ (List.range n).map (· + next), next ≤ v := by
  intro v hv
  obtain ⟨i, _, rfl⟩ := List.mem_map.1 hv
  omega

/-- the redirect of a split is injective on the ids that existed before it, when the new ids are fresh -/
theorem redirect_fresh_image (next : CId) (cols out : List CId) (a : CId)
    (ha : a < next) (hout : ∀ b ∈ out, b < next)
    (h : redirect (cols.zip ((List.range cols.length).map (· + next))) a ∈
         out.map (redirect (cols.zip ((List.range cols.length).map (· + next))))) : a ∈ out := by
  obtain ⟨b, hb, hab⟩ := List.mem_map.1 h
  have hlen : cols.length = ((List.range cols.length).map (· + next)).length := by simp
  by_cases hac : a ∈ cols <;> by_cases hbc : b ∈ cols
  · have pa := redirect_pair cols _ hlen a hac
    have pb := redirect_pair cols _ hlen b hbc
    rw [hab] at pb
    have : b = a := zip_snd_unique cols _ (fresh_nodup next cols.length) b a _ pb pa
    exact this ▸ hb
  · have h1 := fresh_ge next cols.length _ (redirect_mem cols _ hlen a hac)
    rw [redirect_id cols _ b hbc] at hab
    rw [← hab] at h1
    exact absurd (hout b hb) (Nat.not_lt.2 h1)
  · have h1 := fresh_ge next cols.length _ (redirect_mem cols _ hlen b hbc)
    rw [redirect_id cols _ a hac] at hab
    rw [hab] at h1
    exact absurd ha (Nat.not_lt.2 h1)
  · rw [redirect_id cols _ a hac, redirect_id cols _ b hbc] at hab
    exact hab ▸ hb

/-- **extract_atomic selects exactly the requested columns**, with the side condition discharged: every id in play is below
the next id of the generator -/
theorem extract_selects_output_fresh (decls : List Comp) (next : CId) (p : List Tr) (out : List CId)
    (hout : ∀ b ∈ out, b < next) (hsel : ∀ a ∈ (splitOffBack decls p out).select, a < next) :
    selectOf (extractAtomic decls next p out).atomic = some (extractAtomic decls next p out).output ∧
    (extractAtomic decls next p out).output.length = out.length := by
  apply extract_selects_output
  intro a ha himg
  exact redirect_fresh_image next _ out a (hsel a ha) hout (by simpa [anchorSplit] using himg)


/-! ### the atomic part holds exactly one Select (what `translate_select_pipeline`'s `exactly_one().unwrap()` relies on) -/

def isSelect : Tr → Bool
  | .select _ => true
  | _ => false

theorem scanStep_kept (decls : List Comp) (s s' x : Scan) (t : Tr) (h : scanStep decls s t = (some s', x))
    (hk : ∀ u ∈ s.kept, isSelect u = false) : ∀ u ∈ s'.kept, isSelect u = false := by
  unfold scanStep at h
  split at h
  · cases h
  · cases t <;> simp only [] at h
    all_goals
      first
      | (split at h
         all_goals first
           | (cases h; intro u hu; first | exact hk u hu | (rcases List.mem_cons.mp hu with rfl | hu; rfl; exact hk u hu))
           | (simp only [Prod.mk.injEq, Option.some.injEq] at h; obtain ⟨rfl, _⟩ := h; intro u hu;
              first | exact hk u hu | (rcases List.mem_cons.mp hu with rfl | hu; rfl; exact hk u hu))
           | cases h)
      | (simp only [Prod.mk.injEq, Option.some.injEq] at h; obtain ⟨rfl, _⟩ := h; intro u hu;
         first | exact hk u hu | (rcases List.mem_cons.mp hu with rfl | hu; rfl; exact hk u hu))

theorem scanRev_kept (decls : List Comp) (rev : List Tr) (s : Scan) (hk : ∀ u ∈ s.kept, isSelect u = false) :
    ∀ u ∈ (scanRev decls rev s).1.kept, isSelect u = false := by
  induction rev generalizing s with
  | nil => exact hk
  | cons t rest ih =>
    unfold scanRev
    cases hs : scanStep decls s t with
    | mk o x =>
      cases o with
      | some s' => simp only []; exact ih s' (scanStep_kept decls s s' x t hs hk)
      | none =>
        simp only []
        -- the scan stops: the state left behind keeps `kept`
        have : x.kept = s.kept := by
          unfold scanStep at hs
          split at hs
          · cases hs; rfl
          · cases t <;> simp only [] at hs
            all_goals first
              | (split at hs <;> first | (cases hs; rfl) | (simp only [Prod.mk.injEq] at hs; obtain ⟨h1, h2⟩ := hs; first | cases h1 | (subst h2; rfl)))
              | (simp only [Prod.mk.injEq] at hs; obtain ⟨h1, h2⟩ := hs; first | cases h1 | (subst h2; rfl))
        intro u hu
        rw [this] at hu
        exact hk u hu

theorem splitOffBack_kept_no_select (decls : List Comp) (p : List Tr) (out : List CId) :
    ∀ u ∈ (splitOffBack decls p out).kept, isSelect u = false := by
  unfold splitOffBack
  exact scanRev_kept decls p.reverse _ (by intro u hu; simp at hu)


/-! ### the scan of the real splitter (with requirements and `can_materialize`) refines the scan over the split table alone -/

/-- the transforms the scan passes, in scan order (last transform of the pipeline first) -/
def passedRev (decls : List Comp) : List Tr → Scan → List Tr
  | [], _ => []
  | t :: rest, s =>
    match scanStep decls s t with
    | (some s', _) => t :: passedRev decls rest s'
    | (none, _) => []

theorem scanStep_some_not_split (decls : List Comp) (s s' x : Scan) (t : Tr) (h : scanStep decls s t = (some s', x)) :
    splitRequired t.kind s.following = false := by
  unfold scanStep at h
  split at h
  · simp at h
  · rename_i hn; simpa using hn

theorem tableScan_ends_with_acc (l : List Kind) (f acc : List Kind) : ∃ pre, Model.Split.scan l f acc = pre ++ acc := by
  induction l generalizing f acc with
  | nil => exact ⟨[], rfl⟩
  | cons k rest ih =>
    unfold Model.Split.scan
    split
    · exact ⟨[], rfl⟩
    · obtain ⟨pre, h⟩ := ih (record k f) (k :: acc)
      exact ⟨pre ++ [k], by rw [h]; simp⟩

/-- whatever the requirements and the compute declarations: the kinds the real scan passes are a SUFFIX of what the scan
over the split table keeps (the real scan may stop earlier - when a compute cannot be materialised - never later) -/
theorem scan_refines_tableScan (decls : List Comp) (rev : List Tr) (s : Scan) (acc : List Kind) :
    ∃ pre, Model.Split.scan (rev.map Tr.kind) s.following acc = pre ++ (passedRev decls rev s).reverse.map Tr.kind ++ acc := by
  induction rev generalizing s acc with
  | nil => exact ⟨[], by simp [Model.Split.scan, passedRev]⟩
  | cons t rest ih =>
    unfold passedRev
    cases hs : scanStep decls s t with
    | mk o x =>
      cases o with
      | none =>
        obtain ⟨pre, h⟩ := tableScan_ends_with_acc ((t :: rest).map Tr.kind) s.following acc
        exact ⟨pre, by simpa using h⟩
      | some s' =>
        have hns := scanStep_some_not_split decls s s' x t hs
        have hf := (scanStep_some decls s s' x t hs).1
        obtain ⟨pre, h⟩ := ih s' (t.kind :: acc)
        refine ⟨pre, ?_⟩
        simp only [List.map_cons, Model.Split.scan, hns, Bool.false_eq_true, if_false]
        rw [← hf, h]
        simp

theorem scanRev_splits (decls : List Comp) (rev : List Tr) (s : Scan) :
    rev = passedRev decls rev s ++ (scanRev decls rev s).2.reverse := by
  induction rev generalizing s with
  | nil => simp [passedRev, scanRev]
  | cons t rest ih =>
    unfold passedRev scanRev
    cases hs : scanStep decls s t with
    | mk o x =>
      cases o with
      | none => simp
      | some s' => simp only [List.cons_append, List.cons.injEq, true_and]; exact ih s'

end Lemmas.Anchor
