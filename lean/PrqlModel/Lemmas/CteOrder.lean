/-
Lemmas about Model.CteOrder (`compile_relation_instance`): the invariant of the recursion over references
(`compile_inv`) and the theorem that every reference by name is to a relation defined before it (`refs_defined`).
-/
import PrqlModel.Model.CteOrder
namespace Lemmas.CteOrder
open Model.CteOrder

/-- every reference by name is to a relation that was defined from the start or whose CTE has been pushed before -/
def RefsDefined (extern : List Nat) (log : List Ev) : Prop :=
  ∀ pre t post, log = pre ++ Ev.useRef t :: post → t ∈ extern ∨ Ev.ctePush t ∈ pre

structure Inv (extern prog : List Nat) (st : St) : Prop where
  defd : ∀ t ∈ st.defined, t ∈ extern ∨ Ev.ctePush t ∈ st.log ∨ t ∈ prog
  refs : RefsDefined extern st.log

/-- the ranking that makes the structure acyclic: a body refers only to relations ranked below its owner -/
structure Ranked (b : Bodies) (rank rankB : Nat → Nat) : Prop where
  body : ∀ bid, ∀ x ∈ bodyOf b bid, rank x.tid < rankB bid ∧ rankB x.bodyId ≤ rank x.tid

theorem snoc_split (log pre post : List Ev) (e x : Ev) (h : log ++ [e] = pre ++ x :: post) :
    (post = [] ∧ log = pre ∧ e = x) ∨ (∃ p', post = p' ++ [e] ∧ log = pre ++ x :: p') := by
  rcases List.eq_nil_or_concat post with rfl | ⟨p', y, rfl⟩
  · left
    have := List.append_inj' h (by simp)
    simp at this
    exact ⟨rfl, this.1, this.2⟩
  · right
    have h' : log ++ [e] = (pre ++ x :: p') ++ [y] := by simpa using h
    have := List.append_inj' h' (by simp)
    simp only [List.cons.injEq, and_true] at this
    exact ⟨p', by rw [this.2]; simp, this.1⟩

theorem refsDefined_append_nonref (extern : List Nat) (log : List Ev) (e : Ev) (h : RefsDefined extern log)
    (hne : ∀ t, e ≠ .useRef t) : RefsDefined extern (log ++ [e]) := by
  intro pre t post heq
  rcases snoc_split log pre post e (.useRef t) heq with ⟨_, _, he⟩ | ⟨p', _, hl⟩
  · exact absurd he (hne t)
  · exact h pre t p' hl

theorem refsDefined_append_ref (extern : List Nat) (log : List Ev) (t : Nat) (h : RefsDefined extern log)
    (ht : t ∈ extern ∨ Ev.ctePush t ∈ log) : RefsDefined extern (log ++ [.useRef t]) := by
  intro pre t' post heq
  rcases snoc_split log pre post (.useRef t) (.useRef t') heq with ⟨_, hl, he⟩ | ⟨p', _, hl⟩
  · cases he; subst hl; exact ht
  · exact h pre t' p' hl


theorem Inv.mono_log {extern prog : List Nat} {st : St} (h : Inv extern prog st) (e : Ev) (hne : ∀ t, e ≠ .useRef t) :
    Inv extern prog { st with log := st.log ++ [e] } := by
  refine ⟨?_, refsDefined_append_nonref extern st.log e h.refs hne⟩
  intro t ht
  rcases h.defd t ht with h1 | h1 | h1
  · exact Or.inl h1
  · exact Or.inr (Or.inl (List.mem_append_left _ h1))
  · exact Or.inr (Or.inr h1)

/-- the invariant is kept by the compilation of one reference and by the fold over a list of references.
`m`: every relation whose CTE is under way (`prog`) is ranked at least `m`, the references compiled here are ranked below `m`. -/
theorem compile_inv (b : Bodies) (rank rankB : Nat → Nat) (hr : Ranked b rank rankB) (extern : List Nat) :
    ∀ fuel, (∀ (prog : List Nat) (m : Nat) (st : St) (r : Ref), Inv extern prog st → (∀ t ∈ prog, m ≤ rank t) →
        rank r.tid < m → rankB r.bodyId ≤ rank r.tid → Inv extern prog (compileRef b fuel st r)) := by
  intro fuel
  induction fuel with
  | zero => intro prog m st r h _ _ _; simpa [compileRef] using h
  | succ fuel ih =>
    -- the fold over a body
    have hfold : ∀ (refs : List Ref) (prog : List Nat) (m : Nat) (st : St), Inv extern prog st → (∀ t ∈ prog, m ≤ rank t) →
        (∀ x ∈ refs, rank x.tid < m ∧ rankB x.bodyId ≤ rank x.tid) →
        Inv extern prog (refs.foldl (fun s x => compileRef b fuel s x) st) := by
      intro refs
      induction refs with
      | nil => intro prog m st h _ _; simpa using h
      | cons x xs ihx =>
        intro prog m st h hp hx
        simp only [List.foldl_cons]
        apply ihx prog m _ _ hp (fun y hy => hx y (List.mem_cons_of_mem _ hy))
        exact ih prog m st x h hp (hx x (by simp)).1 (hx x (by simp)).2
    intro prog m st r h hp hlt hle
    simp only [compileRef]
    by_cases hdef : st.defined.contains r.tid = true
    · -- referenced by name
      simp only [hdef, if_true]
      have hmem : r.tid ∈ st.defined := by simpa using hdef
      refine ⟨?_, ?_⟩
      · intro t ht
        rcases h.defd t ht with h1 | h1 | h1
        · exact Or.inl h1
        · exact Or.inr (Or.inl (List.mem_append_left _ h1))
        · exact Or.inr (Or.inr h1)
      · apply refsDefined_append_ref extern st.log r.tid h.refs
        rcases h.defd r.tid hmem with h1 | h1 | h1
        · exact Or.inl h1
        · exact Or.inr h1
        · exact absurd (hp r.tid h1) (by omega)
    · simp only [hdef, Bool.false_eq_true, if_false]
      have hbody : ∀ x ∈ bodyOf b r.bodyId, rank x.tid < rank r.tid ∧ rankB x.bodyId ≤ rank x.tid := by
        intro x hx
        have := hr.body r.bodyId x hx
        exact ⟨by omega, this.2⟩
      by_cases hsub : (!(r.allowCtes && r.preferCte)) = true
      · -- inlined as a sub-query
        simp only [hsub, if_true]
        have h0 : Inv extern prog { st with log := st.log ++ [Ev.subBegin r.tid] } := h.mono_log _ (by intro t; simp)
        have h1 := hfold (bodyOf b r.bodyId) prog m _ h0 hp (fun x hx => ⟨by have := (hbody x hx).1; omega, (hbody x hx).2⟩)
        exact h1.mono_log _ (by intro t; simp)
      · -- becomes a CTE
        simp only [hsub, Bool.false_eq_true, if_false]
        have h0 : Inv extern (r.tid :: prog) { defined := r.tid :: st.defined, log := st.log ++ [Ev.cteBegin r.tid] } := by
          refine ⟨?_, refsDefined_append_nonref extern st.log _ h.refs (by intro t; simp)⟩
          intro t ht
          rcases List.mem_cons.1 ht with rfl | ht
          · exact Or.inr (Or.inr (by simp))
          · rcases h.defd t ht with h1 | h1 | h1
            · exact Or.inl h1
            · exact Or.inr (Or.inl (List.mem_append_left _ h1))
            · exact Or.inr (Or.inr (List.mem_cons_of_mem _ h1))
        have hp' : ∀ t ∈ r.tid :: prog, rank r.tid ≤ rank t := by
          intro t ht
          rcases List.mem_cons.1 ht with rfl | ht
          · exact Nat.le_refl _
          · have := hp t ht; omega
        have h1 := hfold (bodyOf b r.bodyId) (r.tid :: prog) (rank r.tid) _ h0 hp' hbody
        -- push, then the reference by name
        refine ⟨?_, ?_⟩
        · intro t ht
          rcases h1.defd t ht with h2 | h2 | h2
          · exact Or.inl h2
          · exact Or.inr (Or.inl (List.mem_append_left _ h2))
          · rcases List.mem_cons.1 h2 with rfl | h2
            · exact Or.inr (Or.inl (by simp))
            · exact Or.inr (Or.inr h2)
        · have hpush : RefsDefined extern (_ ++ [Ev.ctePush r.tid]) :=
            refsDefined_append_nonref extern _ (Ev.ctePush r.tid) h1.refs (by intro t; simp)
          have := refsDefined_append_ref extern _ r.tid hpush (Or.inr (by simp))
          simpa [List.append_assoc] using this


theorem compileRefs_inv (b : Bodies) (rank rankB : Nat → Nat) (hr : Ranked b rank rankB) (extern : List Nat) (fuel : Nat)
    (refs : List Ref) (prog : List Nat) (m : Nat) (st : St) (h : Inv extern prog st) (hp : ∀ t ∈ prog, m ≤ rank t)
    (hx : ∀ x ∈ refs, rank x.tid < m ∧ rankB x.bodyId ≤ rank x.tid) :
    Inv extern prog (compileRefs b fuel st refs) := by
  unfold compileRefs
  induction refs generalizing st with
  | nil => simpa using h
  | cons x xs ih =>
    simp only [List.foldl_cons]
    apply ih _ _ (fun y hy => hx y (List.mem_cons_of_mem _ hy))
    exact compile_inv b rank rankB hr extern fuel prog m st x h hp (hx x (by simp)).1 (hx x (by simp)).2

theorem le_foldl_max (l : List Nat) (a : Nat) : a ≤ l.foldl max a ∧ ∀ x ∈ l, x ≤ l.foldl max a := by
  induction l generalizing a with
  | nil => simp
  | cons y ys ih =>
    simp only [List.foldl_cons]
    obtain ⟨h1, h2⟩ := ih (max a y)
    refine ⟨by omega, ?_⟩
    intro x hx
    rcases List.mem_cons.1 hx with rfl | hx
    · omega
    · exact h2 x hx

/-- **every reference by name finds its relation defined.** For a ranked (acyclic) structure of relation bodies, whatever
the flags of the individual references and however deep sub-queries and CTEs nest: whenever the compiler emits a reference
to a relation by name, the relation is one that was defined from the start (a database table) or one whose CTE has
already been pushed to the WITH list - before the reference, hence before the CTE that contains the reference. -/
theorem refs_defined (b : Bodies) (rank rankB : Nat → Nat) (hr : Ranked b rank rankB) (extern : List Nat) (fuel : Nat)
    (main : List Ref) (hmain : ∀ x ∈ main, rankB x.bodyId ≤ rank x.tid) :
    RefsDefined extern (compileMain b fuel extern main) := by
  have hinit : Inv extern [] { defined := extern } :=
    ⟨fun t ht => Or.inl ht, by intro pre t post h; simp at h⟩
  have := compileRefs_inv b rank rankB hr extern fuel main [] ((main.map fun x => rank x.tid).foldl max 0 + 1)
    { defined := extern } hinit (by intro t ht; simp at ht)
    (by
      intro x hx
      have := (le_foldl_max (main.map fun x => rank x.tid) 0).2 (rank x.tid) (List.mem_map_of_mem hx)
      exact ⟨by omega, hmain x hx⟩)
  exact this.refs

theorem lookup_mem (b : Bodies) (bid : Nat) (refs : List Ref) (h : b.lookup bid = some refs) : (bid, refs) ∈ b := by
  induction b with
  | nil => simp [List.lookup] at h
  | cons p ps ih =>
    obtain ⟨k, v⟩ := p
    simp only [List.lookup] at h
    by_cases hk : bid = k
    · subst hk; simp at h; subst h; simp
    · have : (bid == k) = false := by simpa using hk
      simp only [this] at h
      exact List.mem_cons_of_mem _ (ih h)

/-- executable form of `Ranked` -/
def rankedB (b : Bodies) (rank rankB : Nat → Nat) : Bool :=
  b.all fun p => p.2.all fun x => decide (rank x.tid < rankB p.1) && decide (rankB x.bodyId ≤ rank x.tid)

theorem ranked_of_B (b : Bodies) (rank rankB : Nat → Nat) (h : rankedB b rank rankB = true) : Ranked b rank rankB := by
  constructor
  intro bid x hx
  simp only [bodyOf] at hx
  cases hl : b.lookup bid with
  | none => simp [hl] at hx
  | some refs =>
    simp only [hl, Option.getD_some] at hx
    have hm := lookup_mem b bid refs hl
    simp only [rankedB, List.all_eq_true, Bool.and_eq_true, decide_eq_true_eq] at h
    exact h (bid, refs) hm x hx

/-! ### no relation is defined twice -/

theorem withList_append (a b : List Ev) : withList (a ++ b) = withList a ++ withList b := by
  simp [withList, List.filterMap_append]

theorem mem_withList (log : List Ev) (t : Nat) : t ∈ withList log ↔ Ev.ctePush t ∈ log := by
  simp only [withList, List.mem_filterMap]
  constructor
  · rintro ⟨e, he, h⟩
    cases e <;> simp at h
    subst h; exact he
  · intro h; exact ⟨_, h, rfl⟩

/-- pushed relations are marked defined, and nothing is pushed twice -/
structure Once (st : St) : Prop where
  marked : ∀ t, Ev.ctePush t ∈ st.log → t ∈ st.defined
  nodup : (withList st.log).Nodup

/-- what one compilation adds: `defined` only grows, and a relation is pushed only if it was not defined before -/
structure Step (st st' : St) : Prop where
  once : Once st'
  grows : ∀ t ∈ st.defined, t ∈ st'.defined
  fresh : ∀ t, Ev.ctePush t ∈ st'.log → Ev.ctePush t ∈ st.log ∨ t ∉ st.defined

theorem Step.refl {st : St} (h : Once st) : Step st st := ⟨h, fun _ ht => ht, fun _ ht => Or.inl ht⟩

theorem Step.trans {a b c : St} (h1 : Step a b) (h2 : Step b c) : Step a c := by
  refine ⟨h2.once, fun t ht => h2.grows t (h1.grows t ht), ?_⟩
  intro t ht
  rcases h2.fresh t ht with h | h
  · exact h1.fresh t h
  · exact Or.inr (fun hd => h (h1.grows t hd))

theorem Once.log_nonpush {st : St} (h : Once st) (e : Ev) (hne : ∀ t, e ≠ .ctePush t) :
    Step st { st with log := st.log ++ [e] } := by
  have hw : withList (st.log ++ [e]) = withList st.log := by
    rw [withList_append]; cases e <;> simp [withList] at hne ⊢
  refine ⟨⟨?_, by simpa [hw] using h.nodup⟩, fun _ ht => ht, ?_⟩
  · intro t ht
    rcases List.mem_append.1 ht with h1 | h1
    · exact h.marked t h1
    · simp at h1; exact absurd h1.symm (hne t)
  · intro t ht
    rcases List.mem_append.1 ht with h1 | h1
    · exact Or.inl h1
    · simp at h1; exact absurd h1.symm (hne t)

theorem compile_once (b : Bodies) : ∀ fuel (st : St) (r : Ref), Once st → Step st (compileRef b fuel st r) := by
  intro fuel
  induction fuel with
  | zero => intro st r h; simpa [compileRef] using Step.refl h
  | succ fuel ih =>
    have hfold : ∀ (refs : List Ref) (st : St), Once st → Step st (refs.foldl (fun s x => compileRef b fuel s x) st) := by
      intro refs
      induction refs with
      | nil => intro st h; simpa using Step.refl h
      | cons x xs ihx =>
        intro st h
        simp only [List.foldl_cons]
        exact (ih st x h).trans (ihx _ (ih st x h).once)
    intro st r h
    simp only [compileRef]
    by_cases hdef : st.defined.contains r.tid = true
    · simp only [hdef, if_true]
      exact h.log_nonpush _ (by intro t; simp)
    · simp only [hdef, Bool.false_eq_true, if_false]
      have hnd : r.tid ∉ st.defined := by simpa using hdef
      by_cases hsub : (!(r.allowCtes && r.preferCte)) = true
      · simp only [hsub, if_true]
        have s0 := h.log_nonpush (Ev.subBegin r.tid) (by intro t; simp)
        have s1 := hfold (bodyOf b r.bodyId) _ s0.once
        have s2 := s1.once.log_nonpush (Ev.subEnd r.tid) (by intro t; simp)
        exact (s0.trans s1).trans s2
      · simp only [hsub, Bool.false_eq_true, if_false]
        -- the CTE branch
        have o0 : Once { defined := r.tid :: st.defined, log := st.log ++ [Ev.cteBegin r.tid] } := by
          have s0 := h.log_nonpush (Ev.cteBegin r.tid) (by intro t; simp)
          exact ⟨fun t ht => List.mem_cons_of_mem _ (s0.once.marked t ht), s0.once.nodup⟩
        have s1 := hfold (bodyOf b r.bodyId) _ o0
        -- r.tid has not been pushed so far
        have hnot : Ev.ctePush r.tid ∉ ((bodyOf b r.bodyId).foldl (fun s x => compileRef b fuel s x)
            { defined := r.tid :: st.defined, log := st.log ++ [Ev.cteBegin r.tid] }).log := by
          intro hp
          rcases s1.fresh r.tid hp with h1 | h1
          · rcases List.mem_append.1 h1 with h2 | h2
            · exact hnd (h.marked r.tid h2)
            · simp at h2
          · exact h1 (by simp)
        refine ⟨⟨?_, ?_⟩, ?_, ?_⟩
        · intro t ht
          simp only [List.mem_append, List.mem_cons, List.not_mem_nil, or_false] at ht
          rcases ht with h1 | h1 | h1
          · exact s1.once.marked t h1
          · cases h1; exact s1.grows r.tid (by simp)
          · cases h1
        · rw [withList_append]
          simp only [withList, List.filterMap_cons, List.filterMap_nil]
          rw [List.nodup_append]
          refine ⟨s1.once.nodup, by simp, ?_⟩
          intro a ha b' hb
          simp at hb
          subst hb
          intro hab
          subst hab
          exact hnot ((mem_withList _ _).1 ha)
        · intro t ht
          exact s1.grows t (List.mem_cons_of_mem _ ht)
        · intro t ht
          simp only [List.mem_append, List.mem_cons, List.not_mem_nil, or_false] at ht
          rcases ht with h1 | h1 | h1
          · rcases s1.fresh t h1 with h2 | h2
            · rcases List.mem_append.1 h2 with h3 | h3
              · exact Or.inl h3
              · simp at h3
            · exact Or.inr (fun hd => h2 (List.mem_cons_of_mem _ hd))
          · cases h1; exact Or.inr hnd
          · cases h1

/-- **no relation is defined twice**: the WITH list has no repetition -/
theorem with_list_nodup (b : Bodies) (fuel : Nat) (extern : List Nat) (main : List Ref) :
    (withList (compileMain b fuel extern main)).Nodup := by
  have h0 : Once { defined := extern } := ⟨by intro t ht; simp at ht, by simp [withList]⟩
  have : ∀ (refs : List Ref) (st : St), Once st → Once (compileRefs b fuel st refs) := by
    intro refs
    unfold compileRefs
    induction refs with
    | nil => intro st h; simpa using h
    | cons x xs ih => intro st h; simp only [List.foldl_cons]; exact ih _ (compile_once b fuel st x h).once
  exact (this main _ h0).nodup

end Lemmas.CteOrder
