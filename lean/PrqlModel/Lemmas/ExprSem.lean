/-
Soundness lemmas for `expand` and `staticEval` w.r.t. the documented meaning (`evalDoc` on source trees, `evalP` on RQ trees).
Both are sound EXCEPT where they turn an operand of `==`/`!=` (or a bound of `in`) that is not the literal null into the
literal null: the null-ness rule is syntactic.  `nullStable` / `nullStableS` say that this does not happen.
-/
import PrqlModel.Model.PExpr
namespace Lemmas.ExprSem
open Gen.Pratt Model.PExpr Model.Val

/-! ### facts about values -/
theorem tenPow_pos : ∀ e, 0 < tenPow e
  | 0 => by simp [tenPow]
  | n + 1 => by have := tenPow_pos n; simp [tenPow]; omega

theorem tenPow_ne (e : Nat) : ((tenPow e : Nat) : Rat) ≠ 0 := by
  intro h
  have h2 : (tenPow e : Nat) = 0 := by exact_mod_cast h
  have := tenPow_pos e
  omega

theorem ofBool_inj (x y : Bool) : (ofBool x = ofBool y) ↔ x = y := by
  cases x <;> cases y <;> simp [ofBool] <;> decide +kernel

theorem bool_num_eq (x y : Bool) : (((if x then 1 else 0 : Rat)) = (if y then 1 else 0)) ↔ x = y := by
  cases x <;> cases y <;> simp <;> decide +kernel

theorem truth_ofBool (b : Bool) : (ofBool b).truth = some b := by
  cases b <;> simp [ofBool, Value.truth] <;> decide +kernel

theorem vAnd_ofBool (x y : Bool) : vAnd (ofBool x) (ofBool y) = ofBool (x && y) := by
  simp only [vAnd, truth_ofBool]; cases x <;> cases y <;> rfl
theorem vOr_ofBool (x y : Bool) : vOr (ofBool x) (ofBool y) = ofBool (x || y) := by
  simp only [vOr, truth_ofBool]; cases x <;> cases y <;> rfl
theorem vNot_ofBool (x : Bool) : vNot (ofBool x) = ofBool (!x) := by
  simp only [vNot, truth_ofBool]; cases x <;> rfl

theorem float_eq_iff (m m' : Int) (e e' : Nat) :
    ((m : Rat) / ((tenPow e : Nat) : Rat) = (m' : Rat) / ((tenPow e' : Nat) : Rat)) ↔ m * tenPow e' = m' * tenPow e := by
  have h1 := tenPow_ne e
  have h2 := tenPow_ne e'
  constructor
  · intro h
    have : (m : Rat) * ((tenPow e' : Nat) : Rat) = (m' : Rat) * ((tenPow e : Nat) : Rat) := by grind
    exact_mod_cast this
  · intro h
    have : (m : Rat) * ((tenPow e' : Nat) : Rat) = (m' : Rat) * ((tenPow e : Nat) : Rat) := by exact_mod_cast h
    grind

/-- literals that have a value in the model (everything but strings) -/
def Lit.numeric : Lit → Bool
  | .str _ => false
  | _ => true

/-- same-kind literals: `same` decides equality of the values -/
theorem same_iff_value_eq (x y : Lit) (hk : x.kind = y.kind) (hx : Lit.numeric x = true) (hn : x ≠ .null) :
    ∃ a b, x.value = some (.num a) ∧ y.value = some (.num b) ∧ (x.same y = true ↔ a = b) := by
  cases x <;> cases y <;> simp [Lit.kind, Lit.numeric] at hk hx hn
  · rename_i i j
    exact ⟨i, j, rfl, rfl, by simp [Lit.same, Rat.intCast_inj]⟩
  · rename_i a b
    refine ⟨if a then 1 else 0, if b then 1 else 0, rfl, rfl, ?_⟩
    rw [bool_num_eq]; simp [Lit.same]
  · rename_i m e m' e'
    refine ⟨_, _, rfl, rfl, ?_⟩
    rw [float_eq_iff]; simp [Lit.same]

/-! ### one-node simplifications keep the meaning -/
def noStrLit : PExpr → Bool
  | .lit l => Lit.numeric l
  | _ => true

theorem evalUn_sound (ρ : Env) (o : UnOp) (a : PExpr) : evalP ρ (evalUn o a) = evalP ρ (.un o a) := by
  unfold evalUn
  split
  · simp [evalP, Lit.value, unVal, vNot_ofBool]
  · rename_i i
    simp [evalP, Lit.value, unVal, vNeg]
  · rename_i m e
    simp only [evalP, Lit.value, unVal, vNeg, Option.bind_eq_bind, Option.bind_some, Option.some.injEq, Value.num.injEq]
    have : ((-m : Int) : Rat) = -(m : Rat) := by simp
    rw [this]; grind
  · rfl

theorem cmp_lits (ρ : Env) (o : BinOp) (x y : Lit) (ho : isEqNe o = true) (hk : x.kind = y.kind)
    (hx : Lit.numeric x = true) (hy : Lit.numeric y = true) :
    evalP ρ (.bin o (.lit x) (.lit y)) = some (ofBool (if o = .Eq then x.same y else !(x.same y))) := by
  by_cases hn : x = .null
  · subst hn
    have hy' : y = .null := by cases y <;> simp [Lit.kind] at hk ⊢
    subst hy'
    cases o <;> simp [isEqNe] at ho <;>
      simp [evalP, isEqNe, PExpr.isNullLit, nullTest, Lit.value, vIsNull, Value.isNull, Lit.same, vNot_ofBool]
  · obtain ⟨a, b, ha, hb, hab⟩ := same_iff_value_eq x y hk hx hn
    have hxn : (PExpr.lit x).isNullLit = false := by cases x <;> simp [PExpr.isNullLit] at hn ⊢
    have hyn : (PExpr.lit y).isNullLit = false := by
      cases y <;> simp [PExpr.isNullLit]
      cases x <;> simp [Lit.kind] at hk hn
    cases o <;> simp [isEqNe] at ho
    · simp only [evalP, hxn, hyn, Bool.and_false, Bool.false_eq_true, if_false, Gen.Expand.swapArgs, ha, hb,
        Option.bind_eq_bind, Option.bind_some, binVal, vCmp, lift2, Cmp.test, if_true]
      congr 2
      by_cases h : x.same y = true
      · simp [h, hab.mp h]
      · have : ¬ a = b := fun hh => h (hab.mpr hh)
        simp [h, this]
    · simp only [evalP, hxn, hyn, Bool.and_false, Bool.false_eq_true, if_false, Gen.Expand.swapArgs, ha, hb,
        Option.bind_eq_bind, Option.bind_some, binVal, vCmp, lift2, Cmp.test]
      congr 2
      by_cases h : x.same y = true
      · simp [h, hab.mp h]
      · have : ¬ a = b := fun hh => h (hab.mpr hh)
        simp [h, this]

theorem evalBin_sound (ρ : Env) (o : BinOp) (a b : PExpr) (ha : noStrLit a = true) (hb : noStrLit b = true) :
    evalP ρ (evalBin o a b) = evalP ρ (.bin o a b) := by
  unfold evalBin
  split
  · rename_i x y
    split
    · rename_i hk
      rw [cmp_lits ρ .Eq x y rfl hk (by simpa [noStrLit] using ha) (by simpa [noStrLit] using hb)]
      simp [evalP, Lit.value]
    · rfl
  · rename_i x y
    split
    · rename_i hk
      rw [cmp_lits ρ .Ne x y rfl hk (by simpa [noStrLit] using ha) (by simpa [noStrLit] using hb)]
      simp [evalP, Lit.value]
    · rfl
  · simp [evalP, isEqNe, Gen.Expand.swapArgs, Lit.value, binVal, vAnd_ofBool]
  · simp [evalP, isEqNe, Gen.Expand.swapArgs, Lit.value, binVal, vOr_ofBool]
  · simp only [evalP, isEqNe, Bool.false_and, Bool.false_eq_true, if_false, Gen.Expand.swapArgs, Lit.value,
      Option.bind_eq_bind, Option.bind_some, binVal, vCoalesce, Value.isNull, if_true]
    cases evalP ρ b <;> rfl
  · rfl

/-! ### `case` pruning -/
theorem caseVal_true (v r : Option Value) : caseVal (ofBool true) v r = v := by
  simp [caseVal, truth_ofBool]
theorem caseVal_false (v r : Option Value) : caseVal (ofBool false) v r = r := by
  simp [caseVal, truth_ofBool]

theorem pruneCase_sound (ρ : Env) : ∀ e : PExpr, evalP ρ (pruneCase e) = evalP ρ e
  | .caseB c v rest => by
    unfold pruneCase
    split
    · rename_i h; cases h
      simp [evalP, Lit.value, caseVal_true]
    · rename_i h; cases h
      rw [pruneCase_sound ρ rest]
      simp [evalP, Lit.value, caseVal_false]
    · rename_i h; cases h
      simp only [evalP]
      rw [pruneCase_sound ρ rest]
    · rfl
  | .col _ => by simp [pruneCase]
  | .lit _ => by simp [pruneCase]
  | .un _ _ => by simp [pruneCase]
  | .bin _ _ _ => by simp [pruneCase]
  | .caseEnd => by simp [pruneCase]
  | .between _ _ _ => by simp [pruneCase]
  | .fn1 _ _ => by simp [pruneCase]

theorem evalCase_sound (ρ : Env) (e : PExpr) : evalP ρ (evalCase e) = evalP ρ e := by
  rw [← pruneCase_sound ρ e]
  unfold evalCase
  split
  · rename_i h; rw [h]; simp [evalP, Lit.value]
  · rename_i v h; rw [h]; simp [evalP, Lit.value, caseVal_true]
  · rfl

/-! ### congruence: the meaning of a node depends on its children through their meaning and their null-literalness -/
theorem evalP_bin_congr (ρ : Env) (o : BinOp) {a a' b b' : PExpr}
    (ha : evalP ρ a' = evalP ρ a) (hb : evalP ρ b' = evalP ρ b)
    (hna : isEqNe o = true → a'.isNullLit = a.isNullLit) (hnb : isEqNe o = true → b'.isNullLit = b.isNullLit) :
    evalP ρ (.bin o a' b') = evalP ρ (.bin o a b) := by
  by_cases ho : isEqNe o = true
  · simp only [evalP, ho, hna ho, hnb ho, ha, hb]
  · have ho' : isEqNe o = false := by simpa using ho
    simp only [evalP, ho', Bool.false_and, Bool.false_eq_true, if_false, ha, hb]

theorem mkIn_of_nonnull (x lo hi : PExpr) (hl : lo.isNullLit = false) (hh : hi.isNullLit = false) :
    mkIn x lo hi = .between x lo hi := by
  unfold mkIn
  split
  · simp [PExpr.isNullLit] at hl
  · simp [PExpr.isNullLit] at hl
  · simp [PExpr.isNullLit] at hh
  · rfl

/-! ### static evaluation -/
/-- no string literal anywhere (strings have no value in this model) -/
def noStr : PExpr → Bool
  | .lit l => Lit.numeric l
  | .un _ a => noStr a
  | .bin _ a b => noStr a && noStr b
  | .caseB c v r => noStr c && noStr v && noStr r
  | .between x lo hi => noStr x && noStr lo && noStr hi
  | .fn1 _ x => noStr x
  | _ => true

/-- folding does not change whether an operand of `==`/`!=` or a bound of `in` is the literal null -/
def nullStable : PExpr → Bool
  | .un _ a => nullStable a
  | .bin o a b => nullStable a && nullStable b &&
      (!isEqNe o || ((staticEval a).isNullLit == a.isNullLit && (staticEval b).isNullLit == b.isNullLit))
  | .caseB c v r => nullStable c && nullStable v && nullStable r
  | .between x lo hi => nullStable x && nullStable lo && nullStable hi &&
      !(staticEval lo).isNullLit && !(staticEval hi).isNullLit
  | .fn1 _ x => nullStable x
  | _ => true

theorem noStrLit_evalUn (o : UnOp) (a : PExpr) : noStrLit (evalUn o a) = true := by
  unfold evalUn; split <;> simp [noStrLit, Lit.numeric]

theorem noStrLit_of_noStr (e : PExpr) (h : noStr e = true) : noStrLit e = true := by
  cases e <;> simp_all [noStr, noStrLit]

/-- static evaluation of a string-free expression is string-free at the top -/
theorem noStr_sev : ∀ (t : Bool) (e : PExpr), noStr e = true → noStr (sev t e) = true := by
  intro t e
  induction e generalizing t with
  | col i => intro _; cases t <;> simp [sev, noStr]
  | lit l => intro h; cases t <;> simpa [sev] using h
  | un o a iha =>
    intro h
    have := iha false (by simpa [noStr] using h)
    have key : noStr (evalUn o (sev false a)) = true := by
      unfold evalUn; split <;> simp_all [noStr, Lit.numeric]
    cases t <;> simpa [sev] using key
  | bin o a b iha ihb =>
    intro h
    simp only [noStr, Bool.and_eq_true] at h
    have h1 := iha false h.1
    have h2 := ihb false h.2
    have key : noStr (evalBin o (sev false a) (sev false b)) = true := by
      unfold evalBin; split <;> (try split) <;> simp_all [noStr, Lit.numeric]
    cases t <;> simpa [sev] using key
  | caseB c v r ihc ihv ihr =>
    intro h
    simp only [noStr, Bool.and_eq_true] at h
    have h1 := ihc false h.1.1
    have h2 := ihv false h.1.2
    have h3 := ihr true h.2
    have hin : noStr (.caseB (sev false c) (sev false v) (sev true r)) = true := by simp [noStr, h1, h2, h3]
    cases t
    · simp only [sev]
      exact noStr_evalCase _ hin
    · simpa [sev] using hin
  | caseEnd => intro _; cases t <;> simp [sev, noStr, evalCase, pruneCase, Lit.numeric]
  | between x lo hi ihx ihl ihh =>
    intro h
    simp only [noStr, Bool.and_eq_true] at h
    have h1 := ihx false h.1.1
    have h2 := ihl false h.1.2
    have h3 := ihh false h.2
    have key : noStr (mkIn (sev false x) (sev false lo) (sev false hi)) = true := by
      unfold mkIn; split <;> simp_all [noStr, Lit.numeric]
    cases t <;> simpa [sev] using key
  | fn1 f x ihx =>
    intro h
    have := ihx false (by simpa [noStr] using h)
    cases t <;> simpa [sev, noStr] using this
where
  noStr_pruneCase : ∀ e : PExpr, noStr e = true → noStr (pruneCase e) = true
    | .caseB c v rest, h => by
      simp only [noStr, Bool.and_eq_true] at h
      unfold pruneCase
      split
      · rename_i hh; cases hh; simp [noStr, h.1.2, Lit.numeric]
      · rename_i hh; cases hh; exact noStr_pruneCase rest h.2
      · rename_i hh; cases hh
        simp [noStr, h.1.1, h.1.2, noStr_pruneCase rest h.2]
      · simp [noStr, h]
    | .col _, _ => by simp [pruneCase, noStr]
    | .lit _, h => by simpa [pruneCase] using h
    | .un _ _, h => by simpa [pruneCase] using h
    | .bin _ _ _, h => by simpa [pruneCase] using h
    | .caseEnd, _ => by simp [pruneCase, noStr]
    | .between _ _ _, h => by simpa [pruneCase] using h
    | .fn1 _ _, h => by simpa [pruneCase] using h
  noStr_evalCase (e : PExpr) (h : noStr e = true) : noStr (evalCase e) = true := by
    have hp := noStr_pruneCase e h
    unfold evalCase
    split
    · simp [noStr, Lit.numeric]
    · rename_i v hh; rw [hh] at hp; simp only [noStr, Bool.and_eq_true] at hp; exact hp.1.2
    · exact hp

/-- T3 (partial): static evaluation keeps the documented meaning of every string-free, null-stable expression -/
theorem sev_sound (ρ : Env) : ∀ (t : Bool) (e : PExpr), noStr e = true → nullStable e = true →
    evalP ρ (sev t e) = evalP ρ e := by
  intro t e
  induction e generalizing t with
  | col i => intro _ _; cases t <;> rfl
  | lit l => intro _ _; cases t <;> rfl
  | un o a iha =>
    intro hs hn
    have h1 := iha false (by simpa [noStr] using hs) (by simpa [nullStable] using hn)
    have key : evalP ρ (evalUn o (sev false a)) = evalP ρ (.un o a) := by
      rw [evalUn_sound]; simp only [evalP, h1]
    cases t <;> simpa [sev] using key
  | bin o a b iha ihb =>
    intro hs hn
    simp only [noStr, Bool.and_eq_true] at hs
    simp only [nullStable, Bool.and_eq_true, Bool.or_eq_true, Bool.not_eq_true', beq_iff_eq] at hn
    have h1 := iha false hs.1 hn.1.1
    have h2 := ihb false hs.2 hn.1.2
    have key : evalP ρ (evalBin o (sev false a) (sev false b)) = evalP ρ (.bin o a b) := by
      rw [evalBin_sound ρ o _ _ (noStrLit_of_noStr _ (noStr_sev false a hs.1)) (noStrLit_of_noStr _ (noStr_sev false b hs.2))]
      apply evalP_bin_congr ρ o h1 h2
      · intro ho; rcases hn.2 with h | h
        · rw [h] at ho; cases ho
        · exact h.1
      · intro ho; rcases hn.2 with h | h
        · rw [h] at ho; cases ho
        · exact h.2
    cases t <;> simpa [sev] using key
  | caseB c v r ihc ihv ihr =>
    intro hs hn
    simp only [noStr, Bool.and_eq_true] at hs
    simp only [nullStable, Bool.and_eq_true] at hn
    have h1 := ihc false hs.1.1 hn.1.1
    have h2 := ihv false hs.1.2 hn.1.2
    have h3 := ihr true hs.2 hn.2
    have key : evalP ρ (.caseB (sev false c) (sev false v) (sev true r)) = evalP ρ (.caseB c v r) := by
      simp only [evalP, h1, h2, h3]
    cases t
    · simp only [sev]; rw [evalCase_sound]; exact key
    · simpa [sev] using key
  | caseEnd =>
    intro _ _
    cases t
    · simp only [sev]; rw [evalCase_sound]
    · rfl
  | between x lo hi ihx ihl ihh =>
    intro hs hn
    simp only [noStr, Bool.and_eq_true] at hs
    simp only [nullStable, Bool.and_eq_true, Bool.not_eq_true', staticEval] at hn
    have h1 := ihx false hs.1.1 hn.1.1.1.1
    have h2 := ihl false hs.1.2 hn.1.1.1.2
    have h3 := ihh false hs.2 hn.1.1.2
    have key : evalP ρ (mkIn (sev false x) (sev false lo) (sev false hi)) = evalP ρ (.between x lo hi) := by
      rw [mkIn_of_nonnull _ _ _ hn.1.2 hn.2]
      simp only [evalP, h1, h2, h3]
    cases t <;> simpa [sev] using key
  | fn1 f x ihx =>
    intro hs hn
    have h1 := ihx false (by simpa [noStr] using hs) (by simpa [nullStable] using hn)
    have key : evalP ρ (.fn1 f (sev false x)) = evalP ρ (.fn1 f x) := by simp only [evalP, h1]
    cases t <;> simpa [sev] using key

/-! ### expand -/
/-- expansion (`+x` = `x`) does not change whether an operand of `==`/`!=` or a bound of `in` is the literal null -/
def nullStableS : SExpr → Bool
  | .un _ e => nullStableS e
  | .bin o l r => nullStableS l && nullStableS r &&
      (!isEqNe o || ((expand l).isNullLit == isNullLit l && (expand r).isNullLit == isNullLit r))
  | .call2 o l r => nullStableS l && nullStableS r &&
      (!isEqNe o || ((expand l).isNullLit == isNullLit l && (expand r).isNullLit == isNullLit r))
  | .caseB c v r => nullStableS c && nullStableS v && nullStableS r
  | .inRange x lo hi => nullStableS x && nullStableS lo && nullStableS hi &&
      ((expand lo).isNullLit == isNullLit lo) && ((expand hi).isNullLit == isNullLit hi)
  | .fn1 _ x => nullStableS x
  | _ => true

theorem swap_not_eqne (o : BinOp) (h : Gen.Expand.swapArgs o = true) : isEqNe o = false := by
  cases o <;> simp [Gen.Expand.swapArgs] at h <;> rfl

theorem evalP_mkBin (ρ : Env) (o : BinOp) (l r : SExpr) (l' r' : PExpr)
    (hl : evalP ρ l' = evalDoc ρ l) (hr : evalP ρ r' = evalDoc ρ r)
    (hnl : isEqNe o = true → l'.isNullLit = isNullLit l) (hnr : isEqNe o = true → r'.isNullLit = isNullLit r) :
    evalP ρ (mkBin o l' r') =
      (if isEqNe o && isNullLit l then do nullTest o (← evalDoc ρ r)
       else if isEqNe o && isNullLit r then do nullTest o (← evalDoc ρ l)
       else do binVal o (← evalDoc ρ l) (← evalDoc ρ r)) := by
  unfold mkBin
  by_cases hs : Gen.Expand.swapArgs o = true
  · have he := swap_not_eqne o hs
    simp only [hs, if_true, evalP, he, Bool.false_and, Bool.false_eq_true, if_false, hl, hr]
  · have hs' : Gen.Expand.swapArgs o = false := by simpa using hs
    by_cases he : isEqNe o = true
    · simp only [hs', Bool.false_eq_true, if_false, evalP, he, Bool.true_and, hnl he, hnr he, hl, hr]
    · have he' : isEqNe o = false := by simpa using he
      simp only [hs', Bool.false_eq_true, if_false, evalP, he', Bool.false_and, hl, hr]

theorem isNullLit_iff (e : PExpr) : e.isNullLit = true ↔ e = .lit .null := by
  constructor
  · intro h; cases e <;> simp [PExpr.isNullLit] at h
    rename_i l; cases l <;> simp [PExpr.isNullLit] at h ⊢
  · intro h; subst h; rfl

theorem expand_sound (ρ : Env) : ∀ e : SExpr, nullStableS e = true → evalP ρ (expand e) = evalDoc ρ e := by
  intro e
  induction e with
  | col i => intro _; rfl
  | lit l => intro _; rfl
  | un o e ih =>
    intro h
    have h1 := ih (by simpa [nullStableS] using h)
    cases o <;> simp [expand, Gen.Expand.unName, evalP, evalDoc, h1, unVal]
  | bin o l r ihl ihr =>
    intro h
    simp only [nullStableS, Bool.and_eq_true, Bool.or_eq_true, Bool.not_eq_true', beq_iff_eq] at h
    have h1 := ihl h.1.1
    have h2 := ihr h.1.2
    simp only [expand, evalDoc]
    apply evalP_mkBin ρ o l r _ _ h1 h2
    · intro ho; rcases h.2 with hh | hh
      · rw [hh] at ho; cases ho
      · exact hh.1
    · intro ho; rcases h.2 with hh | hh
      · rw [hh] at ho; cases ho
      · exact hh.2
  | call2 o l r ihl ihr =>
    intro h
    simp only [nullStableS, Bool.and_eq_true, Bool.or_eq_true, Bool.not_eq_true', beq_iff_eq] at h
    have h1 := ihl h.1.1
    have h2 := ihr h.1.2
    simp only [expand, evalDoc]
    apply evalP_mkBin ρ o l r _ _ h1 h2
    · intro ho; rcases h.2 with hh | hh
      · rw [hh] at ho; cases ho
      · exact hh.1
    · intro ho; rcases h.2 with hh | hh
      · rw [hh] at ho; cases ho
      · exact hh.2
  | caseB c v r ihc ihv ihr =>
    intro h
    simp only [nullStableS, Bool.and_eq_true] at h
    simp only [expand, evalP, evalDoc, ihc h.1.1, ihv h.1.2, ihr h.2]
  | caseEnd => intro _; rfl
  | fn1 f x ih =>
    intro h
    simp only [expand, evalP, evalDoc, ih (by simpa [nullStableS] using h)]
  | inRange x lo hi ihx ihl ihh =>
    intro h
    simp only [nullStableS, Bool.and_eq_true, beq_iff_eq] at h
    have h1 := ihx h.1.1.1.1
    have h2 := ihl h.1.1.1.2
    have h3 := ihh h.1.1.2
    have hl := h.1.2
    have hh := h.2
    simp only [expand, evalDoc]
    by_cases nl : isNullLit lo = true <;> by_cases nh : isNullLit hi = true
    · have e1 := (isNullLit_iff _).mp (hl.trans nl)
      have e2 := (isNullLit_iff _).mp (hh.trans nh)
      simp [e1, e2, mkIn, nl, nh, evalP, Lit.value]
    · have e1 := (isNullLit_iff _).mp (hl.trans nl)
      have nh' : isNullLit hi = false := by simpa using nh
      have e2 : (expand hi).isNullLit = false := hh.trans nh'
      have : mkIn (expand x) (expand lo) (expand hi) = .bin .Lte (expand x) (expand hi) := by
        rw [e1]; unfold mkIn; split <;> simp_all [PExpr.isNullLit]
      rw [this]
      simp [evalP, isEqNe, Gen.Expand.swapArgs, binVal, nl, nh', h1, h3]
    · have nl' : isNullLit lo = false := by simpa using nl
      have e1 : (expand lo).isNullLit = false := hl.trans nl'
      have e2 := (isNullLit_iff _).mp (hh.trans nh)
      have : mkIn (expand x) (expand lo) (expand hi) = .bin .Gte (expand x) (expand lo) := by
        rw [e2]; unfold mkIn; split <;> simp_all [PExpr.isNullLit]
      rw [this]
      simp [evalP, isEqNe, Gen.Expand.swapArgs, binVal, nl', nh, h1, h2]
    · have nl' : isNullLit lo = false := by simpa using nl
      have nh' : isNullLit hi = false := by simpa using nh
      rw [mkIn_of_nonnull _ _ _ (hl.trans nl') (hh.trans nh')]
      simp [evalP, nl', nh', h1, h2, h3]

end Lemmas.ExprSem
