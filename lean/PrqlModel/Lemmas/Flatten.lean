/-
Lemmas about the mirror of the Flattener (Model/Flatten.lean): the state the pass hands on is the declaratively defined
sort in effect (`flat_sort`), `sort_undone` / partition / frame are restored (`flat_undone`, `flat_partition`,
`flat_frame`), and which Sort transforms disappear (`undone_drops_sorts`, `sorts_kept`).
-/
import PrqlModel.Model.Flatten
namespace Lemmas.Flatten
open Model.Flatten

/-- the sort handed on by the pass is the declaratively defined sort in effect -/
theorem flat_sort (st : St) (p : PL) : (flat st p).1.sort = effSort st.sort p := by
  induction p generalizing st with
  | nil => rfl
  | sort init by_ ih => simp only [flat]; split <;> rfl
  | group init e b inner ih1 ih2 => rfl
  | window init f inner ih1 ih2 =>
    simp only [flat, effSort]
    rw [ih2, ih1]
  | join init side ih1 ih2 => simp only [flat, effSort]; exact ih1 st
  | append init side ih1 ih2 => simp only [flat, effSort]; exact ih1 st
  | other init tag ih => simp only [flat, effSort]; exact ih st

/-- `sort_undone` is restored by every transform call -/
theorem flat_undone (st : St) (p : PL) : (flat st p).1.undone = st.undone := by
  induction p generalizing st with
  | nil => rfl
  | sort init by_ ih => simp only [flat]; split <;> exact ih st
  | group init e b inner ih1 ih2 => rfl
  | window init f inner ih1 ih2 => simp only [flat]; rw [ih2, ih1]
  | join init side ih1 ih2 => simp only [flat]; rw [ih2, ih1]
  | append init side ih1 ih2 => simp only [flat]; rw [ih2, ih1]
  | other init tag ih => simp only [flat]; exact ih st

/-- outside a group there is no partition -/
theorem flat_partition (st : St) (p : PL) (h : st.partition = 0) : (flat st p).1.partition = 0 := by
  induction p generalizing st with
  | nil => exact h
  | sort init by_ ih => simp only [flat]; split <;> exact ih st h
  | group init e b inner ih1 ih2 => rfl
  | window init f inner ih1 ih2 => simp only [flat]; exact ih2 _ (ih1 st h)
  | join init side ih1 ih2 => simp only [flat]; exact ih2 _ (ih1 st h)
  | append init side ih1 ih2 => simp only [flat]; exact ih2 _ (ih1 st h)
  | other init tag ih => simp only [flat]; exact ih st h

/-- outside a window there is no frame -/
theorem flat_frame (st : St) (p : PL) (h : st.frame = 0) : (flat st p).1.frame = 0 := by
  induction p generalizing st with
  | nil => exact h
  | sort init by_ ih => simp only [flat]; split <;> exact ih st h
  | group init e b inner ih1 ih2 => simp only [flat]; exact ih2 _ (ih1 _ (by split <;> exact h))
  | window init f inner ih1 ih2 => rfl
  | join init side ih1 ih2 => simp only [flat]; exact ih2 _ (ih1 st h)
  | append init side ih1 ih2 => simp only [flat]; exact ih2 _ (ih1 st h)
  | other init tag ih => simp only [flat]; exact ih st h

def countOther : PL → Nat
  | .other init _ => countOther init + 1
  | .sort init _ => countOther init
  | _ => 0

def countSort : PL → Nat
  | .other init _ => countSort init
  | .sort init _ => countSort init + 1
  | _ => 0

/-- while `sort_undone` is set a pipeline without nested calls emits one transform call per non-sort transform: every
Sort is dropped as a transform (its key lives on in the state, `flat_sort`) -/
theorem undone_drops_sorts (st : St) (p : PL) (hs : p.simple = true) (hu : st.undone = true) :
    (flat st p).2.length = countOther p := by
  induction p generalizing st with
  | nil => rfl
  | sort init by_ ih =>
    simp only [PL.simple] at hs
    have hund : (flat st init).1.undone = true := by rw [flat_undone]; exact hu
    simp only [flat, hund, if_true, countOther]
    exact ih st hs hu
  | other init tag ih =>
    simp only [PL.simple] at hs
    simp only [flat, List.length_append, List.length_cons, List.length_nil, countOther]
    rw [ih st hs hu]
  | group => simp [PL.simple] at hs
  | window => simp [PL.simple] at hs
  | join => simp [PL.simple] at hs
  | append => simp [PL.simple] at hs

/-- otherwise every Sort is kept -/
theorem sorts_kept (st : St) (p : PL) (hs : p.simple = true) (hu : st.undone = false) :
    (flat st p).2.length = countOther p + countSort p := by
  induction p generalizing st with
  | nil => rfl
  | sort init by_ ih =>
    simp only [PL.simple] at hs
    have hund : (flat st init).1.undone = false := by rw [flat_undone]; exact hu
    simp only [flat, hund, Bool.false_eq_true, if_false, countOther, countSort, List.length_append, List.length_cons,
      List.length_nil]
    rw [ih st hs hu]; omega
  | other init tag ih =>
    simp only [PL.simple] at hs
    simp only [flat, List.length_append, List.length_cons, List.length_nil, countOther, countSort]
    rw [ih st hs hu]; omega
  | group => simp [PL.simple] at hs
  | window => simp [PL.simple] at hs
  | join => simp [PL.simple] at hs
  | append => simp [PL.simple] at hs

end Lemmas.Flatten
