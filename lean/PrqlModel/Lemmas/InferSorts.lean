/-
Lemmas about the mirror of the sorting inference (Model/InferSorts.lean): the state of the pass is the sort in effect
read off the transforms (`run_state`), where Sorts are emitted and what they contain, which transforms are handed
through, the widening of a CTE's Select, and the purity of look-ups between blocks.
-/
import PrqlModel.Model.InferSorts
namespace Lemmas.InferSorts
open Model.InferSorts

/-- spec with an arbitrary starting state (most recent transform first) -/
def doFrom (st : St) : List STr → Bool
  | [] => st.fromDO
  | .from _ f :: _ => f
  | .sort _ :: _ => false
  | .distinct :: _ => false
  | .aggregate :: _ => false
  | .distinctOn :: _ => true
  | .join :: _ => false
  | .take _ _ :: before => doFrom st before
  | .select _ :: before => doFrom st before
  | .other :: before => doFrom st before

def effFrom (st : St) : List STr → Sorting
  | [] => st.sorting
  | .from inh _ :: _ => inh
  | .sort s :: _ => s
  | .distinct :: _ => []
  | .aggregate :: _ => []
  | .join :: before => if doFrom st before then [] else effFrom st before
  | .take _ _ :: before => effFrom st before
  | .select _ :: before => effFrom st before
  | .other :: before => effFrom st before
  | .distinctOn :: before => effFrom st before

theorem doFrom_init (l : List STr) : doFrom {} l = doInEffect l := by
  induction l with
  | nil => rfl
  | cons t ts ih => cases t <;> simp [doFrom, doInEffect, ih]

theorem effFrom_init (l : List STr) : effFrom {} l = inEffect l := by
  induction l with
  | nil => rfl
  | cons t ts ih => cases t <;> simp [effFrom, inEffect, ih, doFrom_init]

theorem run_append (st : St) (a b : List STr) :
    run st (a ++ b) = ((run (run st a).1 b).1, (run st a).2 ++ (run (run st a).1 b).2) := by
  induction a generalizing st with
  | nil => simp [run]
  | cons t ts ih =>
    simp only [List.cons_append, run]
    rw [ih]
    simp [List.append_assoc]

theorem run_single (st : St) (t : STr) : run st [t] = step st t := by
  simp [run]

theorem doFrom_snoc (st : St) (l : List STr) (t : STr) : doFrom st (l ++ [t]) = doFrom (step st t).1 l := by
  induction l with
  | nil => cases t <;> simp [doFrom, step]; split <;> simp_all
  | cons x xs ih => cases x <;> simp [doFrom, ih]

theorem effFrom_snoc (st : St) (l : List STr) (t : STr) : effFrom st (l ++ [t]) = effFrom (step st t).1 l := by
  induction l with
  | nil => cases t <;> simp [effFrom, doFrom, step]; split <;> simp_all
  | cons x xs ih => cases x <;> simp [effFrom, ih, doFrom_snoc]

/-- the state after a run is the sort in effect read off the transforms -/
theorem run_state (st : St) (ts : List STr) :
    (run st ts).1 = { sorting := effFrom st ts.reverse, fromDO := doFrom st ts.reverse } := by
  induction ts generalizing st with
  | nil => simp [run, effFrom, doFrom]
  | cons t ts ih =>
    simp only [run, List.reverse_cons]
    rw [ih, effFrom_snoc, doFrom_snoc]


/-- the Sort in front of a Take is the take's own sort if it is a plain take that carries one, else the sort in effect -/
theorem take_sort (ts pre post : List STr) (plain : Bool) (emb : Sorting)
    (h : ts = pre ++ .take plain emb :: post) :
    (run {} ts).2 = (run {} pre).2 ++
      [.emitted (if plain && !emb.isEmpty then emb else inEffect pre.reverse), .keep (.take plain emb)] ++
      (run (run {} pre).1 post).2 := by
  subst h
  rw [run_append]
  simp only [run, step]
  rw [run_state, effFrom_init]
  simp

/-- the Sort in front of a DistinctOn is the sort in effect -/
theorem distinctOn_sort (ts pre post : List STr) (h : ts = pre ++ .distinctOn :: post) :
    (run {} ts).2 = (run {} pre).2 ++ [.emitted (inEffect pre.reverse), .keep .distinctOn] ++
      (run { sorting := inEffect pre.reverse, fromDO := true } post).2 := by
  subst h
  rw [run_append]
  simp only [run, step]
  rw [run_state, effFrom_init]
  simp

def keptOf : OTr → Option STr
  | .keep t => some t
  | .emitted _ => none

def isSortT : STr → Bool
  | .sort _ => true
  | _ => false

/-- every input Sort is dropped, every other transform is handed through unchanged and in order -/
theorem kept_transforms (st : St) (ts : List STr) :
    (run st ts).2.filterMap keptOf = ts.filter (fun t => !isSortT t) := by
  induction ts generalizing st with
  | nil => simp [run]
  | cons t ts ih =>
    simp only [run, List.filterMap_append, ih]
    cases t <;> simp [step, keptOf, isSortT, List.filterMap]

/-- a Sort is emitted only directly in front of a Take or a DistinctOn -/
def emittedOnlyBefore : List OTr → Bool
  | [] => true
  | .emitted _ :: .keep (.take p e) :: rest => emittedOnlyBefore (.keep (.take p e) :: rest)
  | .emitted _ :: .keep .distinctOn :: rest => emittedOnlyBefore (.keep .distinctOn :: rest)
  | .emitted _ :: _ => false
  | .keep _ :: rest => emittedOnlyBefore rest

theorem emittedOnlyBefore_append (a b : List OTr) (ha : emittedOnlyBefore a = true) (hb : emittedOnlyBefore b = true)
    (hlast : ∀ s, a.getLast? ≠ some (.emitted s)) : emittedOnlyBefore (a ++ b) = true := by
  induction a using emittedOnlyBefore.induct with
  | case1 => simpa using hb
  | case2 s p e rest ih =>
    simp only [List.cons_append, emittedOnlyBefore] at ha ⊢
    exact ih ha (by intro s' h; exact hlast s' (by simpa [List.getLast?_cons_cons] using h))
  | case3 s rest ih =>
    simp only [List.cons_append, emittedOnlyBefore] at ha ⊢
    exact ih ha (by intro s' h; exact hlast s' (by simpa [List.getLast?_cons_cons] using h))
  | case4 s rest h1 h2 =>
    cases rest with
    | nil => exact absurd rfl (hlast s)
    | cons x xs =>
      cases x with
      | emitted s' => simp [emittedOnlyBefore] at ha
      | keep t =>
        cases t <;> simp_all [emittedOnlyBefore]
  | case5 t rest ih =>
    simp only [List.cons_append, emittedOnlyBefore] at ha ⊢
    cases rest with
    | nil => simpa using hb
    | cons x xs => exact ih ha (by intro s' h; exact hlast s' (by simpa [List.getLast?_cons_cons] using h))

theorem step_shape (st : St) (t : STr) :
    emittedOnlyBefore (step st t).2 = true ∧ ∀ s, (step st t).2.getLast? ≠ some (.emitted s) := by
  cases t <;> simp [step, emittedOnlyBefore]

theorem run_last (st : St) (ts : List STr) : ∀ s, (run st ts).2.getLast? ≠ some (.emitted s) := by
  induction ts generalizing st with
  | nil => simp [run]
  | cons t ts ih =>
    intro s
    simp only [run, List.getLast?_append]
    cases h : (run (step st t).1 ts).2.getLast? with
    | none => simpa using (step_shape st t).2 s
    | some v =>
      simp only [Option.some_or]
      intro hv
      exact ih (step st t).1 s (hv ▸ h)

theorem run_emits_only_before (st : St) (ts : List STr) : emittedOnlyBefore (run st ts).2 = true := by
  induction ts generalizing st with
  | nil => simp [run, emittedOnlyBefore]
  | cons t ts ih =>
    simp only [run]
    exact emittedOnlyBefore_append _ _ (step_shape st t).1 (ih _) (step_shape st t).2

/-! widening of the Select of a block that becomes a CTE -/

theorem widen_subset (cols : List CId) (s : Sorting) : ∀ c ∈ cols, c ∈ widen cols s := by
  induction s generalizing cols with
  | nil => intro c hc; simpa [widen] using hc
  | cons x xs ih =>
    intro c hc
    simp only [widen, List.foldl_cons]
    apply ih
    split
    · exact hc
    · exact List.mem_append_left _ hc

theorem widen_covers (cols : List CId) (s : Sorting) : ∀ c ∈ s, c.1 ∈ widen cols s := by
  induction s generalizing cols with
  | nil => intro c hc; simp at hc
  | cons x xs ih =>
    intro c hc
    simp only [widen, List.foldl_cons]
    rcases List.mem_cons.1 hc with rfl | h
    · apply widen_subset
      split
      · rename_i h1; simpa using h1
      · simp
    · exact ih _ c h

def firstSelect : List OTr → Option (List CId)
  | [] => none
  | .keep (.select cols) :: _ => some cols
  | _ :: rest => firstSelect rest

theorem firstSelect_widen (s : Sorting) (out : List OTr) :
    firstSelect (widenFirstSelect s out) = (firstSelect out).map (fun cols => widen cols s) := by
  induction out with
  | nil => simp [widenFirstSelect, firstSelect]
  | cons o rest ih =>
    cases o with
    | emitted x => simp [widenFirstSelect, firstSelect, ih]
    | keep t =>
      cases t <;> simp_all [widenFirstSelect, firstSelect]

/-- the Select of a block that is not the main relation provides every column of the sorting the block hands on -/
theorem cte_select_has_sort_columns (ts : List STr) (cols : List CId)
    (h : firstSelect (inferBlock false ts).2 = some cols) :
    ∀ c ∈ (inferBlock false ts).1.sorting, c.1 ∈ cols := by
  simp only [inferBlock, Bool.false_eq_true, if_false] at h ⊢
  rw [firstSelect_widen] at h
  cases hfs : firstSelect (run {} ts).2 with
  | none => simp [hfs] at h
  | some c0 =>
    simp only [hfs, Option.map_some, Option.some.injEq] at h
    subst h
    exact widen_covers c0 _


/-! ### between blocks -/

inductive Ev where
  | ins (tid : Nat) (v : Sorting × Bool)
  | read (tid : Nat)
  deriving Repr

/-- the store after a history of inserts and look-ups -/
def storeAfter : Store → List Ev → Store
  | s, [] => s
  | s, .ins t v :: r => storeAfter (s.insert t v) r
  | s, .read _ :: r => storeAfter s r

/-- the answers to the look-ups of a history -/
def answers : Store → List Ev → List (Sorting × Bool)
  | _, [] => []
  | s, .ins t v :: r => answers (s.insert t v) r
  | s, .read t :: r => s.read t :: answers s r

def isIns : Ev → Bool
  | .ins _ _ => true
  | .read _ => false

theorem read_insert_same (s : Store) (t : Nat) (v : Sorting × Bool) : (s.insert t v).read t = v := by
  simp [Store.insert, Store.read]

theorem read_insert_other (s : Store) (t t' : Nat) (v : Sorting × Bool) (h : t ≠ t') :
    (s.insert t' v).read t = s.read t := by
  have : (t == t') = false := by simpa using h
  simp [Store.insert, Store.read, List.lookup, this]

/-- look-ups do not change the store: however many readers a CTE has, the next reader finds the same sorting -/
theorem storeAfter_ignores_reads (s : Store) (evs : List Ev) :
    storeAfter s evs = storeAfter s (evs.filter isIns) := by
  induction evs generalizing s with
  | nil => rfl
  | cons e r ih =>
    cases e with
    | ins t v => simp only [storeAfter, List.filter_cons, isIns, if_true]; exact ih _
    | read t => simp only [storeAfter, List.filter_cons, isIns, Bool.false_eq_true, if_false]; exact ih _

end Lemmas.InferSorts
