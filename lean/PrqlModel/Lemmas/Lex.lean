/- Helper lemmas for C17: every parser of Model/Lex returns a suffix of its input (strict where it must consume),
the fuel of the repetitions suffices, and the lexing loop tiles its input. -/
import PrqlModel.Model.Lex
namespace Lemmas.Lex
open Gen.Lex Model.Lex

/-- `Sfx r s k`: `r` is a suffix of `s` and at least `k` characters were consumed -/
def Sfx (r s : Src) (k : Nat) : Prop := r <:+ s ∧ r.length + k ≤ s.length

theorem Sfx.refl (s : Src) : Sfx s s 0 := ⟨List.suffix_refl s, by omega⟩
theorem Sfx.mono {r s : Src} {k j : Nat} (h : Sfx r s k) (hj : j ≤ k) : Sfx r s j := ⟨h.1, by have := h.2; omega⟩
theorem Sfx.cons {r s : Src} {k : Nat} (c : Char) (h : Sfx r s k) : Sfx r (c :: s) (k + 1) :=
  ⟨h.1.trans (List.suffix_cons c s), by have := h.2; simp; omega⟩
theorem Sfx.trans {a b c : Src} {k m : Nat} (h1 : Sfx a b k) (h2 : Sfx b c m) : Sfx a c (k + m) :=
  ⟨h1.1.trans h2.1, by have := h1.2; have := h2.2; omega⟩
theorem Sfx.dropWhile (p : Char → Bool) (s : Src) : Sfx (s.dropWhile p) s 0 :=
  ⟨List.dropWhile_suffix p, by have := (List.dropWhile_suffix (l := s) p).length_le; omega⟩
theorem Sfx.skipWs (s : Src) : Sfx (skipWs s) s 0 := Sfx.dropWhile _ s
theorem Sfx.cons1 (c : Char) (s : Src) : Sfx s (c :: s) 1 := (Sfx.refl s).cons c
theorem Sfx.lt {r s : Src} {k : Nat} (h : Sfx r s (k + 1)) : r.length < s.length := by have := h.2; omega
theorem Sfx.zero {r s : Src} {k : Nat} (h : Sfx r s k) : Sfx r s 0 := h.mono (Nat.zero_le _)
theorem Sfx.one {r s : Src} {k : Nat} (h : Sfx r s (k + 1)) : Sfx r s 1 := h.mono (by omega)

theorem stripPrefix_eq {p s r : Src} (h : stripPrefix p s = some r) : s = p ++ r := by
  induction p generalizing s with
  | nil => simp [stripPrefix] at h; simp [h]
  | cons c cs ih =>
    cases s with
    | nil => simp [stripPrefix] at h
    | cons d ds =>
      simp only [stripPrefix] at h
      split at h
      · next hcd => subst hcd; simp [ih h]
      · cases h

theorem stripPrefix_sfx {p s r : Src} (h : stripPrefix p s = some r) : Sfx r s p.length := by
  have := stripPrefix_eq h; subst this
  exact ⟨List.suffix_append p r, by simp; omega⟩

theorem newline_sfx {s r : Src} (h : newline s = some r) : Sfx r s 1 := by
  unfold newline at h
  split at h <;> simp at h <;> subst h
  · exact Sfx.cons1 _ _
  · exact ((Sfx.cons1 _ _).cons _).one
  · exact Sfx.cons1 _ _

theorem takeUpTo_sfx (p : Char → Bool) (n : Nat) (s : Src) : Sfx (takeUpTo p n s).2 s (takeUpTo p n s).1.length := by
  induction n generalizing s with
  | zero => simp [takeUpTo]; exact Sfx.refl s
  | succ n ih =>
    cases s with
    | nil => simp [takeUpTo]; exact Sfx.refl _
    | cons c r =>
      simp only [takeUpTo]
      split
      · simp; exact (ih r).cons c
      · simp; exact Sfx.refl _

theorem takeUpTo_append (p : Char → Bool) (n : Nat) (s : Src) : (takeUpTo p n s).1 ++ (takeUpTo p n s).2 = s := by
  induction n generalizing s with
  | zero => simp [takeUpTo]
  | succ n ih =>
    cases s with
    | nil => simp [takeUpTo]
    | cons c r =>
      simp only [takeUpTo]
      split
      · simp [ih r]
      · simp

theorem comment_sfx {s r : Src} {c : Bool × Src} (h : comment s = some (c, r)) : Sfx r s 1 := by
  unfold comment at h
  split at h <;> simp at h
  · obtain ⟨_, rfl⟩ := h; exact (((Sfx.dropWhile _ _).cons _).cons _).one
  · obtain ⟨_, rfl⟩ := h; exact ((Sfx.dropWhile _ _).cons _)

theorem lineWrapItem_sfx {s r : Src} {c : Bool × Src} (h : lineWrapItem s = some (c, r)) : Sfx r s 1 := by
  unfold lineWrapItem at h
  split at h
  · next c' r' hc =>
    split at h
    · next r'' hn =>
      simp at h; obtain ⟨_, rfl⟩ := h
      exact (((newline_sfx hn).trans (comment_sfx hc)).trans (Sfx.skipWs s)).one
    · cases h
  · cases h

/-! ### the generic repetition -/

theorem repeatF_isSome {α : Type} (step : Src → Option (α × Src))
    (hstep : ∀ s a r, step s = some (a, r) → r.length < s.length) :
    ∀ (n : Nat) (s : Src), s.length < n → (repeatF step n s).isSome := by
  intro n
  induction n with
  | zero => intro s h; omega
  | succ n ih =>
    intro s h
    unfold repeatF
    split
    · rfl
    · next a r hs =>
      have := hstep s a r hs
      have := ih r (by omega)
      split
      · rfl
      · next hn => simp [hn] at this

theorem repeatF_sfx {α : Type} (step : Src → Option (α × Src))
    (hstep : ∀ s a r, step s = some (a, r) → Sfx r s 1) :
    ∀ (n : Nat) (s : Src) (as : List α) (r : Src), repeatF step n s = some (as, r) → Sfx r s 0 := by
  intro n
  induction n with
  | zero => intro s as r h; simp [repeatF] at h
  | succ n ih =>
    intro s as r h
    unfold repeatF at h
    split at h
    · simp at h; obtain ⟨_, rfl⟩ := h; exact Sfx.refl _
    · next a r1 hs =>
      split at h
      · next as' r' hr =>
        simp at h; obtain ⟨_, rfl⟩ := h
        exact ((ih r1 as' r' hr).trans (hstep s a r1 hs)).zero
      · cases h

/-- more fuel than needed changes nothing -/
theorem repeatF_fuel {α : Type} (step : Src → Option (α × Src))
    (hstep : ∀ s a r, step s = some (a, r) → r.length < s.length) :
    ∀ (n m : Nat) (s : Src), s.length < n → s.length < m → repeatF step n s = repeatF step m s := by
  intro n
  induction n with
  | zero => intro m s h; omega
  | succ n ih =>
    intro m s hn hm
    cases m with
    | zero => omega
    | succ m =>
      unfold repeatF
      split
      · rfl
      · next a r hs =>
        have := hstep s a r hs
        rw [ih m r (by omega) (by omega)]


/-! ### every token parser consumes -/

theorem lineWrapItem_lt (s : Src) (a : Bool × Src) (r : Src) (h : lineWrapItem s = some (a, r)) : r.length < s.length :=
  (lineWrapItem_sfx h).lt

theorem lineWrap_sfx {s r : Src} {k : Kind} (h : lineWrap s = some (k, r)) : Sfx r s 1 := by
  unfold lineWrap at h
  split at h
  · cases h
  · next r0 hn =>
    split at h
    · cases h
    · next cs r1 hr =>
      have h1 := repeatF_sfx lineWrapItem (fun s a r h => lineWrapItem_sfx h) _ _ _ _ hr
      split at h
      · next r2 hw =>
        simp at h; obtain ⟨_, rfl⟩ := h
        have h2 : Sfx r2 (skipWs r1) 1 := by rw [hw]; exact Sfx.cons1 _ _
        exact (((h2.trans (Sfx.skipWs r1)).trans h1).trans (newline_sfx hn)).one
      · cases h

theorem parseEscape_sfx (s : Src) : Sfx (parseEscape s).2 s 0 := by
  unfold parseEscape
  split
  · exact Sfx.refl _
  · next c r =>
    split
    · exact (Sfx.cons1 _ _).zero
    · split
      · split
        · next r1 =>
          have h := takeUpTo_sfx isHexDigit unicodeEscapeMaxHex r1
          dsimp only
          split
          · next r3 heq =>
            simp only
            have : Sfx r3 (takeUpTo isHexDigit unicodeEscapeMaxHex r1).2 1 := by rw [heq]; exact Sfx.cons1 _ _
            exact (((this.trans h).cons '{').cons c).zero
          · simp only; exact ((h.cons '{').cons c).zero
        · exact (Sfx.cons1 _ _).zero
      · split
        · dsimp only
          split
          · exact ((takeUpTo_sfx isHexDigit hexEscapeDigits r).cons c).zero
          · exact ((takeUpTo_sfx isHexDigit hexEscapeDigits r).cons c).zero
        · exact (Sfx.cons1 _ _).zero

theorem stripQuotes_sfx {q : Char} {n : Nat} {s r : Src} (h : stripQuotes q n s = some r) : Sfx r s n := by
  induction n generalizing s with
  | zero => simp [stripQuotes] at h; subst h; exact Sfx.refl _
  | succ n ih =>
    cases s with
    | nil => simp [stripQuotes] at h
    | cons c cs =>
      simp only [stripQuotes] at h
      split at h
      · exact (ih h).cons c
      · cases h

theorem contentChar_sfx {q : Char} {n : Nat} {e : Bool} {s r : Src} {c : Char} (h : contentChar q n e s = some (c, r)) :
    Sfx r s 1 := by
  unfold contentChar at h
  split at h
  · cases h
  · cases s with
    | nil => simp at h
    | cons c' r' =>
      dsimp only at h
      split at h
      · simp at h
        have h1 := (parseEscape_sfx r').cons c'
        rw [h] at h1
        exact h1.one
      · simp at h; obtain ⟨_, h2⟩ := h; rw [← h2]; exact Sfx.cons1 _ _

theorem takeWhile_dropWhile_length (p : Char → Bool) (s : Src) :
    (s.takeWhile p).length + (s.dropWhile p).length = s.length := by
  have := congrArg List.length (List.takeWhile_append_dropWhile (p := p) (l := s))
  rw [List.length_append] at this; exact this

theorem multiQuoted_sfx {q : Char} {e : Bool} {s r v : Src} (h : multiQuoted q e s = some (v, r)) : Sfx r s 1 := by
  unfold multiQuoted at h
  simp only at h
  have hlen := takeWhile_dropWhile_length (· == q) s
  have hd : Sfx (s.dropWhile (· == q)) s (s.takeWhile (· == q)).length :=
    ⟨List.dropWhile_suffix _, by omega⟩
  split at h
  · cases h
  · next hn =>
    have hd1 : Sfx (s.dropWhile (· == q)) s 1 := hd.mono (by omega)
    split at h
    · simp at h; obtain ⟨_, rfl⟩ := h; exact hd1
    · split at h
      · cases h
      · next cs r1 hr =>
        have h1 := repeatF_sfx _ (fun s a r h => contentChar_sfx h) _ _ _ _ hr
        split at h
        · next r2 hq =>
          simp at h; obtain ⟨_, rfl⟩ := h
          exact (((stripQuotes_sfx hq).zero.trans h1).trans hd1).one
        · cases h

theorem quotedString_sfx {e : Bool} {s r v : Src} (h : quotedString e s = some (v, r)) : Sfx r s 1 := by
  unfold quotedString at h
  split at h
  · next x hx => simp at h; subst h; exact multiQuoted_sfx hx
  · exact multiQuoted_sfx h

theorem interpolation_sfx {s r : Src} {k : Kind} (h : interpolation s = some (k, r)) : Sfx r s 1 := by
  unfold interpolation at h
  split at h
  · split at h
    · split at h
      · next v r' hq => simp at h; obtain ⟨_, rfl⟩ := h; exact ((quotedString_sfx hq).cons _).one
      · cases h
    · cases h
  · cases h

theorem rawString_sfx {s r : Src} {l : Lit} (h : rawString s = some (l, r)) : Sfx r s 1 := by
  unfold rawString at h
  split at h
  · next q r0 =>
    split at h
    · split at h
      · next q2 r' hd =>
        split at h
        · simp at h; obtain ⟨_, rfl⟩ := h
          have : Sfx r' (r0.dropWhile isRawStringChar) 1 := by rw [hd]; exact Sfx.cons1 _ _
          exact (((this.trans (Sfx.dropWhile _ _)).cons q).cons 'r').one
        · cases h
      · cases h
    · cases h
  · cases h

theorem param_sfx {s r : Src} {k : Kind} (h : param s = some (k, r)) : Sfx r s 1 := by
  unfold param at h
  split at h
  · simp at h; obtain ⟨_, rfl⟩ := h; exact (Sfx.dropWhile _ _).cons _
  · cases h

theorem identPart_sfx {s r v : Src} (h : identPart s = some (v, r)) : Sfx r s 1 := by
  unfold identPart at h
  split at h
  · next c r0 =>
    split at h
    · simp at h; obtain ⟨_, rfl⟩ := h; exact (Sfx.dropWhile _ _).cons _
    · split at h
      · split at h
        · next x r' hd =>
          simp at h; obtain ⟨_, rfl⟩ := h
          have : Sfx r' (r0.dropWhile (· != '`')) 1 := by rw [hd]; exact Sfx.cons1 _ _
          exact ((this.trans (Sfx.dropWhile _ _)).cons c).one
        · cases h
      · cases h
  · cases h

theorem firstPrefix_eq {ps : List Src} {s p r : Src} (h : firstPrefix ps s = some (p, r)) : p ∈ ps ∧ s = p ++ r := by
  induction ps with
  | nil => simp [firstPrefix] at h
  | cons q qs ih =>
    simp only [firstPrefix] at h
    split at h
    · next r' hs => simp at h; obtain ⟨rfl, rfl⟩ := h; exact ⟨by simp, stripPrefix_eq hs⟩
    · have := ih h; exact ⟨by simp [this.1], this.2⟩

theorem firstPrefix_sfx {ps : List Src} {s p r : Src} (hne : ∀ q ∈ ps, q ≠ []) (h : firstPrefix ps s = some (p, r)) :
    Sfx r s 1 := by
  obtain ⟨hm, rfl⟩ := firstPrefix_eq h
  have := hne p hm
  refine ⟨List.suffix_append p r, ?_⟩
  cases p with
  | nil => exact absurd rfl this
  | cons => simp

theorem keywords_nonempty : ∀ q ∈ keywords, q ≠ [] := by decide
theorem booleans_nonempty : ∀ q ∈ booleanLits.map (·.1), q ≠ [] := by decide
theorem nullLit_length : 1 ≤ nullLit.length := by decide
theorem ops_nonempty : ∀ e ∈ multiCharOps, e.1 ≠ [] := by decide

theorem keyword_sfx {s r : Src} {k : Kind} (h : keyword s = some (k, r)) : Sfx r s 1 := by
  unfold keyword at h
  split at h
  · next kw r' hf =>
    split at h
    · simp at h; obtain ⟨_, rfl⟩ := h; exact firstPrefix_sfx keywords_nonempty hf
    · cases h
  · cases h

theorem dropUnderscore_sfx (s : Src) : Sfx (dropUnderscore s) s 0 := by
  unfold dropUnderscore
  split
  · exact (Sfx.cons1 _ _).zero
  · exact Sfx.refl _

theorem radixNumber_sfx {pre : Src} {b m : Nat} {v : Char → Bool} {s r : Src} {l : Lit}
    (h : radixNumber pre b m v s = some (l, r)) : Sfx r s 1 := by
  unfold radixNumber at h
  split at h
  · cases h
  · next r0 hp =>
    split at h
    · cases h
    · next hne =>
      simp at h; obtain ⟨_, h2⟩ := h; rw [← h2]
      have h0 := (stripPrefix_sfx hp).zero
      have hl : 1 ≤ (takeUpTo v m (dropUnderscore r0)).1.length := by
        cases hx : (takeUpTo v m (dropUnderscore r0)).1 with
        | nil => exact absurd hx hne
        | cons => simp
      have h1 := (takeUpTo_sfx v m (dropUnderscore r0)).mono hl
      exact ((h1.trans (dropUnderscore_sfx r0)).trans h0).one

theorem parseInteger_sfx {s r v : Src} (h : parseInteger s = some (v, r)) : Sfx r s 1 := by
  unfold parseInteger at h
  split at h
  · split at h
    · simp at h; obtain ⟨_, rfl⟩ := h; exact (Sfx.dropWhile _ _).cons _
    · split at h
      · simp at h; obtain ⟨_, rfl⟩ := h; exact Sfx.cons1 _ _
      · cases h
  · cases h

theorem fraction_sfx (s : Src) : Sfx (fraction s).2 s 0 := by
  unfold fraction
  split
  · split
    · exact (((Sfx.dropWhile _ _).cons _).cons _).zero
    · exact Sfx.refl _
  · exact Sfx.refl _

theorem exponent_sfx (s : Src) : Sfx (exponent s).2 s 0 := by
  unfold exponent
  split
  · split
    · split
      · split
        · exact ((((Sfx.dropWhile _ _).cons _).cons _).cons _).zero
        · split
          · exact (((Sfx.dropWhile isDigit _).cons _).cons _).zero
          · exact Sfx.refl _
      · split
        · exact ((Sfx.cons1 _ _).cons _).zero
        · exact Sfx.refl _
      · exact Sfx.refl _
    · exact Sfx.refl _
  · exact Sfx.refl _

theorem number_sfx {s r : Src} {l : Lit} (h : number s = some (l, r)) : Sfx r s 1 := by
  unfold number at h
  split at h
  · cases h
  · next i r0 hp =>
    simp only at h
    have h3 := ((exponent_sfx (fraction r0).2).trans (fraction_sfx r0)).trans (parseInteger_sfx hp)
    split at h <;> (simp at h; obtain ⟨_, rfl⟩ := h; exact h3.one)

theorem valueAndUnit_sfx {s r : Src} {l : Lit} (h : valueAndUnit s = some (l, r)) : Sfx r s 1 := by
  unfold valueAndUnit at h
  split at h
  · cases h
  · next i r0 hp =>
    split at h
    · cases h
    · next u r' hf =>
      split at h
      · simp at h; obtain ⟨_, rfl⟩ := h
        obtain ⟨_, rfl⟩ := firstPrefix_eq hf
        have : Sfx r' (u ++ r') 0 := ⟨List.suffix_append u r', by simp⟩
        exact (this.trans (parseInteger_sfx hp)).one
      · cases h

theorem boolean_sfx {s r : Src} {l : Lit} (h : boolean s = some (l, r)) : Sfx r s 1 := by
  unfold boolean at h
  split at h
  · next kw r' hf =>
    split at h
    · simp at h; obtain ⟨_, rfl⟩ := h; exact firstPrefix_sfx booleans_nonempty hf
    · cases h
  · cases h

theorem null_sfx {s r : Src} {l : Lit} (h : null s = some (l, r)) : Sfx r s 1 := by
  unfold null at h
  split at h
  · next r' hf =>
    split at h
    · simp at h; obtain ⟨_, rfl⟩ := h; exact (stripPrefix_sfx hf).mono nullLit_length
    · cases h
  · cases h

theorem string_sfx {s r : Src} {l : Lit} (h : string s = some (l, r)) : Sfx r s 1 := by
  unfold string at h
  split at h
  · next v r' hq => simp at h; obtain ⟨_, rfl⟩ := h; exact quotedString_sfx hq
  · cases h

theorem orElse_some {α : Type} {a : Option α} {b : Unit → Option α} {x : α} (h : orElse a b = some x) :
    a = some x ∨ (a = none ∧ b () = some x) := by
  unfold orElse at h
  split at h
  · simp at h; subst h; exact .inl rfl
  · exact .inr ⟨rfl, h⟩

theorem literal_sfx {s r : Src} {l : Lit} (h : literal s = some (l, r)) : Sfx r s 1 := by
  unfold literal at h
  rcases orElse_some h with h | ⟨_, h⟩; · exact radixNumber_sfx h
  rcases orElse_some h with h | ⟨_, h⟩; · exact radixNumber_sfx h
  rcases orElse_some h with h | ⟨_, h⟩; · exact radixNumber_sfx h
  rcases orElse_some h with h | ⟨_, h⟩; · exact string_sfx h
  rcases orElse_some h with h | ⟨_, h⟩; · exact rawString_sfx h
  rcases orElse_some h with h | ⟨_, h⟩; · exact valueAndUnit_sfx h
  rcases orElse_some h with h | ⟨_, h⟩; · exact number_sfx h
  rcases orElse_some h with h | ⟨_, h⟩; · exact boolean_sfx h
  exact null_sfx h


theorem digitsExact_sfx {n : Nat} {s r v : Src} (h : digitsExact n s = some (v, r)) : Sfx r s 0 := by
  unfold digitsExact at h
  dsimp only at h
  split at h
  · simp at h; have := takeUpTo_sfx isDigit n s; rw [h] at this; exact this.zero
  · cases h

theorem dateInner_sfx {s r v : Src} (h : dateInner s = some (v, r)) : Sfx r s 0 := by
  unfold dateInner at h
  split at h
  · next y r1 h1 =>
    split at h
    · next m r2 h2 =>
      split at h
      · next d r3 h3 =>
        simp at h; rw [← h.2]
        exact ((((digitsExact_sfx h3).trans (Sfx.cons1 '-' r2)).trans (digitsExact_sfx h2)).trans
          ((Sfx.cons1 '-' r1).trans (digitsExact_sfx h1))).zero
      · cases h
    · cases h
  · cases h

theorem sepDigits_sfx (c : Char) (s : Src) : Sfx (sepDigits c s).2 s 0 := by
  unfold sepDigits
  split
  · split
    · split
      · next d r' hd => exact ((digitsExact_sfx hd).cons _).zero
      · exact Sfx.refl _
    · exact Sfx.refl _
  · exact Sfx.refl _

theorem millis_sfx (s : Src) : Sfx (millis s).2 s 0 := by
  unfold millis
  split
  · dsimp only
    split
    · exact Sfx.refl _
    · exact ((takeUpTo_sfx isDigit msMaxDigits _).cons _).zero
  · exact Sfx.refl _

theorem timezone_sfx (s : Src) : Sfx (timezone s).2 s 0 := by
  unfold timezone
  split
  · exact (Sfx.cons1 _ _).zero
  · split
    · split
      · next h r1 h1 =>
        split
        · next m r3 h3 =>
          have : Sfx (dropColon r1) r1 0 := by
            unfold dropColon
            split
            · exact (Sfx.cons1 _ _).zero
            · exact Sfx.refl _
          exact ((((digitsExact_sfx h3).trans this).trans (digitsExact_sfx h1)).cons _).zero
        · exact Sfx.refl _
      · exact Sfx.refl _
    · exact Sfx.refl _
  · exact Sfx.refl _

theorem timeInner_sfx {s r v : Src} (h : timeInner s = some (v, r)) : Sfx r s 0 := by
  unfold timeInner at h
  split at h
  · cases h
  · next hh r0 h0 =>
    simp at h; rw [← h.2]
    exact ((((timezone_sfx _).trans (millis_sfx _)).trans (sepDigits_sfx ':' _)).trans
      ((sepDigits_sfx ':' r0).trans (digitsExact_sfx h0))).zero

theorem timestampLit_sfx {s r : Src} {l : Lit} (h : timestampLit s = some (l, r)) : Sfx r s 0 := by
  unfold timestampLit at h
  split at h
  · next d r0 hd =>
    split at h
    · next t r' ht =>
      split at h
      · simp at h; rw [← h.2]
        exact (((timeInner_sfx ht).trans (Sfx.cons1 'T' r0)).trans (dateInner_sfx hd)).zero
      · cases h
    · cases h
  · cases h

theorem dateLit_sfx {s r : Src} {l : Lit} (h : dateLit s = some (l, r)) : Sfx r s 0 := by
  unfold dateLit at h
  split at h
  · next d r0 hd =>
    split at h
    · simp at h; rw [← h.2]; exact dateInner_sfx hd
    · cases h
  · cases h

theorem timeLit_sfx {s r : Src} {l : Lit} (h : timeLit s = some (l, r)) : Sfx r s 0 := by
  unfold timeLit at h
  split at h
  · next d r0 hd =>
    split at h
    · simp at h; rw [← h.2]; exact timeInner_sfx hd
    · cases h
  · cases h

theorem dateToken_sfx {s r : Src} {k : Kind} (h : dateToken s = some (k, r)) : Sfx r s 1 := by
  unfold dateToken at h
  split at h
  · next d r0 =>
    split at h
    · split at h
      · next l r' ho =>
        simp at h; rw [← h.2]
        have : Sfx r' (d :: r0) 0 := by
          rcases orElse_some ho with h | ⟨_, h⟩; · exact timestampLit_sfx h
          rcases orElse_some h with h | ⟨_, h⟩; · exact dateLit_sfx h
          exact timeLit_sfx h
        exact (this.cons '@').one
      · cases h
    · cases h
  · cases h

theorem multiCharOp_sfx {ops : List (Src × Op × Bool)} (hne : ∀ e ∈ ops, e.1 ≠ []) {s r : Src} {k : Kind}
    (h : multiCharOp ops s = some (k, r)) : Sfx r s 1 := by
  induction ops with
  | nil => simp [multiCharOp] at h
  | cons e es ih =>
    obtain ⟨p, o, g⟩ := e
    simp only [multiCharOp] at h
    have hes : ∀ e ∈ es, e.1 ≠ [] := fun e he => hne e (by simp [he])
    split at h
    · next r' hp =>
      split at h
      · simp at h; rw [← h.2]
        have hp1 : p ≠ [] := hne (p, o, g) (by simp)
        refine (stripPrefix_sfx hp).mono ?_
        cases p with
        | nil => exact absurd rfl hp1
        | cons => simp
      · exact ih hes h
    · exact ih hes h

theorem token_sfx {s r : Src} {k : Kind} (h : token s = some (k, r)) : Sfx r s 1 := by
  unfold token at h
  rcases orElse_some h with h | ⟨_, h⟩; · exact lineWrap_sfx h
  rcases orElse_some h with h | ⟨_, h⟩
  · unfold newlineTok at h; split at h
    · next r' hn => simp at h; rw [← h.2]; exact newline_sfx hn
    · cases h
  rcases orElse_some h with h | ⟨_, h⟩; · exact multiCharOp_sfx ops_nonempty h
  rcases orElse_some h with h | ⟨_, h⟩; · exact interpolation_sfx h
  rcases orElse_some h with h | ⟨_, h⟩; · exact param_sfx h
  rcases orElse_some h with h | ⟨_, h⟩; · exact dateToken_sfx h
  rcases orElse_some h with h | ⟨_, h⟩
  · unfold annotate at h; split at h
    · simp at h; rw [← h.2]; exact Sfx.cons1 _ _
    · cases h
  rcases orElse_some h with h | ⟨_, h⟩
  · unfold Model.Lex.control at h; split at h
    · split at h
      · simp at h; rw [← h.2]; exact Sfx.cons1 _ _
      · cases h
    · cases h
  rcases orElse_some h with h | ⟨_, h⟩
  · unfold literalTok at h; split at h
    · next l r' hl => simp at h; rw [← h.2]; exact literal_sfx hl
    · cases h
  rcases orElse_some h with h | ⟨_, h⟩; · exact keyword_sfx h
  rcases orElse_some h with h | ⟨_, h⟩
  · unfold identTok at h; split at h
    · next l r' hl => simp at h; rw [← h.2]; exact identPart_sfx hl
    · cases h
  · unfold commentTok at h; split at h
    · next l r' hl => simp at h; rw [← h.2]; exact comment_sfx hl
    · cases h


/-! ### one token, the loop -/

theorem Sfx.split {r s : Src} {k : Nat} (h : Sfx r s (k + 1)) : ∃ body, body ≠ [] ∧ s = body ++ r := by
  obtain ⟨⟨body, hb⟩, hl⟩ := h
  refine ⟨body, ?_, hb.symm⟩
  intro he; subst he; subst hb; simp at hl; omega

theorem mem_takeWhile {p : Char → Bool} {s : Src} {c : Char} (h : c ∈ s.takeWhile p) : p c = true := by
  induction s with
  | nil => simp at h
  | cons d r ih =>
    simp only [List.takeWhile] at h
    split at h
    · next hd => simp at h; rcases h with rfl | h; exact hd; exact ih h
    · simp at h

theorem dropWhile_nil_all {p : Char → Bool} {s : Src} (h : s.dropWhile p = []) : ∀ c ∈ s, p c = true := by
  induction s with
  | nil => simp
  | cons d r ih =>
    simp only [List.dropWhile] at h
    split at h
    · next hd => intro c hc; simp at hc; rcases hc with rfl | hc; exact hd; exact ih h c hc
    · cases h

theorem skipWs_split (s : Src) : ∃ ws, s = ws ++ skipWs s ∧ ∀ c ∈ ws, isInlineWs c = true :=
  ⟨s.takeWhile isInlineWs, (List.takeWhile_append_dropWhile).symm, fun _ hc => mem_takeWhile hc⟩

theorem lexToken_sfx {s r : Src} {t : RawTok} (h : lexToken s = some (t, r)) : Sfx r s 1 := by
  unfold lexToken at h
  dsimp only at h
  split at h
  · next r' hp =>
    simp at h; rw [← h.2]
    exact (((Sfx.skipWs r').trans (stripPrefix_sfx hp)).trans (Sfx.skipWs s)).mono (by decide)
  · split at h
    · next k r' ht => simp at h; rw [← h.2]; exact ((token_sfx ht).trans (Sfx.skipWs s)).one
    · cases h

/-- one step of the loop: the input is whitespace, then the token's own text (non-empty), then the rest -/
theorem lexToken_spec {s r : Src} {t : RawTok} (h : lexToken s = some (t, r)) :
    r = t.to_ ∧ ∃ ws body, s = ws ++ t.from_ ∧ (∀ c ∈ ws, isInlineWs c = true) ∧ t.from_ = body ++ t.to_ ∧ body ≠ [] := by
  have hs := lexToken_sfx h
  unfold lexToken at h
  dsimp only at h
  split at h
  · next r' hp =>
    simp at h; obtain ⟨ht, hr⟩ := h; subst ht; subst hr
    obtain ⟨body, hb, he⟩ := hs.split
    exact ⟨rfl, [], body, by simp, by simp, he, hb⟩
  · split at h
    · next k r' ht =>
      simp at h; obtain ⟨ht', hr⟩ := h; subst ht'; subst hr
      obtain ⟨ws, hw, hall⟩ := skipWs_split s
      obtain ⟨body, hb, he⟩ := (token_sfx ht).split
      exact ⟨rfl, ws, body, hw, hall, he, hb⟩
    · cases h

theorem startsWithWs_false_iff (s : Src) : startsWithWs s = false ↔ s.takeWhile isInlineWs = [] := by
  cases s with
  | nil => simp [startsWithWs]
  | cons c r => simp only [startsWithWs, List.takeWhile]; cases isInlineWs c <;> simp

theorem startsWithWs_skipWs (s : Src) : startsWithWs (skipWs s) = false := by
  induction s with
  | nil => simp [skipWs, startsWithWs]
  | cons c r ih =>
    simp only [skipWs, List.dropWhile]
    cases hc : isInlineWs c
    · simp [startsWithWs, hc]
    · simpa [skipWs] using ih

/-- how a range token owns its whitespace: whenever the input, after optional inline whitespace, starts with `..`, the
token is a range whose span starts *before* that whitespace and ends after *all* the inline whitespace that follows
`..`; `bind_left` / `bind_right` say exactly whether the respective whitespace is empty. -/
theorem lexToken_range {s r' : Src} (h : stripPrefix rangeStr (skipWs s) = some r') :
    ∃ w1 w2, s = w1 ++ (rangeStr ++ (w2 ++ skipWs r')) ∧ (∀ c ∈ w1, isInlineWs c = true) ∧ (∀ c ∈ w2, isInlineWs c = true) ∧
      startsWithWs (skipWs r') = false ∧
      lexToken s = some (⟨.range (decide (w1 = [])) (decide (w2 = [])), s, skipWs r'⟩, skipWs r') := by
  refine ⟨s.takeWhile isInlineWs, r'.takeWhile isInlineWs, ?_, fun _ hc => mem_takeWhile hc, fun _ hc => mem_takeWhile hc,
    startsWithWs_skipWs r', ?_⟩
  · have h1 := stripPrefix_eq h
    have h2 : s = s.takeWhile isInlineWs ++ skipWs s := (List.takeWhile_append_dropWhile).symm
    have h3 : r' = r'.takeWhile isInlineWs ++ skipWs r' := (List.takeWhile_append_dropWhile).symm
    rw [h1] at h2
    rw [← h3]; exact h2
  · unfold lexToken
    simp only [h]
    have e1 : (!startsWithWs s) = decide (s.takeWhile isInlineWs = []) := by
      cases hs : startsWithWs s
      · simp [(startsWithWs_false_iff s).1 hs]
      · have : ¬ s.takeWhile isInlineWs = [] := fun hn => by rw [(startsWithWs_false_iff s).2 hn] at hs; cases hs
        simp [this]
    have e2 : (!startsWithWs r') = decide (r'.takeWhile isInlineWs = []) := by
      cases hs : startsWithWs r'
      · simp [(startsWithWs_false_iff r').1 hs]
      · have : ¬ r'.takeWhile isInlineWs = [] := fun hn => by rw [(startsWithWs_false_iff r').2 hn] at hs; cases hs
        simp [this]
    rw [e1, e2]

/-- the loop's result: a tiling of the input by (whitespace, token text) pairs -/
inductive Tiles : Src → List RawTok → Src → Prop
  | nil (s : Src) : Tiles s [] s
  | cons {ws body r rest : Src} {ts : List RawTok} (k : Kind) :
      (∀ c ∈ ws, isInlineWs c = true) → body ≠ [] →
      lexToken (ws ++ (body ++ r)) = some (⟨k, body ++ r, r⟩, r) → Tiles r ts rest →
      Tiles (ws ++ (body ++ r)) (⟨k, body ++ r, r⟩ :: ts) rest

theorem repeatF_tiles : ∀ (n : Nat) (s : Src) (ts : List RawTok) (rest : Src),
    repeatF lexToken n s = some (ts, rest) → Tiles s ts rest := by
  intro n
  induction n with
  | zero => intro s ts rest h; simp [repeatF] at h
  | succ n ih =>
    intro s ts rest h
    unfold repeatF at h
    split at h
    · simp at h; obtain ⟨rfl, rfl⟩ := h; exact Tiles.nil _
    · next t r1 hs =>
      split at h
      · next ts' r' hr =>
        simp at h; obtain ⟨rfl, rfl⟩ := h
        obtain ⟨hr1, ws, body, hw, hall, hf, hb⟩ := lexToken_spec hs
        obtain ⟨k, fr, to⟩ := t
        simp only at hr1 hw hf
        subst hr1; subst hf; subst hw
        exact Tiles.cons k hall hb hs (ih _ _ _ hr)
      · cases h

theorem lexToken_lt (s : Src) (a : RawTok) (r : Src) (h : lexToken s = some (a, r)) : r.length < s.length :=
  (lexToken_sfx h).lt


/-! ### bytes -/

theorem width_pos (c : Char) : 1 ≤ width c := by
  unfold width; split; · omega
  split; · omega
  split <;> omega

theorem utf8Len_append (a b : Src) : utf8Len (a ++ b) = utf8Len a + utf8Len b := by
  induction a with
  | nil => simp [utf8Len]
  | cons c r ih => simp [utf8Len, ih]; omega

theorem utf8Len_pos {s : Src} (h : s ≠ []) : 0 < utf8Len s := by
  cases s with
  | nil => exact absurd rfl h
  | cons c r => have := width_pos c; simp [utf8Len]; omega

theorem dropBytes_append (p q : Src) : dropBytes (utf8Len p) (p ++ q) = q := by
  induction p with
  | nil => simp [utf8Len, dropBytes]
  | cons c r ih =>
    have hw := width_pos c
    obtain ⟨n, hn⟩ : ∃ n, utf8Len (c :: r) = n + 1 := ⟨width c + utf8Len r - 1, by simp [utf8Len]; omega⟩
    rw [hn]; simp only [List.cons_append, dropBytes]
    have : n + 1 - width c = utf8Len r := by simp [utf8Len] at hn; omega
    rw [this, ih]

theorem takeBytes_append (m q : Src) : takeBytes (utf8Len m) (m ++ q) = m := by
  induction m with
  | nil => simp [utf8Len, takeBytes]
  | cons c r ih =>
    have hw := width_pos c
    obtain ⟨n, hn⟩ : ∃ n, utf8Len (c :: r) = n + 1 := ⟨width c + utf8Len r - 1, by simp [utf8Len]; omega⟩
    rw [hn]; simp only [List.cons_append, takeBytes]
    have : n + 1 - width c = utf8Len r := by simp [utf8Len] at hn; omega
    rw [this, ih]

theorem byteSlice_mid (p m q : Src) (a b : Nat) (ha : a = utf8Len p) (hb : b = utf8Len p + utf8Len m) :
    byteSlice (p ++ (m ++ q)) a b = m := by
  subst ha; subst hb
  unfold byteSlice
  rw [dropBytes_append, show utf8Len p + utf8Len m - utf8Len p = utf8Len m by omega, takeBytes_append]

theorem isBoundary_prefix (p q : Src) (b : Nat) (hb : b = utf8Len p) : IsBoundary (p ++ q) b :=
  ⟨p.length, by simp, by simp [hb]⟩

/-- numeric reading of a tiling: `src = pre ++ s`, the tokens of `s` carry byte spans into `src` -/
theorem tiles_numeric (src : Src) {s rest : Src} {ts : List RawTok} (ht : Tiles s ts rest) :
    ∀ (pre : Src), src = pre ++ s →
      (∀ t ∈ ts.map (mkToken (utf8Len src)), utf8Len pre ≤ t.start ∧ t.start < t.stop ∧ t.stop ≤ utf8Len src ∧
        IsBoundary src t.start ∧ IsBoundary src t.stop ∧
        ∃ ws body r, lexToken (ws ++ (body ++ r)) = some (⟨t.kind, body ++ r, r⟩, r) ∧ body ≠ [] ∧
          byteSlice src t.start t.stop = body ∧ t.stop - t.start = utf8Len body) ∧
      (ts.map (mkToken (utf8Len src))).Pairwise (fun a b => a.stop ≤ b.start) ∧
      ((∀ c ∈ rest, isInlineWs c = true) → GapsWs src (utf8Len pre) (ts.map (mkToken (utf8Len src)))) := by
  induction ht with
  | nil s =>
    intro pre hsrc
    refine ⟨by simp, by simp, ?_⟩
    intro hws
    simp only [List.map_nil, GapsWs]
    rw [hsrc, show pre ++ s = pre ++ (s ++ []) by simp,
      byteSlice_mid pre s [] _ _ rfl (by simp [utf8Len_append])]
    exact hws
  | @cons ws body r rest ts k hws hbody hlt _ ih =>
    intro pre hsrc
    have hlen : utf8Len src = utf8Len pre + utf8Len ws + utf8Len body + utf8Len r := by
      rw [hsrc]; simp [utf8Len_append]; omega
    have hbpos := utf8Len_pos hbody
    have hstart : (mkToken (utf8Len src) ⟨k, body ++ r, r⟩).start = utf8Len pre + utf8Len ws := by
      simp [mkToken, utf8Len_append]; omega
    have hstop : (mkToken (utf8Len src) ⟨k, body ++ r, r⟩).stop = utf8Len pre + utf8Len ws + utf8Len body := by
      simp [mkToken]; omega
    obtain ⟨ih1, ih2, ih3⟩ := ih (pre ++ ws ++ body) (by rw [hsrc]; simp)
    have hpre' : utf8Len (pre ++ ws ++ body) = utf8Len pre + utf8Len ws + utf8Len body := by
      simp [utf8Len_append]; omega
    have hb1 : IsBoundary src (utf8Len pre + utf8Len ws) := by
      rw [hsrc, show pre ++ (ws ++ (body ++ r)) = (pre ++ ws) ++ (body ++ r) by simp]
      exact isBoundary_prefix _ _ _ (by simp [utf8Len_append])
    have hb2 : IsBoundary src (utf8Len pre + utf8Len ws + utf8Len body) := by
      rw [hsrc, show pre ++ (ws ++ (body ++ r)) = (pre ++ ws ++ body) ++ r by simp]
      exact isBoundary_prefix _ _ _ hpre'.symm
    refine ⟨?_, ?_, ?_⟩
    · intro t htm
      simp only [List.map_cons, List.mem_cons] at htm
      rcases htm with rfl | htm
      · rw [hstart, hstop]
        refine ⟨by omega, by omega, by omega, hb1, hb2, ws, body, r, hlt, hbody, ?_, by omega⟩
        rw [hsrc, show pre ++ (ws ++ (body ++ r)) = (pre ++ ws) ++ (body ++ r) by simp]
        exact byteSlice_mid (pre ++ ws) body r _ _ (by simp [utf8Len_append]) (by simp [utf8Len_append])
      · have := ih1 t htm; rw [hpre'] at this
        exact ⟨by omega, this.2⟩
    · simp only [List.map_cons, List.pairwise_cons]
      refine ⟨?_, ih2⟩
      intro t htm
      have := ih1 t htm; rw [hpre'] at this
      rw [hstop]; exact this.1
    · intro hrest
      simp only [List.map_cons, GapsWs]
      refine ⟨?_, ?_⟩
      · rw [hstart, hsrc, byteSlice_mid pre ws (body ++ r) _ _ rfl rfl]
        exact hws
      · rw [hstop, ← hpre']; exact ih3 hrest


/-! ### which alternative produced a token (for the re-lex lemmas) -/

theorem multiCharOp_inv {ops : List (Src × Op × Bool)} {s r : Src} {k : Kind} (h : multiCharOp ops s = some (k, r)) :
    ∃ e ∈ ops, k = .op e.2.1 ∧ s = e.1 ++ r := by
  induction ops with
  | nil => simp [multiCharOp] at h
  | cons e es ih =>
    obtain ⟨p, o, g⟩ := e
    simp only [multiCharOp] at h
    split at h
    · next r' hp =>
      split at h
      · simp at h; obtain ⟨rfl, rfl⟩ := h
        exact ⟨(p, o, g), by simp, rfl, stripPrefix_eq hp⟩
      · obtain ⟨e, he, h2⟩ := ih h; exact ⟨e, by simp [he], h2⟩
    · obtain ⟨e, he, h2⟩ := ih h; exact ⟨e, by simp [he], h2⟩

/-- the kind of a token tells which alternative of `token()` produced it; for the fixed-text classes also its text -/
theorem token_inv {s r : Src} {k : Kind} (h : token s = some (k, r)) :
    (∃ cs, k = .lineWrap cs) ∨ (k = .newLine ∧ newline s = some r) ∨
    (∃ e ∈ multiCharOps, k = .op e.2.1 ∧ s = e.1 ++ r) ∨ (∃ c v, k = .interpolation c v) ∨ (∃ v, k = .param v) ∨
    (∃ l, k = .literal l) ∨ (k = .annotate ∧ s = '@' :: r) ∨ (∃ c, k = .control c ∧ s = c :: r ∧ c ∈ controlChars) ∨
    (∃ v, k = .keyword v) ∨ (∃ v, k = .ident v) ∨ (∃ c, k = commentKind c ∧ comment s = some (c, r)) := by
  unfold token at h
  rcases orElse_some h with h | ⟨_, h⟩
  · unfold lineWrap at h
    split at h; · cases h
    split at h; · cases h
    split at h
    · simp at h; exact .inl ⟨_, h.1.symm⟩
    · cases h
  rcases orElse_some h with h | ⟨_, h⟩
  · unfold newlineTok at h; split at h
    · next r' hn => simp at h; obtain ⟨rfl, rfl⟩ := h; exact .inr (.inl ⟨rfl, hn⟩)
    · cases h
  rcases orElse_some h with h | ⟨_, h⟩
  · exact .inr (.inr (.inl (multiCharOp_inv h)))
  rcases orElse_some h with h | ⟨_, h⟩
  · unfold interpolation at h
    split at h
    · split at h
      · split at h
        · simp at h; exact .inr (.inr (.inr (.inl ⟨_, _, h.1.symm⟩)))
        · cases h
      · cases h
    · cases h
  rcases orElse_some h with h | ⟨_, h⟩
  · unfold param at h; split at h
    · simp at h; exact .inr (.inr (.inr (.inr (.inl ⟨_, h.1.symm⟩))))
    · cases h
  rcases orElse_some h with h | ⟨_, h⟩
  · unfold dateToken at h
    split at h
    · split at h
      · split at h
        · simp at h; exact .inr (.inr (.inr (.inr (.inr (.inl ⟨_, h.1.symm⟩)))))
        · cases h
      · cases h
    · cases h
  rcases orElse_some h with h | ⟨_, h⟩
  · unfold annotate at h; split at h
    · simp at h; obtain ⟨rfl, rfl⟩ := h; exact .inr (.inr (.inr (.inr (.inr (.inr (.inl ⟨rfl, rfl⟩))))))
    · cases h
  rcases orElse_some h with h | ⟨_, h⟩
  · unfold Model.Lex.control at h; split at h
    · split at h
      · next hc =>
        simp at h; obtain ⟨rfl, rfl⟩ := h
        exact .inr (.inr (.inr (.inr (.inr (.inr (.inr (.inl ⟨_, rfl, rfl, by simpa using hc⟩)))))))
      · cases h
    · cases h
  rcases orElse_some h with h | ⟨_, h⟩
  · unfold literalTok at h; split at h
    · simp at h; exact .inr (.inr (.inr (.inr (.inr (.inl ⟨_, h.1.symm⟩)))))
    · cases h
  rcases orElse_some h with h | ⟨_, h⟩
  · unfold keyword at h; split at h
    · split at h
      · simp at h; exact .inr (.inr (.inr (.inr (.inr (.inr (.inr (.inr (.inl ⟨_, h.1.symm⟩))))))))
      · cases h
    · cases h
  rcases orElse_some h with h | ⟨_, h⟩
  · unfold identTok at h; split at h
    · simp at h; exact .inr (.inr (.inr (.inr (.inr (.inr (.inr (.inr (.inr (.inl ⟨_, h.1.symm⟩)))))))))
    · cases h
  · unfold commentTok at h; split at h
    · next c r' hc =>
      simp at h; obtain ⟨rfl, rfl⟩ := h
      exact .inr (.inr (.inr (.inr (.inr (.inr (.inr (.inr (.inr (.inr ⟨c, rfl, hc⟩)))))))))
    · cases h

/-- a token of `lexToken` that is not a range comes from `token()` on the input after the skipped whitespace -/
theorem lexToken_inv {s r : Src} {t : RawTok} (h : lexToken s = some (t, r)) :
    (∃ bl br, t.kind = .range bl br) ∨ token t.from_ = some (t.kind, t.to_) := by
  unfold lexToken at h
  dsimp only at h
  split at h
  · simp at h; exact .inl ⟨_, _, by rw [← h.1]⟩
  · split at h
    · next k r' ht => simp at h; obtain ⟨rfl, rfl⟩ := h; exact .inr ht
    · cases h

/-- a single token that covers the whole input is the whole lexing of that input -/
theorem lex_single {body : Src} {k : Kind} (h : lexToken body = some (⟨k, body, []⟩, [])) :
    lex body = .ok [⟨.start, 0, 0⟩, ⟨k, 0, utf8Len body⟩] := by
  have h0 : lexToken [] = none := rfl
  have hne : body ≠ [] := by intro he; subst he; rw [h0] at h; cases h
  obtain ⟨n, hn⟩ : ∃ n, body.length + 1 = n + 2 := ⟨body.length - 1, by cases body <;> simp at hne ⊢⟩
  unfold lex lexRaw
  rw [hn]
  simp [repeatF, h, h0, skipWs, mkToken, utf8Len]


/-! ### comments re-lex -/

theorem multiCharOp_hash (rest : Src) : multiCharOp multiCharOps ('#' :: rest) = none := by
  simp [multiCharOp, multiCharOps, stripPrefix]

theorem literal_hash (rest : Src) : literal ('#' :: rest) = none := by
  simp [literal, orElse, radixNumber, stripPrefix, binPrefix, hexPrefix, octPrefix, string, quotedString, multiQuoted,
    rawString, valueAndUnit, parseInteger, number, boolean, null, firstPrefix, booleanLits, nullLit, isDigit]

theorem token_hash (rest : Src) : token ('#' :: rest) = commentTok ('#' :: rest) := by
  have h1 : lineWrap ('#' :: rest) = none := by simp [lineWrap, newline]
  have h2 : newlineTok ('#' :: rest) = none := by simp [newlineTok, newline]
  have h4 : interpolation ('#' :: rest) = none := by simp [interpolation, interpolationPrefixes]
  have h5 : param ('#' :: rest) = none := by simp [param]
  have h6 : dateToken ('#' :: rest) = none := by simp [dateToken]
  have h7 : annotate ('#' :: rest) = none := by simp [annotate]
  have h8 : Model.Lex.control ('#' :: rest) = none := by simp [Model.Lex.control, controlChars]
  have h9 : literalTok ('#' :: rest) = none := by simp [literalTok, literal_hash]
  have h10 : keyword ('#' :: rest) = none := by simp [keyword, firstPrefix, keywords, stripPrefix]
  have h11 : identTok ('#' :: rest) = none := by
    have : isIdentStart '#' = false := by decide
    simp [identTok, identPart, this]
  simp [token, orElse, h1, h2, multiCharOp_hash, h4, h5, h6, h7, h8, h9, h10, h11]

theorem takeWhile_idem (p : Char → Bool) (x : Src) : (x.takeWhile p).takeWhile p = x.takeWhile p := by
  induction x with
  | nil => rfl
  | cons c r ih => simp only [List.takeWhile]; cases h : p c <;> simp [List.takeWhile, h, ih]

theorem dropWhile_takeWhile (p : Char → Bool) (x : Src) : (x.takeWhile p).dropWhile p = [] := by
  induction x with
  | nil => rfl
  | cons c r ih => simp only [List.takeWhile]; cases h : p c <;> simp [List.dropWhile, h, ih]

theorem body_of_dropWhile {p : Char → Bool} {body x pre : Src} (h : body ++ x.dropWhile p = pre ++ x) :
    body = pre ++ x.takeWhile p := by
  have : pre ++ x = (pre ++ x.takeWhile p) ++ x.dropWhile p := by simp [List.takeWhile_append_dropWhile]
  rw [this] at h
  exact List.append_cancel_right h

/-- a comment token's text, alone, is that comment token -/
theorem comment_alone {body r : Src} {c : Bool × Src} (h : comment (body ++ r) = some (c, r)) :
    lexToken body = some (⟨commentKind c, body, []⟩, []) := by
  have key : ∃ x, body = '#' :: x ∧ comment body = some (c, []) := by
    unfold comment at h
    split at h
    · next x heq =>
      simp at h; obtain ⟨rfl, rfl⟩ := h
      have hb := body_of_dropWhile (pre := ['#', '!']) (by simpa using heq)
      subst hb
      exact ⟨_, rfl, by simp [comment, takeWhile_idem, dropWhile_takeWhile]⟩
    · next x hnd heq =>
      simp at h; obtain ⟨rfl, rfl⟩ := h
      have hb := body_of_dropWhile (pre := ['#']) (by simpa using heq)
      subst hb
      refine ⟨_, rfl, ?_⟩
      have hx : ∀ y, x.takeWhile notCommentStop ≠ '!' :: y := by
        intro y hy
        have := List.takeWhile_append_dropWhile (p := notCommentStop) (l := x)
        rw [hy] at this
        exact hnd _ (by rw [← this]; rfl)
      simp only [List.cons_append, List.nil_append]
      unfold comment
      split
      · next r0 heq2 => simp at heq2; exact absurd heq2 (hx _)
      · next r0 _ heq2 => simp at heq2; subst heq2; simp [takeWhile_idem, dropWhile_takeWhile]
      · next h3 => exact absurd rfl (h3 _)
    · cases h
  obtain ⟨x, rfl, hc⟩ := key
  have hws : skipWs ('#' :: x) = '#' :: x := by simp [skipWs, List.dropWhile, isInlineWs, inlineWhitespace]
  unfold lexToken
  simp [hws, stripPrefix, rangeStr, token_hash, commentTok, hc]

theorem cancel1 {body r : Src} {c : Char} (h : body ++ r = c :: r) : body = [c] :=
  List.append_cancel_right (as := body) (bs := r) (cs := [c]) (by simpa using h)
theorem cancel2 {body r : Src} {c d : Char} (h : body ++ r = c :: d :: r) : body = [c, d] :=
  List.append_cancel_right (as := body) (bs := r) (cs := [c, d]) (by simpa using h)

end Lemmas.Lex
