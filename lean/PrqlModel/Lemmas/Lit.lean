/- Helper lemmas for C08 (literals): the string printer mirror, decimal digits, the PRQL string spelling. -/
import PrqlModel.Model.Lit
import PrqlModel.Lemmas.Lex
namespace Lemmas.Lit
open Model.Lex Model.Lit Gen.Lex

/-! ### `sqlEscape`: equations that do not depend on the shape of the tail -/

theorem sqlEscape_ne {q prev c : Char} (cs : Src) (h : c ≠ q) : sqlEscape q prev (c :: cs) = c :: sqlEscape q c cs := by
  cases cs <;> simp [sqlEscape, h]

theorem sqlEscape_after_backslash {q : Char} (cs : Src) : sqlEscape q '\\' (q :: cs) = q :: sqlEscape q '\\' cs := by
  cases cs <;> simp [sqlEscape]

theorem sqlEscape_pair {q prev : Char} (cs : Src) (h : prev ≠ '\\') : sqlEscape q prev (q :: q :: cs) = q :: q :: sqlEscape q q cs := by
  simp [sqlEscape, h]

theorem sqlEscape_single {q prev : Char} (cs : Src) (h : prev ≠ '\\') (hn : cs.head? ≠ some q) :
    sqlEscape q prev (q :: cs) = q :: q :: sqlEscape q q cs := by
  cases cs with
  | nil => simp [sqlEscape, h]
  | cons d ds =>
    have : d ≠ q := by simpa using hn
    simp [sqlEscape, h, this]

/-- no quote directly after a backslash and no two adjacent quotes (`prev` = the character before) -/
def Clean (q : Char) : Char → Src → Prop
  | _, [] => True
  | prev, c :: cs => (c = q → prev ≠ '\\' ∧ cs.head? ≠ some q) ∧ Clean q c cs

instance (q : Char) : ∀ prev s, Decidable (Clean q prev s)
  | _, [] => isTrue trivial
  | prev, c :: cs =>
    have := instDecidableClean q c cs
    by unfold Clean; exact inferInstance

/-- on clean values the printer is plain quote doubling -/
theorem sqlEscape_clean (q : Char) : ∀ (prev : Char) (s : Src), Clean q prev s → sqlEscape q prev s = Quote.esc q s := by
  intro prev s
  induction s generalizing prev with
  | nil => intro _; simp [sqlEscape, Quote.esc]
  | cons c cs ih =>
    intro h
    obtain ⟨h1, h2⟩ := h
    by_cases hc : c = q
    · subst hc
      obtain ⟨hp, hn⟩ := h1 rfl
      rw [sqlEscape_single cs hp hn, ih c h2]
      simp [Quote.esc]
    · rw [sqlEscape_ne cs hc, ih c h2]
      simp [Quote.esc, hc]

/-- a value whose quotes are already doubled is printed verbatim, whatever precedes it -/
theorem sqlEscape_esc (q : Char) : ∀ (prev : Char) (s : Src), sqlEscape q prev (Quote.esc q s) = Quote.esc q s := by
  intro prev s
  induction s generalizing prev with
  | nil => simp [sqlEscape, Quote.esc]
  | cons c cs ih =>
    by_cases hc : c = q
    · subst hc
      simp only [Quote.esc, if_true]
      by_cases hp : prev = '\\'
      · subst hp
        rw [sqlEscape_after_backslash, sqlEscape_after_backslash, ih]
      · rw [sqlEscape_pair _ hp, ih]
    · simp only [Quote.esc, hc, if_false]
      rw [sqlEscape_ne _ hc, ih]

/-! ### decimal digits -/

theorem natOfDigits_eq_ofDigitChars (ds : Src) (h : ∀ c ∈ ds, isDigit c = true) (init : Nat) :
    ds.foldl (fun acc c => acc * 10 + digitVal c) init = Nat.ofDigitChars 10 ds init := by
  induction ds generalizing init with
  | nil => simp [Nat.ofDigitChars]
  | cons c cs ih =>
    have hc : c.isDigit = true := h c (by simp)
    simp only [List.foldl_cons, Nat.ofDigitChars_cons]
    rw [ih (fun d hd => h d (by simp [hd]))]
    simp [digitVal, hc, Nat.mul_comm]

theorem natOfDigits_toDigits (n : Nat) : natOfDigits 10 (Nat.toDigits 10 n) = n := by
  unfold natOfDigits
  rw [natOfDigits_eq_ofDigitChars _ (fun c hc => Nat.isDigit_of_mem_toDigits (by decide) (by decide) hc)]
  exact Nat.ofDigitChars_ten_toDigits

theorem toDigits_all_digits (n : Nat) : ∀ c ∈ Nat.toDigits 10 n, isDigit c = true :=
  fun _ hc => Nat.isDigit_of_mem_toDigits (by decide) (by decide) hc

theorem digitChar_ne_zero {n : Nat} (h0 : 0 < n) (h : n < 10) : Nat.digitChar n ≠ '0' := by
  match n, h0, h with
  | 1, _, _ | 2, _, _ | 3, _, _ | 4, _, _ | 5, _, _ | 6, _, _ | 7, _, _ | 8, _, _ | 9, _, _ => decide

theorem toDigits_head (n : Nat) (h : 0 < n) : (Nat.toDigits 10 n).head? ≠ some '0' := by
  induction n using Nat.strongRecOn with
  | _ n ih =>
    by_cases hlt : n < 10
    · rw [Nat.toDigits_of_lt_base hlt]
      simpa using digitChar_ne_zero h hlt
    · rw [Nat.toDigits_of_base_le (by decide) (by omega)]
      have hne : Nat.toDigits 10 (n / 10) ≠ [] := Nat.toDigits_ne_nil
      have := ih (n / 10) (by omega) (by omega)
      cases hd : Nat.toDigits 10 (n / 10) with
      | nil => exact absurd hd hne
      | cons a as => rw [hd] at this; simpa using this

/-- the shape `parse_integer` accepts without underscores: digits, no leading zero except the single `0` -/
structure Decimal (ds : Src) : Prop where
  ne : ds ≠ []
  digits : ∀ c ∈ ds, isDigit c = true
  lead : ds.head? = some '0' → ds = ['0']

theorem decimal_toDigits (n : Nat) : Decimal (Nat.toDigits 10 n) := by
  refine ⟨Nat.toDigits_ne_nil, toDigits_all_digits n, ?_⟩
  intro h
  by_cases h0 : 0 < n
  · exact absurd h (toDigits_head n h0)
  · have : n = 0 := by omega
    subst this; rfl

theorem takeWhile_all {p : Char → Bool} {s : Src} (h : ∀ c ∈ s, p c = true) : s.takeWhile p = s := by
  induction s with
  | nil => rfl
  | cons c cs ih => simp [List.takeWhile, h c (by simp), ih (fun d hd => h d (by simp [hd]))]

theorem dropWhile_all {p : Char → Bool} {s : Src} (h : ∀ c ∈ s, p c = true) : s.dropWhile p = [] := by
  induction s with
  | nil => rfl
  | cons c cs ih => simp [List.dropWhile, h c (by simp), ih (fun d hd => h d (by simp [hd]))]

theorem filter_all {p : Char → Bool} {s : Src} (h : ∀ c ∈ s, p c = true) : s.filter p = s := by
  induction s with
  | nil => rfl
  | cons c cs ih => simp [List.filter, h c (by simp), ih (fun d hd => h d (by simp [hd]))]

theorem isDigit_facts {c : Char} (h : isDigit c = true) :
    c ≠ '_' ∧ c ≠ '"' ∧ c ≠ '\'' ∧ c ≠ 'r' ∧ c ≠ 'b' ∧ c ≠ 'x' ∧ c ≠ 'o' ∧ isDigitOrUnderscore c = true := by
  have h' : c.isDigit = true := h
  simp only [Char.isDigit, Bool.and_eq_true, decide_eq_true_eq] at h'
  refine ⟨?_, ?_, ?_, ?_, ?_, ?_, ?_, ?_⟩
  any_goals (intro he; subst he; revert h'; decide)
  simp [isDigitOrUnderscore, h]

/-! ### `takeUpTo` on a full run -/

theorem takeUpTo_all {p : Char → Bool} : ∀ (n : Nat) (s : Src), s.length ≤ n → (∀ c ∈ s, p c = true) → takeUpTo p n s = (s, []) := by
  intro n
  induction n with
  | zero => intro s hl _; cases s with
    | nil => rfl
    | cons _ _ => simp at hl
  | succ n ih =>
    intro s hl h
    cases s with
    | nil => rfl
    | cons c cs =>
      have := ih cs (by simpa using hl) (fun d hd => h d (by simp [hd]))
      simp [takeUpTo, h c (by simp), this]

/-- run of valid characters followed by a stopper -/
theorem takeUpTo_stop {p : Char → Bool} (stop : Char) (hs : p stop = false) :
    ∀ (n : Nat) (s r : Src), s.length ≤ n → (∀ c ∈ s, p c = true) → takeUpTo p n (s ++ stop :: r) = (s, stop :: r) := by
  intro n
  induction n with
  | zero => intro s r hl _; cases s with
    | nil => simp [takeUpTo]
    | cons _ _ => simp at hl
  | succ n ih =>
    intro s r hl h
    cases s with
    | nil => simp [takeUpTo, hs]
    | cons c cs =>
      have := ih cs r (by simpa using hl) (fun d hd => h d (by simp [hd]))
      simp [takeUpTo, h c (by simp), this]

end Lemmas.Lit
