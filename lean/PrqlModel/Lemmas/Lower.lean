/- The invariant of the Lowerer model (Model/Lower.lean) and its preservation by every operation. -/
import PrqlModel.Model.Lower
import PrqlModel.Lemmas.Rq
namespace Model.Lower
open Model.Rq

/-! ## what a state defines -/

def tablesDefs (ts : List TableDecl) : List CId := (ts.map (·.relation.kind.defs)).flatten

def framesDefs : List Frame → List CId
  | [] => []
  | f :: r => defsL f.buf ++ framesDefs r

def defsOf (tables : List TableDecl) (frames : List Frame) : List CId := tablesDefs tables ++ framesDefs frames

def allDefs (st : St) : List CId := defsOf st.tables st.frames

theorem tablesDefs_snoc (ts : List TableDecl) (t : TableDecl) :
    tablesDefs (ts ++ [t]) = tablesDefs ts ++ t.relation.kind.defs := by
  simp [tablesDefs]

/-- every suffix of the frame stack is in scope -/
def FramesOk : List Frame → Prop
  | [] => True
  | f :: r => (∃ v, visOf (f :: r) = some v) ∧ FramesOk r

/-- the part of the invariant that does not mention `node_mapping` -/
structure Inv0 (nc nt : Nat) (tables : List TableDecl) (frames : List Frame) : Prop where
  defs_lt : ∀ c ∈ defsOf tables frames, c < nc
  defs_nodup : (defsOf tables frames).Nodup
  tables_ok : ∃ d, checkTables [] tables = .ok d
  tids_lt : ∀ t ∈ tables, t.id < nt
  rels_ok : ∀ t ∈ tables, checkRelation t.relation = .ok ()
  frames_tids : ∀ f ∈ frames, ∀ x ∈ tidsL f.buf, x ∈ tables.map (·.id)
  frames_ok : FramesOk frames

/-- every cid a mapping entry mentions is defined -/
def MapOk (mapping : List (Nat × Target)) (defs : List CId) : Prop :=
  ∀ e ∈ mapping, ∀ c ∈ e.2.cids, c ∈ defs

/-- THE INVARIANT: `nextCid` is above every cid defined (and, by `map_defs`, mapped); definitions are unique; the table
buffer passes the tid clause and every finished relation passes the scope and shape clauses of `wfRq`; every open buffer
is in scope and refers to declared tables only; every mapped cid is defined somewhere in the query under construction. -/
structure Inv (st : St) : Prop where
  core : Inv0 st.nextCid st.nextTid st.tables st.frames
  map_defs : MapOk st.mapping (allDefs st)

theorem Inv.map_lt {st : St} (h : Inv st) : ∀ e ∈ st.mapping, ∀ c ∈ e.2.cids, c < st.nextCid :=
  fun e he c hc => h.core.defs_lt c (h.map_defs e he c hc)

theorem inv_init : Inv St.init := by
  refine ⟨⟨?_, ?_, ⟨[], rfl⟩, ?_, ?_, ?_, trivial⟩, ?_⟩ <;>
    simp [St.init, allDefs, defsOf, tablesDefs, framesDefs, MapOk]

/-! ## list facts -/

theorem nodup_insert {T B D R : List Nat} (h : (T ++ (B ++ R)).Nodup) (hd : D.Nodup)
    (hf : ∀ c ∈ D, c ∉ T ++ (B ++ R)) : (T ++ ((B ++ D) ++ R)).Nodup := by
  have p : (T ++ ((B ++ D) ++ R)).Perm (D ++ (T ++ (B ++ R))) := by
    have : (T ++ ((B ++ D) ++ R)) = (T ++ B) ++ (D ++ R) := by simp
    rw [this]
    have q : ((T ++ B) ++ (D ++ R)).Perm (D ++ ((T ++ B) ++ R)) := by
      have := @List.perm_append_comm _ (T ++ B) D
      have := this.append_right R
      simpa using this
    simpa using q
  rw [p.nodup_iff, List.nodup_append]
  exact ⟨hd, h, fun a ha b hb e => hf a ha (e ▸ hb)⟩

theorem freshCols_cids (n : Nat) (cs : List RelCol) : (freshCols n cs).map (·.2) = List.range' n cs.length := by
  induction cs generalizing n with
  | nil => rfl
  | cons c cs ih => simp [freshCols, ih, List.range'_succ]

theorem freshCols_length (n : Nat) (cs : List RelCol) : (freshCols n cs).length = cs.length := by
  induction cs generalizing n with
  | nil => rfl
  | cons c cs ih => simp [freshCols, ih]

/-! ## visibility of the current buffer -/

theorem visOf_push {f : Frame} {rest : List Frame} {v v' : List CId} {t : Transform}
    (hv : visOf (f :: rest) = some v) (hne : ¬ (f.buf.isEmpty && !f.isLoop) = true)
    (hs : scopeStep v t = .ok v') :
    visOf ({ f with buf := f.buf ++ [t] } :: rest) = some v' := by
  unfold visOf at hv ⊢
  by_cases hl : f.isLoop = true
  · simp only [hl, if_true] at hv ⊢
    cases h0 : visOf rest with
    | none => simp [h0] at hv
    | some v0 =>
      simp only [h0] at hv ⊢
      cases h1 : scopeL v0 f.buf with
      | error e => simp [h1] at hv
      | ok v1 =>
        simp only [h1, Option.some.injEq] at hv
        subst hv
        rw [scopeL_snoc t h1, hs]
  · simp only [hl] at hv ⊢
    cases hb : f.buf with
    | nil => simp [hb, hl] at hne
    | cons t0 ts =>
      simp only [hb] at hv
      cases t0 <;> simp only [reduceCtorEq, Bool.false_eq_true, if_false] at hv
      next tr =>
        simp only [List.cons_append, Bool.false_eq_true, if_false]
        cases h1 : scopeL tr.cids ts with
        | error e => simp [h1] at hv
        | ok v1 =>
          simp only [h1, Option.some.injEq] at hv
          subst hv
          rw [scopeL_snoc t h1, hs]

theorem visOf_from (tr : TableRef) (rest : List Frame) :
    visOf ({ buf := [.from_ tr], isLoop := false } :: rest) = some tr.cids := by
  simp [visOf, scopeL]

/-- whatever is visible has been defined by the frames on the stack -/
theorem visOf_sub_defs : ∀ (fs : List Frame) (v : List CId), visOf fs = some v → ∀ c ∈ v, c ∈ framesDefs fs
  | [], v, h => by simp [visOf] at h
  | f :: rest, v, h => by
    unfold visOf at h
    by_cases hl : f.isLoop = true
    · simp only [hl, if_true] at h
      cases h0 : visOf rest with
      | none => simp [h0] at h
      | some v0 =>
        simp only [h0] at h
        cases h1 : scopeL v0 f.buf with
        | error e => simp [h1] at h
        | ok v1 =>
          simp only [h1, Option.some.injEq] at h
          subst h
          intro c hc
          simp only [framesDefs, List.mem_append]
          rcases (scopeL_sound _ _ _ h1).2 c hc with q | q
          · exact Or.inr (visOf_sub_defs rest v0 h0 c q)
          · exact Or.inl q
    · simp only [hl] at h
      cases hb : f.buf with
      | nil => simp [hb] at h; subst h; intro c hc; simp at hc
      | cons t0 ts =>
        simp only [hb] at h
        cases t0 <;> simp only [reduceCtorEq, Bool.false_eq_true, if_false] at h
        next tr =>
          cases h1 : scopeL tr.cids ts with
          | error e => simp [h1] at h
          | ok v1 =>
            simp only [h1, Option.some.injEq] at h
            subst h
            intro c hc
            simp only [framesDefs, hb, defsL, Transform.defs, List.mem_append]
            rcases (scopeL_sound _ _ _ h1).2 c hc with q | q
            · exact Or.inl (Or.inl q)
            · exact Or.inl (Or.inr q)

/-! ## pushing a transform -/

theorem pushT_spec {st st' : St} {t : Transform} (h : pushT st t = some st') :
    ∃ f rest, st.frames = f :: rest ∧ st' = { st with frames := { f with buf := f.buf ++ [t] } :: rest } ∧
      ((isFrom t = true ∧ f.buf = [] ∧ f.isLoop = false) ∨
       (isFrom t = false ∧ ¬ (f.buf.isEmpty && !f.isLoop) = true ∧
          ∃ v v', visOf (f :: rest) = some v ∧ scopeStep v t = .ok v')) := by
  unfold pushT at h
  cases hf : st.frames with
  | nil => simp [hf] at h
  | cons f rest =>
    simp only [hf] at h
    refine ⟨f, rest, rfl, ?_⟩
    by_cases hfr : isFrom t = true
    · simp only [hfr, if_true] at h
      by_cases he : (f.buf.isEmpty && !f.isLoop) = true
      · simp only [he, if_true, Option.some.injEq] at h
        have he' : f.buf = [] ∧ f.isLoop = false := by simpa using he
        refine ⟨?_, Or.inl ⟨hfr, he'.1, he'.2⟩⟩
        rw [← h, he'.1]; rfl
      · simp [he] at h
    · simp only [hfr, Bool.false_eq_true, if_false] at h
      by_cases he : (f.buf.isEmpty && !f.isLoop) = true
      · simp [he] at h
      · simp only [he, Bool.false_eq_true, if_false] at h
        cases hv : visOf (f :: rest) with
        | none => simp [hv] at h
        | some v =>
          simp only [hv] at h
          cases hs : scopeStep v t with
          | error e => simp [hs] at h
          | ok v' =>
            simp only [hs, Option.some.injEq] at h
            exact ⟨h.symm, Or.inr ⟨by simpa using hfr, he, v, v', rfl, hs⟩⟩


/-- the guard of `pushT`, as a proposition about the current frame -/
def PushOk (f : Frame) (rest : List Frame) (t : Transform) : Prop :=
  (isFrom t = true ∧ f.buf = [] ∧ f.isLoop = false) ∨
  (isFrom t = false ∧ ¬ (f.buf.isEmpty && !f.isLoop) = true ∧ ∃ v v', visOf (f :: rest) = some v ∧ scopeStep v t = .ok v')

def pushed (f : Frame) (t : Transform) : Frame := { f with buf := f.buf ++ [t] }

theorem defsOf_push (tables : List TableDecl) (f : Frame) (rest : List Frame) (t : Transform) :
    defsOf tables (pushed f t :: rest) = tablesDefs tables ++ ((defsL f.buf ++ t.defs) ++ framesDefs rest) := by
  simp [defsOf, pushed, framesDefs, defsL_append, defsL]

theorem defsOf_cons (tables : List TableDecl) (f : Frame) (rest : List Frame) :
    defsOf tables (f :: rest) = tablesDefs tables ++ (defsL f.buf ++ framesDefs rest) := by
  simp [defsOf, framesDefs]

theorem mem_defsOf_push (tables : List TableDecl) (f : Frame) (rest : List Frame) (t : Transform) (c : CId) :
    c ∈ defsOf tables (pushed f t :: rest) ↔ c ∈ defsOf tables (f :: rest) ∨ c ∈ t.defs := by
  rw [defsOf_push, defsOf_cons]
  simp only [List.mem_append]
  constructor
  · rintro (a | (a | a) | a) <;> simp [a]
  · rintro ((a | a | a) | a) <;> simp [a]

/-- pushing a transform whose definitions are fresh keeps the core invariant (the cid generator may have moved on to `n`) -/
theorem push_inv0 {nc nt : Nat} {tables : List TableDecl} {f : Frame} {rest : List Frame} {t : Transform}
    (hi : Inv0 nc nt tables (f :: rest)) (hp : PushOk f rest t)
    (hd : t.defs.Nodup) (hfresh : ∀ c ∈ t.defs, c ∉ defsOf tables (f :: rest)) (n : Nat) (hn : nc ≤ n)
    (hlt : ∀ c ∈ t.defs, c < n) (ht : ∀ x ∈ t.tids, x ∈ tables.map (·.id)) :
    Inv0 n nt tables (pushed f t :: rest) := by
  refine ⟨?_, ?_, hi.tables_ok, hi.tids_lt, hi.rels_ok, ?_, ?_⟩
  · intro c hc'
    rw [mem_defsOf_push] at hc'
    rcases hc' with a | a
    · exact Nat.lt_of_lt_of_le (hi.defs_lt c a) hn
    · exact hlt c a
  · rw [defsOf_push]
    apply nodup_insert
    · rw [← defsOf_cons]; exact hi.defs_nodup
    · exact hd
    · rw [← defsOf_cons]; exact hfresh
  · intro g hg x hx
    simp only [List.mem_cons] at hg
    rcases hg with rfl | hg
    · simp only [pushed, tidsL_append, List.mem_append, tidsL, List.append_nil] at hx
      rcases hx with hx | hx
      · exact hi.frames_tids f (by simp) x hx
      · exact ht x hx
    · exact hi.frames_tids g (by simp [hg]) x hx
  · have hfo := hi.frames_ok
    refine ⟨?_, hfo.2⟩
    rcases hp with ⟨hfr, hb, hl⟩ | ⟨_, hne, v, v', hv, hs⟩
    · cases t with
      | from_ tr =>
        refine ⟨tr.cids, ?_⟩
        have : pushed f (Transform.from_ tr) = { buf := [.from_ tr], isLoop := false } := by
          cases f; simp_all [pushed]
        rw [this]; exact visOf_from tr rest
      | _ => simp [isFrom] at hfr
    · exact ⟨v', visOf_push hv hne hs⟩

theorem pushT_spec' {st st' : St} {t : Transform} (h : pushT st t = some st') :
    ∃ f rest, st.frames = f :: rest ∧ st' = { st with frames := pushed f t :: rest } ∧ PushOk f rest t :=
  pushT_spec h

/-! ## adding a table -/

theorem checkTables_snoc {tables : List TableDecl} {d : List TId} (h : checkTables [] tables = .ok d) (tbl : TableDecl)
    (hid : tbl.id ∉ tables.map (·.id)) (ht : ∀ x ∈ tbl.relation.kind.tids, x ∈ tables.map (·.id)) :
    ∃ d', checkTables [] (tables ++ [tbl]) = .ok d' := by
  rw [checkTables_append, h]
  have hd := checkTables_ids h
  simp only [List.append_nil] at hd
  simp only [checkTables]
  have h1 : needTids d tbl.relation.kind.tids = .ok () := by
    rw [needTids_ok]; intro c hc; rw [hd]; simpa using ht c hc
  rw [h1]
  have h2 : tbl.id ∉ d := by
    rw [hd]; simpa using hid
  simp [h2]

theorem addTable_inv0 {nc nt : Nat} {tables : List TableDecl} {frames : List Frame}
    (hi : Inv0 nc nt tables frames) (tbl : TableDecl) (hid : tbl.id = nt)
    (hrel : checkRelation tbl.relation = .ok ()) (ht : ∀ x ∈ tbl.relation.kind.tids, x ∈ tables.map (·.id))
    (hdefs : tbl.relation.kind.defs = []) :
    Inv0 nc (nt + 1) (tables ++ [tbl]) frames := by
  have hdo : defsOf (tables ++ [tbl]) frames = defsOf tables frames := by
    simp [defsOf, tablesDefs_snoc, hdefs]
  have hnew : tbl.id ∉ tables.map (·.id) := by
    intro hm
    obtain ⟨t, ht1, ht2⟩ := List.mem_map.mp hm
    have := hi.tids_lt t ht1
    rw [ht2, hid] at this; exact Nat.lt_irrefl _ this
  obtain ⟨d, hd⟩ := hi.tables_ok
  refine ⟨?_, ?_, checkTables_snoc hd tbl hnew ht, ?_, ?_, ?_, hi.frames_ok⟩
  · rw [hdo]; exact hi.defs_lt
  · rw [hdo]; exact hi.defs_nodup
  · intro t htm
    simp only [List.mem_append, List.mem_singleton] at htm
    rcases htm with htm | rfl
    · exact Nat.lt_succ_of_lt (hi.tids_lt t htm)
    · rw [hid]; exact Nat.lt_succ_self _
  · intro t htm
    simp only [List.mem_append, List.mem_singleton] at htm
    rcases htm with htm | rfl
    · exact hi.rels_ok t htm
    · exact hrel
  · intro f hf x hx
    have := hi.frames_tids f hf x hx
    simp only [List.map_append, List.mem_append]
    exact Or.inl this

/-- closing the current (non-loop) buffer, whose last transform is a Select of the declared arity, as a table -/
theorem closeTable_inv0 {nc nt : Nat} {tables : List TableDecl} {f : Frame} {rest : List Frame}
    (hi : Inv0 nc nt tables (f :: rest)) (hl : f.isLoop = false) (B : List Transform) (cs : List CId) (hB : B ≠ [])
    (hbuf : f.buf = B ++ [.select cs]) (name : Option (List Char)) (cols : List RelCol) (hcols : cs.length = cols.length) :
    Inv0 nc (nt + 1) (tables ++ [{ id := nt, name := name, relation := { kind := .pipeline f.buf, columns := cols } }]) rest := by
  have hdo : defsOf (tables ++ [{ id := nt, name := name, relation := { kind := .pipeline f.buf, columns := cols } }]) rest
      = defsOf tables (f :: rest) := by
    simp [defsOf, tablesDefs_snoc, framesDefs, RelKind.defs]
  have hnew : nt ∉ tables.map (·.id) := by
    intro hm
    obtain ⟨t, ht1, ht2⟩ := List.mem_map.mp hm
    have := hi.tids_lt t ht1
    rw [ht2] at this; exact Nat.lt_irrefl _ this
  obtain ⟨d, hd⟩ := hi.tables_ok
  have htids : ∀ x ∈ tidsL f.buf, x ∈ tables.map (·.id) := hi.frames_tids f (by simp)
  -- the relation is accepted
  have hrel : checkRelation { kind := .pipeline f.buf, columns := cols } = .ok () := by
    obtain ⟨v, hv⟩ := hi.frames_ok.1
    unfold visOf at hv
    simp only [hl, Bool.false_eq_true, if_false] at hv
    simp only [checkRelation]
    cases hb : f.buf with
    | nil => simp [hbuf] at hb
    | cons t0 ts =>
      simp only [hb] at hv
      cases t0 with
      | from_ tr =>
        simp only at hv
        cases h1 : scopeL tr.cids ts with
        | error e => simp [h1] at hv
        | ok v1 =>
          simp only [checkPipeline, h1]
          -- ts = B' ++ [select cs]
          cases B with
          | nil => exact absurd rfl hB
          | cons b0 B' =>
            rw [hbuf] at hb
            simp only [List.cons_append, List.cons.injEq] at hb
            rw [← hb.2, checkLast_snoc_select]
            simp [hcols]
      | _ => simp at hv
  refine ⟨?_, ?_, checkTables_snoc hd _ hnew (by simpa [RelKind.tids] using htids), ?_, ?_, ?_, hi.frames_ok.2⟩
  · rw [hdo]; exact hi.defs_lt
  · rw [hdo]; exact hi.defs_nodup
  · intro t htm
    simp only [List.mem_append, List.mem_singleton] at htm
    rcases htm with htm | rfl
    · exact Nat.lt_succ_of_lt (hi.tids_lt t htm)
    · exact Nat.lt_succ_self _
  · intro t htm
    simp only [List.mem_append, List.mem_singleton] at htm
    rcases htm with htm | rfl
    · exact hi.rels_ok t htm
    · exact hrel
  · intro g hg x hx
    have := hi.frames_tids g (by simp [hg]) x hx
    simp only [List.map_append, List.mem_append]
    exact Or.inl this

/-! ## table instances -/

theorem find_mem_ids {tables : List TableDecl} {tid : TId} {tbl : TableDecl}
    (h : tables.find? (fun t => t.id == tid) = some tbl) : tid ∈ tables.map (·.id) := by
  have h1 := List.mem_of_find?_eq_some h
  have h2 := List.find?_some h
  simp only [beq_iff_eq] at h2
  exact List.mem_map.mpr ⟨tbl, h1, h2⟩

theorem instantiate_spec {st st1 : St} {node : Nat} {tid : TId} {name : Option (List Char)} {tref : TableRef}
    (h : instantiate st node tid name = some (st1, tref)) :
    tid ∈ st.tables.map (·.id) ∧ tref.source = tid ∧
    (∃ k, tref.cids = List.range' st.nextCid k ∧
      st1 = { st with nextCid := st.nextCid + k, mapping := (node, .input tref.columns) :: st.mapping }) := by
  unfold instantiate at h
  cases hf : st.tables.find? (fun t => t.id == tid) with
  | none => simp [hf] at h
  | some tbl =>
    simp only [hf, Option.some.injEq, Prod.mk.injEq] at h
    obtain ⟨h1, h2⟩ := h
    subst h2
    refine ⟨find_mem_ids hf, rfl, tbl.relation.columns.eraseDups.length, ?_, ?_⟩
    · simp [TableRef.cids, freshCols_cids]
    · rw [← h1]; simp [freshCols_length]

theorem range'_fresh {nc k : Nat} {l : List Nat} (hl : ∀ c ∈ l, c < nc) : ∀ c ∈ List.range' nc k, c ∉ l := by
  intro c hc hm
  have := hl c hm
  simp [List.mem_range'_1] at hc
  omega

/-- create a table instance, possibly rewrite the mapping, push the transform that carries the instance -/
theorem inst_push_inv {st st1 st2 : St} {node : Nat} {tid : TId} {name : Option (List Char)} {tref : TableRef}
    (hi : Inv st) (h1 : instantiate st node tid name = some (st1, tref))
    (m' : List (Nat × Target)) (hm' : MapOk m' (allDefs st ++ tref.cids))
    (t : Transform) (hdefs : t.defs = tref.cids) (htids : t.tids = [tref.source])
    (h2 : pushT { st1 with mapping := m' } t = some st2) : Inv st2 := by
  obtain ⟨hmem, hsrc, k, hc, rfl⟩ := instantiate_spec h1
  obtain ⟨f, rest, hf, rfl, hp⟩ := pushT_spec' h2
  simp only at hf
  have hcore := hi.core
  rw [hf] at hcore
  have hfresh : ∀ c ∈ t.defs, c ∉ defsOf st.tables (f :: rest) := by
    rw [hdefs, hc]; exact range'_fresh hcore.defs_lt
  have hlt : ∀ c ∈ t.defs, c < st.nextCid + k := by
    rw [hdefs, hc]; intro c hc'; exact (List.mem_range'_1.mp hc').2
  have hnd : t.defs.Nodup := by rw [hdefs, hc]; exact List.nodup_range'
  have htid : ∀ x ∈ t.tids, x ∈ st.tables.map (·.id) := by
    rw [htids, hsrc]; simpa using hmem
  refine ⟨push_inv0 hcore hp hnd hfresh _ (Nat.le_add_right _ _) hlt htid, ?_⟩
  intro e he c hc'
  show c ∈ defsOf st.tables (pushed f t :: rest)
  rw [mem_defsOf_push]
  have := hm' e he c hc'
  simp only [List.mem_append, allDefs, hf] at this
  rcases this with a | a
  · exact Or.inl a
  · exact Or.inr (hdefs ▸ a)

theorem mapOk_inst {st : St} (hi : Inv st) (node : Nat) (tref : TableRef) :
    MapOk ((node, Target.input tref.columns) :: st.mapping) (allDefs st ++ tref.cids) := by
  intro e he c hc
  simp only [List.mem_cons] at he
  rcases he with rfl | he
  · simp only [Target.cids] at hc
    exact List.mem_append_right _ hc
  · exact List.mem_append_left _ (hi.map_defs e he c hc)

/-! ## closing a relation -/

theorem closeRelation_spec {st st1 : St} {cols : List (RelCol × CId)} {rel : Relation}
    (h : closeRelation st cols = some (st1, rel)) :
    ∃ f rest, st.frames = f :: rest ∧ f.isLoop = false ∧ PushOk f rest (.select (cols.map (·.2))) ∧
      st1 = { st with frames := rest } ∧
      rel = { kind := .pipeline (f.buf ++ [.select (cols.map (·.2))]), columns := cols.map (·.1) } := by
  unfold closeRelation at h
  cases hf : st.frames with
  | nil => simp [hf] at h
  | cons f rest =>
    simp only [hf] at h
    by_cases hl : f.isLoop = true
    · simp [hl] at h
    · simp only [hl, Bool.false_eq_true, if_false] at h
      cases hp : pushT st (.select (cols.map (·.2))) with
      | none => simp [hp] at h
      | some st' =>
        simp only [hp] at h
        obtain ⟨f2, rest2, hf2, rfl, hpo⟩ := pushT_spec' hp
        rw [hf] at hf2
        simp only [List.cons.injEq] at hf2
        obtain ⟨rfl, rfl⟩ := hf2
        simp only [Option.some.injEq, Prod.mk.injEq] at h
        exact ⟨f, rest, rfl, by simpa using hl, hpo, h.1.symm, by rw [← h.2]; rfl⟩

/-- close the current relation and append it to the table buffer under a fresh tid -/
theorem close_inv {st st1 : St} {cols : List (RelCol × CId)} {rel : Relation} (hi : Inv st)
    (h : closeRelation st cols = some (st1, rel)) (name : Option (List Char)) (tm : List (Nat × TId)) :
    Inv { st1 with nextTid := st1.nextTid + 1, tableMap := tm,
                   tables := st1.tables ++ [{ id := st1.nextTid, name := name, relation := rel }] } := by
  obtain ⟨f, rest, hf, hl, hp, rfl, rfl⟩ := closeRelation_spec h
  have hcore := hi.core
  rw [hf] at hcore
  have hsel : (Transform.select (cols.map (·.2))).defs = [] := rfl
  have hcore2 := push_inv0 hcore hp (by simp [hsel]) (by simp [hsel]) st.nextCid (Nat.le_refl _)
    (by simp [hsel]) (by simp [Transform.tids])
  have hB : f.buf ≠ [] := by
    rcases hp with ⟨hfr, _, _⟩ | ⟨_, hne, _⟩
    · simp [isFrom] at hfr
    · intro hb; apply hne; simp [hb, hl]
  have hcl := closeTable_inv0 (f := pushed f (.select (cols.map (·.2)))) hcore2 hl f.buf (cols.map (·.2)) hB rfl name
    (cols.map (·.1)) (by simp)
  refine ⟨hcl, ?_⟩
  intro e he c hc
  have := hi.map_defs e he c hc
  show c ∈ defsOf (st.tables ++ [_]) rest
  simp only [allDefs, hf] at this
  simp only [defsOf, tablesDefs_snoc, RelKind.defs, defsL_append, defsL, hsel, List.append_nil, framesDefs] at this ⊢
  simpa [List.append_assoc] using this

theorem redirectCid_mem (r : List (CId × CId)) (c : CId) : redirectCid r c = c ∨ redirectCid r c ∈ r.map (·.2) := by
  unfold redirectCid
  cases h : r.lookup c with
  | none => exact Or.inl rfl
  | some n =>
    right
    induction r with
    | nil => simp [List.lookup] at h
    | cons p r ih =>
      simp only [List.lookup] at h
      split at h
      · simp only [Option.some.injEq] at h; simp [h]
      · simp only [List.map_cons, List.mem_cons]; exact Or.inr (ih h)

theorem zip_snd_sub (a b : List Nat) : ∀ c ∈ (a.zip b).map (·.2), c ∈ b := by
  intro c hc
  obtain ⟨p, hp, rfl⟩ := List.mem_map.mp hc
  exact (List.of_mem_zip hp).2

theorem mapOk_redirect {m : List (Nat × Target)} {D : List CId} (r : List (CId × CId)) (E : List CId)
    (hm : MapOk m (D ++ E)) (hr : ∀ c ∈ r.map (·.2), c ∈ E) :
    MapOk (m.map fun e => (e.1, e.2.redirect r)) (D ++ E) := by
  intro e he c hc
  obtain ⟨e0, he0, rfl⟩ := List.mem_map.mp he
  simp only at hc
  cases ht : e0.2 with
  | compute c0 =>
    simp only [ht, Target.redirect, Target.cids, List.mem_singleton] at hc
    subst hc
    rcases redirectCid_mem r c0 with q | q
    · rw [q]; exact hm e0 he0 c0 (by simp [ht, Target.cids])
    · exact List.mem_append_right _ (hr _ q)
  | input cs =>
    simp only [ht, Target.redirect, Target.cids, List.map_map, List.mem_map, Function.comp] at hc
    obtain ⟨kc, hkc, rfl⟩ := hc
    rcases redirectCid_mem r kc.2 with q | q
    · rw [q]; exact hm e0 he0 kc.2 (by simp only [ht, Target.cids]; exact List.mem_map.mpr ⟨kc, hkc, rfl⟩)
    · exact List.mem_append_right _ (hr _ q)

/-- `endInline` followed by the push of the transform that carries the new instance -/
theorem endInline_push_inv {st st1 st2 : St} {node : Nat} {cols : List (RelCol × CId)} {tref : TableRef}
    (hi : Inv st) (h1 : endInline st node cols = some (st1, tref))
    (t : Transform) (hdefs : t.defs = tref.cids) (htids : t.tids = [tref.source])
    (h2 : pushT st1 t = some st2) : Inv st2 := by
  unfold endInline at h1
  cases hc : closeRelation st cols with
  | none => simp [hc] at h1
  | some p =>
    obtain ⟨sa, rel⟩ := p
    simp only [hc] at h1
    have hia := close_inv hi hc none sa.tableMap
    split at h1
    · cases h1
    next sb tr hin =>
      simp only [Option.some.injEq, Prod.mk.injEq] at h1
      obtain ⟨rfl, rfl⟩ := h1
      obtain ⟨_, _, k, hck, hsb⟩ := instantiate_spec hin
      refine inst_push_inv hia hin _ ?_ t hdefs htids h2
      rw [hsb]
      exact mapOk_redirect _ _ (mapOk_inst hia node tr) (zip_snd_sub _ _)

/-! ## every operation preserves the invariant -/

theorem nodup_remove_middle {T F X : List Nat} (h : (T ++ (F ++ X)).Nodup) :
    F.Nodup ∧ (T ++ X).Nodup ∧ ∀ c ∈ F, c ∉ T ++ X := by
  have p : (T ++ (F ++ X)).Perm (F ++ (T ++ X)) := by
    have := (@List.perm_append_comm _ T F).append_right X
    simpa using this
  rw [p.nodup_iff, List.nodup_append] at h
  exact ⟨h.1, h.2.1, fun c hc hm => h.2.2 c hc c hm rfl⟩

theorem isPlain_defs {t : Transform} (h : isPlain t = true) : t.defs = [] ∧ t.tids = [] := by
  cases t <;> simp [isPlain] at h <;> exact ⟨rfl, rfl⟩

theorem leaf_ok {kind : RelKind} (h : isLeafKind kind = true) (cols : List RelCol) :
    checkRelation { kind := kind, columns := cols } = .ok () ∧ kind.defs = [] ∧ kind.tids = [] := by
  cases kind with
  | pipeline ts => simp [isLeafKind] at h
  | externRef p => exact ⟨rfl, rfl, rfl⟩
  | literal a b => exact ⟨rfl, rfl, rfl⟩
  | sstring xs =>
    simp only [isLeafKind, List.isEmpty_iff] at h
    refine ⟨?_, rfl, rfl⟩
    simp [checkRelation, h, need_ok]
  | builtin n xs =>
    simp only [isLeafKind, List.isEmpty_iff] at h
    refine ⟨?_, rfl, rfl⟩
    simp [checkRelation, h, need_ok]

theorem visOf_loop_nil (fs : List Frame) : visOf ({ buf := [], isLoop := true } :: fs) = visOf fs := by
  cases h : visOf fs <;> simp [visOf, h, scopeL]

theorem step_inv {st st' : St} {o : Op} (hi : Inv st) (h : step st o = some st') : Inv st' := by
  cases o with
  | declareExtern key cols =>
    simp only [step] at h
    split at h
    · cases h
    · simp only [Option.some.injEq] at h
      subst h
      exact ⟨addTable_inv0 hi.core _ rfl rfl (by simp [RelKind.tids]) rfl,
        fun e he c hc => by
          have := hi.map_defs e he c hc
          simpa [allDefs, defsOf, tablesDefs_snoc, RelKind.defs] using this⟩
  | declareOther kind cols =>
    simp only [step] at h
    split at h
    next hk =>
      simp only [Option.some.injEq] at h
      subst h
      obtain ⟨h1, h2, h3⟩ := leaf_ok hk cols
      exact ⟨addTable_inv0 hi.core _ rfl h1 (by simp [h3]) h2,
        fun e he c hc => by
          have := hi.map_defs e he c hc
          simpa [allDefs, defsOf, tablesDefs_snoc, h2] using this⟩
    · cases h
  | beginRelation =>
    simp only [step, Option.some.injEq] at h
    subst h
    have hc := hi.core
    refine ⟨⟨?_, ?_, hc.tables_ok, hc.tids_lt, hc.rels_ok, ?_, ?_⟩, ?_⟩
    · simpa [defsOf, framesDefs, defsL] using hc.defs_lt
    · simpa [defsOf, framesDefs, defsL] using hc.defs_nodup
    · intro f hf x hx
      simp only [List.mem_cons] at hf
      rcases hf with rfl | hf
      · simp [tidsL] at hx
      · exact hc.frames_tids f hf x hx
    · exact ⟨⟨[], by simp [visOf]⟩, hc.frames_ok⟩
    · intro e he c hc'
      have := hi.map_defs e he c hc'
      simpa [allDefs, defsOf, framesDefs, defsL] using this
  | beginLoop =>
    simp only [step] at h
    cases hf : st.frames with
    | nil => simp [hf] at h
    | cons g gs =>
      simp only [hf, Option.some.injEq] at h
      subst h
      have hc := hi.core
      rw [hf] at hc
      refine ⟨⟨?_, ?_, hc.tables_ok, hc.tids_lt, hc.rels_ok, ?_, ?_⟩, ?_⟩
      · simpa [defsOf, framesDefs, defsL] using hc.defs_lt
      · simpa [defsOf, framesDefs, defsL] using hc.defs_nodup
      · intro f hf' x hx
        simp only [List.mem_cons] at hf'
        rcases hf' with rfl | hf'
        · simp [tidsL] at hx
        · exact hc.frames_tids f (by simpa using hf') x hx
      · obtain ⟨v, hv⟩ := hc.frames_ok.1
        exact ⟨⟨v, by rw [visOf_loop_nil]; exact hv⟩, hc.frames_ok⟩
      · intro e he c hc'
        have := hi.map_defs e he c hc'
        simpa [allDefs, defsOf, framesDefs, defsL, hf] using this
  | fromTable node key name =>
    simp only [step] at h
    split at h
    · cases h
    next tid _ =>
      split at h
      · cases h
      next st1 tref hin =>
        exact inst_push_inv hi hin st1.mapping
          (by obtain ⟨_, _, k, _, rfl⟩ := instantiate_spec hin; exact mapOk_inst hi node tref)
          _ rfl rfl h
  | joinTable node key name side filter =>
    simp only [step] at h
    split at h
    · cases h
    next tid _ =>
      split at h
      · cases h
      next st1 tref hin =>
        exact inst_push_inv hi hin st1.mapping
          (by obtain ⟨_, _, k, _, rfl⟩ := instantiate_spec hin; exact mapOk_inst hi node tref)
          _ rfl rfl h
  | appendTable node key name =>
    simp only [step] at h
    split at h
    · cases h
    next tid _ =>
      split at h
      · cases h
      next st1 tref hin =>
        exact inst_push_inv hi hin st1.mapping
          (by obtain ⟨_, _, k, _, rfl⟩ := instantiate_spec hin; exact mapOk_inst hi node tref)
          _ rfl rfl h
  | declareAsColumn node expr window isAgg =>
    simp only [step] at h
    split at h
    · simp only [Option.some.injEq] at h; subst h; exact hi
    · split at h
      · cases h
      next st1 hp =>
        simp only [Option.some.injEq] at h
        subst h
        obtain ⟨f, rest, hf, rfl, hpo⟩ := pushT_spec' hp
        have hc := hi.core
        rw [hf] at hc
        have hfresh : ∀ c ∈ (Transform.compute { id := st.nextCid, expr := expr, window := window, isAggregation := isAgg }).defs,
            c ∉ defsOf st.tables (f :: rest) := by
          intro c hc' hm
          simp only [Transform.defs, List.mem_singleton] at hc'
          subst hc'
          exact Nat.lt_irrefl _ (hc.defs_lt _ hm)
        refine ⟨push_inv0 hc hpo (by simp [Transform.defs]) hfresh (st.nextCid + 1) (Nat.le_succ _)
          (by simp [Transform.defs]) (by simp [Transform.tids]), ?_⟩
        intro e he c hc'
        show c ∈ defsOf st.tables (pushed f _ :: rest)
        rw [mem_defsOf_push]
        simp only [List.mem_cons] at he
        rcases he with rfl | he
        · simp only [Target.cids, List.mem_singleton] at hc'
          right; simp [Transform.defs, hc']
        · left
          have := hi.map_defs e he c hc'
          simpa [allDefs, hf] using this
  | aliasColumn node cid =>
    simp only [step] at h
    split at h
    · cases h
    next v hv =>
      split at h
      next hm =>
        simp only [Option.some.injEq] at h
        subst h
        refine ⟨hi.core, ?_⟩
        intro e he c hc
        simp only [List.mem_cons] at he
        rcases he with rfl | he
        · simp only [Target.cids, List.mem_singleton] at hc
          subst hc
          have hm' : c ∈ v := by simpa using hm
          exact List.mem_append_right _ (visOf_sub_defs _ _ hv c hm')
        · exact hi.map_defs e he c hc
      · cases h
  | push t =>
    simp only [step] at h
    split at h
    next hpl =>
      obtain ⟨hd, ht⟩ := isPlain_defs hpl
      obtain ⟨f, rest, hf, rfl, hpo⟩ := pushT_spec' h
      have hc := hi.core
      rw [hf] at hc
      refine ⟨push_inv0 hc hpo (by simp [hd]) (by simp [hd]) st.nextCid (Nat.le_refl _) (by simp [hd]) (by simp [ht]), ?_⟩
      intro e he c hc'
      show c ∈ defsOf st.tables (pushed f t :: rest)
      rw [mem_defsOf_push]
      left
      have := hi.map_defs e he c hc'
      simpa [allDefs, hf] using this
    · cases h
  | endInlineFrom node cols =>
    simp only [step] at h
    split at h
    · cases h
    next st1 tref he => exact endInline_push_inv hi he _ rfl rfl h
  | endInlineJoin node cols side filter =>
    simp only [step] at h
    split at h
    · cases h
    next st1 tref he => exact endInline_push_inv hi he _ rfl rfl h
  | endInlineAppend node cols =>
    simp only [step] at h
    split at h
    · cases h
    next st1 tref he => exact endInline_push_inv hi he _ rfl rfl h
  | endCte key name cols =>
    simp only [step] at h
    split at h
    · cases h
    · split at h
      · cases h
      next st1 rel hc =>
        simp only [Option.some.injEq] at h
        subst h
        exact close_inv hi hc name _
  | endLoop =>
    simp only [step] at h
    split at h
    next f p rest hf =>
      split at h
      next hl =>
        obtain ⟨f2, rest2, hf2, rfl, hpo⟩ := pushT_spec' h
        simp only [List.cons.injEq] at hf2
        obtain ⟨rfl, rfl⟩ := hf2
        have hc := hi.core
        rw [hf] at hc
        have hnd := hc.defs_nodup
        rw [defsOf_cons] at hnd
        obtain ⟨hF, hTX, hdis⟩ := nodup_remove_middle hnd
        have hc2 : Inv0 st.nextCid st.nextTid st.tables (p :: rest) := by
          refine ⟨?_, ?_, hc.tables_ok, hc.tids_lt, hc.rels_ok, ?_, hc.frames_ok.2⟩
          · intro c hc'
            apply hc.defs_lt
            rw [defsOf_cons]
            simp only [defsOf, List.mem_append] at hc' ⊢
            rcases hc' with a | a
            · exact Or.inl a
            · exact Or.inr (Or.inr a)
          · exact hTX
          · intro g hg x hx
            exact hc.frames_tids g (by simp [hg]) x hx
        refine ⟨push_inv0 hc2 hpo hF (by simpa [Transform.defs, defsOf] using hdis) st.nextCid (Nat.le_refl _) ?_ ?_, ?_⟩
        · intro c hc'
          apply hc.defs_lt
          rw [defsOf_cons]
          simp only [Transform.defs] at hc'
          simp [hc']
        · intro x hx
          exact hc.frames_tids f (by simp) x (by simpa [Transform.tids] using hx)
        · intro e he c hc'
          show c ∈ defsOf st.tables (pushed p _ :: rest)
          rw [mem_defsOf_push]
          have := hi.map_defs e he c hc'
          simp only [allDefs, hf, defsOf_cons, List.mem_append] at this
          simp only [defsOf, List.mem_append, Transform.defs]
          rcases this with a | a | a
          · exact Or.inl (Or.inl a)
          · exact Or.inr a
          · exact Or.inl (Or.inr a)
      · cases h
    · cases h

theorem run_inv {st st' : St} {ops : List Op} (hi : Inv st) (h : run st ops = some st') : Inv st' := by
  induction ops generalizing st with
  | nil => simp only [run, Option.some.injEq] at h; subst h; exact hi
  | cons o os ih =>
    simp only [run] at h
    split at h
    next s1 hs => exact ih (step_inv hi hs) h
    · cases h

/-- what `finish` emits passes `wfRq` -/
theorem finish_wf {st : St} {rq : RelationalQuery} (hi : Inv st) (h : finish st = some rq) : wfRq rq = .ok () := by
  unfold finish at h
  cases hf : st.frames with
  | cons f fs => simp [hf] at h
  | nil =>
    simp only [hf] at h
    cases hr : st.tables.reverse with
    | nil => simp [hr] at h
    | cons m ts =>
      simp only [hr, Option.some.injEq] at h
      subst h
      have htab : st.tables = ts.reverse ++ [m] := by
        have := congrArg List.reverse hr
        simpa using this
      have hc := hi.core
      rw [htab, hf] at hc
      rw [wfRq_iff]
      refine ⟨?_, ?_, ?_⟩
      · obtain ⟨d, hd⟩ := hc.tables_ok
        rw [checkTables_append] at hd
        unfold checkTids
        cases h0 : checkTables [] ts.reverse with
        | error e => simp [h0] at hd
        | ok d0 =>
          simp only [h0, checkTables] at hd ⊢
          cases h1 : needTids d0 m.relation.kind.tids with
          | error e => simp [h1] at hd
          | ok u => rfl
      · have := hc.defs_nodup
        simpa [defsOf, framesDefs, tablesDefs, RelationalQuery.defs, RelationalQuery.relations, Function.comp_def] using this
      · intro r hr'
        simp only [RelationalQuery.relations, List.mem_append, List.mem_map, List.mem_singleton] at hr'
        rcases hr' with ⟨t, ht, rfl⟩ | rfl
        · exact hc.rels_ok t (by simp [ht])
        · exact hc.rels_ok m (by simp)

end Model.Lower
