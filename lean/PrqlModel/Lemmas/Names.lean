/- Helper lemmas for C09 (identifiers, generated names). -/
import PrqlModel.Model.Names
import PrqlModel.Lemmas.Lit
namespace Lemmas.Names
open Model.Names Gen Lemmas.Lit

/-! ### character classes -/

theorem inClass_mono {cl ws : List (Char × Char)} (h : ∀ r ∈ cl, ∃ w ∈ ws, w.1 ≤ r.1 ∧ r.2 ≤ w.2) {c : Char}
    (hc : Gen.Ident.inClass cl c = true) : Gen.Ident.inClass ws c = true := by
  simp only [Gen.Ident.inClass, List.any_eq_true, Bool.and_eq_true, decide_eq_true_eq] at hc ⊢
  obtain ⟨r, hr, h1, h2⟩ := hc
  obtain ⟨w, hw, h3, h4⟩ := h r hr
  exact ⟨w, hw, Char.le_trans h3 h1, Char.le_trans h2 h4⟩

theorem takeWhile_append_stop {p : Char → Bool} : ∀ (s rest : Src), (∀ c ∈ s, p c = true) → (∀ c, rest.head? = some c → p c = false) →
    (s ++ rest).takeWhile p = s ∧ (s ++ rest).dropWhile p = rest := by
  intro s
  induction s with
  | nil =>
    intro rest _ hr
    cases rest with
    | nil => simp
    | cons d ds => simp [List.takeWhile_cons, List.dropWhile_cons, hr d rfl]
  | cons c cs ih =>
    intro rest hs hr
    have := ih rest (fun d hd => hs d (by simp [hd])) hr
    simp [List.takeWhile_cons, List.dropWhile_cons, hs c (by simp), this.1, this.2]

theorem clean_of_not_mem (q : Char) : ∀ (prev : Char) (s : Src), q ∉ s → Clean q prev s := by
  intro prev s
  induction s generalizing prev with
  | nil => intro _; trivial
  | cons c cs ih =>
    intro h
    have hc : c ≠ q := fun e => h (by simp [e])
    exact ⟨fun e => absurd e hc, ih c (fun hm => h (by simp [hm]))⟩

/-! ### generated names -/

theorem toDigits_inj {a b : Nat} (h : Nat.toDigits 10 a = Nat.toDigits 10 b) : a = b := by
  have := congrArg (fun l => Nat.ofDigitChars 10 l 0) h
  simpa using this

theorem genName_inj (pre : Src) {a b : Nat} (h : genName pre a = genName pre b) : a = b :=
  toDigits_inj (List.append_cancel_left h)

theorem freshen_spec (pre : Src) : ∀ (f : Nat) (names : List Src) (cur : Option Src) (n : Nat) (x : Src) (n' : Nat),
    freshen pre f names cur n = some (x, n') → x ∉ names := by
  intro f
  induction f with
  | zero => intro names cur n x n' h; simp [freshen] at h
  | succ f ih =>
    intro names cur n x n' h
    cases cur with
    | none => simp only [freshen] at h; exact ih _ _ _ _ _ h
    | some y =>
      simp only [freshen] at h
      split at h
      · exact ih _ _ _ _ _ h
      · next hn =>
        simp at h; obtain ⟨rfl, _⟩ := h
        simpa using hn

theorem freshen_keeps (pre : Src) (f : Nat) (names : List Src) (x : Src) (n : Nat) (h : x ∉ names) :
    freshen pre (f + 1) names (some x) n = some (x, n) := by
  simp [freshen, h]

theorem assignSeq_spec (pre : Src) : ∀ (ds : List (Option Src)) (names : List Src) (n : Nat) (xs : List Src) (n' : Nat),
    assignSeq pre ds names n = some (xs, n') → xs.Nodup ∧ (∀ x ∈ xs, x ∉ names) ∧ xs.length = ds.length := by
  intro ds
  induction ds with
  | nil => intro names n xs n' h; simp [assignSeq] at h; obtain ⟨rfl, _⟩ := h; simp
  | cons d ds ih =>
    intro names n xs n' h
    simp only [assignSeq] at h
    split at h
    · cases h
    · next x n1 hf =>
      split at h
      · next ys n2 hr =>
        simp at h; obtain ⟨rfl, _⟩ := h
        have hx := freshen_spec pre _ _ _ _ _ _ hf
        obtain ⟨hnd, hnot, hlen⟩ := ih _ _ _ _ hr
        refine ⟨List.nodup_cons.mpr ⟨fun hm => ?_, hnd⟩, ?_, by simp [hlen]⟩
        · exact hnot x hm (by simp)
        · intro y hy
          rcases List.mem_cons.mp hy with rfl | hy
          · exact hx
          · exact fun hm => hnot y hy (by simp [hm])
      · cases h

theorem assignSeq_leading (pre : Src) : ∀ (named : List Src) (rest : List (Option Src)) (names : List Src) (n : Nat) (xs : List Src) (n' : Nat),
    named.Nodup → (∀ x ∈ named, x ∉ names) → assignSeq pre (named.map some ++ rest) names n = some (xs, n') → named <+: xs := by
  intro named
  induction named with
  | nil => intro rest names n xs n' _ _ _; exact List.nil_prefix
  | cons a as ih =>
    intro rest names n xs n' hnd hnot h
    have ha : a ∉ names := hnot a (by simp)
    simp only [List.map_cons, List.cons_append, assignSeq, freshen_keeps pre _ names a n ha] at h
    split at h
    · next ys n2 hr =>
      simp at h; obtain ⟨rfl, _⟩ := h
      have hnd' := List.nodup_cons.mp hnd
      have := ih rest (a :: names) n ys n2 hnd'.2 (by
        intro x hx hm
        rcases List.mem_cons.mp hm with rfl | hm
        · exact hnd'.1 hx
        · exact hnot x (by simp [hx]) hm) hr
      exact List.prefix_cons_inj a |>.mpr this
    · cases h

/-! ### ids -/

theorem foldl_idSkip_ge (ids : List Nat) (n : Nat) : n ≤ ids.foldl idSkip n := by
  induction ids generalizing n with
  | nil => simp
  | cons i is ih => simp only [List.foldl_cons]; exact Nat.le_trans (by simp [idSkip]; omega) (ih _)

theorem foldl_idSkip_gt (ids : List Nat) (n : Nat) : ∀ i ∈ ids, i < ids.foldl idSkip n := by
  induction ids generalizing n with
  | nil => intro i h; simp at h
  | cons j js ih =>
    intro i hi
    simp only [List.foldl_cons]
    rcases List.mem_cons.mp hi with rfl | hi
    · exact Nat.lt_of_lt_of_le (by simp [idSkip]; omega) (foldl_idSkip_ge js _)
    · exact ih _ i hi

/-! ### the split renaming loop -/

def outNames (r : List (Option Src) × Nat) : List Src := r.1.filterMap id

theorem splitNames_nodup (pre : Src) : ∀ (cols : List (Option Src)) (used : List Src) (n : Nat),
    (∀ u ∈ used, ∀ k, n ≤ k → u ≠ genName pre k) → (∀ x, some x ∈ cols → ∀ k, n ≤ k → x ≠ genName pre k) →
    (outNames (splitNames pre cols used n)).Nodup ∧ ∀ y ∈ outNames (splitNames pre cols used n), y ∉ used := by
  intro cols
  induction cols with
  | nil => intro used n _ _; simp [splitNames, outNames]
  | cons c cs ih =>
    intro used n hu hc
    cases c with
    | none =>
      have := ih used n hu (fun x hx => hc x (by simp [hx]))
      simpa [splitNames, outNames] using this
    | some x =>
      by_cases hx : used.contains x = true
      · have hu' : ∀ u ∈ genName pre n :: used, ∀ k, n + 1 ≤ k → u ≠ genName pre k := by
          intro u hm k hk
          rcases List.mem_cons.mp hm with rfl | hm
          · intro e; have := genName_inj pre e; omega
          · exact hu u hm k (by omega)
        obtain ⟨h1, h2⟩ := ih (genName pre n :: used) (n + 1) hu' (fun y hy k hk => hc y (by simp [hy]) k (by omega))
        simp only [splitNames, hx, if_true, outNames, List.filterMap_cons, id] at h1 h2 ⊢
        refine ⟨List.nodup_cons.mpr ⟨fun hm => h2 _ hm (by simp), h1⟩, ?_⟩
        intro y hy
        rcases List.mem_cons.mp hy with rfl | hy
        · exact fun hm => hu _ hm n (Nat.le_refl _) rfl
        · exact fun hm => h2 y hy (by simp [hm])
      · have hx' : x ∉ used := by simpa using hx
        have hu' : ∀ u ∈ x :: used, ∀ k, n ≤ k → u ≠ genName pre k := by
          intro u hm k hk
          rcases List.mem_cons.mp hm with rfl | hm
          · exact hc u (by simp) k hk
          · exact hu u hm k hk
        obtain ⟨h1, h2⟩ := ih (x :: used) n hu' (fun y hy k hk => hc y (by simp [hy]) k hk)
        simp only [splitNames, hx, outNames, List.filterMap_cons, id] at h1 h2 ⊢
        refine ⟨List.nodup_cons.mpr ⟨fun hm => h2 _ hm (by simp), h1⟩, ?_⟩
        intro y hy
        rcases List.mem_cons.mp hy with rfl | hy
        · exact hx'
        · exact fun hm => h2 y hy (by simp [hm])

end Lemmas.Names
