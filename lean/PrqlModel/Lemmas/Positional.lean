/-
Lemmas about the mirror of the positional mapper (Model.Positional).
-/
import PrqlModel.Model.Positional
namespace Lemmas.Positional
open Model.Positional

theorem position_spec {before : List CId} {a : CId} {i : Nat} (h : position before a = some i) :
    i < before.length ∧ before.getD i 0 = a := by
  unfold position at h
  dsimp only at h
  split at h
  · rename_i hlt
    cases h
    refine ⟨hlt, ?_⟩
    have := List.findIdx_getElem (xs := before) (p := (· == a)) (w := hlt)
    rw [List.getD_eq_getElem?_getD, List.getElem?_eq_getElem hlt]
    simpa using this
  · cases h

theorem filterMap_complete (before : List CId) (after : List CId)
    (h : (after.filterMap (position before)).length = after.length) :
    (after.filterMap (position before)).map (fun i => before.getD i 0) = after ∧
    ∀ i ∈ after.filterMap (position before), i < before.length := by
  induction after with
  | nil => simp
  | cons a as ih =>
    cases hp : position before a with
    | none =>
      simp only [List.filterMap_cons, hp, List.length_cons] at h
      have := List.length_filterMap_le (position before) as
      omega
    | some i =>
      simp only [List.filterMap_cons, hp, List.length_cons, Nat.add_right_cancel_iff] at h
      obtain ⟨h1, h2⟩ := ih h
      obtain ⟨hl, hg⟩ := position_spec hp
      simp only [List.filterMap_cons, hp, List.map_cons, hg, h1, List.mem_cons, true_and]
      intro j hj
      rcases hj with rfl | hj
      · exact hl
      · exact h2 j hj

theorem mappingOf_spec {before after : List CId} {m : List Nat} (h : mappingOf before after = some m) :
    m.map (fun i => before.getD i 0) = after ∧ ∀ i ∈ m, i < before.length := by
  unfold mappingOf at h
  dsimp only at h
  split at h
  · rename_i hl
    cases h
    exact filterMap_complete before after (by simpa using hl)
  · cases h

theorem lookup_filter_ne (store : List (RIId × List Nat)) (r r' : RIId) (h : r' ≠ r) :
    lookup (store.filter (·.1 != r)) r' = lookup store r' := by
  induction store with
  | nil => rfl
  | cons x xs ih =>
    unfold lookup at ih ⊢
    by_cases hx : x.1 = r
    · have h1 : (x.1 != r) = false := by simp [hx]
      have h2 : (x.1 == r') = false := by simp [hx, Ne.symm h]
      simp only [List.filter_cons, h1, List.find?_cons, h2]
      exact ih
    · have h1 : (x.1 != r) = true := by simp [hx]
      simp only [List.filter_cons, h1, if_true, List.find?_cons]
      cases hxr : (x.1 == r')
      · exact ih
      · rfl

theorem lookup_filter_self (store : List (RIId × List Nat)) (r : RIId) :
    lookup (store.filter (·.1 != r)) r = none := by
  induction store with
  | nil => rfl
  | cons x xs ih =>
    unfold lookup at ih ⊢
    by_cases hx : x.1 = r
    · have h1 : (x.1 != r) = false := by simp [hx]
      simp only [List.filter_cons, h1]
      exact ih
    · have h1 : (x.1 != r) = true := by simp [hx]
      have h2 : (x.1 == r) = false := by simp [hx]
      simp only [List.filter_cons, h1, if_true, List.find?_cons, h2]
      exact ih

theorem step_selected (sel : List CId) (st : List (RIId × List CId) × List CId) (t : Tr)
    (h1 : ∀ c ∈ st.2, c ∈ sel) (h2 : ∀ rc ∈ st.1, ∀ c ∈ rc.2, c ∈ sel) :
    (∀ c ∈ (step (some sel) st t).2, c ∈ sel) ∧ (∀ rc ∈ (step (some sel) st t).1, ∀ c ∈ rc.2, c ∈ sel) := by
  obtain ⟨cons, cols⟩ := st
  have hf : ∀ (l : List CId), ∀ c ∈ l.filter (sel.contains ·), c ∈ sel := by
    intro l c hc
    have := (List.mem_filter.mp hc).2
    simpa using this
  cases t with
  | compute id =>
    simp only [step]
    split
    · exact ⟨h1, h2⟩
    · refine ⟨?_, h2⟩
      intro c hc
      simp only [addColumns] at hc
      rcases List.mem_append.mp hc with a | a
      · exact h1 c a
      · exact hf _ c a
  | select cids =>
    refine ⟨?_, h2⟩
    intro c hc
    simp only [step, addColumns, List.nil_append] at hc
    exact hf _ c hc
  | aggregate compute =>
    refine ⟨?_, h2⟩
    intro c hc
    simp only [step, addColumns, List.nil_append] at hc
    exact hf _ c hc
  | setop bottom =>
    refine ⟨h1, ?_⟩
    intro rc hrc c hc
    simp only [step] at hrc
    rcases List.mem_append.mp hrc with a | a
    · exact h2 rc a c hc
    · simp at a; subst a; exact h1 c hc
  | other => exact ⟨h1, h2⟩

theorem foldl_selected (sel : List CId) (p : List Tr) (st : List (RIId × List CId) × List CId)
    (h1 : ∀ c ∈ st.2, c ∈ sel) (h2 : ∀ rc ∈ st.1, ∀ c ∈ rc.2, c ∈ sel) :
    ∀ rc ∈ (p.foldl (step (some sel)) st).1, ∀ c ∈ rc.2, c ∈ sel := by
  induction p generalizing st with
  | nil => exact h2
  | cons t ts ih =>
    obtain ⟨a, b⟩ := step_selected sel st t h1 h2
    exact ih _ a b

end Lemmas.Positional
