/-
Lemmas tying the raw-token PRQL expression parser `Model.Pratt.parseToks` to the generic round trip of
`Lemmas/PrecU.lean`: position classification of printed tokens, no adjacent prefix operators, and the
compatibility of the documented parenthesisation with the EXTRACTED Pratt table.
-/
import PrqlModel.Lemmas.PrecU
import PrqlModel.Model.Pratt
namespace Lemmas.Pratt
open Gen.Pratt Model.PExpr Model.Pratt PrecU

theorem binop_mem_all (o : BinOp) : o ∈ BinOp.all := by cases o <;> decide
theorem unop_mem_all (u : UnOp) : u ∈ UnOp.all := by cases u <;> decide

theorem binOfTok_tok (o : BinOp) : binOfTok o.tok = some o := by cases o <;> decide
theorem unOfTok_tok (u : UnOp) : unOfTok u.tok = some u := by cases u <;> decide

/-- the documented parenthesisation is compatible with the extracted table (decided over all operator pairs) -/
theorem doc_compat : Compat prattTbl docNp :=
  compat_of_compatB BinOp.all UnOp.all binop_mem_all unop_mem_all _ _ (by decide)

/-- well-positioned token lists: state `true` = a term may start here; returns the final state -/
def pos : Bool → List PTok → Option Bool
  | e, [] => some e
  | true, .atom _ :: r => pos false r
  | true, .lp :: r => pos true r
  | true, .pre _ :: r => pos true r
  | false, .op _ :: r => pos true r
  | false, .rp :: r => pos false r
  | _, _ => none

theorem classify_of_pos : ∀ (ts : List PTok) (e e' : Bool), pos e ts = some e' →
    classify e (ts.map ofPTok) = some ts
  | [], _, _, _ => by simp [classify]
  | .atom a :: r, true, e', h => by
    have := classify_of_pos r false e' (by simpa [pos] using h)
    simp [classify, ofPTok, this]
  | .lp :: r, true, e', h => by
    have := classify_of_pos r true e' (by simpa [pos] using h)
    simp [classify, ofPTok, this]
  | .pre u :: r, true, e', h => by
    have := classify_of_pos r true e' (by simpa [pos] using h)
    simp [classify, ofPTok, unOfTok_tok, this]
  | .op o :: r, false, e', h => by
    have := classify_of_pos r true e' (by simpa [pos] using h)
    simp [classify, ofPTok, binOfTok_tok, this]
  | .rp :: r, false, e', h => by
    have := classify_of_pos r false e' (by simpa [pos] using h)
    simp [classify, ofPTok, this]
  | .atom _ :: _, false, _, h => by simp [pos] at h
  | .lp :: _, false, _, h => by simp [pos] at h
  | .pre _ :: _, false, _, h => by simp [pos] at h
  | .op _ :: _, true, _, h => by simp [pos] at h
  | .rp :: _, true, _, h => by simp [pos] at h

/-- `ts` reads as one complete term -/
def Term (ts : List PTok) : Prop := ∀ rest, pos true (ts ++ rest) = pos false rest

theorem term_atom (a : Atom) : Term [Tok.atom a] := fun rest => by simp [pos]
theorem term_paren {ts : List PTok} (h : Term ts) : Term (Tok.lp :: (ts ++ [Tok.rp])) := fun rest => by
  have := h (Tok.rp :: rest)
  simp only [List.cons_append, List.append_assoc, List.nil_append, pos] at *
  rw [this]
theorem term_wrap {ts : List PTok} (b : Bool) (h : Term ts) : Term (wrap b ts) := by
  cases b
  · simpa [wrap] using h
  · simpa [wrap] using term_paren h
theorem term_bin {xs ys : List PTok} (o : BinOp) (hx : Term xs) (hy : Term ys) : Term (xs ++ Tok.op o :: ys) := fun rest => by
  have h1 := hx (Tok.op o :: (ys ++ rest))
  have h2 := hy rest
  simp only [List.append_assoc, List.cons_append]
  rw [h1]; simp only [pos]; exact h2
theorem term_pre {xs : List PTok} (u : UnOp) (hx : Term xs) : Term (Tok.pre u :: xs) := fun rest => by
  have := hx rest
  simp only [List.cons_append, pos]; exact this

theorem term_pr (np : Np BinOp UnOp) : ∀ t : PTree, Term (pr np t)
  | .leaf a => term_atom a
  | .bin o l r => term_bin o (term_wrap _ (term_pr np l)) (term_wrap _ (term_pr np r))
  | .un u x => term_pre u (term_wrap _ (term_pr np x))

theorem classify_pr (np : Np BinOp UnOp) (t : PTree) :
    classify true ((pr np t).map ofPTok) = some (pr np t) := by
  have := term_pr np t []
  simp only [List.append_nil, pos] at this
  exact classify_of_pos _ true false this

/-! no two adjacent prefix operators -/
theorem adj_atom (a : Atom) (r : List PTok) : adjacentPre (Tok.atom a :: r) = adjacentPre r := by
  cases r <;> simp [adjacentPre]
theorem adj_lp (r : List PTok) : adjacentPre (Tok.lp :: r : List PTok) = adjacentPre r := by
  cases r <;> simp [adjacentPre]
theorem adj_rp (r : List PTok) : adjacentPre (Tok.rp :: r : List PTok) = adjacentPre r := by
  cases r <;> simp [adjacentPre]
theorem adj_op (o : BinOp) (r : List PTok) : adjacentPre (Tok.op o :: r : List PTok) = adjacentPre r := by
  cases r <;> simp [adjacentPre]
theorem adj_pre_atom (u : UnOp) (a : Atom) (r : List PTok) : adjacentPre (Tok.pre u :: Tok.atom a :: r) = adjacentPre r := by
  rw [adjacentPre]; exact adj_atom a r
  all_goals simp
theorem adj_pre_lp (u : UnOp) (r : List PTok) : adjacentPre (Tok.pre u :: Tok.lp :: r : List PTok) = adjacentPre r := by
  rw [adjacentPre]; exact adj_lp r
  all_goals simp

/-- `ts` contains no adjacent prefix pair and does not end in a prefix operator -/
def Clean (ts : List PTok) : Prop := ∀ rest, adjacentPre (ts ++ rest) = adjacentPre rest

theorem clean_atom (a : Atom) : Clean [Tok.atom a] := fun rest => by simp [adj_atom]
theorem clean_paren {ts : List PTok} (h : Clean ts) : Clean (Tok.lp :: (ts ++ [Tok.rp])) := fun rest => by
  have := h (Tok.rp :: rest)
  simp only [List.cons_append, List.append_assoc, List.nil_append, adj_lp]
  rw [this, adj_rp]
theorem clean_wrap {ts : List PTok} (b : Bool) (h : Clean ts) : Clean (wrap b ts) := by
  cases b
  · simpa [wrap] using h
  · simpa [wrap] using clean_paren h
theorem clean_bin {xs ys : List PTok} (o : BinOp) (hx : Clean xs) (hy : Clean ys) : Clean (xs ++ Tok.op o :: ys) := fun rest => by
  have h1 := hx (Tok.op o :: (ys ++ rest))
  simp only [List.append_assoc, List.cons_append]
  rw [h1, adj_op]; exact hy rest

/-- a printer that parenthesises every compound operand of a unary operator never puts two prefix operators next to
each other -/
theorem clean_pr_of (np : Np BinOp UnOp) (hU : ∀ u s c, np (.u u) s c = true) : ∀ t : PTree, Clean (pr np t)
  | .leaf a => clean_atom a
  | .bin o l r => clean_bin o (clean_wrap _ (clean_pr_of np hU l)) (clean_wrap _ (clean_pr_of np hU r))
  | .un u (.leaf a) => fun rest => by simp [pr, needs, wrap, adj_pre_atom]
  | .un u (.bin c l' r') => fun rest => by
    have hn : needs np (.u u) false (Tree.bin c l' r' : PTree) = true := by simp [needs, hU]
    have := clean_paren (clean_pr_of np hU (.bin c l' r')) rest
    rw [pr, hn]
    simp only [wrap, if_true, List.cons_append, adj_pre_lp]
    simpa [adj_lp] using this
  | .un u (.un v y) => fun rest => by
    have hn : needs np (.u u) false (Tree.un v y : PTree) = true := by simp [needs, hU]
    have := clean_paren (clean_pr_of np hU (.un v y)) rest
    rw [pr, hn]
    simp only [wrap, if_true, List.cons_append, adj_pre_lp]
    simpa [adj_lp] using this

theorem adjacent_pr_of (np : Np BinOp UnOp) (hU : ∀ u s c, np (.u u) s c = true) (t : PTree) :
    adjacentPre (pr np t) = false := by
  have := clean_pr_of np hU t []
  simpa [adjacentPre] using this

theorem docNp_unary (u : UnOp) (s : Bool) (c : Node BinOp UnOp) : docNp (.u u) s c = true := by
  cases c <;> rfl

theorem adjacent_pr (t : PTree) : adjacentPre (pr docNp t) = false := adjacent_pr_of docNp docNp_unary t

/-- round trip through the raw-token parser for ANY printer decision that is compatible with the extracted Pratt table
and parenthesises the compound operands of unary operators -/
theorem parseToks_pr (np : Np BinOp UnOp) (C : Compat prattTbl np) (hU : ∀ u s c, np (.u u) s c = true) (t : PTree) :
    parseToks ((pr np t).map ofPTok) = some (toSExpr t) := by
  simp [parseToks, classify_pr, adjacent_pr_of np hU, PrecU.roundtrip_all C t]

/-! ### the source printer used by the correspondence is `PrecU.pr docNp` on operator trees -/
def noStar : PTree → Bool
  | .leaf .star => false
  | .leaf _ => true
  | .bin _ l r => noStar l && noStar r
  | .un _ x => noStar x

theorem needsS_toSExpr (p : Node BinOp UnOp) (s : Bool) (t : PTree) : needsS p s (toSExpr t) = needs docNp p s t := by
  cases t with
  | leaf a => cases a <;> rfl
  | bin o l r => rfl
  | un u x => rfl

theorem map_wrap (b : Bool) (ts : List PTok) : (wrap b ts).map ofPTok = wrapR b (ts.map ofPTok) := by
  cases b <;> simp [wrap, wrapR, ofPTok]

theorem srcToks_eq : ∀ t : PTree, noStar t = true → srcToks (toSExpr t) = (pr docNp t).map ofPTok
  | .leaf (.col i), _ => by simp [toSExpr, srcToks, pr, ofPTok]
  | .leaf (.lit l), _ => by simp [toSExpr, srcToks, pr, ofPTok]
  | .leaf .star, h => by simp [noStar] at h
  | .bin o l r, h => by
    simp only [noStar, Bool.and_eq_true] at h
    simp [toSExpr, srcToks, pr, needsS_toSExpr, map_wrap, srcToks_eq l h.1, srcToks_eq r h.2, ofPTok]
  | .un u x, h => by
    simp only [noStar] at h
    simp [toSExpr, srcToks, pr, needsS_toSExpr, map_wrap, srcToks_eq x h, ofPTok]

end Lemmas.Pratt
