/-
Generic "print with minimal parentheses, then
precedence-climbing parse" round trip, for ANY printer decision table `np` that is
compatible with the parser's (prec, assoc) table.  Core Lean only.
-/
namespace Prec

structure Tbl (Op : Type) where
  prec : Op → Nat
  rassoc : Op → Bool

inductive Tree (α Op : Type)
  | leaf : α → Tree α Op
  | bin : Op → Tree α Op → Tree α Op → Tree α Op

inductive Tok (α Op : Type)
  | atom : α → Tok α Op
  | op : Op → Tok α Op
  | lp : Tok α Op
  | rp : Tok α Op

variable {α Op : Type}

def nextMin (T : Tbl Op) (o : Op) : Nat :=
  if T.rassoc o then T.prec o else T.prec o + 1

/-! ### printer -/

def wrap (b : Bool) (ts : List (Tok α Op)) : List (Tok α Op) :=
  if b then Tok.lp :: (ts ++ [Tok.rp]) else ts

def needs (np : Op → Bool → Op → Bool) (parent : Op) (isLeft : Bool) : Tree α Op → Bool
  | .leaf _ => false
  | .bin c _ _ => np parent isLeft c

def pr (np : Op → Bool → Op → Bool) : Tree α Op → List (Tok α Op)
  | .leaf a => [.atom a]
  | .bin o l r =>
    wrap (needs np o true l) (pr np l) ++ (.op o :: wrap (needs np o false r) (pr np r))

/-! ### parser (precedence climbing, fuel = call depth) -/

mutual
def parseExpr (T : Tbl Op) : Nat → Nat → List (Tok α Op) → Option (Tree α Op × List (Tok α Op))
  | 0, _, _ => none
  | f+1, minP, ts =>
    match ts with
    | .atom a :: rest => parseLoop T f minP (.leaf a) rest
    | .lp :: rest =>
      match parseExpr T f 0 rest with
      | some (e, .rp :: rest') => parseLoop T f minP e rest'
      | _ => none
    | _ => none
def parseLoop (T : Tbl Op) : Nat → Nat → Tree α Op → List (Tok α Op) → Option (Tree α Op × List (Tok α Op))
  | 0, _, _, _ => none
  | f+1, minP, lhs, ts =>
    match ts with
    | .op o :: rest =>
      if minP ≤ T.prec o then
        match parseExpr T f (nextMin T o) rest with
        | some (rhs, rest') => parseLoop T f minP (.bin o lhs rhs) rest'
        | none => none
      else some (lhs, ts)
    | _ => some (lhs, ts)
end

def parse (T : Tbl Op) (ts : List (Tok α Op)) : Option (Tree α Op × List (Tok α Op)) :=
  parseExpr T (2 * ts.length) 0 ts

/-! ### big-step relation (mode = none: expr, some lhs: loop), with consumed-token count -/

def blocks (T : Tbl Op) (p : Nat) : List (Tok α Op) → Prop
  | .op o :: _ => T.prec o < p
  | _ => True

inductive R (T : Tbl Op) : Option (Tree α Op) → Nat → List (Tok α Op) → Tree α Op → List (Tok α Op) → Nat → Prop
  | atom {minP a rest t rest' n} :
      R T (some (.leaf a)) minP rest t rest' n → R T none minP (.atom a :: rest) t rest' (n+1)
  | paren {minP rest e rest1 t rest' n1 n2} :
      R T none 0 rest e (.rp :: rest1) n1 → R T (some e) minP rest1 t rest' n2 →
      R T none minP (.lp :: rest) t rest' (n1 + n2 + 2)
  | stop {minP lhs ts} : blocks T minP ts → R T (some lhs) minP ts lhs ts 0
  | step {minP lhs o rest rhs rest1 t rest' n1 n2} :
      minP ≤ T.prec o → R T none (nextMin T o) rest rhs rest1 n1 →
      R T (some (.bin o lhs rhs)) minP rest1 t rest' n2 →
      R T (some lhs) minP (.op o :: rest) t rest' (n1 + n2 + 1)

theorem R_len {T : Tbl Op} {m minP} {ts : List (Tok α Op)} {t rest n}
    (h : R T m minP ts t rest n) : ts.length = n + rest.length := by
  induction h with
  | atom _ ih => simp [ih]; omega
  | paren _ _ ih1 ih2 => simp [ih1, ih2] at *; omega
  | stop _ => simp
  | step _ _ _ ih1 ih2 => simp [ih1, ih2] at *; omega

/-- the fuel-based functions compute the relation, with an explicit fuel bound -/
theorem R_sound {T : Tbl Op} {m minP} {ts : List (Tok α Op)} {t rest n}
    (h : R T m minP ts t rest n) :
    match m with
    | none => ∀ f, 2 * n ≤ f → parseExpr T f minP ts = some (t, rest)
    | some lhs => ∀ f, 2 * n + 1 ≤ f → parseLoop T f minP lhs ts = some (t, rest) := by
  induction h with
  | atom _ ih =>
    intro f hf
    obtain ⟨f, rfl⟩ : ∃ g, f = g + 1 := ⟨f - 1, by omega⟩
    simp only [parseExpr]
    exact ih f (by omega)
  | paren _ _ ih1 ih2 =>
    intro f hf
    obtain ⟨f, rfl⟩ : ∃ g, f = g + 1 := ⟨f - 1, by omega⟩
    simp only [parseExpr]
    rw [ih1 f (by omega)]
    exact ih2 f (by omega)
  | @stop minP lhs ts hb =>
    intro f hf
    obtain ⟨f, rfl⟩ : ∃ g, f = g + 1 := ⟨f - 1, by omega⟩
    cases ts with
    | nil => simp [parseLoop]
    | cons x xs =>
      cases x with
      | op o =>
        have : ¬ minP ≤ T.prec o := by simp [blocks] at hb; omega
        simp [parseLoop, this]
      | atom a => simp [parseLoop]
      | lp => simp [parseLoop]
      | rp => simp [parseLoop]
  | step hp _ _ ih1 ih2 =>
    intro f hf
    obtain ⟨f, rfl⟩ : ∃ g, f = g + 1 := ⟨f - 1, by omega⟩
    simp only [parseLoop, hp, if_true]
    rw [ih1 f (by omega)]
    exact ih2 f (by omega)

/-! ### compatibility of a printer table with the parser table -/

structure Compat (T : Tbl Op) (np : Op → Bool → Op → Bool) : Prop where
  /-- operators on one level share associativity -/
  level : ∀ a b, T.prec a = T.prec b → T.rassoc a = T.rassoc b
  /-- unparenthesised left child: binds tighter, or same level and left-assoc -/
  left : ∀ p c, np p true c = false →
      T.prec p < T.prec c ∨ (T.prec p = T.prec c ∧ T.rassoc p = false)
  /-- unparenthesised right child: binds tighter, or same level and right-assoc -/
  right : ∀ p c, np p false c = false →
      T.prec p < T.prec c ∨ (T.prec p = T.prec c ∧ T.rassoc p = true)

/-- every operator on the unparenthesised left spine has precedence ≥ m -/
def spineGe (T : Tbl Op) (np : Op → Bool → Op → Bool) (m : Nat) : Tree α Op → Prop
  | .leaf _ => True
  | .bin o l _ => m ≤ T.prec o ∧ (needs np o true l = false → spineGe T np m l)

def blocksT (T : Tbl Op) : Tree α Op → List (Tok α Op) → Prop
  | .leaf _, _ => True
  | .bin o _ _, rest => blocks T (nextMin T o) rest

theorem blocks_mono {T : Tbl Op} {p q : Nat} {ts : List (Tok α Op)} (h : blocks T p ts) (hpq : p ≤ q) :
    blocks T q ts := by
  cases ts with
  | nil => trivial
  | cons x xs => cases x <;> simp_all [blocks]; omega

theorem spineGe_mono {T : Tbl Op} {np} {m m' : Nat} (hm : m' ≤ m) :
    ∀ t : Tree α Op, spineGe T np m t → spineGe T np m' t
  | .leaf _, _ => trivial
  | .bin _ l _, h => ⟨Nat.le_trans hm h.1, fun hn => spineGe_mono hm l (h.2 hn)⟩

/-- the spine of any tree is bounded below by its top operator (needs Compat.left) -/
theorem spineGe_top {T : Tbl Op} {np} (C : Compat T np) :
    ∀ (o : Op) (l r : Tree α Op), spineGe T np (T.prec o) (.bin o l r)
  | o, .leaf _, _ => ⟨Nat.le_refl _, fun _ => trivial⟩
  | o, .bin c l' r', _ => by
    refine ⟨Nat.le_refl _, fun hn => ?_⟩
    have hc := C.left o c (by simpa [needs] using hn)
    have := spineGe_top C c l' r'
    exact spineGe_mono (by omega) _ this

/-- Main lemma: parsing the printed tree reaches the loop state `lhs = t`. -/
theorem main {T : Tbl Op} {np} (C : Compat T np) :
    ∀ (t : Tree α Op) (minP : Nat) (rest : List (Tok α Op)) (res : Tree α Op) (rest' : List (Tok α Op)) (n : Nat),
      spineGe T np minP t → blocksT T t rest →
      R T (some t) minP rest res rest' n →
      ∃ n', R T none minP (pr np t ++ rest) res rest' n'
  | .leaf a, minP, rest, res, rest', n, _, _, hL => ⟨_, by simpa [pr] using R.atom hL⟩
  | .bin o l r, minP, rest, res, rest', n, hs, hb, hL => by
    -- right operand: parse at threshold nextMin o yields exactly r and stops at rest
    have hr : ∀ tail, tail = rest →
        ∃ n', R T none (nextMin T o) (wrap (needs np o false r) (pr np r) ++ tail) r tail n' := by
      intro tail htail; subst htail
      by_cases hn : needs np o false r = true
      · -- parenthesised
        have hstop : R T (some r) 0 (Tok.rp :: tail) r (Tok.rp :: tail) 0 := R.stop (by simp [blocks])
        have hbr : blocksT T r (Tok.rp :: tail) := by cases r <;> simp [blocksT, blocks]
        have hsr : spineGe T np 0 r := by
          cases r with
          | leaf _ => trivial
          | bin c l' r' => exact spineGe_mono (Nat.zero_le _) _ (spineGe_top C c l' r')
        obtain ⟨n1, h1⟩ := main C r 0 (Tok.rp :: tail) r (Tok.rp :: tail) 0 hsr hbr hstop
        have hstop2 : R T (some r) (nextMin T o) tail r tail 0 := R.stop hb
        have := R.paren h1 hstop2
        exact ⟨n1 + 0 + 2, by simpa [wrap, hn] using this⟩
      · -- unparenthesised
        have hn' : needs np o false r = false := by simpa using hn
        have hstop : R T (some r) (nextMin T o) tail r tail 0 := R.stop hb
        cases r with
        | leaf a =>
          exact ⟨_, by simpa [wrap, hn', pr] using R.atom hstop⟩
        | bin c l' r' =>
          have hc := C.right o c (by simpa [needs] using hn')
          have hlev := C.level o c
          have hge : nextMin T o ≤ T.prec c := by
            unfold nextMin; rcases hc with h | ⟨h1, h2⟩
            · split <;> omega
            · simp [h2]; omega
          have hsr : spineGe T np (nextMin T o) (.bin c l' r') :=
            spineGe_mono hge _ (spineGe_top C c l' r')
          have hbr : blocksT T (.bin c l' r') tail := by
            refine blocks_mono hb ?_
            unfold nextMin at *; rcases hc with h | ⟨h1, h2⟩
            · split <;> split <;> omega
            · have hc' : T.rassoc c = true := by rw [← hlev h1]; exact h2
              simp [h2, hc']; omega
          obtain ⟨n1, h1⟩ := main C (.bin c l' r') (nextMin T o) tail _ tail 0 hsr hbr hstop
          exact ⟨n1, by simpa [wrap, hn'] using h1⟩
    obtain ⟨nr, hR⟩ := hr rest rfl
    -- the loop step at `op o`
    have hstep : R T (some l) minP (Tok.op o :: (wrap (needs np o false r) (pr np r) ++ rest)) res rest' (nr + n + 1) :=
      R.step hs.1 hR hL
    -- left operand
    by_cases hn : needs np o true l = true
    · have hstop : R T (some l) 0 (Tok.rp :: Tok.op o :: (wrap (needs np o false r) (pr np r) ++ rest)) l _ 0 :=
        R.stop (by simp [blocks])
      have hbl : blocksT T l (Tok.rp :: Tok.op o :: (wrap (needs np o false r) (pr np r) ++ rest)) := by
        cases l <;> simp [blocksT, blocks]
      have hsl : spineGe T np 0 l := by
        cases l with
        | leaf _ => trivial
        | bin c l' r' => exact spineGe_mono (Nat.zero_le _) _ (spineGe_top C c l' r')
      obtain ⟨n1, h1⟩ := main C l 0 _ l _ 0 hsl hbl hstop
      have := R.paren h1 hstep
      exact ⟨n1 + (nr + n + 1) + 2, by simpa [pr, wrap, hn, List.append_assoc] using this⟩
    · have hn' : needs np o true l = false := by simpa using hn
      have hsl : spineGe T np minP l := hs.2 hn'
      have hbl : blocksT T l (Tok.op o :: (wrap (needs np o false r) (pr np r) ++ rest)) := by
        cases l with
        | leaf _ => trivial
        | bin c l' r' =>
          have hc := C.left o c (by simpa [needs] using hn')
          have hlev := C.level o c
          simp only [blocksT, blocks]
          unfold nextMin; rcases hc with h | ⟨h1, h2⟩
          · split <;> omega
          · have hc' : T.rassoc c = false := by rw [← hlev h1]; exact h2
            simp [hc']; omega
      obtain ⟨n1, h1⟩ := main C l minP _ res rest' _ hsl hbl hstep
      exact ⟨n1, by simpa [pr, wrap, hn', List.append_assoc] using h1⟩
termination_by t => sizeOf t

/-- Round trip for every tree, any depth. -/
theorem roundtrip {T : Tbl Op} {np} (C : Compat T np) (t : Tree α Op) :
    parse T (pr np t) = some (t, []) := by
  have hs : spineGe T np 0 t := by
    cases t with
    | leaf _ => trivial
    | bin c l' r' => exact spineGe_mono (Nat.zero_le _) _ (spineGe_top C c l' r')
  have hb : blocksT T t ([] : List (Tok α Op)) := by cases t <;> simp [blocksT, blocks]
  obtain ⟨n, h⟩ := main C t 0 [] t [] 0 hs hb (R.stop (by simp [blocks]))
  have hlen := R_len h
  simp at h hlen
  have := R_sound h
  simp only at this
  unfold parse
  exact this _ (by omega)

end Prec
