/-
Round trip "print with the parentheses a decision table asks for, then precedence-climbing parse" for trees with
binary infix and unary prefix operators: for ANY printer decision `np` compatible with the parser table,
`parse T (pr np t) = some (t, [])` for every tree, any depth.  Core Lean only.
(Extension of Lemmas/Prec.lean; same proof architecture: a big-step relation `R` with consumed-token counts,
soundness of the fuel-based functions w.r.t. `R`, and a main lemma by induction on the tree.)
-/
import PrqlModel.Model.PrecU
namespace PrecU

variable {α Op U : Type}

def blocks (T : Tbl Op U) (p : Nat) : List (Tok α Op U) → Prop
  | .op o :: _ => T.prec o < p
  | _ => True

inductive R (T : Tbl Op U) : Option (Tree α Op U) → Nat → List (Tok α Op U) → Tree α Op U → List (Tok α Op U) → Nat → Prop
  | atom {minP a rest t rest' n} :
      R T (some (.leaf a)) minP rest t rest' n → R T none minP (.atom a :: rest) t rest' (n+1)
  | paren {minP rest e rest1 t rest' n1 n2} :
      R T none 0 rest e (.rp :: rest1) n1 → R T (some e) minP rest1 t rest' n2 →
      R T none minP (.lp :: rest) t rest' (n1 + n2 + 2)
  | pre {minP u rest e rest1 t rest' n1 n2} :
      R T none (T.uprec u) rest e rest1 n1 → R T (some (.un u e)) minP rest1 t rest' n2 →
      R T none minP (.pre u :: rest) t rest' (n1 + n2 + 1)
  | stop {minP lhs ts} : blocks T minP ts → R T (some lhs) minP ts lhs ts 0
  | step {minP lhs o rest rhs rest1 t rest' n1 n2} :
      minP ≤ T.prec o → R T none (nextMin T o) rest rhs rest1 n1 →
      R T (some (.bin o lhs rhs)) minP rest1 t rest' n2 →
      R T (some lhs) minP (.op o :: rest) t rest' (n1 + n2 + 1)

theorem R_len {T : Tbl Op U} {m minP} {ts : List (Tok α Op U)} {t rest n}
    (h : R T m minP ts t rest n) : ts.length = n + rest.length := by
  induction h with
  | atom _ ih => simp [ih]; omega
  | paren _ _ ih1 ih2 => simp [ih1, ih2] at *; omega
  | pre _ _ ih1 ih2 => simp [ih1, ih2] at *; omega
  | stop _ => simp
  | step _ _ _ ih1 ih2 => simp [ih1, ih2] at *; omega

/-- the fuel-based functions compute the relation, with an explicit fuel bound -/
theorem R_sound {T : Tbl Op U} {m minP} {ts : List (Tok α Op U)} {t rest n}
    (h : R T m minP ts t rest n) :
    match m with
    | none => ∀ f, 2 * n ≤ f → parseExpr T f minP ts = some (t, rest)
    | some lhs => ∀ f, 2 * n + 1 ≤ f → parseLoop T f minP lhs ts = some (t, rest) := by
  induction h with
  | atom _ ih =>
    intro f hf
    obtain ⟨f, rfl⟩ : ∃ g, f = g + 1 := ⟨f - 1, by omega⟩
    simp only [parseExpr]
    exact ih f (by omega)
  | paren _ _ ih1 ih2 =>
    intro f hf
    obtain ⟨f, rfl⟩ : ∃ g, f = g + 1 := ⟨f - 1, by omega⟩
    simp only [parseExpr]
    rw [ih1 f (by omega)]
    exact ih2 f (by omega)
  | pre _ _ ih1 ih2 =>
    intro f hf
    obtain ⟨f, rfl⟩ : ∃ g, f = g + 1 := ⟨f - 1, by omega⟩
    simp only [parseExpr]
    rw [ih1 f (by omega)]
    exact ih2 f (by omega)
  | @stop minP lhs ts hb =>
    intro f hf
    obtain ⟨f, rfl⟩ : ∃ g, f = g + 1 := ⟨f - 1, by omega⟩
    cases ts with
    | nil => simp [parseLoop]
    | cons x xs =>
      cases x with
      | op o =>
        have : ¬ minP ≤ T.prec o := by simp [blocks] at hb; omega
        simp [parseLoop, this]
      | atom a => simp [parseLoop]
      | pre u => simp [parseLoop]
      | lp => simp [parseLoop]
      | rp => simp [parseLoop]
  | step hp _ _ ih1 ih2 =>
    intro f hf
    obtain ⟨f, rfl⟩ : ∃ g, f = g + 1 := ⟨f - 1, by omega⟩
    simp only [parseLoop, hp, if_true]
    rw [ih1 f (by omega)]
    exact ih2 f (by omega)

/-! ### compatibility of a printer table with the parser table -/

structure Compat (T : Tbl Op U) (np : Np Op U) : Prop where
  /-- operators on one level share associativity -/
  level : ∀ a b, T.prec a = T.prec b → T.rassoc a = T.rassoc b
  /-- unparenthesised binary left child: binds tighter, or same level and left-assoc -/
  left : ∀ p c, np (.b p) true (.b c) = false →
      T.prec p < T.prec c ∨ (T.prec p = T.prec c ∧ T.rassoc p = false)
  /-- unparenthesised binary right child: binds tighter, or same level and right-assoc -/
  right : ∀ p c, np (.b p) false (.b c) = false →
      T.prec p < T.prec c ∨ (T.prec p = T.prec c ∧ T.rassoc p = true)
  /-- unparenthesised prefix expression as LEFT operand: the prefix operand must stop before the parent operator -/
  leftU : ∀ p u, np (.b p) true (.u u) = false → T.prec p < T.uprec u
  /-- unparenthesised prefix expression as RIGHT operand: it must not swallow what follows the parent's operand -/
  rightU : ∀ p u, np (.b p) false (.u u) = false → nextMin T p ≤ T.uprec u
  /-- unparenthesised binary operand of a prefix operator -/
  unB : ∀ u c, np (.u u) false (.b c) = false → T.uprec u ≤ T.prec c
  /-- unparenthesised prefix operand of a prefix operator -/
  unU : ∀ u v, np (.u u) false (.u v) = false → T.uprec u ≤ T.uprec v

/-- every operator on the unparenthesised left spine has precedence ≥ m -/
def spineGe (T : Tbl Op U) (np : Np Op U) (m : Nat) : Tree α Op U → Prop
  | .leaf _ => True
  | .bin o l _ => m ≤ T.prec o ∧ (needs np (.b o) true l = false → spineGe T np m l)
  | .un _ _ => True

/-- what may follow the printed tree: nothing its last operand would swallow -/
def blocksT (T : Tbl Op U) : Tree α Op U → List (Tok α Op U) → Prop
  | .leaf _, _ => True
  | .bin o _ _, rest => blocks T (nextMin T o) rest
  | .un u _, rest => blocks T (T.uprec u) rest

theorem blocks_mono {T : Tbl Op U} {p q : Nat} {ts : List (Tok α Op U)} (h : blocks T p ts) (hpq : p ≤ q) :
    blocks T q ts := by
  cases ts with
  | nil => trivial
  | cons x xs => cases x <;> simp_all [blocks]; omega

theorem spineGe_mono {T : Tbl Op U} {np} {m m' : Nat} (hm : m' ≤ m) :
    ∀ t : Tree α Op U, spineGe T np m t → spineGe T np m' t
  | .leaf _, _ => trivial
  | .un _ _, _ => trivial
  | .bin _ l _, h => ⟨Nat.le_trans hm h.1, fun hn => spineGe_mono hm l (h.2 hn)⟩

/-- the spine of any tree is bounded below by its top operator (needs Compat.left) -/
theorem spineGe_top {T : Tbl Op U} {np} (C : Compat T np) :
    ∀ (o : Op) (l r : Tree α Op U), spineGe T np (T.prec o) (.bin o l r)
  | o, .leaf _, _ => ⟨Nat.le_refl _, fun _ => trivial⟩
  | o, .un _ _, _ => ⟨Nat.le_refl _, fun _ => trivial⟩
  | o, .bin c l' r', _ => by
    refine ⟨Nat.le_refl _, fun hn => ?_⟩
    have hc := C.left o c (by simpa [needs] using hn)
    have := spineGe_top C c l' r'
    exact spineGe_mono (by omega) _ this

theorem spineGe_zero {T : Tbl Op U} {np} (C : Compat T np) (t : Tree α Op U) : spineGe T np 0 t := by
  cases t with
  | leaf _ => trivial
  | un _ _ => trivial
  | bin c l' r' => exact spineGe_mono (Nat.zero_le _) _ (spineGe_top C c l' r')

theorem le_nextMin (T : Tbl Op U) (o : Op) : T.prec o ≤ nextMin T o := by
  unfold nextMin; split <;> omega

/-- an operand parsed at threshold `m` and followed by `tail`: parenthesised, or bare with the two invariants -/
theorem operand {T : Tbl Op U} {np} (C : Compat T np) (x : Tree α Op U)
    (IH : ∀ (minP : Nat) (rest : List (Tok α Op U)) (res : Tree α Op U) (rest' : List (Tok α Op U)) (n : Nat),
      spineGe T np minP x → blocksT T x rest → R T (some x) minP rest res rest' n →
      ∃ n', R T none minP (pr np x ++ rest) res rest' n')
    (m : Nat) (b : Bool) (tail : List (Tok α Op U)) (hb : blocks T m tail)
    (hbare : b = false → spineGe T np m x ∧ blocksT T x tail) :
    ∃ n1, R T none m (wrap b (pr np x) ++ tail) x tail n1 := by
  cases b with
  | true =>
    have hstop : R T (some x) 0 (Tok.rp :: tail) x (Tok.rp :: tail) 0 := R.stop (by simp [blocks])
    have hbr : blocksT T x (Tok.rp :: tail) := by cases x <;> simp [blocksT, blocks]
    obtain ⟨n1, h1⟩ := IH 0 (Tok.rp :: tail) x (Tok.rp :: tail) 0 (spineGe_zero C x) hbr hstop
    have hstop2 : R T (some x) m tail x tail 0 := R.stop hb
    have := R.paren h1 hstop2
    exact ⟨n1 + 0 + 2, by simpa [wrap] using this⟩
  | false =>
    obtain ⟨hs, hbt⟩ := hbare rfl
    have hstop : R T (some x) m tail x tail 0 := R.stop hb
    obtain ⟨n1, h1⟩ := IH m tail x tail 0 hs hbt hstop
    exact ⟨n1, by simpa [wrap] using h1⟩

/-- Main lemma: parsing the printed tree reaches the loop state `lhs = t`. -/
theorem main {T : Tbl Op U} {np} (C : Compat T np) :
    ∀ (t : Tree α Op U) (minP : Nat) (rest : List (Tok α Op U)) (res : Tree α Op U) (rest' : List (Tok α Op U)) (n : Nat),
      spineGe T np minP t → blocksT T t rest →
      R T (some t) minP rest res rest' n →
      ∃ n', R T none minP (pr np t ++ rest) res rest' n'
  | .leaf a, minP, rest, res, rest', n, _, _, hL => ⟨_, by simpa [pr] using R.atom hL⟩
  | .un u x, minP, rest, res, rest', n, _, hb, hL => by
    have hb' : blocks T (T.uprec u) rest := hb
    have hbare : needs np (.u u) false x = false → spineGe T np (T.uprec u) x ∧ blocksT T x rest := by
      intro hn
      cases x with
      | leaf _ => exact ⟨trivial, trivial⟩
      | bin c l' r' =>
        have hc := C.unB u c (by simpa [needs] using hn)
        exact ⟨spineGe_mono hc _ (spineGe_top C c l' r'),
               blocks_mono hb' (Nat.le_trans hc (le_nextMin T c))⟩
      | un v y =>
        have hc := C.unU u v (by simpa [needs] using hn)
        exact ⟨trivial, blocks_mono hb' hc⟩
    obtain ⟨n1, h1⟩ := operand C x (fun m tl rs rs' k => main C x m tl rs rs' k) (T.uprec u)
      (needs np (.u u) false x) rest hb' hbare
    exact ⟨n1 + n + 1, by simpa [pr] using R.pre h1 hL⟩
  | .bin o l r, minP, rest, res, rest', n, hs, hb, hL => by
    have hb' : blocks T (nextMin T o) rest := hb
    -- right operand: parse at threshold nextMin o yields exactly r and stops at rest
    have hbareR : needs np (.b o) false r = false → spineGe T np (nextMin T o) r ∧ blocksT T r rest := by
      intro hn
      cases r with
      | leaf _ => exact ⟨trivial, trivial⟩
      | bin c l' r' =>
        have hc := C.right o c (by simpa [needs] using hn)
        have hlev := C.level o c
        have hge : nextMin T o ≤ T.prec c := by
          unfold nextMin; rcases hc with h | ⟨h1, h2⟩
          · split <;> omega
          · simp [h2]; omega
        refine ⟨spineGe_mono hge _ (spineGe_top C c l' r'), ?_⟩
        refine blocks_mono hb' ?_
        unfold nextMin at *; rcases hc with h | ⟨h1, h2⟩
        · split <;> split <;> omega
        · have hc' : T.rassoc c = true := by rw [← hlev h1]; exact h2
          simp [h2, hc']; omega
      | un v y =>
        have hc := C.rightU o v (by simpa [needs] using hn)
        exact ⟨trivial, blocks_mono hb' hc⟩
    obtain ⟨nr, hR⟩ := operand C r (fun m tl rs rs' k => main C r m tl rs rs' k) (nextMin T o)
      (needs np (.b o) false r) rest hb' hbareR
    -- the loop step at `op o`
    have hstep : R T (some l) minP (Tok.op o :: (wrap (needs np (.b o) false r) (pr np r) ++ rest)) res rest' (nr + n + 1) :=
      R.step hs.1 hR hL
    -- left operand
    by_cases hn : needs np (.b o) true l = true
    · have hstop : R T (some l) 0 (Tok.rp :: Tok.op o :: (wrap (needs np (.b o) false r) (pr np r) ++ rest)) l _ 0 :=
        R.stop (by simp [blocks])
      have hbl : blocksT T l (Tok.rp :: Tok.op o :: (wrap (needs np (.b o) false r) (pr np r) ++ rest)) := by
        cases l <;> simp [blocksT, blocks]
      obtain ⟨n1, h1⟩ := main C l 0 _ l _ 0 (spineGe_zero C l) hbl hstop
      have := R.paren h1 hstep
      exact ⟨n1 + (nr + n + 1) + 2, by simpa [pr, wrap, hn, List.append_assoc] using this⟩
    · have hn' : needs np (.b o) true l = false := by simpa using hn
      have hsl : spineGe T np minP l := hs.2 hn'
      have hbl : blocksT T l (Tok.op o :: (wrap (needs np (.b o) false r) (pr np r) ++ rest)) := by
        cases l with
        | leaf _ => trivial
        | bin c l' r' =>
          have hc := C.left o c (by simpa [needs] using hn')
          have hlev := C.level o c
          simp only [blocksT, blocks]
          unfold nextMin; rcases hc with h | ⟨h1, h2⟩
          · split <;> omega
          · have hc' : T.rassoc c = false := by rw [← hlev h1]; exact h2
            simp [hc']; omega
        | un v y =>
          have hc := C.leftU o v (by simpa [needs] using hn')
          simpa [blocksT, blocks] using hc
      obtain ⟨n1, h1⟩ := main C l minP _ res rest' _ hsl hbl hstep
      exact ⟨n1, by simpa [pr, wrap, hn', List.append_assoc] using h1⟩
termination_by t => sizeOf t

/-- Round trip for every tree, any depth. -/
theorem roundtrip {T : Tbl Op U} {np} (C : Compat T np) (t : Tree α Op U) :
    parse T (pr np t) = some (t, []) := by
  have hb : blocksT T t ([] : List (Tok α Op U)) := by cases t <;> simp [blocksT, blocks]
  obtain ⟨n, h⟩ := main C t 0 [] t [] 0 (spineGe_zero C t) hb (R.stop (by simp [blocks]))
  have hlen := R_len h
  simp at h hlen
  have := R_sound h
  simp only at this
  unfold parse
  exact this _ (by omega)

theorem roundtrip_all {T : Tbl Op U} {np} (C : Compat T np) (t : Tree α Op U) :
    parseAll T (pr np t) = some t := by
  simp [parseAll, roundtrip C t]

/-! ### deciding `Compat` over explicit enumerations -/

def compatB (ops : List Op) (us : List U) (T : Tbl Op U) (np : Np Op U) : Bool :=
  (ops.all fun a => ops.all fun b =>
    (if T.prec a = T.prec b then T.rassoc a == T.rassoc b else true) &&
    (if np (.b a) true (.b b) = false then
        decide (T.prec a < T.prec b) || (decide (T.prec a = T.prec b) && T.rassoc a == false) else true) &&
    (if np (.b a) false (.b b) = false then
        decide (T.prec a < T.prec b) || (decide (T.prec a = T.prec b) && T.rassoc a == true) else true)) &&
  (ops.all fun p => us.all fun u =>
    (if np (.b p) true (.u u) = false then decide (T.prec p < T.uprec u) else true) &&
    (if np (.b p) false (.u u) = false then decide (nextMin T p ≤ T.uprec u) else true) &&
    (if np (.u u) false (.b p) = false then decide (T.uprec u ≤ T.prec p) else true)) &&
  (us.all fun u => us.all fun v =>
    (if np (.u u) false (.u v) = false then decide (T.uprec u ≤ T.uprec v) else true))

theorem compat_of_compatB (ops : List Op) (us : List U) (hall : ∀ o, o ∈ ops) (hallU : ∀ u, u ∈ us)
    (T : Tbl Op U) (np : Np Op U) (h : compatB ops us T np = true) : Compat T np := by
  unfold compatB at h
  simp only [Bool.and_eq_true] at h
  obtain ⟨⟨h1, h2⟩, h3⟩ := h
  have H1 : ∀ a b, _ := fun a b => (List.all_eq_true.mp (List.all_eq_true.mp h1 a (hall a))) b (hall b)
  have H2 : ∀ p u, _ := fun p u => (List.all_eq_true.mp (List.all_eq_true.mp h2 p (hall p))) u (hallU u)
  have H3 : ∀ u v, _ := fun u v => (List.all_eq_true.mp (List.all_eq_true.mp h3 u (hallU u))) v (hallU v)
  refine ⟨?_, ?_, ?_, ?_, ?_, ?_, ?_⟩
  · intro a b hab
    have := H1 a b; simp [hab] at this; exact this.1.1
  · intro p c hn
    have := H1 p c; simp [hn] at this
    rcases this.1.2 with h | h
    · exact Or.inl h
    · exact Or.inr ⟨h.1, h.2⟩
  · intro p c hn
    have := H1 p c; simp [hn] at this
    rcases this.2 with h | h
    · exact Or.inl h
    · exact Or.inr ⟨h.1, h.2⟩
  · intro p u hn
    have := H2 p u; simp [hn] at this; exact this.1.1
  · intro p u hn
    have := H2 p u; simp [hn] at this; exact this.1.2
  · intro u c hn
    have := H2 c u; simp [hn] at this; exact this.2
  · intro u v hn
    have := H3 u v; simp [hn] at this; exact this

/-! ### printers that agree on a tree print the same tokens -/

/-- `np` and `np'` take the same decision at every node of `t` -/
def agree (np np' : Np Op U) : Tree α Op U → Prop
  | .leaf _ => True
  | .bin o l r => needs np (.b o) true l = needs np' (.b o) true l ∧ needs np (.b o) false r = needs np' (.b o) false r
      ∧ agree np np' l ∧ agree np np' r
  | .un u x => needs np (.u u) false x = needs np' (.u u) false x ∧ agree np np' x

theorem pr_congr {np np' : Np Op U} : ∀ t : Tree α Op U, agree np np' t → pr np t = pr np' t
  | .leaf _, _ => rfl
  | .bin o l r, h => by
    obtain ⟨h1, h2, h3, h4⟩ := h
    simp [pr, h1, h2, pr_congr l h3, pr_congr r h4]
  | .un u x, h => by
    obtain ⟨h1, h2⟩ := h
    simp [pr, h1, pr_congr x h2]

/-- boolean form of `agree` -/
def agreeB (np np' : Np Op U) : Tree α Op U → Bool
  | .leaf _ => true
  | .bin o l r => (needs np (.b o) true l == needs np' (.b o) true l) && (needs np (.b o) false r == needs np' (.b o) false r)
      && agreeB np np' l && agreeB np np' r
  | .un u x => (needs np (.u u) false x == needs np' (.u u) false x) && agreeB np np' x

theorem agree_of_agreeB {np np' : Np Op U} : ∀ t : Tree α Op U, agreeB np np' t = true → agree np np' t
  | .leaf _, _ => trivial
  | .bin o l r, h => by
    simp only [agreeB, Bool.and_eq_true, beq_iff_eq] at h
    exact ⟨h.1.1.1, h.1.1.2, agree_of_agreeB l h.1.2, agree_of_agreeB r h.2⟩
  | .un u x, h => by
    simp only [agreeB, Bool.and_eq_true, beq_iff_eq] at h
    exact ⟨h.1, agree_of_agreeB x h.2⟩

end PrecU
