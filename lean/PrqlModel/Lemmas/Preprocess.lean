/-
Lemmas for the mirror of the preprocess stages (Model.Preprocess) and for the rows-level meaning of the constructs they
introduce (DISTINCT, the ROW_NUMBER filter, EXCEPT), stated on the reference semantics Model.Rel.
-/
import PrqlModel.Model.Preprocess
import PrqlModel.Model.Rel
import PrqlModel.Lemmas.SortBy
namespace Lemmas.Preprocess
open Model.Rel

/-! ### a positional take is a filter on the 1-based row number -/

/-- the condition of the generated filter on the row number `n` -/
def rnKeep (lo hi : Option Nat) (n : Nat) : Bool :=
  decide (lo.getD 1 ≤ n) && (match hi with | none => true | some e => decide (n ≤ e))

theorem filter_window_bounded {α} (s t : Nat) (l : List α) (k : Nat) :
    ((l.zipIdx k).filter fun p => decide (s ≤ p.2) && decide (p.2 < t)).map (·.1)
      = (l.drop (s - k)).take (t - max s k) := by
  induction l generalizing k with
  | nil => simp
  | cons x xs ih =>
    simp only [List.zipIdx_cons, List.filter_cons]
    by_cases h1 : s ≤ k
    · by_cases h2 : k < t
      · have e1 : s - k = 0 := by omega
        have e2 : t - max s k = (t - max s (k + 1)) + 1 := by omega
        have e3 : s - (k + 1) = 0 := by omega
        have e4 : t - k = (t - max s (k + 1)) + 1 := by omega
        simp [h1, h2, ih, e1, e2, e3, e4]
      · have e2 : t - max s k = 0 := by omega
        have e3 : t - max s (k + 1) = 0 := by omega
        have e4 : t - k = 0 := by omega
        simp [h1, h2, ih, e2, e3, e4]
    · have e1 : s - k = (s - (k + 1)) + 1 := by omega
      have e2 : max s k = max s (k + 1) := by omega
      simp [h1, ih, e1, e2]

theorem filter_window_open {α} (s : Nat) (l : List α) (k : Nat) :
    ((l.zipIdx k).filter fun p => decide (s ≤ p.2)).map (·.1) = l.drop (s - k) := by
  induction l generalizing k with
  | nil => simp
  | cons x xs ih =>
    simp only [List.zipIdx_cons, List.filter_cons]
    by_cases h1 : s ≤ k
    · have e1 : s - k = 0 := by omega
      have e3 : s - (k + 1) = 0 := by omega
      simp [h1, ih, e1, e3]
    · have e1 : s - k = (s - (k + 1)) + 1 := by omega
      simp [h1, ih, e1]

/-- `take lo..hi` keeps exactly the rows whose 1-based position satisfies the range condition, in their order -/
theorem takeRange_eq_filter_rowNumber {α} (lo hi : Option Nat) (l : List α) :
    takeRange lo hi l = (l.zipIdx.filter fun p => rnKeep lo hi (p.2 + 1)).map (·.1) := by
  cases hi with
  | none =>
    have := filter_window_open (lo.getD 1 - 1) l 0
    simp only [Nat.sub_zero] at this
    simp only [takeRange, rnKeep, Bool.and_true, ← this]
    congr 2
    funext p
    simp only [decide_eq_decide]
    omega
  | some e =>
    have := filter_window_bounded (lo.getD 1 - 1) e l 0
    simp only [Nat.sub_zero, Nat.max_zero] at this
    simp only [takeRange, rnKeep, ← this]
    congr 2
    funext p
    have h1 : decide (lo.getD 1 - 1 ≤ p.2) = decide (lo.getD 1 ≤ p.2 + 1) := by
      simp only [decide_eq_decide]; omega
    have h2 : decide (p.2 < e) = decide (p.2 + 1 ≤ e) := by
      simp only [decide_eq_decide]; omega
    rw [h1, h2]

/-! ### `group <all columns> (take 1)` is DISTINCT -/

theorem keyOf_range (r : Row) : keyOf (List.range r.length) r = r := by
  apply List.ext_getElem
  · simp [keyOf]
  · intro i h1 h2
    simp only [keyOf, List.length_map, List.length_range] at h1
    simp [keyOf, List.getD_eq_getElem?_getD, h1]

theorem mem_of_mem_dedup {α} [BEq α] (x : α) (l : List α) (h : x ∈ dedup l) : x ∈ l := by
  induction l with
  | nil => simp [dedup] at h
  | cons y ys ih =>
    simp only [dedup, List.mem_cons] at h
    rcases h with rfl | h
    · simp
    · exact List.mem_cons_of_mem _ (ih (List.mem_filter.mp h).1)

theorem take_one_filter_eq (k : Row) (l : List Row) (h : k ∈ l) : (l.filter fun r => r == k).take 1 = [k] := by
  induction l with
  | nil => simp at h
  | cons y ys ih =>
    by_cases e : y = k
    · subst e; simp
    · have : k ∈ ys := by
        rcases List.mem_cons.mp h with rfl | h
        · exact absurd rfl e
        · exact h
      simp [e, ih this]

theorem isortBy_const_true {α} (l : List α) : isortBy (fun _ _ => true) l = l := by
  induction l with
  | nil => rfl
  | cons x xs ih =>
    simp only [isortBy, ih]
    cases xs <;> simp [insBy]

theorem sortRows_nil (rows : List Row) : sortRows [] rows = rows := by
  have : (fun a b : Row => cmpKeys [] a b != .gt) = fun _ _ => true := by
    funext a b; simp [cmpKeys]
  simp only [sortRows, this, isortBy_const_true]

theorem filter_range_none (n : Nat) : (List.range n).filter (fun i => !(List.range n).contains i) = [] := by
  apply List.filter_eq_nil_iff.mpr
  intro i hi
  simpa using hi

theorem flatMap_congr' {α β} (l : List α) (f g : α → List β) (h : ∀ x ∈ l, f x = g x) : l.flatMap f = l.flatMap g := by
  induction l with
  | nil => rfl
  | cons x xs ih =>
    simp only [List.flatMap_cons]
    rw [h x (by simp), ih fun y hy => h y (by simp [hy])]

theorem flatMap_singleton_id {α} (l : List α) : l.flatMap (fun x => [x]) = l := by
  induction l with
  | nil => rfl
  | cons x xs ih => simp [List.flatMap_cons, ih]

/-- over rows of one width, taking the first row of every group of ALL columns yields each distinct row once, in order of
first occurrence: SELECT DISTINCT -/
theorem groupTake_all_columns_rows (resolve : Src → Table) (t : Table) (w : Nat) (hw : ∀ r ∈ t.rows, r.length = w) :
    (step resolve t (.groupTake (List.range w) [] none (some 1))).rows = dedup t.rows := by
  have hk : t.rows.map (keyOf (List.range w)) = t.rows := by
    conv => rhs; rw [← List.map_id t.rows]
    apply List.map_congr_left
    intro r hr
    rw [← hw r hr]; exact keyOf_range r
  simp only [step, groups, hk, List.flatMap_map]
  conv => rhs; rw [← flatMap_singleton_id (dedup t.rows)]
  apply flatMap_congr'
  intro k hkmem
  have hkr : k ∈ t.rows := mem_of_mem_dedup k _ hkmem
  have hf : (t.rows.filter fun r => keyOf (List.range w) r == k) = t.rows.filter fun r => r == k := by
    apply List.filter_congr
    intro r hr
    rw [← hw r hr, keyOf_range r]
  have hlen : k.length = w := hw k hkr
  simp only [hf, sortRows_nil, takeRange, Option.getD_none, Nat.sub_self, List.drop_zero, Nat.sub_zero,
    take_one_filter_eq k t.rows hkr, List.map_cons, List.map_nil]
  rw [← hlen, keyOf_range k, filter_range_none]
  simp

/-- `group by_ (sort ks | take 1)`: exactly one row per group - the key columns of the result are the distinct keys of the
input, each once, whatever the sort and whichever row is first -/
theorem groupTake_first_keys (resolve : Src → Table) (t : Table) (by_ : List Nat) (ks : List SortKey) :
    ((step resolve t (.groupTake by_ ks none (some 1))).rows.map fun r => r.take by_.length)
      = dedup (t.rows.map (keyOf by_)) := by
  simp only [step, groups, List.flatMap_map, List.map_flatMap]
  conv => rhs; rw [← flatMap_singleton_id (dedup _)]
  apply flatMap_congr'
  intro k hk
  have hk' : k ∈ t.rows.map (keyOf by_) := mem_of_mem_dedup k _ hk
  obtain ⟨r0, hr0, hkr0⟩ := List.mem_map.mp hk'
  have hmem0 : r0 ∈ (t.rows.filter fun r => keyOf by_ r == k) := List.mem_filter.mpr ⟨hr0, by simp [hkr0]⟩
  cases hs : sortRows ks (t.rows.filter fun r => keyOf by_ r == k) with
  | nil =>
    have h1 := congrArg List.length hs
    rw [Lemmas.SortBy.sortRows_eq, Lemmas.SortBy.length_isortBy] at h1
    have : (t.rows.filter fun r => keyOf by_ r == k) = [] := List.length_eq_zero_iff.mp h1
    rw [this] at hmem0
    simp at hmem0
  | cons x xs =>
    have hx : x ∈ t.rows.filter (fun r => keyOf by_ r == k) := by
      have : x ∈ sortRows ks (t.rows.filter fun r => keyOf by_ r == k) := by rw [hs]; simp
      rw [Lemmas.SortBy.sortRows_eq] at this
      exact Lemmas.SortBy.mem_isortBy.mp this
    have hkx : keyOf by_ x = k := by simpa using (List.mem_filter.mp hx).2
    have hlen : (keyOf by_ x).length = by_.length := by simp [keyOf]
    simp only [takeRange, Option.getD_none, Nat.sub_self, List.drop_zero, Nat.sub_zero, List.take_succ_cons, List.take_zero,
      List.map_cons, List.map_nil]
    rw [List.take_left' hlen, hkx]

/-! ### anti-join over all columns and EXCEPT -/

def rowEqSql : Row → Row → Bool
  | [], [] => true
  | a :: as, b :: bs => (a != .null && b != .null && a == b) && rowEqSql as bs
  | _, _ => false

theorem rowEqSql_eq {r s : Row} (h : rowEqSql r s = true) : r = s := by
  induction r generalizing s with
  | nil => cases s <;> simp_all [rowEqSql]
  | cons x xs ih =>
    cases s with
    | nil => simp [rowEqSql] at h
    | cons y ys =>
      simp only [rowEqSql, Bool.and_eq_true, bne_iff_ne, ne_eq, beq_iff_eq] at h
      rw [h.1.2, ih h.2]

theorem rowEqSql_refl {r : Row} (h : ∀ v ∈ r, v ≠ .null) : rowEqSql r r = true := by
  induction r with
  | nil => rfl
  | cons x xs ih =>
    simp only [rowEqSql, Bool.and_eq_true, bne_iff_ne, ne_eq, beq_iff_eq]
    exact ⟨⟨⟨h x (by simp), h x (by simp)⟩, trivial⟩, ih fun v hv => h v (by simp [hv])⟩

/-- left join over all columns followed by "the bottom columns are null": the top rows without a join partner -/
def antiJoinAll (t b : List Row) : List Row := t.filter fun r => !(b.any (rowEqSql r))

/-- EXCEPT as a set -/
def exceptRows (t b : List Row) : List Row := t.filter fun r => !(b.contains r)

theorem anti_join_mem_iff (t b : List Row) (r : Row) (hnn : ∀ v ∈ r, v ≠ .null) :
    r ∈ antiJoinAll t b ↔ r ∈ exceptRows t b := by
  simp only [antiJoinAll, exceptRows, List.mem_filter, Bool.not_eq_true', List.any_eq_false, List.contains_eq_mem,
    decide_eq_false_iff_not, Bool.not_eq_true]
  constructor
  · rintro ⟨hr, hn⟩
    refine ⟨hr, fun hb => ?_⟩
    have := hn r hb
    rw [rowEqSql_refl hnn] at this
    exact absurd this (by simp)
  · rintro ⟨hr, hn⟩
    refine ⟨hr, fun s hs => ?_⟩
    cases e : rowEqSql r s with
    | false => rfl
    | true => exact absurd (rowEqSql_eq e ▸ hs) hn

/-! ### the stages of the mirror -/

open Model.Preprocess in
theorem distinctGo_no_partition (cfg : Cfg) (frame : List CId) (next : CId) (p : List (Model.Preprocess.Tr × Info))
    (h : ∀ t ∈ p, ∀ s e pa so, t.1 = Model.Preprocess.Tr.take s e pa so → pa = []) :
    distinctGo cfg frame next p = some (p.map (·.1), next) := by
  induction p generalizing next with
  | nil => rfl
  | cons t rest ih =>
    have ih' := ih next (fun t ht => h t (List.mem_cons_of_mem _ ht))
    obtain ⟨t, i⟩ := t
    cases t with
    | take s e pa so =>
      have : pa = [] := h (Model.Preprocess.Tr.take s e pa so, i) (by simp) s e pa so rfl
      subst this
      simp [distinctGo, ih']
    | _ => simp [distinctGo, ih']

open Model.Preprocess in
theorem mem_extendKnown {known : List CId} {t : Model.Preprocess.Tr} {i : Info} {k : CId} (h : k ∈ extendKnown known t i) :
    k ∈ known ∨ i.defines = some k ∨ (∃ sd cols f, t = .join sd cols f ∧ k ∈ cols) := by
  unfold extendKnown at h
  split at h
  · rcases List.mem_append.mp h with a | a
    · exact .inl a
    · exact .inr (.inr ⟨_, _, _, rfl, a⟩)
  · split at h
    · rename_i c hdv
      rcases List.mem_append.mp h with a | a
      · exact .inl a
      · simp at a; subst a; exact .inr (.inl hdv)
    · exact .inl h

/-- what `readsOnly` guarantees: every column a later transform reads is a partition column, a column a later Compute
defines or a column a later Join brings in -/
theorem readsOnly_spec (known : List Model.Preprocess.CId) (p : List (Model.Preprocess.Tr × Model.Preprocess.Info))
    (h : Model.Preprocess.readsOnly known p = true) :
    ∀ ti ∈ p, ∀ rs, ti.2.reads = some rs → ∀ c ∈ rs,
      c ∈ known ∨ (∃ tj ∈ p, tj.2.defines = some c) ∨ (∃ tj ∈ p, ∃ sd cols f, tj.1 = .join sd cols f ∧ c ∈ cols) := by
  induction p generalizing known with
  | nil => intro ti hti; simp at hti
  | cons hd rest ih =>
    obtain ⟨t0, i0⟩ := hd
    intro ti hti rs hrs c hc
    unfold Model.Preprocess.readsOnly at h
    cases hr : i0.reads with
    | none =>
      simp only [hr] at h
      rcases List.mem_cons.mp hti with rfl | hti
      · simp [hr] at hrs
      · rcases ih known h ti hti rs hrs c hc with a | ⟨tj, htj, hd⟩ | ⟨tj, htj, hj⟩
        · exact .inl a
        · exact .inr (.inl ⟨tj, List.mem_cons_of_mem _ htj, hd⟩)
        · exact .inr (.inr ⟨tj, List.mem_cons_of_mem _ htj, hj⟩)
    | some rs0 =>
      simp only [hr, Bool.and_eq_true] at h
      obtain ⟨hall, hrest⟩ := h
      have lift : ∀ k, k ∈ Model.Preprocess.extendKnown known t0 i0 →
          k ∈ known ∨ (∃ tj ∈ (t0, i0) :: rest, tj.2.defines = some k) ∨
            (∃ tj ∈ (t0, i0) :: rest, ∃ sd cols f, tj.1 = .join sd cols f ∧ k ∈ cols) := by
        intro k hk
        rcases mem_extendKnown hk with a | a | a
        · exact .inl a
        · exact .inr (.inl ⟨(t0, i0), by simp, a⟩)
        · exact .inr (.inr ⟨(t0, i0), by simp, a⟩)
      rcases List.mem_cons.mp hti with rfl | hti
      · simp only [hr, Option.some.injEq] at hrs
        subst hrs
        have := List.all_eq_true.mp hall c hc
        simp only [List.contains_iff_mem] at this
        exact lift c this
      · rcases ih _ hrest ti hti rs hrs c hc with a | ⟨tj, htj, hd⟩ | ⟨tj, htj, hj⟩
        · exact lift c a
        · exact .inr (.inl ⟨tj, List.mem_cons_of_mem _ htj, hd⟩)
        · exact .inr (.inr ⟨tj, List.mem_cons_of_mem _ htj, hj⟩)

open Model.Preprocess in
def isAppend : Model.Preprocess.Tr → Bool
  | .append _ => true
  | _ => false

open Model.Preprocess in
theorem union_no_append (p : List Model.Preprocess.Tr) : ∀ t ∈ union p, isAppend t = false := by
  fun_induction union p <;> simp_all [isAppend]

/-! ### what the stages leave behind: no Append, no partitioned Take (what the splitter and the clause assembly rely on) -/

open Model.Preprocess in
/-- a transform the later passes can place: not an Append, not a Take with a partition -/
def Placeable : Model.Preprocess.Tr → Prop
  | .append _ => False
  | .take _ _ pa _ => pa = []
  | _ => True

open Model.Preprocess in
/-- not a partitioned Take (Appends are still allowed: `union` removes them) -/
def NoPartTake : Model.Preprocess.Tr → Prop
  | .take _ _ pa _ => pa = []
  | _ => True

open Model.Preprocess in
theorem distinctGo_noPartTake (cfg : Cfg) (frame : List CId) (next : CId) (p : List (Model.Preprocess.Tr × Info))
    (q : List Model.Preprocess.Tr) (n : CId) (h : distinctGo cfg frame next p = some (q, n)) : ∀ t ∈ q, NoPartTake t := by
  induction p generalizing next q n with
  | nil => simp [distinctGo] at h; obtain ⟨rfl, _⟩ := h; intro t ht; simp at ht
  | cons hd rest ih =>
    obtain ⟨t0, i0⟩ := hd
    cases t0 with
    | take s e pa so =>
      simp only [distinctGo] at h
      split at h
      · rename_i hpa
        cases hr : distinctGo cfg frame next rest with
        | none => simp [hr] at h
        | some r =>
          obtain ⟨r1, r2⟩ := r
          simp [hr] at h
          obtain ⟨rfl, rfl⟩ := h
          intro t ht
          rcases List.mem_cons.mp ht with rfl | ht
          · simpa [NoPartTake] using hpa
          · exact ih _ _ _ hr t ht
      · split at h
        · rename_i s' e' _ _
          split at h
          all_goals
            first
            | (cases hr : distinctGo cfg frame next rest with
               | none => simp [hr] at h
               | some r =>
                 obtain ⟨r1, r2⟩ := r
                 simp [hr] at h
                 obtain ⟨rfl, rfl⟩ := h
                 intro t ht
                 simp only [List.mem_cons] at ht
                 rcases ht with rfl | rfl | ht
                 all_goals first | trivial | exact ih _ _ _ hr t ht)
            | (cases hr : distinctGo cfg frame next rest with
               | none => simp [hr] at h
               | some r =>
                 obtain ⟨r1, r2⟩ := r
                 simp [hr] at h
                 obtain ⟨rfl, rfl⟩ := h
                 intro t ht
                 simp only [List.mem_cons] at ht
                 rcases ht with rfl | ht
                 all_goals first | trivial | exact ih _ _ _ hr t ht)
            | (cases hr : distinctGo cfg frame (next + 1) rest with
               | none => simp [hr] at h
               | some r =>
                 obtain ⟨r1, r2⟩ := r
                 simp [hr, rowNumberFilter] at h
                 obtain ⟨rfl, rfl⟩ := h
                 intro t ht
                 simp only [List.mem_cons] at ht
                 rcases ht with rfl | rfl | ht
                 all_goals first | trivial | exact ih _ _ _ hr t ht)
        · cases h
    | _ =>
      simp only [distinctGo] at h
      cases hr : distinctGo cfg frame next rest with
      | none => simp [hr] at h
      | some r =>
        obtain ⟨r1, r2⟩ := r
        simp [hr] at h
        obtain ⟨rfl, rfl⟩ := h
        intro t ht
        rcases List.mem_cons.mp ht with rfl | ht
        · trivial
        · exact ih _ _ _ hr t ht

open Model.Preprocess in
theorem union_placeable (p : List Model.Preprocess.Tr) (h : ∀ t ∈ p, NoPartTake t) : ∀ t ∈ union p, Placeable t := by
  fun_induction union p with
  | case1 => intro t ht; simp at ht
  | case2 cols rest ih =>
    intro t ht
    rcases List.mem_cons.mp ht with rfl | ht
    · trivial
    · exact ih (fun x hx => h x (by simp [hx])) t ht
  | case3 cols rest _ ih =>
    intro t ht
    rcases List.mem_cons.mp ht with rfl | ht
    · trivial
    · exact ih (fun x hx => h x (by simp [hx])) t ht
  | case4 t' rest hna1 hna2 ih =>
    intro t ht
    rcases List.mem_cons.mp ht with rfl | ht
    · have := h t (by simp)
      cases t <;> simp_all [Placeable, NoPartTake]
    · exact ih (fun x hx => h x (by simp [hx])) t ht

open Model.Preprocess in
theorem dropHeadDistinct_mem {l : List Model.Preprocess.Tr} {t : Model.Preprocess.Tr} (h : t ∈ dropHeadDistinct l) : t ∈ l := by
  unfold dropHeadDistinct at h
  split at h
  · exact List.mem_cons_of_mem _ h
  · exact h

open Model.Preprocess in
theorem exceptStep_placeable (cfg : Cfg) (output : List CId) (resRev : List Model.Preprocess.Tr) (t : Model.Preprocess.Tr)
    (r : List Model.Preprocess.Tr) (h : exceptStep cfg output resRev t = some r)
    (h1 : ∀ x ∈ resRev, Placeable x) (h2 : Placeable t) : ∀ x ∈ r, Placeable x := by
  unfold exceptStep at h
  split at h
  · rename_i f bottom jc beforeRev
    split at h
    · cases h; intro x hx
      rcases List.mem_cons.mp hx with rfl | hx
      · exact h2
      · exact h1 x hx
    · cases h
    · rename_i d _
      cases h
      intro x hx
      rcases List.mem_cons.mp hx with rfl | hx
      · trivial
      · have : x ∈ beforeRev := by
          cases d
          · simpa using hx
          · simp only [if_true] at hx; exact dropHeadDistinct_mem hx
        exact h1 x (List.mem_cons_of_mem _ this)
  · cases h; intro x hx
    rcases List.mem_cons.mp hx with rfl | hx
    · exact h2
    · exact h1 x hx

open Model.Preprocess in
theorem exceptGo_placeable (cfg : Cfg) (output : List CId) (resRev p q : List Model.Preprocess.Tr)
    (h : exceptGo cfg output resRev p = some q) (h1 : ∀ x ∈ resRev, Placeable x) (h2 : ∀ x ∈ p, Placeable x) :
    ∀ x ∈ q, Placeable x := by
  induction p generalizing resRev with
  | nil =>
    simp only [exceptGo, Option.some.injEq] at h
    subst h
    intro x hx
    exact h1 x (List.mem_reverse.mp hx)
  | cons t rest ih =>
    simp only [exceptGo] at h
    cases hs : exceptStep cfg output resRev t with
    | none => simp [hs] at h
    | some r =>
      simp only [hs] at h
      exact ih r h (exceptStep_placeable cfg output resRev t r hs h1 (h2 t (by simp))) (fun x hx => h2 x (by simp [hx]))

open Model.Preprocess in
theorem intersectGo_placeable (cfg : Cfg) (output : List CId) (skip : Bool) (resRev p q : List Model.Preprocess.Tr)
    (h : intersectGo cfg output skip resRev p = some q) (h1 : ∀ x ∈ resRev, Placeable x) (h2 : ∀ x ∈ p, Placeable x) :
    ∀ x ∈ q, Placeable x := by
  fun_induction intersectGo cfg output skip resRev p with
  | case1 skip resRev =>
    simp only [Option.some.injEq] at h
    subst h
    intro x hx
    exact h1 x (List.mem_reverse.mp hx)
  | case2 resRev rest ih =>
    exact ih h h1 (fun x hx => h2 x (by simp [hx]))
  | case3 skip resRev bottom jc rest _ nextIsDistinct ih =>
    refine ih h ?_ (fun x hx => h2 x (by simp [hx]))
    intro x hx
    rcases List.mem_cons.mp hx with rfl | hx
    · trivial
    · exact h1 x hx
  | case4 skip resRev bottom jc rest _ nextIsDistinct =>
    cases h
  | case5 skip resRev bottom jc rest _ nextIsDistinct d ih =>
    refine ih h ?_ (fun x hx => h2 x (by simp [hx]))
    intro x hx
    rcases List.mem_cons.mp hx with rfl | hx
    · trivial
    · split at hx
      · exact h1 x (dropHeadDistinct_mem hx)
      · exact h1 x hx
  | case6 skip resRev t rest _ _ ih =>
    refine ih h ?_ (fun x hx => h2 x (by simp [hx]))
    intro x hx
    rcases List.mem_cons.mp hx with rfl | hx
    · exact h2 x (by simp)
    · exact h1 x hx

/-! ### prune_inputs -/

open Model.Preprocess in
theorem pruneStep_used (st : List CId × List (List CId)) (ti : Model.Preprocess.Tr × Info) :
    (pruneStep st ti).1 = st.1 ++ (ti.2.reads.getD []) := by
  unfold pruneStep; cases ti.1 <;> rfl

open Model.Preprocess in
/-- every pruned list is a sublist of an instance's columns: nothing is invented or reordered -/
theorem pruneStep_sublists (st : List CId × List (List CId)) (ti : Model.Preprocess.Tr × Info)
    (P : List CId → Prop) (h : ∀ l ∈ st.2, P l)
    (hf : ∀ (cols used : List CId), (ti.1 = .from cols ∨ ∃ sd f, ti.1 = .join sd cols f) → P (cols.filter (used.contains ·))) :
    ∀ l ∈ (pruneStep st ti).2, P l := by
  unfold pruneStep
  cases hti : ti.1 with
  | «from» cols =>
    intro l hl
    simp only [List.mem_append, List.mem_singleton] at hl
    rcases hl with hl | rfl
    · exact h l hl
    · exact hf cols _ (.inl hti)
  | join sd cols f =>
    intro l hl
    simp only [List.mem_append, List.mem_singleton] at hl
    rcases hl with hl | rfl
    · exact h l hl
    · exact hf cols _ (.inr ⟨sd, f, hti⟩)
  | _ => exact h

open Model.Preprocess in
/-- what is kept of an instance: exactly the columns mentioned by its own transform or by a transform behind it -/
theorem pruned_from_spec (before after : List (Model.Preprocess.Tr × Info)) (cols : List CId) (i : Info) :
    ∃ rest, (((before ++ (.from cols, i) :: after).reverse.foldl pruneStep ([], [])).2 =
      (after.reverse.foldl pruneStep ([], [])).2 ++
        (cols.filter (((after.reverse.foldl pruneStep ([], [])).1 ++ i.reads.getD []).contains ·)) :: rest) := by
  simp only [List.reverse_append, List.reverse_cons, List.append_assoc, List.foldl_append, List.foldl_cons, List.foldl_nil]
  generalize (after.reverse.foldl pruneStep ([], [])) = st0
  have hstep : pruneStep st0 (.from cols, i) = (st0.1 ++ i.reads.getD [], st0.2 ++ [cols.filter ((st0.1 ++ i.reads.getD []).contains ·)]) := rfl
  rw [hstep]
  -- later steps only append
  have mono : ∀ (l : List (Model.Preprocess.Tr × Info)) (st : List CId × List (List CId)), ∃ rest, (l.foldl pruneStep st).2 = st.2 ++ rest := by
    intro l
    induction l with
    | nil => intro st; exact ⟨[], by simp⟩
    | cons t ts ih =>
      intro st
      obtain ⟨r, hr⟩ := ih (pruneStep st t)
      have : ∃ r0, (pruneStep st t).2 = st.2 ++ r0 := by
        unfold pruneStep
        cases t.1 with
        | «from» c => exact ⟨_, rfl⟩
        | join sd c f => exact ⟨_, rfl⟩
        | _ => exact ⟨[], by simp⟩
      obtain ⟨r0, hr0⟩ := this
      exact ⟨r0 ++ r, by rw [List.foldl_cons, hr, hr0, List.append_assoc]⟩
  obtain ⟨rest, hrest⟩ := mono before.reverse (st0.1 ++ i.reads.getD [], st0.2 ++ [cols.filter ((st0.1 ++ i.reads.getD []).contains ·)])
  exact ⟨rest, by rw [hrest]; simp⟩

open Model.Preprocess in
theorem foldl_pruneStep_used (l : List (Model.Preprocess.Tr × Info)) (st : List CId × List (List CId)) :
    (l.foldl pruneStep st).1 = st.1 ++ l.flatMap (fun t => t.2.reads.getD []) := by
  induction l generalizing st with
  | nil => simp
  | cons t ts ih => rw [List.foldl_cons, ih, pruneStep_used]; simp [List.flatMap_cons, List.append_assoc]

open Model.Preprocess in
/-- the column list a From keeps: the columns its own transform or a transform BEHIND it mentions, in their order -/
theorem pruned_from_mem (before after : List (Model.Preprocess.Tr × Info)) (cols : List CId) (i : Info) :
    ∃ kept rest, ((before ++ (.from cols, i) :: after).reverse.foldl pruneStep ([], [])).2 =
        (after.reverse.foldl pruneStep ([], [])).2 ++ kept :: rest ∧ kept.Sublist cols ∧
      ∀ c, c ∈ kept ↔ c ∈ cols ∧ (c ∈ i.reads.getD [] ∨ ∃ t ∈ after, c ∈ t.2.reads.getD []) := by
  obtain ⟨rest, h⟩ := pruned_from_spec before after cols i
  refine ⟨_, rest, h, List.filter_sublist, ?_⟩
  intro c
  rw [foldl_pruneStep_used]
  simp only [List.nil_append, List.mem_filter, List.contains_iff_mem, List.mem_append, List.mem_flatMap, List.mem_reverse]
  constructor
  · rintro ⟨hc, h1 | h2⟩
    · exact ⟨hc, .inr h1⟩
    · exact ⟨hc, .inl h2⟩
  · rintro ⟨hc, h1 | h2⟩
    · exact ⟨hc, .inr h1⟩
    · exact ⟨hc, .inl h2⟩

end Lemmas.Preprocess
