/-
ONE SELECT block over the reference semantics `Model.Rel` (the semantics the differential run uses).

`Block` is the normal form `translate_select_pipeline` (sql/gen_query.rs) assembles from an atomic segment:
  WHERE (filters before the aggregate) → GROUP BY / aggregates → HAVING (filters after the aggregate)
  → ORDER BY (the LAST sort) → projection → LIMIT/OFFSET (all takes folded by `range_of_ranges`).
Every expression of the block is written over the row it is evaluated on in SQL: WHERE, GROUP BY keys and
aggregate arguments over the FROM row, HAVING / ORDER BY / the projection over the row after grouping
(`core`); computed columns are INLINED (`Model.Fn.subst`), which is what the compiler emits for a column that
is not materialised.  ORDER BY by a select alias is the same thing (`orderBy_alias`).
`push` mirrors what the translation does with each transform of the segment, `Adm` is what the split table
guarantees, `step_push` the commutation of one pipeline step with the block, `assemble_correct` the
induction over the segment.  Rows are positional, the FROM relation has `w` columns.
Core Lean only.
-/
import PrqlModel.Lemmas.SortBy
import PrqlModel.Lemmas.SpRel
import PrqlModel.Model.Fn
namespace Lemmas.RelBlock
open Model.Rel Model.Fn Lemmas.SortBy

/-! ### inlining computed columns -/

theorem getD_map_eval (σ : List Expr) (r : Row) (i : Nat) :
    (σ.getD i (.lit .null)).eval r = (σ.map (·.eval r)).getD i .null := by
  simp only [List.getD_eq_getElem?_getD, List.getElem?_map]
  cases σ[i]? <;> rfl

/-- evaluating an expression with expressions substituted for its columns = evaluating it on the row of
their values -/
theorem subst_eval (σ : List Expr) (e : Expr) (r : Row) :
    (subst σ e).eval r = e.eval (σ.map (·.eval r)) := by
  induction e with
  | col i => exact getD_map_eval σ r i
  | lit v => rfl
  | bin op a b iha ihb => simp [subst, Expr.eval, iha, ihb]
  | neg a ih => simp [subst, Expr.eval, ih]
  | not a ih => simp [subst, Expr.eval, ih]
  | isNull a ih => simp [subst, Expr.eval, ih]
  | notNull a ih => simp [subst, Expr.eval, ih]
  | ite c t e ihc iht ihe => simp [subst, Expr.eval, ihc, iht, ihe]

/-- a projection: the output row is the list of the values of the expressions -/
def projRow (σ : List Expr) (r : Row) : Row := σ.map (·.eval r)

/-- `SELECT c0, …, c(n-1)` -/
def idProj (n : Nat) : List Expr := (List.range n).map Expr.col

theorem projRow_idProj {n : Nat} {r : Row} (h : r.length = n) : projRow (idProj n) r = r := by
  apply List.ext_getElem
  · simp [projRow, idProj, h]
  · intro i h1 h2
    simp [projRow, idProj, Expr.eval, List.getD_eq_getElem?_getD, h2]

theorem map_projRow_idProj {n : Nat} {l : List Row} (h : ∀ r ∈ l, r.length = n) :
    l.map (projRow (idProj n)) = l := by
  induction l with
  | nil => rfl
  | cons x xs ih =>
    rw [List.map_cons, projRow_idProj (h x (List.mem_cons_self ..)),
      ih (fun r hr => h r (List.mem_cons_of_mem _ hr))]

/-- `derive es` on a projection: one more item per expression, earlier items inlined -/
def deriveProj (σ : List Expr) (es : List Expr) : List Expr := es.foldl (fun σ e => σ ++ [subst σ e]) σ

theorem projRow_deriveProj (σ es : List Expr) (r : Row) :
    projRow (deriveProj σ es) r = deriveRow es (projRow σ r) := by
  induction es generalizing σ with
  | nil => rfl
  | cons e es ih =>
    simp only [deriveProj, deriveRow, List.foldl_cons] at *
    rw [ih]
    congr 1
    simp [projRow, subst_eval]

theorem projRow_select (σ es : List Expr) (r : Row) :
    projRow (es.map (subst σ)) r = es.map (·.eval (projRow σ r)) := by
  simp [projRow, List.map_map, Function.comp_def, subst_eval]

def substKeys (σ : List Expr) (ks : List SortKey) : List SortKey := ks.map fun k => (subst σ k.1, k.2)

theorem cmpKeys_substKeys (σ : List Expr) (ks : List SortKey) (a b : Row) :
    cmpKeys (substKeys σ ks) a b = cmpKeys ks (projRow σ a) (projRow σ b) := by
  induction ks with
  | nil => rfl
  | cons k rest ih =>
    obtain ⟨e, d⟩ := k
    simp only [substKeys, List.map_cons] at *
    rw [ValueOrd.cmpKeys_cons, ValueOrd.cmpKeys_cons, ih]
    simp [ValueOrd.keyCmp, subst_eval, projRow]

def substAggs (σ : List Expr) (aggs : List Agg) : List Agg := aggs.map fun a => (a.1, subst σ a.2)

theorem aggRow_substAggs (σ : List Expr) (aggs : List Agg) (l : List Row) :
    aggRow (substAggs σ aggs) l = aggRow aggs (l.map (projRow σ)) := by
  simp [aggRow, substAggs, List.map_map, Function.comp_def, subst_eval, projRow]

/-! ### the block -/

inductive Grouping
  | none
  | whole (aggs : List Agg)                      -- aggregates without GROUP BY: exactly one row
  | by (keys : List Expr) (aggs : List Agg)      -- GROUP BY keys: one row `keys ++ aggregates` per key

structure Block where
  wheres : List Expr := []
  group : Grouping := .none
  havings : List Expr := []
  order : Option (List SortKey) := none
  proj : List Expr
  range : Option Nat × Option Nat := (none, none)

/-- the block `SELECT c0 … c(w-1) FROM t` -/
def Block.init (w : Nat) : Block := { proj := idProj w }

/-- a condition holds only when it is TRUE (not NULL) -/
def holds (e : Expr) (r : Row) : Bool := (e.eval r).truth == some true
def allHold (ws : List Expr) (r : Row) : Bool := ws.all fun e => holds e r

/-- `groups` of the reference semantics for an arbitrary key function -/
def groupsBy (key : Row → Row) (rows : List Row) : List (Row × List Row) :=
  (dedup (rows.map key)).map fun k => (k, rows.filter fun r => key r == k)

theorem groups_eq (by_ : List Nat) (rows : List Row) : groups by_ rows = groupsBy (keyOf by_) rows := rfl

def aggStage : Grouping → List Row → List Row
  | .none, l => l
  | .whole aggs, l => [aggRow aggs l]
  | .by keys aggs, l => (groupsBy (projRow keys) l).map fun (k, rs) => k ++ aggRow aggs rs

def sortOpt (o : Option (List SortKey)) (l : List Row) : List Row :=
  match o with | none => l | some ks => sortRows ks l

/-- rows after WHERE, GROUP BY, HAVING -/
def core (b : Block) (t : List Row) : List Row :=
  (aggStage b.group (t.filter (allHold b.wheres))).filter (allHold b.havings)

/-- SQL clause order -/
def evalBlock (b : Block) (t : List Row) : List Row :=
  takeRange b.range.1 b.range.2 ((sortOpt b.order (core b t)).map (projRow b.proj))

/-- pipeline-order meaning of one transform on the rows (the transforms a SELECT block can hold) -/
def stepRows : Tr → List Row → List Row
  | .select es, l => l.map fun r => es.map (·.eval r)
  | .derive es, l => l.map (deriveRow es)
  | .filter e, l => l.filter fun r => (e.eval r).truth == some true
  | .sort ks, l => sortRows ks l
  | .take lo hi, l => takeRange lo hi l
  | .aggregate aggs, l => [aggRow aggs l]
  | .groupAgg by_ aggs, l => (groups by_ l).map fun (k, rs) => k ++ aggRow aggs rs
  | _, l => l

def supported : Tr → Bool
  | .select _ | .derive _ | .filter _ | .sort _ | .take _ _ | .aggregate _ | .groupAgg _ _ => true
  | _ => false

/-- `stepRows` IS the reference semantics `Model.Rel.step` on the rows -/
theorem step_rows (resolve : Src → Table) (t : Table) (tr : Tr) (h : supported tr = true) :
    (step resolve t tr).rows = stepRows tr t.rows := by
  cases tr <;> first | rfl | cases h

/-- what `translate_select_pipeline` does with one more transform of the segment -/
def push (b : Block) : Tr → Block
  | .filter e =>
    match b.group with
    | .none => { b with wheres := b.wheres ++ [subst b.proj e] }
    | _ => { b with havings := b.havings ++ [subst b.proj e] }
  | .derive es => { b with proj := deriveProj b.proj es }
  | .select es => { b with proj := es.map (subst b.proj) }
  | .sort ks => { b with order := some (substKeys b.proj ks) }
  | .take lo hi => { b with range := Rel.compose b.range.1 b.range.2 lo hi }
  | .aggregate aggs =>
    { b with group := .whole (substAggs b.proj aggs), proj := idProj aggs.length, order := none }
  | .groupAgg by_ aggs =>
    { b with group := .by (by_.map fun i => subst b.proj (.col i)) (substAggs b.proj aggs),
             proj := idProj (by_.length + aggs.length), order := none }
  | _ => b

def assemble (w : Nat) (seg : List Tr) : Block := seg.foldl push (Block.init w)

/-- invariants of an assembled block: range starts are ≥ 1, HAVING only with a grouping -/
structure Block.Wf (b : Block) : Prop where
  start : ∀ a, b.range.1 = some a → 1 ≤ a
  having : b.group = .none → b.havings = []

/-- admissibility of the next transform: what the split table (`Model.Split.mustSplit`) guarantees
  * filter / sort / aggregate only before any take          (Take splits on a following Filter/Sort/Aggregate)
  * at most one aggregate                                    (Aggregate splits on a following Aggregate)
  * take bounds are ≥ 1                                      (validate_take_range)
  * a sort that REPLACES a sort has no ties on the rows it orders (C03: the order is then total)
  * an aggregate does not drop a sort (see `AdmP` / `assemble_correct_perm` for the general case) -/
def Adm (b : Block) (t : List Row) : Tr → Prop
  | .filter _ => b.range = (none, none)
  | .derive _ => True
  | .select _ => True
  | .sort ks => b.range = (none, none) ∧ (b.order = none ∨ hasTies ks (evalBlock b t) = false)
  | .take lo _ => ∀ a, lo = some a → 1 ≤ a
  | .aggregate _ => b.group = .none ∧ b.range = (none, none) ∧ b.order = none
  | .groupAgg _ _ => b.group = .none ∧ b.range = (none, none) ∧ b.order = none
  | _ => False

/-! ### small facts -/

theorem takeRange_none (l : List α) : takeRange none none l = l := by simp [takeRange]

theorem takeRange_map {β : Type} (lo hi : Option Nat) (f : α → β) (l : List α) :
    takeRange lo hi (l.map f) = (takeRange lo hi l).map f := by
  cases hi <;> simp [takeRange, List.map_drop, List.map_take]

theorem takeRange_eq_takeR (lo hi : Option Nat) (l : List α) : takeRange lo hi l = Rel.takeR lo hi l := by
  cases hi <;> rfl

theorem allHold_nil (l : List Row) : l.filter (allHold []) = l :=
  List.filter_eq_self.mpr (fun _ _ => rfl)

theorem filter_allHold_snoc (ws : List Expr) (e : Expr) (l : List Row) :
    (l.filter (allHold ws)).filter (holds e) = l.filter (allHold (ws ++ [e])) := by
  rw [List.filter_filter]; congr 1; funext r
  simp [allHold, List.all_append, Bool.and_comm]

theorem holds_subst (σ : List Expr) (e : Expr) (r : Row) : holds (subst σ e) r = holds e (projRow σ r) := by
  simp [holds, subst_eval, projRow]

theorem filter_map_proj (σ : List Expr) (e : Expr) (l : List Row) :
    (l.map (projRow σ)).filter (fun r => (e.eval r).truth == some true)
      = (l.filter (holds (subst σ e))).map (projRow σ) := by
  rw [List.filter_map]; congr 1; congr 1; funext r
  simp [holds, subst_eval, projRow]

theorem filter_sortOpt (o : Option (List SortKey)) (p : Row → Bool) (l : List Row) :
    (sortOpt o l).filter p = sortOpt o (l.filter p) := by
  cases o with
  | none => rfl
  | some ks => exact filter_sortRows ks p l

theorem sortOpt_perm (o : Option (List SortKey)) (l : List Row) : (sortOpt o l).Perm l := by
  cases o with
  | none => exact List.Perm.refl _
  | some ks => exact sortRows_perm ks l

theorem compose_start_ok (s1 e1 s2 e2 : Option Nat)
    (h1 : ∀ a, s1 = some a → 1 ≤ a) (h2 : ∀ b, s2 = some b → 1 ≤ b) :
    ∀ c, (Rel.compose s1 e1 s2 e2).1 = some c → 1 ≤ c := by
  intro c hc
  cases s1 <;> cases s2 <;> simp [Rel.compose] at hc
  · have := h2 _ rfl; omega
  · have := h1 _ rfl; omega
  · have := h1 _ rfl; have := h2 _ rfl; omega

theorem mem_dedup {β : Type} [BEq β] {x : β} {l : List β} (h : x ∈ dedup l) : x ∈ l := by
  induction l with
  | nil => cases h
  | cons y ys ih =>
    simp only [dedup] at h
    rcases List.mem_cons.mp h with rfl | h
    · exact List.mem_cons_self ..
    · exact List.mem_cons_of_mem _ (ih (List.mem_filter.mp h).1)

theorem groupsBy_map (key : Row → Row) (f : Row → Row) (l : List Row) :
    groupsBy key (l.map f) = (groupsBy (fun r => key (f r)) l).map fun p => (p.1, p.2.map f) := by
  simp only [groupsBy, List.map_map, List.filter_map, Function.comp_def]

theorem keyOf_projRow (σ : List Expr) (by_ : List Nat) (r : Row) :
    keyOf by_ (projRow σ r) = projRow (by_.map fun i => subst σ (.col i)) r := by
  simp [keyOf, projRow, List.map_map, Function.comp_def, subst_eval, Expr.eval]

theorem length_aggRow (aggs : List Agg) (l : List Row) : (aggRow aggs l).length = aggs.length := by
  simp [aggRow]

theorem length_aggStage_by (keys : List Expr) (aggs : List Agg) (l : List Row) :
    ∀ r ∈ aggStage (.by keys aggs) l, r.length = keys.length + aggs.length := by
  intro r hr
  simp only [aggStage, groupsBy, List.map_map, List.mem_map, Function.comp_def] at hr
  obtain ⟨k, hk, rfl⟩ := hr
  obtain ⟨x, _, rfl⟩ := List.mem_map.mp (mem_dedup hk)
  simp [projRow, length_aggRow]

/-! ### the commutation step -/

theorem evalBlock_noRange {b : Block} (h : b.range = (none, none)) (t : List Row) :
    evalBlock b t = (sortOpt b.order (core b t)).map (projRow b.proj) := by
  simp [evalBlock, h, takeRange_none]

/-- applying the transform to the block's result = the block with the transform pushed -/
theorem step_push (b : Block) (t : List Row) (tr : Tr) (hwf : b.Wf) (h : Adm b t tr) :
    stepRows tr (evalBlock b t) = evalBlock (push b tr) t := by
  cases tr with
  | filter e =>
    have hr : b.range = (none, none) := h
    rw [evalBlock_noRange hr]
    simp only [stepRows]
    rw [filter_map_proj, filter_sortOpt]
    cases hg : b.group with
    | none =>
      have hp : push b (.filter e) = { b with wheres := b.wheres ++ [subst b.proj e] } := by
        simp [push, hg]
      rw [hp, evalBlock_noRange (by exact hr)]
      simp only [core, hg, aggStage, hwf.having hg, allHold_nil, filter_allHold_snoc]
    | whole aggs =>
      have hp : push b (.filter e) = { b with havings := b.havings ++ [subst b.proj e] } := by
        simp [push, hg]
      rw [hp, evalBlock_noRange (by exact hr)]
      simp only [core, hg, filter_allHold_snoc]
    | «by» keys aggs =>
      have hp : push b (.filter e) = { b with havings := b.havings ++ [subst b.proj e] } := by
        simp [push, hg]
      rw [hp, evalBlock_noRange (by exact hr)]
      simp only [core, hg, filter_allHold_snoc]
  | derive es =>
    simp only [stepRows, evalBlock, push, core]
    rw [← takeRange_map, List.map_map]
    congr 2; funext r; simp [projRow_deriveProj]
  | select es =>
    simp only [stepRows, evalBlock, push, core]
    rw [← takeRange_map, List.map_map]
    congr 2; funext r; simp [projRow_select]
  | sort ks =>
    obtain ⟨hr, ho⟩ := h
    have hcomm : ∀ l : List Row, sortRows ks (l.map (projRow b.proj))
        = (sortRows (substKeys b.proj ks) l).map (projRow b.proj) := by
      intro l
      exact (map_sortRows (substKeys b.proj ks) ks (projRow b.proj)
        (fun a c => (cmpKeys_substKeys b.proj ks a c).symm) l).symm
    have hR : evalBlock (push b (.sort ks)) t
        = (sortRows (substKeys b.proj ks) (core b t)).map (projRow b.proj) := by
      rw [evalBlock_noRange (by exact hr)]; rfl
    rw [hR, ← hcomm]
    simp only [stepRows]
    rcases ho with ho | ho
    · rw [evalBlock_noRange hr, ho]; rfl
    · exact sortRows_eq_of_perm ks ho (by
        rw [evalBlock_noRange hr]; exact (sortOpt_perm b.order (core b t)).map _)
  | take lo hi =>
    simp only [stepRows, evalBlock, push, core]
    rw [takeRange_eq_takeR, takeRange_eq_takeR, takeRange_eq_takeR]
    exact Rel.take_compose _ _ _ _ _ hwf.start h
  | aggregate aggs =>
    obtain ⟨hg, hr, ho⟩ := h
    have hh := hwf.having hg
    rw [evalBlock_noRange hr, evalBlock_noRange (by exact hr)]
    simp only [stepRows, push, core, hg, hh, ho, sortOpt, aggStage, allHold_nil]
    rw [aggRow_substAggs, List.map_cons, List.map_nil, projRow_idProj (length_aggRow _ _)]
  | groupAgg by_ aggs =>
    obtain ⟨hg, hr, ho⟩ := h
    have hh := hwf.having hg
    rw [evalBlock_noRange hr, evalBlock_noRange (by exact hr)]
    simp only [stepRows, push, core, hg, hh, ho, sortOpt, allHold_nil]
    rw [map_projRow_idProj (n := by_.length + aggs.length)]
    · simp only [aggStage, groups_eq, groupsBy_map, List.map_map, Function.comp_def,
        aggRow_substAggs, keyOf_projRow]
    · intro r hr'
      have := length_aggStage_by _ _ _ r hr'
      simpa [substAggs] using this
  | groupTake _ _ _ _ => cases h
  | groupSort _ _ => cases h
  | window _ _ => cases h
  | join _ _ _ _ _ => cases h
  | append _ => cases h

/-- `step_push` on the reference semantics itself: one `Model.Rel.step` on a table whose rows are the block's result -/
theorem step_push_rows (resolve : Src → Table) (b : Block) (t : List Row) (tr : Tr) (T : Table)
    (hT : T.rows = evalBlock b t) (hwf : b.Wf) (h : Adm b t tr) :
    (step resolve T tr).rows = evalBlock (push b tr) t := by
  rw [step_rows resolve T tr (by cases tr <;> first | rfl | cases h), hT]
  exact step_push b t tr hwf h

/-- the invariants are kept -/
theorem push_wf (b : Block) (t : List Row) (tr : Tr) (hwf : b.Wf) (h : Adm b t tr) : (push b tr).Wf := by
  cases tr with
  | filter e =>
    cases hg : b.group with
    | none =>
      have hp : push b (.filter e) = { b with wheres := b.wheres ++ [subst b.proj e] } := by
        simp [push, hg]
      rw [hp]; exact ⟨hwf.start, hwf.having⟩
    | whole aggs =>
      have hp : push b (.filter e) = { b with havings := b.havings ++ [subst b.proj e] } := by
        simp [push, hg]
      rw [hp]; exact ⟨hwf.start, fun h' => by simp [hg] at h'⟩
    | «by» keys aggs =>
      have hp : push b (.filter e) = { b with havings := b.havings ++ [subst b.proj e] } := by
        simp [push, hg]
      rw [hp]; exact ⟨hwf.start, fun h' => by simp [hg] at h'⟩
  | derive es => exact ⟨hwf.start, hwf.having⟩
  | select es => exact ⟨hwf.start, hwf.having⟩
  | sort ks => exact ⟨hwf.start, hwf.having⟩
  | take lo hi => exact ⟨compose_start_ok _ _ _ _ hwf.start h, hwf.having⟩
  | aggregate aggs => exact ⟨hwf.start, fun h' => by simp [push] at h'⟩
  | groupAgg by_ aggs => exact ⟨hwf.start, fun h' => by simp [push] at h'⟩
  | groupTake _ _ _ _ => cases h
  | groupSort _ _ => cases h
  | window _ _ => cases h
  | join _ _ _ _ _ => cases h
  | append _ => cases h

/-! ### segments -/

/-- admissibility along a whole segment -/
def AdmSeg : Block → List Row → List Tr → Prop
  | _, _, [] => True
  | b, t, tr :: rest => Adm b t tr ∧ AdmSeg (push b tr) t rest

theorem assemble_correct_aux (resolve : Src → Table) (seg : List Tr) (b : Block) (t : List Row) (T : Table)
    (hT : T.rows = evalBlock b t) (hwf : b.Wf) (h : AdmSeg b t seg) :
    (seg.foldl (step resolve) T).rows = evalBlock (seg.foldl push b) t := by
  induction seg generalizing b T with
  | nil => exact hT
  | cons tr rest ih =>
    simp only [List.foldl_cons]
    exact ih (push b tr) _ (step_push_rows resolve b t tr T hT hwf h.1) (push_wf b t tr hwf h.1) h.2

theorem init_wf (w : Nat) : (Block.init w).Wf := ⟨fun a h => (by cases h), fun _ => rfl⟩

theorem evalBlock_init {w : Nat} {t : List Row} (hw : ∀ r ∈ t, r.length = w) :
    evalBlock (Block.init w) t = t := by
  simp only [evalBlock, Block.init, core, aggStage, sortOpt, allHold_nil, takeRange_none]
  exact map_projRow_idProj hw

/-- **assemble_correct** on the reference semantics: for every table `T` with `w` columns and every admissible
segment, the rows the pipeline denotes (`Model.Rel.step` applied transform by transform) are the rows of the
ONE assembled SELECT block evaluated in SQL clause order. -/
theorem assemble_correct (resolve : Src → Table) (w : Nat) (seg : List Tr) (T : Table)
    (hw : ∀ r ∈ T.rows, r.length = w) (h : AdmSeg (Block.init w) T.rows seg) :
    (seg.foldl (step resolve) T).rows = evalBlock (assemble w seg) T.rows :=
  assemble_correct_aux resolve seg (Block.init w) T.rows T (evalBlock_init hw).symm (init_wf w) h

/-- ORDER BY written against the select aliases: sorting the projected rows by `ks` is sorting the core
rows by `ks` with the projection inlined (so `evalBlock` may be read as projection → ORDER BY → LIMIT) -/
theorem orderBy_alias (σ : List Expr) (ks : List SortKey) (l : List Row) :
    (sortRows (substKeys σ ks) l).map (projRow σ) = sortRows ks (l.map (projRow σ)) :=
  map_sortRows (substKeys σ ks) ks (projRow σ) (fun a c => (cmpKeys_substKeys σ ks a c).symm) l

/-- the block read in the textbook order projection → ORDER BY → LIMIT, when the ORDER BY is written against
the select aliases `ks` -/
theorem evalBlock_orderBy_alias (b : Block) (t : List Row) (ks : List SortKey)
    (h : b.order = some (substKeys b.proj ks)) :
    evalBlock b t = takeRange b.range.1 b.range.2 (sortRows ks ((core b t).map (projRow b.proj))) := by
  simp only [evalBlock, h, sortOpt, orderBy_alias]

/-- the same for a whole query of the differential run: a pipeline over a source relation whose transforms
form an admissible segment denotes (`Model.Rel.evalPipe`, hence `evalSrc`) the rows of ONE SELECT block over
that source -/
theorem evalPipe_assemble (db : Db) (lets : List Table) (p : Pipe) (w : Nat)
    (hw : ∀ r ∈ (resolveSrc db lets p.src).rows, r.length = w)
    (h : AdmSeg (Block.init w) (resolveSrc db lets p.src).rows p.trs) :
    (evalPipe db lets p).rows = evalBlock (assemble w p.trs) (resolveSrc db lets p.src).rows :=
  assemble_correct (resolveSrc db lets) w p.trs _ hw h

theorem evalSrc_assemble (db : Db) (p : Pipe) (w : Nat)
    (hw : ∀ r ∈ (resolveSrc db [] p.src).rows, r.length = w)
    (h : AdmSeg (Block.init w) (resolveSrc db [] p.src).rows p.trs) :
    (evalSrc db { lets := [], main := p }).rows = evalBlock (assemble w p.trs) (resolveSrc db [] p.src).rows :=
  evalPipe_assemble db [] p w hw h

/-! ### positional freshness: a derive APPENDS columns, a key that reads existing positions does not see them -/

theorem eval_append (e : Expr) (r ext : Row) (h : ∀ i ∈ e.reads, i < r.length) :
    e.eval (r ++ ext) = e.eval r := by
  induction e with
  | col i =>
    have hi : i < r.length := h i (by simp [Expr.reads])
    simp [Expr.eval, List.getD_eq_getElem?_getD, List.getElem?_append_left hi]
  | lit v => rfl
  | bin op a b iha ihb =>
    simp only [Expr.reads, List.mem_append] at h
    simp [Expr.eval, iha (fun i hi => h i (Or.inl hi)), ihb (fun i hi => h i (Or.inr hi))]
  | neg a ih => simp [Expr.eval, ih h]
  | not a ih => simp [Expr.eval, ih h]
  | isNull a ih => simp [Expr.eval, ih h]
  | notNull a ih => simp [Expr.eval, ih h]
  | ite c t e ihc iht ihe =>
    simp only [Expr.reads, List.mem_append] at h
    simp [Expr.eval, ihc (fun i hi => h i (Or.inl (Or.inl hi))), iht (fun i hi => h i (Or.inl (Or.inr hi))),
      ihe (fun i hi => h i (Or.inr hi))]

theorem deriveRow_prefix (es : List Expr) (r : Row) : ∃ ext, deriveRow es r = r ++ ext := by
  induction es generalizing r with
  | nil => exact ⟨[], by simp [deriveRow]⟩
  | cons e es ih =>
    obtain ⟨ext, h⟩ := ih (r ++ [e.eval r])
    refine ⟨e.eval r :: ext, ?_⟩
    simp only [deriveRow, List.foldl_cons] at *
    rw [h]; simp

/-- the keys read only the first `w` positions -/
def KeysWithin (w : Nat) (ks : List SortKey) : Prop := ∀ k ∈ ks, ∀ i ∈ k.1.reads, i < w

theorem cmpKeys_deriveRow (es : List Expr) (ks : List SortKey) (a b : Row)
    (h : KeysWithin (min a.length b.length) ks) :
    cmpKeys ks (deriveRow es a) (deriveRow es b) = cmpKeys ks a b := by
  obtain ⟨xa, ha⟩ := deriveRow_prefix es a
  obtain ⟨xb, hb⟩ := deriveRow_prefix es b
  rw [ha, hb]
  induction ks with
  | nil => rfl
  | cons k rest ih =>
    obtain ⟨e, d⟩ := k
    rw [ValueOrd.cmpKeys_cons, ValueOrd.cmpKeys_cons,
      ih (fun k hk => h k (List.mem_cons_of_mem _ hk))]
    have hk := h (e, d) (List.mem_cons_self ..)
    simp only [ValueOrd.keyCmp]
    rw [eval_append e a xa (fun i hi => by have := hk i hi; omega),
      eval_append e b xb (fun i hi => by have := hk i hi; omega)]

/-- **derive keeps the order**: on rows of width `w`, a sort by keys over the existing columns commutes
with a derive -/
theorem derive_sortRows (w : Nat) (es : List Expr) (ks : List SortKey) (rows : List Row)
    (hw : ∀ r ∈ rows, r.length = w) (hk : KeysWithin w ks) :
    (sortRows ks rows).map (deriveRow es) = sortRows ks (rows.map (deriveRow es)) := by
  apply map_isortBy_on (le := leKeys ks) (le' := leKeys ks)
  intro a ha b hb
  simp only [leKeys]
  rw [cmpKeys_deriveRow es ks a b (by rw [hw a ha, hw b hb, Nat.min_self]; exact hk)]

/-! ### non-vacuity -/

/-- `filter a<5 | sort b | derive x = a+b | sort {-x} | take 2..3` on a table with two columns -/
example : AdmSeg (Block.init 2)
    [[.int 1, .int 10], [.int 2, .int 7], [.int 9, .int 3], [.int 3, .int 4]]
    [.filter (.bin .lt (.col 0) (.lit (.int 5))), .sort [(.col 1, false)],
     .derive [.bin .add (.col 0) (.col 1)], .sort [(.col 2, true)], .take (some 2) (some 3)] := by
  refine ⟨rfl, ⟨rfl, Or.inl rfl⟩, trivial, ⟨rfl, Or.inr (by decide)⟩, ?_, trivial⟩
  intro a h; cases h; decide

example : evalBlock (assemble 2
    [.filter (.bin .lt (.col 0) (.lit (.int 5))), .sort [(.col 1, false)],
     .derive [.bin .add (.col 0) (.col 1)], .sort [(.col 2, true)], .take (some 2) (some 3)])
    [[.int 1, .int 10], [.int 2, .int 7], [.int 9, .int 3], [.int 3, .int 4]]
    = [[.int 2, .int 7, .int 9], [.int 3, .int 4, .int 7]] := by decide

end Lemmas.RelBlock
