/-
The SELECT block theorem with a DROPPED sort: `sort … | aggregate` and `sort … | group (aggregate)`.
The compiler does not emit a sort that precedes an aggregate (sql/pq/postprocess.rs clears the sorting at
`Aggregate`; `push` sets `order := none`).  After `group` the reference semantics lists the groups in order
of first occurrence, SQL in any order: from there on the pipeline rows and the block rows agree AS
MULTISETS (`List.Perm`) until the next sort without ties makes them equal as lists again; a `take` is only
admissible while they are equal (this is what the `sorted`/`ambig` bookkeeping of `Model.Rel.Table` records).
`ex = true`: rows agree as lists, `ex = false`: as multisets.
Core Lean only.
-/
import PrqlModel.Lemmas.RelBlock
import PrqlModel.Lemmas.AggPerm
namespace Lemmas.RelBlock
open Model.Rel Model.Fn Lemmas.SortBy Lemmas.AggPerm

/-- agreement of the pipeline rows `l` with the block rows `m` -/
def Agree (ex : Bool) (l m : List Row) : Prop := l.Perm m ∧ (ex = true → l = m)

theorem Agree.of_eq {ex : Bool} {l m : List Row} (h : l = m) : Agree ex l m := by
  subst h; exact ⟨List.Perm.refl _, fun _ => rfl⟩

/-- admissibility with the agreement state: as `Adm`, but an aggregate may drop the sort in place when its
min/max arguments are well defined, a sort is admissible on multiset agreement when it has no ties, and a
take needs list agreement -/
def AdmP (ex : Bool) (b : Block) (t : List Row) : Tr → Prop
  | .filter _ => b.range = (none, none)
  | .derive _ => True
  | .select _ => True
  | .sort ks => b.range = (none, none) ∧ ((ex = true ∧ b.order = none) ∨ hasTies ks (evalBlock b t) = false)
  | .take lo _ => ex = true ∧ ∀ a, lo = some a → 1 ≤ a
  | .aggregate aggs => ex = true ∧ b.group = .none ∧ b.range = (none, none) ∧
      (b.order = none ∨ AggOk aggs (evalBlock b t))
  | .groupAgg _ aggs => ex = true ∧ b.group = .none ∧ b.range = (none, none) ∧
      (b.order = none ∨ AggOk aggs (evalBlock b t))
  | _ => False

/-- the agreement state after the transform -/
def nextEx (ex : Bool) (b : Block) : Tr → Bool
  | .sort _ => true
  | .groupAgg _ _ => b.order.isNone
  | _ => ex

theorem groupAgg_eq_groupRows (by_ : List Nat) (aggs : List Agg) (l : List Row) :
    stepRows (.groupAgg by_ aggs) l = groupRows (keyOf by_) aggs l := by
  simp [stepRows, groups, groupRows, List.map_map, Function.comp_def]

theorem push_agg_order (b : Block) (aggs : List Agg) :
    push { b with order := none } (.aggregate aggs) = push b (.aggregate aggs) := rfl

theorem push_groupAgg_order (b : Block) (by_ : List Nat) (aggs : List Agg) :
    push { b with order := none } (.groupAgg by_ aggs) = push b (.groupAgg by_ aggs) := rfl

/-- without the ORDER BY the block has the same rows as a multiset -/
theorem evalBlock_dropOrder_perm (b : Block) (t : List Row) (hr : b.range = (none, none)) :
    (evalBlock b t).Perm (evalBlock { b with order := none } t) := by
  rw [evalBlock_noRange hr, evalBlock_noRange (b := { b with order := none }) hr]
  exact (sortOpt_perm b.order (core b t)).map _

theorem step_pushP (ex : Bool) (b : Block) (t : List Row) (tr : Tr) (l : List Row)
    (hl : Agree ex l (evalBlock b t)) (hwf : b.Wf) (h : AdmP ex b t tr) :
    Agree (nextEx ex b tr) (stepRows tr l) (evalBlock (push b tr) t) := by
  obtain ⟨hperm, heq⟩ := hl
  cases tr with
  | filter e =>
    have := step_push b t (.filter e) hwf h
    rw [← this]
    exact ⟨hperm.filter _, fun hex => by rw [heq hex]⟩
  | derive es =>
    have := step_push b t (.derive es) hwf trivial
    rw [← this]
    exact ⟨hperm.map _, fun hex => by rw [heq hex]⟩
  | select es =>
    have := step_push b t (.select es) hwf trivial
    rw [← this]
    exact ⟨hperm.map _, fun hex => by rw [heq hex]⟩
  | sort ks =>
    obtain ⟨hr, ho⟩ := h
    apply Agree.of_eq
    rcases ho with ⟨hex, ho⟩ | ho
    · rw [heq hex]; exact step_push b t (.sort ks) hwf ⟨hr, Or.inl ho⟩
    · rw [← step_push b t (.sort ks) hwf ⟨hr, Or.inr ho⟩]
      simp only [stepRows]
      exact (sortRows_eq_of_perm ks ho hperm.symm).symm
  | take lo hi =>
    obtain ⟨hex, hlo⟩ := h
    apply Agree.of_eq
    rw [heq hex]; exact step_push b t (.take lo hi) hwf hlo
  | aggregate aggs =>
    obtain ⟨hex, hg, hr, ho⟩ := h
    apply Agree.of_eq
    rw [heq hex]
    rcases ho with ho | hok
    · exact step_push b t (.aggregate aggs) hwf ⟨hg, hr, ho⟩
    · rw [← push_agg_order, ← step_push { b with order := none } t (.aggregate aggs)
        ⟨hwf.start, hwf.having⟩ ⟨hg, hr, rfl⟩]
      simp only [stepRows]
      rw [aggRow_perm aggs (evalBlock_dropOrder_perm b t hr) hok]
  | groupAgg by_ aggs =>
    obtain ⟨hex, hg, hr, ho⟩ := h
    rw [heq hex]
    rcases ho with ho | hok
    · exact Agree.of_eq (step_push b t (.groupAgg by_ aggs) hwf ⟨hg, hr, ho⟩)
    · rw [← push_groupAgg_order, ← step_push { b with order := none } t (.groupAgg by_ aggs)
        ⟨hwf.start, hwf.having⟩ ⟨hg, hr, rfl⟩]
      rw [groupAgg_eq_groupRows, groupAgg_eq_groupRows]
      refine ⟨groupRows_perm _ aggs (evalBlock_dropOrder_perm b t hr) hok, ?_⟩
      intro hn
      -- list agreement is claimed only when there was no sort to drop
      simp only [nextEx, Option.isNone_iff_eq_none] at hn
      have : ({ b with order := none } : Block) = b := by cases b; simp_all
      rw [this]
  | groupTake _ _ _ _ => cases h
  | groupSort _ _ => cases h
  | window _ _ => cases h
  | join _ _ _ _ _ => cases h
  | append _ => cases h

theorem push_wfP (ex : Bool) (b : Block) (t : List Row) (tr : Tr) (hwf : b.Wf) (h : AdmP ex b t tr) :
    (push b tr).Wf := by
  cases tr with
  | filter e => exact push_wf b t (.filter e) hwf h
  | derive es => exact ⟨hwf.start, hwf.having⟩
  | select es => exact ⟨hwf.start, hwf.having⟩
  | sort ks => exact ⟨hwf.start, hwf.having⟩
  | take lo hi => exact push_wf b t (.take lo hi) hwf h.2
  | aggregate aggs => exact ⟨hwf.start, fun h' => by simp [push] at h'⟩
  | groupAgg by_ aggs => exact ⟨hwf.start, fun h' => by simp [push] at h'⟩
  | groupTake _ _ _ _ => cases h
  | groupSort _ _ => cases h
  | window _ _ => cases h
  | join _ _ _ _ _ => cases h
  | append _ => cases h

def AdmSegP : Bool → Block → List Row → List Tr → Prop
  | _, _, _, [] => True
  | ex, b, t, tr :: rest => AdmP ex b t tr ∧ AdmSegP (nextEx ex b tr) (push b tr) t rest

/-- the agreement state at the end of the segment -/
def finalEx : Bool → Block → List Tr → Bool
  | ex, _, [] => ex
  | ex, b, tr :: rest => finalEx (nextEx ex b tr) (push b tr) rest

theorem assemble_correctP_aux (resolve : Src → Table) (seg : List Tr) (ex : Bool) (b : Block) (t : List Row)
    (T : Table) (hT : Agree ex T.rows (evalBlock b t)) (hwf : b.Wf) (h : AdmSegP ex b t seg) :
    Agree (finalEx ex b seg) (seg.foldl (step resolve) T).rows (evalBlock (seg.foldl push b) t) := by
  induction seg generalizing ex b T with
  | nil => exact hT
  | cons tr rest ih =>
    simp only [List.foldl_cons, finalEx]
    apply ih _ (push b tr) _ _ (push_wfP ex b t tr hwf h.1) h.2
    rw [step_rows resolve T tr (by cases tr <;> first | rfl | cases h.1)]
    exact step_pushP ex b t tr T.rows hT hwf h.1

/-- **assemble_correct with dropped sorts**: the rows the pipeline denotes and the rows of the assembled block
agree as multisets, and as lists whenever the segment does not end in the unspecified order left by a
`group` that dropped a sort. -/
theorem assemble_correct_perm (resolve : Src → Table) (w : Nat) (seg : List Tr) (T : Table)
    (hw : ∀ r ∈ T.rows, r.length = w) (h : AdmSegP true (Block.init w) T.rows seg) :
    (seg.foldl (step resolve) T).rows.Perm (evalBlock (assemble w seg) T.rows) ∧
    (finalEx true (Block.init w) seg = true →
      (seg.foldl (step resolve) T).rows = evalBlock (assemble w seg) T.rows) :=
  assemble_correctP_aux resolve seg true (Block.init w) T.rows T
    (Agree.of_eq (evalBlock_init hw).symm) (init_wf w) h

/-- every segment admissible in the strict sense is admissible here, with list agreement throughout -/
theorem adm_admP {b : Block} {t : List Row} {tr : Tr} (h : Adm b t tr) : AdmP true b t tr := by
  cases tr with
  | filter e => exact h
  | derive es => trivial
  | select es => trivial
  | sort ks => exact ⟨h.1, h.2.elim (fun ho => Or.inl ⟨rfl, ho⟩) Or.inr⟩
  | take lo hi => exact ⟨rfl, h⟩
  | aggregate aggs => exact ⟨rfl, h.1, h.2.1, Or.inl h.2.2⟩
  | groupAgg by_ aggs => exact ⟨rfl, h.1, h.2.1, Or.inl h.2.2⟩
  | groupTake _ _ _ _ => cases h
  | groupSort _ _ => cases h
  | window _ _ => cases h
  | join _ _ _ _ _ => cases h
  | append _ => cases h

/-! ### non-vacuity -/

/-- `filter a<5 | sort {-b} | group {c} (aggregate {sum a, min b}) | filter sum>1 | sort {c} | take 1..1`:
the sort before the group is dropped, the HAVING filter sits between, the last sort restores list agreement -/
example : AdmSegP true (Block.init 3)
    [[.int 1, .int 10, .str ['x']], [.int 2, .int 7, .str ['y']], [.int 9, .int 3, .str ['x']],
     [.int 3, .int 4, .str ['x']], [.int 4, .null, .str ['y']]]
    [.filter (.bin .lt (.col 0) (.lit (.int 5))), .sort [(.col 1, true)],
     .groupAgg [2] [(.sum, .col 0), (.min, .col 1)], .filter (.bin .gt (.col 1) (.lit (.int 1))),
     .sort [(.col 0, false)], .take (some 1) (some 1)] := by
  refine ⟨rfl, ⟨rfl, Or.inl ⟨rfl, rfl⟩⟩, ⟨rfl, rfl, rfl, Or.inr ?_⟩, rfl, ⟨rfl, Or.inr (by decide)⟩,
    ⟨rfl, ?_⟩, trivial⟩
  · intro a ha hm
    simp only [List.mem_cons, List.not_mem_nil, or_false] at ha
    rcases ha with rfl | rfl
    · simp at hm
    · intro x hx y hy; revert x y; decide
  · intro a h; cases h; decide

example : finalEx true (Block.init 3)
    [.filter (.bin .lt (.col 0) (.lit (.int 5))), .sort [(.col 1, true)],
     .groupAgg [2] [(.sum, .col 0), (.min, .col 1)], .filter (.bin .gt (.col 1) (.lit (.int 1))),
     .sort [(.col 0, false)], .take (some 1) (some 1)] = true := by decide

end Lemmas.RelBlock
