/-
The ORDER conditions of `Adm` are exactly what the split table gives: a segment in which no transform is
followed by one it must be split from (`Model.Split.mustSplit`, proved for the scan of `anchor.rs` in
Props/C01 `split_respects_clause_order`) satisfies the structural part of `Adm` at every step.
What remains of `Adm` (`DataAdm`) are the conditions on the data: take bounds ≥ 1, no ties for a sort that
replaces a sort, no sort dropped by an aggregate (or `AggOk`, see RelBlockPerm).
Core Lean only.
-/
import PrqlModel.Lemmas.RelBlock
import PrqlModel.Model.Split
namespace Lemmas.RelBlock
open Model.Rel Model.Fn Gen.Split Model.Split

/-- the kind of SQL transform a pipeline transform is lowered to (`select` with computed items: Compute) -/
def kindOf : Tr → Kind
  | .filter _ => .Filter
  | .derive _ => .Compute
  | .select _ => .Compute
  | .sort _ => .Sort
  | .take _ _ => .Take
  | .aggregate _ => .Aggregate
  | .groupAgg _ _ => .Aggregate
  | _ => .Loop

/-- the structural part of `Adm`: which clauses of the block are already occupied -/
def StructAdm (b : Block) : Tr → Prop
  | .filter _ => b.range = (none, none)
  | .sort _ => b.range = (none, none)
  | .aggregate _ => b.group = .none ∧ b.range = (none, none)
  | .groupAgg _ _ => b.group = .none ∧ b.range = (none, none)
  | .derive _ => True
  | .select _ => True
  | .take _ _ => True
  | _ => False

/-- the part of `Adm` that depends on the data / on a sort being in place -/
def DataAdm (b : Block) (t : List Row) : Tr → Prop
  | .sort ks => b.order = none ∨ hasTies ks (evalBlock b t) = false
  | .take lo _ => ∀ a, lo = some a → 1 ≤ a
  | .aggregate _ => b.order = none
  | .groupAgg _ _ => b.order = none
  | _ => True

theorem adm_iff (b : Block) (t : List Row) (tr : Tr) : Adm b t tr ↔ StructAdm b tr ∧ DataAdm b t tr := by
  cases tr <;> simp [Adm, StructAdm, DataAdm, and_assoc]

/-- no transform of the segment is followed by one it must be split from (the weakest reading: with an
aggregate following, which only relaxes Compute → Filter) -/
def NoSplit (seg : List Tr) : Prop :=
  seg.Pairwise fun a b => mustSplit (kindOf a) (kindOf b) true = false

def StructAdmSeg : Block → List Tr → Prop
  | _, [] => True
  | b, tr :: rest => StructAdm b tr ∧ StructAdmSeg (push b tr) rest

theorem push_range {b : Block} {tr : Tr} (h : (push b tr).range ≠ (none, none)) :
    b.range ≠ (none, none) ∨ kindOf tr = .Take := by
  cases tr with
  | take lo hi => exact Or.inr rfl
  | filter e =>
    left
    cases hg : b.group <;> simpa [push, hg] using h
  | _ => exact Or.inl h

theorem push_group {b : Block} {tr : Tr} (h : (push b tr).group ≠ .none) :
    b.group ≠ .none ∨ kindOf tr = .Aggregate := by
  cases tr with
  | aggregate aggs => exact Or.inr rfl
  | groupAgg by_ aggs => exact Or.inr rfl
  | filter e =>
    left
    cases hg : b.group <;> simp [push, hg] at h ⊢
  | _ => exact Or.inl h

theorem structAdm_aux (seg : List Tr) (b : Block) (hs : ∀ tr ∈ seg, supported tr = true) (h : NoSplit seg)
    (hr : b.range ≠ (none, none) →
      ∀ x ∈ seg, kindOf x ≠ .Filter ∧ kindOf x ≠ .Sort ∧ kindOf x ≠ .Aggregate)
    (hg : b.group ≠ .none → ∀ x ∈ seg, kindOf x ≠ .Aggregate) : StructAdmSeg b seg := by
  induction seg generalizing b with
  | nil => trivial
  | cons tr rest ih =>
    have hp := List.pairwise_cons.mp h
    have hr0 : kindOf tr = .Filter ∨ kindOf tr = .Sort ∨ kindOf tr = .Aggregate → b.range = (none, none) := by
      intro hk
      by_cases hb : b.range = (none, none)
      · exact hb
      · have := hr hb tr (List.mem_cons_self ..)
        rcases hk with hk | hk | hk <;> simp [hk] at this
    have hg0 : kindOf tr = .Aggregate → b.group = .none := by
      intro hk
      cases hb : b.group with
      | none => rfl
      | whole _ => exact absurd hk (hg (by simp [hb]) tr (List.mem_cons_self ..))
      | «by» _ _ => exact absurd hk (hg (by simp [hb]) tr (List.mem_cons_self ..))
    refine ⟨?_, ih (push b tr) (fun x hx => hs x (List.mem_cons_of_mem _ hx)) hp.2 ?_ ?_⟩
    · have hsup := hs tr (List.mem_cons_self ..)
      cases tr with
      | filter e => exact hr0 (Or.inl rfl)
      | sort ks => exact hr0 (Or.inr (Or.inl rfl))
      | aggregate aggs => exact ⟨hg0 rfl, hr0 (Or.inr (Or.inr rfl))⟩
      | groupAgg by_ aggs => exact ⟨hg0 rfl, hr0 (Or.inr (Or.inr rfl))⟩
      | derive es => trivial
      | select es => trivial
      | take lo hi => trivial
      | groupTake _ _ _ _ => cases hsup
      | groupSort _ _ => cases hsup
      | window _ _ => cases hsup
      | join _ _ _ _ _ => cases hsup
      | append _ => cases hsup
    · intro hne x hx
      rcases push_range hne with hb | hk
      · exact hr hb x (List.mem_cons_of_mem _ hx)
      · have := hp.1 x hx
        rw [hk] at this
        refine ⟨?_, ?_, ?_⟩ <;> (intro hkx; rw [hkx] at this; cases this)
    · intro hne x hx
      rcases push_group hne with hb | hk
      · exact hg hb x (List.mem_cons_of_mem _ hx)
      · have := hp.1 x hx
        rw [hk] at this
        intro hkx; rw [hkx] at this; cases this

/-- **the split table gives the structural admissibility**: in a segment of supported transforms without a
pair that must be split, every transform finds the clauses it needs still free -/
theorem structAdm_of_noSplit (w : Nat) (seg : List Tr) (hs : ∀ tr ∈ seg, supported tr = true)
    (h : NoSplit seg) : StructAdmSeg (Block.init w) seg :=
  structAdm_aux seg (Block.init w) hs h (fun hne => absurd rfl hne) (fun hne => absurd rfl hne)

/-- segment admissibility = structural admissibility (from the split table) + the data conditions -/
def DataAdmSeg : Block → List Row → List Tr → Prop
  | _, _, [] => True
  | b, t, tr :: rest => DataAdm b t tr ∧ DataAdmSeg (push b tr) t rest

theorem admSeg_iff (b : Block) (t : List Row) (seg : List Tr) :
    AdmSeg b t seg ↔ StructAdmSeg b seg ∧ DataAdmSeg b t seg := by
  induction seg generalizing b with
  | nil => simp [AdmSeg, StructAdmSeg, DataAdmSeg]
  | cons tr rest ih =>
    simp only [AdmSeg, StructAdmSeg, DataAdmSeg, adm_iff, ih]
    constructor
    · rintro ⟨⟨a, b⟩, c, d⟩; exact ⟨⟨a, c⟩, b, d⟩
    · rintro ⟨⟨a, c⟩, b, d⟩; exact ⟨⟨a, b⟩, c, d⟩

/-- `assemble_correct` with the split table as the hypothesis on the shape of the segment -/
theorem assemble_correct_of_noSplit (resolve : Src → Table) (w : Nat) (seg : List Tr) (T : Table)
    (hw : ∀ r ∈ T.rows, r.length = w) (hs : ∀ tr ∈ seg, supported tr = true) (hns : NoSplit seg)
    (hd : DataAdmSeg (Block.init w) T.rows seg) :
    (seg.foldl (step resolve) T).rows = evalBlock (assemble w seg) T.rows :=
  assemble_correct resolve w seg T hw ((admSeg_iff _ _ _).mpr ⟨structAdm_of_noSplit w seg hs hns, hd⟩)

example : NoSplit [.filter (.col 0), .derive [.col 0], .sort [(.col 1, false)], .groupAgg [0] [(.sum, .col 1)],
    .filter (.col 1), .sort [(.col 0, true)], .take none (some 3), .take (some 2) none] := by
  simp [NoSplit, kindOf, mustSplit]

/-- a take followed by a filter is NOT such a segment -/
example : ¬ NoSplit [.take none (some 3), .filter (.col 0)] := by
  simp [NoSplit, kindOf, mustSplit]

end Lemmas.RelBlock
