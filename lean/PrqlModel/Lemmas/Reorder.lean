/-
Lemmas about the mirror of `preprocess::reorder` (Model/Reorder.lean): what a move looks like (`bubbleRev_spec`) and
that moving a row-wise compute over sorts and takes does not change the rows of the reference semantics
(`reorder_step_rows`), with the counterexample for computes that are not row-wise.
-/
import PrqlModel.Model.Reorder
import PrqlModel.Lemmas.RelBlock
namespace Lemmas.Reorder
open Model.Reorder Model.Rel Lemmas.RelBlock Lemmas.SortBy

/-! ### structure of the pass -/

/-- moving a compute: the processed part splits into the transforms it passes (all movable, still in their order, now
behind it) and the rest -/
theorem bubbleRev_spec {α} (cls : α → Cls) (plain : Bool) (c : α) (acc : List α) :
    ∃ moved rest, acc = moved ++ rest ∧ bubbleRev cls plain c acc = moved ++ c :: rest ∧
      (∀ x ∈ moved, movable plain (cls x) = true) ∧ (acc ≠ [] → rest ≠ []) := by
  induction acc with
  | nil => exact ⟨[], [], by simp [bubbleRev]⟩
  | cons x rest ih =>
    cases rest with
    | nil => exact ⟨[], [x], by simp [bubbleRev]⟩
    | cons y ys =>
      by_cases hm : movable plain (cls x) = true
      · obtain ⟨mv, rs, h1, h2, h3, h4⟩ := ih
        refine ⟨x :: mv, rs, by simp [h1], ?_, ?_, ?_⟩
        · simp only [bubbleRev, hm, if_true, h2, List.cons_append]
        · intro z hz
          rcases List.mem_cons.1 hz with rfl | hz
          · exact hm
          · exact h3 z hz
        · intro _; exact h4 (by simp)
      · refine ⟨[], x :: y :: ys, by simp, ?_, by simp, by simp⟩
        simp only [bubbleRev, hm, Bool.false_eq_true, if_false, List.nil_append]


/-! ### the moves do not change the rows (reference semantics of Model.Rel) -/

/-- rows-level transforms: derive / sort / take with the meaning Model.Rel gives them, anything else as a function -/
inductive RT where
  | derive (es : List Expr)
  | sort (ks : List SortKey)
  | take (lo hi : Option Nat)
  | fixed (f : List Row → List Row)

def RT.eval : RT → List Row → List Row
  | .derive es, rows => rows.map (deriveRow es)
  | .sort ks, rows => sortRows ks rows
  | .take lo hi, rows => takeRange lo hi rows
  | .fixed f, rows => f rows

def evalR (p : List RT) (rows : List Row) : List Row := p.foldl (fun r t => t.eval r) rows

def clsRT : RT → Cls
  | .derive _ => .compute true
  | .sort _ => .sort
  | .take _ _ => .take
  | .fixed _ => .fixed

/-- these are the row functions of the reference semantics -/
theorem eval_is_rel_step (resolve : Src → Table) (t : Table) (es : List Expr) (ks : List SortKey) (lo hi : Option Nat) :
    (step resolve t (.derive es)).rows = (RT.derive es).eval t.rows ∧
    (step resolve t (.sort ks)).rows = (RT.sort ks).eval t.rows ∧
    (step resolve t (.take lo hi)).rows = (RT.take lo hi).eval t.rows := ⟨rfl, rfl, rfl⟩

theorem map_takeRange {α β} (f : α → β) (lo hi : Option Nat) (l : List α) :
    (takeRange lo hi l).map f = takeRange lo hi (l.map f) := by
  unfold takeRange
  cases hi <;> simp [List.map_drop, List.map_take]

theorem mem_takeRange {α} (lo hi : Option Nat) (l : List α) (x : α) (h : x ∈ takeRange lo hi l) : x ∈ l := by
  unfold takeRange at h
  cases hi with
  | none => exact List.mem_of_mem_drop h
  | some e => exact List.mem_of_mem_drop (List.mem_of_mem_take h)

/-- a transform the pass may move a plain compute over, on rows of width `w` -/
def MovableOn (w : Nat) : RT → Prop
  | .sort ks => KeysWithin w ks
  | .take _ _ => True
  | _ => False

theorem movable_keeps_width (w : Nat) (s : RT) (hs : MovableOn w s) (rows : List Row)
    (hw : ∀ r ∈ rows, r.length = w) : ∀ r ∈ s.eval rows, r.length = w := by
  intro r hr
  cases s with
  | sort ks => exact hw r ((sortRows_perm ks rows).mem_iff.1 hr)
  | take lo hi => exact hw r (mem_takeRange lo hi rows r hr)
  | derive es => exact absurd hs (by simp [MovableOn])
  | fixed f => exact absurd hs (by simp [MovableOn])

/-- one adjacent swap: a derive after a sort / take = the derive before it -/
theorem swap_rows (w : Nat) (s : RT) (hs : MovableOn w s) (es : List Expr) (rows : List Row)
    (hw : ∀ r ∈ rows, r.length = w) :
    (RT.derive es).eval (s.eval rows) = s.eval ((RT.derive es).eval rows) := by
  cases s with
  | sort ks => exact derive_sortRows w es ks rows hw hs
  | take lo hi => exact map_takeRange _ lo hi rows
  | derive es' => exact absurd hs (by simp [MovableOn])
  | fixed f => exact absurd hs (by simp [MovableOn])

/-- a derive that is moved over a run of sorts / takes: same rows -/
theorem bubble_rows (w : Nat) (mv : List RT) (hmv : ∀ s ∈ mv, MovableOn w s) (es : List Expr) (rows : List Row)
    (hw : ∀ r ∈ rows, r.length = w) :
    evalR (mv ++ [.derive es]) rows = evalR (.derive es :: mv) rows := by
  induction mv generalizing rows with
  | nil => rfl
  | cons s rest ih =>
    have hs := hmv s (by simp)
    have hrest : ∀ x ∈ rest, MovableOn w x := fun x hx => hmv x (List.mem_cons_of_mem _ hx)
    simp only [evalR, List.cons_append, List.foldl_cons] at ih ⊢
    rw [ih hrest (s.eval rows) (movable_keeps_width w s hs rows hw)]
    rw [swap_rows w s hs es rows hw]

/-- **one step of the pass keeps the rows**: with `front` evaluated to rows of width `w`, moving the derive over
the sorts / takes directly in front of it gives the same result, whatever follows -/
theorem reorder_step_rows (w : Nat) (front mv after : List RT) (es : List Expr) (rows : List Row)
    (hmv : ∀ s ∈ mv, MovableOn w s) (hw : ∀ r ∈ evalR front rows, r.length = w) :
    evalR (front ++ mv ++ [.derive es] ++ after) rows = evalR (front ++ [.derive es] ++ mv ++ after) rows := by
  have h := bubble_rows w mv hmv es (evalR front rows) hw
  simp only [evalR, List.foldl_append, List.foldl_cons, List.foldl_nil] at h ⊢
  rw [h]

/-- what is movable for the pass is movable for the semantics, as far as the kind goes -/
theorem movable_kind (s : RT) (h : movable true (clsRT s) = true) : (∃ ks, s = .sort ks) ∨ (∃ lo hi, s = .take lo hi) := by
  cases s <;> simp_all [clsRT, movable]

/-- a compute that is NOT row-wise (a window function: here the column total appended to every row) does not commute
with a take - which is why the pass moves only plain computes over a Take -/
theorem windowed_over_take_counterexample :
    let total : List Row → List Row := fun rows =>
      rows.map (· ++ [Value.int (rows.foldl (fun a r => a + (match r.getD 0 .null with | .int n => n | _ => 0)) 0)])
    evalR [.take none (some 2), .fixed total] [[.int 1], [.int 2], [.int 3]] ≠
    evalR [.fixed total, .take none (some 2)] [[.int 1], [.int 2], [.int 3]] := by decide

end Lemmas.Reorder
