/- Helper lemmas about `Model.Rq.wfRq` (used by Props/C16.lean). -/
import PrqlModel.Model.Rq
namespace Model.Rq

theorem firstDup_none (l : List Nat) : firstDup l = none ↔ l.Nodup := by
  induction l with
  | nil => simp [firstDup]
  | cons x xs ih =>
    simp only [firstDup, List.nodup_cons]
    by_cases h : x ∈ xs <;> simp [h, ih]

theorem firstMissing_none (vis cs : List Nat) : firstMissing vis cs = none ↔ ∀ c ∈ cs, c ∈ vis := by
  simp [firstMissing, List.find?_eq_none]

theorem firstMissing_some {vis cs : List Nat} {c : Nat} (h : firstMissing vis cs = some c) : c ∈ cs ∧ c ∉ vis := by
  unfold firstMissing at h
  have h1 := List.mem_of_find?_eq_some h
  have h2 := List.find?_some h
  simp at h2
  exact ⟨h1, h2⟩

theorem need_ok (vis cs : List CId) : need vis cs = .ok () ↔ ∀ c ∈ cs, c ∈ vis := by
  unfold need
  cases h : firstMissing vis cs with
  | none => simpa using (firstMissing_none vis cs).mp h
  | some c =>
    have := firstMissing_some h
    simp only [reduceCtorEq, false_iff]
    intro hall; exact this.2 (hall c this.1)

theorem need_ok' {vis cs : List CId} {u : Unit} (h : need vis cs = .ok u) : ∀ c ∈ cs, c ∈ vis :=
  (need_ok vis cs).mp h

theorem needTids_ok (d ts : List TId) : needTids d ts = .ok () ↔ ∀ c ∈ ts, c ∈ d := by
  unfold needTids
  cases h : firstMissing d ts with
  | none => simpa using (firstMissing_none d ts).mp h
  | some c =>
    have := firstMissing_some h
    simp only [reduceCtorEq, false_iff]
    intro hall; exact this.2 (hall c this.1)

theorem need_mono {vis vis' cs : List CId} (h : need vis cs = .ok ()) (hs : ∀ c ∈ vis, c ∈ vis') : need vis' cs = .ok () :=
  (need_ok vis' cs).mpr fun c hc => hs c ((need_ok vis cs).mp h c hc)

theorem need_append (vis a b : List CId) : need vis (a ++ b) = .ok () ↔ need vis a = .ok () ∧ need vis b = .ok () := by
  simp only [need_ok, List.mem_append]
  constructor
  · intro h; exact ⟨fun c hc => h c (Or.inl hc), fun c hc => h c (Or.inr hc)⟩
  · rintro ⟨h1, h2⟩ c (hc | hc)
    · exact h1 c hc
    · exact h2 c hc

/-! ### sequences of transforms -/

theorem scopeL_append (v : List CId) (a b : List Transform) :
    scopeL v (a ++ b) = match scopeL v a with
      | .ok v' => scopeL v' b
      | .error e => .error e := by
  induction a generalizing v with
  | nil => simp [scopeL]
  | cons t ts ih =>
    simp only [List.cons_append, scopeL]
    cases scopeStep v t with
    | error e => rfl
    | ok v1 => exact ih v1

theorem scopeL_snoc {v v1 : List CId} {a : List Transform} (t : Transform) (h : scopeL v a = .ok v1) :
    scopeL v (a ++ [t]) = scopeStep v1 t := by
  rw [scopeL_append, h]
  simp only [scopeL]
  cases scopeStep v1 t <;> rfl

theorem defsL_append (a b : List Transform) : defsL (a ++ b) = defsL a ++ defsL b := by
  induction a with
  | nil => simp [defsL]
  | cons t ts ih => simp [defsL, ih]

theorem tidsL_append (a b : List Transform) : tidsL (a ++ b) = tidsL a ++ tidsL b := by
  induction a with
  | nil => simp [tidsL]
  | cons t ts ih => simp [tidsL, ih]

theorem usesL_append (a b : List Transform) : usesL (a ++ b) = usesL a ++ usesL b := by
  induction a with
  | nil => simp [usesL]
  | cons t ts ih => simp [usesL, ih]

theorem checkLast_snoc_select (n : Nat) (ts : List Transform) (cs : List CId) :
    checkLast n (ts ++ [.select cs]) = if cs.length = n then .ok () else .error (.selectArity cs.length n) := by
  induction ts with
  | nil => simp [checkLast]
  | cons t ts ih =>
    cases ts with
    | nil => simp [checkLast]
    | cons t2 ts2 => simpa [checkLast] using ih

/-- the last transform of an accepted pipeline -/
theorem checkLast_ok {n : Nat} {ts : List Transform} (h : checkLast n ts = .ok ()) :
    ∃ pre cs, ts = pre ++ [.select cs] ∧ cs.length = n := by
  induction ts with
  | nil => simp [checkLast] at h
  | cons t ts ih =>
    cases ts with
    | nil =>
      cases t <;> simp [checkLast] at h
      next cs => exact ⟨[], cs, rfl, h⟩
    | cons t2 ts2 =>
      simp only [checkLast] at h
      obtain ⟨pre, cs, e, hl⟩ := ih h
      exact ⟨t :: pre, cs, by simp [e], hl⟩


/-! ### scope soundness: whatever is used or visible was provided by the scope or defined by the transforms -/

mutual
theorem scopeStep_sound : ∀ (t : Transform) (vis v : List CId), scopeStep vis t = .ok v →
    (∀ c ∈ t.uses, c ∈ vis ∨ c ∈ t.defs) ∧ (∀ c ∈ v, c ∈ vis ∨ c ∈ t.defs)
  | .from_ _, vis, v, h => by simp [scopeStep] at h
  | .compute c, vis, v, h => by
    simp only [scopeStep] at h
    cases hn : need vis c.uses with
    | error e => simp [hn] at h
    | ok u =>
      simp only [hn, Except.ok.injEq] at h
      subst h
      refine ⟨fun x hx => Or.inl (need_ok' hn x hx), fun x hx => ?_⟩
      simp only [List.mem_append, List.mem_singleton] at hx
      rcases hx with hx | hx
      · exact Or.inl hx
      · right; simp [Transform.defs, hx]
  | .select cs, vis, v, h => by
    simp only [scopeStep] at h
    cases hn : need vis cs with
    | error e => simp [hn] at h
    | ok u =>
      simp only [hn, Except.ok.injEq] at h
      subst h
      exact ⟨fun x hx => Or.inl (need_ok' hn x hx), fun x hx => Or.inl (need_ok' hn x hx)⟩
  | .filter e, vis, v, h => by
    simp only [scopeStep] at h
    cases hn : need vis e.cids with
    | error e => simp [hn] at h
    | ok u =>
      simp only [hn, Except.ok.injEq] at h
      subst h
      exact ⟨fun x hx => Or.inl (need_ok' hn x hx), fun x hx => Or.inl hx⟩
  | .aggregate p c, vis, v, h => by
    simp only [scopeStep] at h
    cases hn : need vis (p ++ c) with
    | error e => simp [hn] at h
    | ok u =>
      simp only [hn, Except.ok.injEq] at h
      subst h
      exact ⟨fun x hx => Or.inl (need_ok' hn x hx), fun x hx => Or.inl (need_ok' hn x hx)⟩
  | .sort s, vis, v, h => by
    simp only [scopeStep] at h
    cases hn : need vis (s.map (·.column)) with
    | error e => simp [hn] at h
    | ok u =>
      simp only [hn, Except.ok.injEq] at h
      subst h
      exact ⟨fun x hx => Or.inl (need_ok' hn x hx), fun x hx => Or.inl hx⟩
  | .take t, vis, v, h => by
    simp only [scopeStep] at h
    cases hn : need vis t.uses with
    | error e => simp [hn] at h
    | ok u =>
      simp only [hn, Except.ok.injEq] at h
      subst h
      exact ⟨fun x hx => Or.inl (need_ok' hn x hx), fun x hx => Or.inl hx⟩
  | .join _ w f, vis, v, h => by
    simp only [scopeStep] at h
    cases hn : need (vis ++ w.cids) f.cids with
    | error e => simp [hn] at h
    | ok u =>
      simp only [hn, Except.ok.injEq] at h
      subst h
      refine ⟨fun x hx => ?_, fun x hx => ?_⟩
      · have := need_ok' hn x hx
        simpa [Transform.defs] using this
      · simpa [Transform.defs] using hx
  | .append _, vis, v, h => by
    simp only [scopeStep, Except.ok.injEq] at h
    subst h
    exact ⟨fun x hx => by simp [Transform.uses] at hx, fun x hx => Or.inl hx⟩
  | .loop body, vis, v, h => by
    simp only [scopeStep] at h
    cases hb : scopeL vis body with
    | error e => simp [hb] at h
    | ok vb =>
      simp only [hb, Except.ok.injEq] at h
      subst h
      exact ⟨fun x hx => (scopeL_sound body vis vb hb).1 x hx, fun x hx => Or.inl hx⟩
theorem scopeL_sound : ∀ (ts : List Transform) (vis v : List CId), scopeL vis ts = .ok v →
    (∀ c ∈ usesL ts, c ∈ vis ∨ c ∈ defsL ts) ∧ (∀ c ∈ v, c ∈ vis ∨ c ∈ defsL ts)
  | [], vis, v, h => by
    simp only [scopeL, Except.ok.injEq] at h
    subst h
    exact ⟨fun x hx => by simp [usesL] at hx, fun x hx => Or.inl hx⟩
  | t :: ts, vis, v, h => by
    simp only [scopeL] at h
    cases h1 : scopeStep vis t with
    | error e => simp [h1] at h
    | ok v1 =>
      simp only [h1] at h
      have a := scopeStep_sound t vis v1 h1
      have b := scopeL_sound ts v1 v h
      simp only [usesL, defsL, List.mem_append]
      refine ⟨fun x hx => ?_, fun x hx => ?_⟩
      · rcases hx with hx | hx
        · rcases a.1 x hx with q | q
          · exact Or.inl q
          · exact Or.inr (Or.inl q)
        · rcases b.1 x hx with q | q
          · rcases a.2 x q with q | q
            · exact Or.inl q
            · exact Or.inr (Or.inl q)
          · exact Or.inr (Or.inr q)
      · rcases b.2 x hx with q | q
        · rcases a.2 x q with q | q
          · exact Or.inl q
          · exact Or.inr (Or.inl q)
        · exact Or.inr (Or.inr q)
end

/-- in an accepted pipeline every used cid is defined in that pipeline -/
theorem checkPipeline_uses_defined {n : Nat} {ts : List Transform} (h : checkPipeline n ts = .ok ()) :
    ∀ c ∈ usesL ts, c ∈ defsL ts := by
  cases ts with
  | nil => simp [checkPipeline] at h
  | cons t rest =>
    cases t <;> simp only [checkPipeline, reduceCtorEq] at h
    next tr =>
      cases hs : scopeL tr.cids rest with
      | error e => simp [hs] at h
      | ok v =>
        intro c hc
        simp only [usesL, Transform.uses, List.nil_append] at hc
        simp only [defsL, Transform.defs, List.mem_append]
        exact (scopeL_sound rest _ v hs).1 c hc

/-- in an accepted relation every used cid is defined in that relation -/
theorem checkRelation_uses_defined {r : Relation} (h : checkRelation r = .ok ()) :
    ∀ c ∈ r.kind.uses, c ∈ r.kind.defs := by
  unfold checkRelation at h
  cases hk : r.kind with
  | pipeline ts => simp only [hk] at h; simpa [RelKind.uses, RelKind.defs] using checkPipeline_uses_defined h
  | sstring xs =>
    simp only [hk] at h
    intro c hc
    have := need_ok' h c (by simpa [RelKind.uses] using hc)
    simp at this
  | builtin nm xs =>
    simp only [hk] at h
    intro c hc
    have := need_ok' h c (by simpa [RelKind.uses] using hc)
    simp at this
  | externRef p => intro c hc; simp [RelKind.uses] at hc
  | literal a b => intro c hc; simp [RelKind.uses] at hc

/-- shape of an accepted pipeline -/
theorem checkPipeline_shape {n : Nat} {ts : List Transform} (h : checkPipeline n ts = .ok ()) :
    ∃ tr mid cs, ts = .from_ tr :: (mid ++ [.select cs]) ∧ cs.length = n := by
  cases ts with
  | nil => simp [checkPipeline] at h
  | cons t rest =>
    cases t <;> simp only [checkPipeline, reduceCtorEq] at h
    next tr =>
      cases hs : scopeL tr.cids rest with
      | error e => simp [hs] at h
      | ok v =>
        simp only [hs] at h
        obtain ⟨pre, cs, e, hl⟩ := checkLast_ok h
        exact ⟨tr, pre, cs, by simp [e], hl⟩

/-! ### tables -/

theorem checkTables_append (d : List TId) (a b : List TableDecl) :
    checkTables d (a ++ b) = match checkTables d a with
      | .ok d' => checkTables d' b
      | .error e => .error e := by
  induction a generalizing d with
  | nil => simp [checkTables]
  | cons t ts ih =>
    simp only [List.cons_append, checkTables]
    cases needTids d t.relation.kind.tids with
    | error e => rfl
    | ok _ =>
      simp only
      split
      · rfl
      · exact ih _

/-- what `checkTables` returns: the ids it has seen, newest first -/
theorem checkTables_ids {d d' : List TId} {ts : List TableDecl} (h : checkTables d ts = .ok d') :
    d' = (ts.map (·.id)).reverse ++ d := by
  induction ts generalizing d with
  | nil => simp [checkTables] at h; simp [h]
  | cons t ts ih =>
    simp only [checkTables] at h
    cases h1 : needTids d t.relation.kind.tids with
    | error e => simp [h1] at h
    | ok _ =>
      simp only [h1] at h
      split at h
      · cases h
      · rw [ih h]; simp

theorem checkTables_spec {d d' : List TId} {ts : List TableDecl} (h : checkTables d ts = .ok d') :
    (∀ pre t post, ts = pre ++ t :: post →
        (∀ x ∈ t.relation.kind.tids, x ∈ d ∨ x ∈ pre.map (·.id)) ∧ t.id ∉ d ∧ t.id ∉ pre.map (·.id)) := by
  induction ts generalizing d with
  | nil => intro pre t post e; simp at e
  | cons t0 ts ih =>
    simp only [checkTables] at h
    cases h1 : needTids d t0.relation.kind.tids with
    | error e => simp [h1] at h
    | ok u =>
      simp only [h1] at h
      split at h
      · cases h
      next hc =>
        intro pre t post e
        cases pre with
        | nil =>
          simp at e; obtain ⟨rfl, _⟩ := e
          refine ⟨fun x hx => Or.inl ((needTids_ok _ _).mp h1 x hx), ?_, by simp⟩
          simpa using hc
        | cons p pre' =>
          simp at e; obtain ⟨rfl, e⟩ := e
          obtain ⟨a, b, c⟩ := ih h pre' t post e
          refine ⟨fun x hx => ?_, ?_, ?_⟩
          · rcases a x hx with hx | hx
            · simp at hx; rcases hx with rfl | hx
              · right; simp
              · left; exact hx
            · right; simp [hx]
          · intro hd; exact b (by simp [hd])
          · intro hd; simp at hd; rcases hd with hd | hd
            · exact b (by simp [hd])
            · exact c (by simpa using hd)

theorem checkRelations_ok (rs : List Relation) : checkRelations rs = .ok () ↔ ∀ r ∈ rs, checkRelation r = .ok () := by
  induction rs with
  | nil => simp [checkRelations]
  | cons r rs ih =>
    simp only [checkRelations, List.mem_cons, forall_eq_or_imp]
    cases h : checkRelation r with
    | error e => simp
    | ok u => simp [ih]

theorem checkRelations_append (a b : List Relation) :
    checkRelations (a ++ b) = .ok () ↔ checkRelations a = .ok () ∧ checkRelations b = .ok () := by
  simp only [checkRelations_ok, List.mem_append]
  constructor
  · intro h; exact ⟨fun r hr => h r (Or.inl hr), fun r hr => h r (Or.inr hr)⟩
  · rintro ⟨h1, h2⟩ r (hr | hr)
    · exact h1 r hr
    · exact h2 r hr

/-- `wfRq` is the conjunction of its three clauses -/
theorem wfRq_iff (rq : RelationalQuery) :
    wfRq rq = .ok () ↔
      checkTids rq = .ok () ∧ rq.defs.Nodup ∧ ∀ r ∈ rq.relations, checkRelation r = .ok () := by
  unfold wfRq
  cases h1 : checkTids rq with
  | error e => simp
  | ok u =>
    simp only [true_and]
    unfold checkDefs
    cases h2 : firstDup rq.defs with
    | some c =>
      have : ¬ rq.defs.Nodup := fun hn => by rw [(firstDup_none _).mpr hn] at h2; cases h2
      simp [this]
    | none =>
      simp only [(firstDup_none _).mp h2, true_and]
      exact checkRelations_ok _

end Model.Rq
