/- Helper lemmas about the back-end loader model (Model/RqBackend.lean), used by Props/C16.lean (T2). -/
import PrqlModel.Lemmas.Rq
import PrqlModel.Model.RqBackend
namespace Model.Rq.Backend
open Model.Rq

theorem loadTransforms_keys : ∀ (ts : List Transform) (cx : Ctx),
    (loadTransforms cx ts).columnDecls.map (·.1) = cx.columnDecls.map (·.1) ++ defsL ts ∧
    (loadTransforms cx ts).tableDecls = cx.tableDecls
  | [], cx => by simp [loadTransforms, defsL]
  | t :: ts, cx => by
    have ht : (loadTransform cx t).columnDecls.map (·.1) = cx.columnDecls.map (·.1) ++ t.defs ∧
        (loadTransform cx t).tableDecls = cx.tableDecls := by
      cases t with
      | loop body => simpa [loadTransform, Transform.defs] using loadTransforms_keys body cx
      | from_ tr => simp [loadTransform, Ctx.createInstance, Transform.defs, TableRef.cids, Function.comp_def]
      | join s w f => simp [loadTransform, Ctx.createInstance, Transform.defs, TableRef.cids, Function.comp_def]
      | append tr => simp [loadTransform, Ctx.createInstance, Transform.defs, TableRef.cids, Function.comp_def]
      | compute c => simp [loadTransform, Ctx.registerCompute, Transform.defs]
      | select _ => simp [loadTransform, Transform.defs]
      | filter _ => simp [loadTransform, Transform.defs]
      | aggregate _ _ => simp [loadTransform, Transform.defs]
      | sort _ => simp [loadTransform, Transform.defs]
      | take _ => simp [loadTransform, Transform.defs]
    have := loadTransforms_keys ts (loadTransform cx t)
    simp only [loadTransforms, defsL]
    rw [this.1, this.2, ht.1, ht.2]
    simp

theorem loadRelation_keys (cx : Ctx) (r : Relation) :
    (loadRelation cx r).columnDecls.map (·.1) = cx.columnDecls.map (·.1) ++ r.kind.defs ∧
    (loadRelation cx r).tableDecls = cx.tableDecls := by
  unfold loadRelation
  cases h : r.kind with
  | pipeline ts => simpa [RelKind.defs] using loadTransforms_keys ts cx
  | _ => simp [RelKind.defs]

theorem loadTables_keys (ts : List TableDecl) (cx : Ctx) :
    (ts.foldl loadTable cx).columnDecls.map (·.1) = cx.columnDecls.map (·.1) ++ (ts.map (·.relation.kind.defs)).flatten ∧
    (ts.foldl loadTable cx).tableDecls = cx.tableDecls ++ ts.map (·.id) := by
  induction ts generalizing cx with
  | nil => simp
  | cons t ts ih =>
    have h1 := loadRelation_keys cx t.relation
    simp only [List.foldl_cons]
    have := ih (loadTable cx t)
    rw [this.1, this.2]
    simp only [loadTable, h1.1, h1.2]
    simp

/-- the keys of `column_decls` after loading are exactly the definitions of the query; `table_decls` are the declared tables -/
theorem load_keys (rq : RelationalQuery) :
    (load rq).columnDecls.map (·.1) = rq.defs ∧ (load rq).tableDecls = rq.tables.map (·.id) := by
  unfold load
  have h1 := loadRelation_keys (rq.tables.foldl loadTable {}) rq.relation
  have h2 := loadTables_keys rq.tables {}
  rw [h1.1, h1.2, h2.1, h2.2]
  simp [RelationalQuery.defs, RelationalQuery.relations, Function.comp_def]

theorem lookupColumn_isSome (cx : Ctx) (c : CId) (h : c ∈ cx.columnDecls.map (·.1)) : (lookupColumn cx c).isSome = true := by
  unfold lookupColumn
  obtain ⟨e, he, rfl⟩ := List.mem_map.mp h
  cases hf : cx.columnDecls.find? (fun x => x.1 == e.1) with
  | some x => rfl
  | none =>
    have := List.find?_eq_none.mp hf e he
    simp at this

theorem needTids_mem {d ts : List TId} (h : needTids d ts = .ok ()) : ∀ x ∈ ts, x ∈ d := (needTids_ok d ts).mp h


end Model.Rq.Backend
