/- Helper lemmas about Model/Scope.lean (used by Props/C10.lean). -/
import PrqlModel.Model.Scope
namespace Model.Scope

theorem mem_dedup {α : Type} [DecidableEq α] (l : List α) (a : α) : a ∈ dedup l ↔ a ∈ l := by
  induction l with
  | nil => simp [dedup]
  | cons x xs ih =>
    simp only [dedup, List.mem_cons, List.mem_filter, ih]
    constructor
    · rintro (h | ⟨h, _⟩)
      · exact Or.inl h
      · exact Or.inr h
    · rintro (h | h)
      · exact Or.inl h
      · by_cases e : a = x
        · exact Or.inl e
        · exact Or.inr ⟨h, by simpa using e⟩

theorem nodup_dedup {α : Type} [DecidableEq α] (l : List α) : (dedup l).Nodup := by
  induction l with
  | nil => simp [dedup]
  | cons x xs ih =>
    simp only [dedup, List.nodup_cons, List.mem_filter]
    refine ⟨fun h => ?_, ih.filter _⟩
    simpa using h.2

theorem eq_singleton_of_nodup {α : Type} {l : List α} {c : α} (hn : l.Nodup) (hc : c ∈ l) (hall : ∀ c' ∈ l, c' = c) :
    l = [c] := by
  cases l with
  | nil => simp at hc
  | cons x xs =>
    have hx : x = c := hall x (by simp)
    subst hx
    cases xs with
    | nil => rfl
    | cons y ys =>
      have hy : y = x := hall y (by simp)
      subst hy
      simp at hn

theorem two_le_length_of_ne {α : Type} {l : List α} {a b : α} (ha : a ∈ l) (hb : b ∈ l) (hne : a ≠ b) :
    ∃ x y zs, l = x :: y :: zs := by
  cases l with
  | nil => simp at ha
  | cons x xs =>
    cases xs with
    | nil =>
      simp at ha hb
      exact absurd (ha.trans hb.symm) hne
    | cons y ys => exact ⟨x, y, ys, rfl⟩

theorem stepsSites_append (env : Env) (done : List Frame) (fr : Frame) (a b : List Step) :
    stepsSites env done fr (a ++ b) = stepsSites env done fr a ++ stepsSites env done (stepsFrame env done fr a) b := by
  induction a generalizing fr with
  | nil => simp [stepsSites, stepsFrame]
  | cons s rest ih => simp [stepsSites, stepsFrame, ih]

theorem stepsFrame_append (env : Env) (done : List Frame) (fr : Frame) (a b : List Step) :
    stepsFrame env done fr (a ++ b) = stepsFrame env done (stepsFrame env done fr a) b := by
  induction a generalizing fr with
  | nil => simp [stepsFrame]
  | cons s rest ih => simp [stepsFrame, ih]

end Model.Scope
