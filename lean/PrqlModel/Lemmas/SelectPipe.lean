/-
The clause placement of `translate_select_pipeline` (pluck by kind: Model.SelectPipe.parts) agrees with placing the transforms
ONE AFTER THE OTHER (the `push` of the block theorem, Lemmas/RelBlock) on every segment with at most one aggregate and no
sort in front of it - the segments the split table admits.
-/
import PrqlModel.Model.SelectPipe
namespace Lemmas.SelectPipe
open Model.SelectPipe

/-- the clause skeleton of a block under construction -/
structure Shape where
  where_ : List Nat := []
  having : List Nat := []
  grouped : Bool := false
  groupBy : List CId := []
  order : Option (List CS) := none
  range : Model.Take.Range := (none, none)
  deriving Repr, DecidableEq

/-- sequential placement: what `Lemmas.RelBlock.push` does with each kind of transform -/
def pushK (s : Shape) : Tr → Shape
  | .filter g => if s.grouped then { s with having := s.having ++ [g] } else { s with where_ := s.where_ ++ [g] }
  | .sort cs => { s with order := some cs }
  | .take r => { s with range := Rel.compose s.range.1 s.range.2 r.1 r.2 }
  | .aggregate pa _ => { s with grouped := true, groupBy := pa, order := none }
  | _ => s

def noAgg (l : List Tr) : Prop := ∀ t ∈ l, isAggregate t = false

def foldRangesFrom (r0 : Model.Take.Range) (rs : List Model.Take.Range) : Model.Take.Range :=
  rs.foldl (fun cur r => Rel.compose cur.1 cur.2 r.1 r.2) r0

/-- the last sort of a run, or the order in effect before it -/
def lastSort (o : Option (List CS)) (l : List Tr) : Option (List CS) :=
  l.foldl (fun acc t => match t with | .sort cs => some cs | _ => acc) o

theorem pushK_grouped {s : Shape} {t : Tr} (ht : isAggregate t = false) : (pushK s t).grouped = s.grouped := by
  cases t <;> simp_all [pushK, isAggregate] <;> split <;> simp_all

theorem pushK_groupBy {s : Shape} {t : Tr} (ht : isAggregate t = false) : (pushK s t).groupBy = s.groupBy := by
  cases t <;> simp_all [pushK, isAggregate] <;> split <;> simp_all

theorem foldl_grouped (l : List Tr) (s : Shape) (h : noAgg l) : (l.foldl pushK s).grouped = s.grouped := by
  induction l generalizing s with
  | nil => rfl
  | cons t ts ih =>
    rw [List.foldl_cons, ih _ (fun x hx => h x (List.mem_cons_of_mem _ hx)), pushK_grouped (h t (by simp))]

theorem foldl_groupBy (l : List Tr) (s : Shape) (h : noAgg l) : (l.foldl pushK s).groupBy = s.groupBy := by
  induction l generalizing s with
  | nil => rfl
  | cons t ts ih =>
    rw [List.foldl_cons, ih _ (fun x hx => h x (List.mem_cons_of_mem _ hx)), pushK_groupBy (h t (by simp))]

theorem foldl_where (l : List Tr) (s : Shape) (h : noAgg l) :
    (l.foldl pushK s).where_ = if s.grouped then s.where_ else s.where_ ++ filtersOf l := by
  induction l generalizing s with
  | nil => simp [filtersOf]
  | cons t ts ih =>
    have ht := h t (by simp)
    rw [List.foldl_cons, ih _ (fun x hx => h x (List.mem_cons_of_mem _ hx)), pushK_grouped ht]
    cases hg : s.grouped <;> cases t <;> simp_all [pushK, filtersOf, isAggregate]

theorem foldl_having (l : List Tr) (s : Shape) (h : noAgg l) :
    (l.foldl pushK s).having = if s.grouped then s.having ++ filtersOf l else s.having := by
  induction l generalizing s with
  | nil => simp [filtersOf]
  | cons t ts ih =>
    have ht := h t (by simp)
    rw [List.foldl_cons, ih _ (fun x hx => h x (List.mem_cons_of_mem _ hx)), pushK_grouped ht]
    cases hg : s.grouped <;> cases t <;> simp_all [pushK, filtersOf, isAggregate]

theorem foldl_order (l : List Tr) (s : Shape) (h : noAgg l) : (l.foldl pushK s).order = lastSort s.order l := by
  induction l generalizing s with
  | nil => rfl
  | cons t ts ih =>
    have ht := h t (by simp)
    rw [List.foldl_cons, ih _ (fun x hx => h x (List.mem_cons_of_mem _ hx))]
    cases t <;> simp_all [pushK, lastSort, isAggregate] <;> split <;> simp_all

theorem foldl_range (l : List Tr) (s : Shape) (h : noAgg l) :
    (l.foldl pushK s).range = foldRangesFrom s.range (takesOf l) := by
  induction l generalizing s with
  | nil => rfl
  | cons t ts ih =>
    have ht := h t (by simp)
    rw [List.foldl_cons, ih _ (fun x hx => h x (List.mem_cons_of_mem _ hx))]
    cases t <;> simp_all [pushK, takesOf, foldRangesFrom, isAggregate] <;> split <;> simp_all

theorem lastSort_eq (o : Option (List CS)) (l : List Tr) :
    lastSort o l = match (sortsOf l).getLast? with | some cs => some cs | none => o := by
  induction l generalizing o with
  | nil => rfl
  | cons t ts ih =>
    unfold lastSort at ih ⊢
    rw [List.foldl_cons, ih]
    cases t with
    | sort cs =>
      simp only [sortsOf, List.filterMap_cons]
      cases hl : (List.filterMap (fun t => match t with | Tr.sort c => some c | _ => none) ts) with
      | nil => simp
      | cons y ys =>
        cases hg : (y :: ys).getLast? with
        | none => simp at hg
        | some z => simp [List.getLast?_cons_cons, hg]
    | _ => simp [sortsOf, List.filterMap_cons]

theorem filterMap_noAgg_aggregates (l : List Tr) (h : noAgg l) : aggregatesOf l = [] := by
  induction l with
  | nil => rfl
  | cons t ts ih =>
    have ht : isAggregate t = false := h t (by simp)
    have := ih fun x hx => h x (List.mem_cons_of_mem _ hx)
    cases t <;> simp_all [aggregatesOf, isAggregate]

theorem take_findIdx_noAgg (p : List Tr) : noAgg (p.take (p.findIdx isAggregate)) := by
  intro t ht
  induction p with
  | nil => simp at ht
  | cons x xs ih =>
    by_cases hx : isAggregate x = true
    · simp [List.findIdx_cons, hx] at ht
    · have hx' : isAggregate x = false := by simpa using hx
      simp only [List.findIdx_cons, hx', cond_false, List.take_succ_cons, List.mem_cons] at ht
      rcases ht with rfl | ht
      · exact hx'
      · exact ih ht

theorem drop_findIdx (p : List Tr) :
    p.drop (p.findIdx isAggregate) = [] ∨ ∃ pa c rest, p.drop (p.findIdx isAggregate) = .aggregate pa c :: rest := by
  induction p with
  | nil => simp
  | cons x xs ih =>
    by_cases hx : isAggregate x = true
    · right
      cases x <;> simp [isAggregate] at hx
      simp [List.findIdx_cons, isAggregate]
    · have hx' : isAggregate x = false := by simpa using hx
      simpa [List.findIdx_cons, hx'] using ih

/-- the hypotheses under which plucking and sequential placement agree: what follows the first aggregate contains no further
aggregate, and no sort stands in front of it (the split table guarantees the first; the second fails on the unchanged tree for
`sort | aggregate` - finding stale-sort-after-aggregate - see `stale_sort_counterexample`) -/
structure Admissible (p : List Tr) : Prop where
  oneAgg : ∀ pa c rest, p.drop (p.findIdx isAggregate) = .aggregate pa c :: rest → noAgg rest
  noSortBefore : ∀ pa c rest, p.drop (p.findIdx isAggregate) = .aggregate pa c :: rest → sortsOf (p.take (p.findIdx isAggregate)) = []

theorem getD_lastSort_none (l : List Tr) : (lastSort none l).getD [] = (sortsOf l).getLast?.getD [] := by
  rw [lastSort_eq]
  cases (sortsOf l).getLast? <;> rfl

theorem pluck_is_sequential_placement (p : List Tr) (h : Admissible p) :
    (p.foldl pushK {}).where_ = (parts p).where_ ∧
    (p.foldl pushK {}).having = (parts p).having ∧
    (p.foldl pushK {}).groupBy = (parts p).groupBy ∧
    (p.foldl pushK {}).order.getD [] = (parts p).orderBy ∧
    (p.foldl pushK {}).range = Model.Take.foldRanges (parts p).ranges := by
  have hsplit : p = p.take (p.findIdx isAggregate) ++ p.drop (p.findIdx isAggregate) := (List.take_append_drop _ _).symm
  have hb : noAgg (p.take (p.findIdx isAggregate)) := take_findIdx_noAgg p
  rcases drop_findIdx p with hd | ⟨pa, c, rest, hd⟩
  · -- no aggregate at all
    have hp : p = p.take (p.findIdx isAggregate) := by rw [hd, List.append_nil] at hsplit; exact hsplit
    have hn : noAgg p := by rw [hp]; exact hb
    simp only [parts, breakUp, hd]
    rw [← hp]
    refine ⟨?_, ?_, ?_, ?_, ?_⟩
    · simp [foldl_where p {} hn]
    · simp [foldl_having p {} hn, filtersOf]
    · simp [foldl_groupBy p {} hn, aggregatesOf]
    · rw [foldl_order p {} hn]; exact getD_lastSort_none p
    · rw [foldl_range p {} hn]; rfl
  · have hr : noAgg rest := h.oneAgg pa c rest hd
    have hs : sortsOf (p.take (p.findIdx isAggregate)) = [] := h.noSortBefore pa c rest hd
    have hfold : p.foldl pushK {} =
        rest.foldl pushK (pushK ((p.take (p.findIdx isAggregate)).foldl pushK {}) (.aggregate pa c)) := by
      conv => lhs; rw [hsplit, hd]
      rw [List.foldl_append, List.foldl_cons]
    have hsorts : sortsOf p = sortsOf rest := by
      conv => lhs; rw [hsplit, hd]
      simp only [sortsOf, List.filterMap_append, List.filterMap_cons] at hs ⊢
      rw [hs]; rfl
    have htakes : takesOf p = takesOf (p.take (p.findIdx isAggregate)) ++ takesOf rest := by
      conv => lhs; rw [hsplit, hd]
      simp [takesOf, List.filterMap_append, List.filterMap_cons]
    simp only [parts, breakUp, hd]
    rw [hfold]
    have hbw := foldl_where (p.take (p.findIdx isAggregate)) {} hb
    have hbh := foldl_having (p.take (p.findIdx isAggregate)) {} hb
    have hbr := foldl_range (p.take (p.findIdx isAggregate)) {} hb
    refine ⟨?_, ?_, ?_, ?_, ?_⟩
    · rw [foldl_where rest _ hr]
      simp [pushK, hbw]
    · rw [foldl_having rest _ hr]
      simp [pushK, hbh, filtersOf, List.filterMap_cons]
    · rw [foldl_groupBy rest _ hr]
      simp [pushK, aggregatesOf, List.filterMap_cons]
    · rw [foldl_order rest _ hr]
      simp only [pushK]
      rw [getD_lastSort_none, hsorts]
    · rw [foldl_range rest _ hr]
      simp only [pushK, hbr]
      rw [htakes]
      simp [foldRangesFrom, Model.Take.foldRanges, List.foldl_append]

/-- without the second hypothesis the two placements differ: the real function keeps the ORDER BY of a sort in front of the
aggregate (finding stale-sort-after-aggregate), sequential placement drops it -/
theorem stale_sort_counterexample :
    (parts [.sort [⟨0, false⟩], .aggregate [] [1]]).orderBy = [⟨0, false⟩] ∧
    ([Tr.sort [⟨0, false⟩], .aggregate [] [1]].foldl pushK {}).order = none := by decide

end Lemmas.SelectPipe
