/- helper lemmas for Props/C15 (T3): leaves of the serde object model -/
import PrqlModel.Model.SerdeModel
namespace Model.Serde
open Model Model.Json Model.Dec

/-! ## T1  spans -/

theorem splitOnce_append (c : Char) : ∀ (a b : Str), c ∉ a → splitOnce c (a ++ c :: b) = some (a, b)
  | [], b, _ => by simp [splitOnce]
  | x :: a, b, h => by
    have hx : x ≠ c := fun e => h (by simp [e])
    have ha : c ∉ a := fun e => h (by simp [e])
    simp [splitOnce, hx, splitOnce_append c a b ha]

theorem not_mem_digits {c : Char} (hc : c.isDigit = false) (n : Nat) : c ∉ natDigits n := by
  intro h
  have := natDigits_all_digit n
  rw [List.all_eq_true] at this
  rw [this c h] at hc; cases hc

theorem parseUnsigned_natDigits (bound n : Nat) (h : n < bound) :
    parseUnsigned bound (natDigits n) = some n := by
  have hall := natDigits_all_digit n
  have hr := readNat_natDigits n
  unfold parseUnsigned
  cases hd : natDigits n with
  | nil => exact absurd hd (natDigits_ne_nil n)
  | cons c r =>
    rw [hd] at hall hr
    simp only [List.all_cons, Bool.and_eq_true] at hall
    have hc : c ≠ '+' := by intro e; subst e; exact absurd hall.1 (by decide)
    simp [hc, hr, h]

/-- **T1.** every span whose fields fit the Rust field types is read back from its text;
this contains the decimal print/read round trip of every natural number (`readNat_natDigits`). -/
theorem span_rt (s : Span) (h : s.wf = true) : parseSpan (showSpan s) = some s := by
  simp only [Span.wf, Bool.and_eq_true, decide_eq_true_eq] at h
  obtain ⟨⟨h1, h2⟩, h3⟩ := h
  unfold parseSpan showSpan
  rw [splitOnce_append ':' _ _ (not_mem_digits (by decide) _)]
  simp only [parseUnsigned_natDigits _ _ h1]
  rw [splitOnce_append '-' _ _ (not_mem_digits (by decide) _)]
  simp only [parseUnsigned_natDigits _ _ h2, parseUnsigned_natDigits _ _ h3]

/-- without the width limits of `u16` / `usize` the statement would be false: the reader rejects -/
theorem span_width_matters : parseSpan (showSpan ⟨65536, 0, 0⟩) = none := by decide

theorem span_value_roundtrip (s : Span) (h : s.wf = true) : decodeSpan (encodeSpan s) = some s :=
  span_rt s h

/-- … and through the JSON text itself -/
theorem span_text_roundtrip (s : Span) (h : s.wf = true) :
    (Json.parse (Json.print (encodeSpan s))).bind decodeSpan = some s := by
  rw [Json.parse_print _ (by rfl)]; exact span_rt s h

example : parseSpan (showSpan ⟨1, 24, 18446744073709551615⟩) = some ⟨1, 24, 18446744073709551615⟩ := by decide
example : showSpan ⟨1, 24, 29⟩ = ['1', ':', '2', '4', '-', '2', '9'] := by decide

/-! ## T2  identifiers -/

theorem unStrList_strList : ∀ l : List Str, unStrList (strList l) = some l
  | [] => rfl
  | s :: r => by simp [strList, unStrList, unStrList_strList r]

theorem fromPath_snoc : ∀ (p : List Str) (n : Str), fromPath (p ++ [n]) = some ⟨p, n⟩
  | [], n => rfl
  | [a], n => by simp [fromPath]
  | a :: b :: r, n => by
    have := fromPath_snoc (b :: r) n
    simp only [List.cons_append] at this ⊢
    simp [fromPath, this]

/-- **T2.** an identifier is read back from its sequence encoding -/
theorem ident_rt (i : Ident) : decodeIdent (encodeIdent i) = some i := by
  simp [decodeIdent, encodeIdent, unStrList_strList, fromPath_snoc]

theorem ident_text_roundtrip (i : Ident) :
    (Json.parse (Json.print (encodeIdent i))).bind decodeIdent = some i := by
  have hw : ∀ l : List Str, wfList (strList l) = true := by
    intro l; induction l with
    | nil => rfl
    | cons s r ih => simp [strList, wfList, wf, ih]
  rw [Json.parse_print _ (by simp [encodeIdent, wf, hw])]; exact ident_rt i

/-- the empty sequence is not an identifier (`Ident::from_path` would `unwrap` a `None`) -/
theorem ident_empty_rejected : decodeIdent (.arr .nil) = none := rfl



theorem findFin_get : ∀ (names : List Str), names.Nodup → ∀ i : Fin names.length, findFin names (names.get i) = some i
  | [], _, i => i.elim0
  | n :: ns, h, ⟨0, _⟩ => by simp [findFin]
  | n :: ns, h, ⟨k + 1, hk⟩ => by
    rw [List.nodup_cons] at h
    have hne : n ≠ ns.get ⟨k, by simpa using hk⟩ := by
      intro e; exact h.1 (e ▸ List.get_mem ns ⟨k, by simpa using hk⟩)
    have ih := findFin_get ns h.2 ⟨k, by simpa using hk⟩
    simp only [List.get_cons_succ, findFin, hne, if_false, ih]
    rfl

theorem decEnum_encEnum (names : List Str) (h : names.Nodup) (i : Fin names.length) :
    decEnum names (encEnum names i) = some i := by
  simp only [decEnum, encEnum]; exact findFin_get names h i

theorem single_one (k : Str) (v : Json) : single (one k v) = some (k, v) := rfl

theorem decLiteral_encLiteral (l : Literal) (hw : l.wf = true) (hf : l.finite = true) :
    decLiteral (encLiteral l) = some l := by
  cases l with
  | null => simp [encLiteral, decLiteral]
  | integer i =>
    simp only [Literal.wf] at hw
    simp [encLiteral, decLiteral, one, single, decI64, hw]
  | float f =>
    cases f with
    | nonFinite => simp [Literal.finite] at hf
    | finite t => simp [encLiteral, decLiteral, one, single, encFloat, decFloat, lFloat, lInteger]
  | boolean b => simp [encLiteral, decLiteral, one, single, asBool, lBoolean, lFloat, lInteger]
  | string s => simp [encLiteral, decLiteral, one, single, asStr, lString, lBoolean, lFloat, lInteger]
  | rawString s => simp [encLiteral, decLiteral, one, single, asStr, lRawString, lString, lBoolean, lFloat, lInteger]
  | date s => simp [encLiteral, decLiteral, one, single, asStr, lDate, lRawString, lString, lBoolean, lFloat, lInteger]
  | time s => simp [encLiteral, decLiteral, one, single, asStr, lTime, lDate, lRawString, lString, lBoolean, lFloat, lInteger]
  | timestamp s =>
    simp [encLiteral, decLiteral, one, single, asStr, lTimestamp, lTime, lDate, lRawString, lString, lBoolean, lFloat, lInteger]
  | valueAndUnit n u =>
    simp only [Literal.wf] at hw
    simp [encLiteral, decLiteral, one, single, asStr, lValueAndUnit, lTimestamp, lTime, lDate, lRawString, lString, lBoolean,
      lFloat, lInteger, getReq, getU, findAll, kN, kUnit, decI64, hw]

/-- the non-finite float is written as `null`, which `f64::deserialize` rejects -/
theorem decLiteral_nonFinite : decLiteral (encLiteral (.float .nonFinite)) = none := by
  simp [encLiteral, decLiteral, one, single, encFloat, decFloat, lFloat, lInteger]


theorem exprOwnKeys_eq : exprOwnKeys = [kSpan, kAlias, kDoc] := by decide

/-- **key disjointness on the extracted names**: the tag of every modelled variant is one of the real variant
names of `pr::ExprKind` and none of the real own field names of `pr::Expr` -/
theorem tag_disjoint (k : ExprKind) :
    exprOwnKeys.contains (tagOf k) = false ∧ exprKindTags.contains (tagOf k) = true := by
  cases k <;> (simp only [tagOf]; decide)

theorem expr_members (tag : Str) (p : Json) (sp al dc : Option Json)
    (h1 : exprOwnKeys.contains tag = false) (h2 : exprKindTags.contains tag = true) :
    let ms := JMembers.cons tag p (optMember kSpan sp (optMember kAlias al (optMember kDoc dc .nil)))
    getU kSpan ms = some sp ∧ getU kAlias ms = some al ∧ getU kDoc ms = some dc ∧
    findVariant exprOwnKeys exprKindTags ms = some (tag, p) := by
  have h1' := h1
  rw [exprOwnKeys_eq] at h1'
  simp only [List.contains_cons, List.contains_nil, Bool.or_false, Bool.or_eq_false_iff, beq_eq_false_iff_ne] at h1'
  obtain ⟨a, b, c⟩ := h1'
  have n1 : kAlias ≠ kSpan := by decide
  have n2 : kDoc ≠ kSpan := by decide
  have n3 : kSpan ≠ kAlias := by decide
  have n4 : kDoc ≠ kAlias := by decide
  have n5 : kSpan ≠ kDoc := by decide
  have n6 : kAlias ≠ kDoc := by decide
  refine ⟨?_, ?_, ?_, ?_⟩
  · cases sp <;> cases al <;> cases dc <;> simp [optMember, getU, findAll, a, n1, n2]
  · cases sp <;> cases al <;> cases dc <;> simp [optMember, getU, findAll, b, n3, n4]
  · cases sp <;> cases al <;> cases dc <;> simp [optMember, getU, findAll, c, n5, n6]
  · simp only [findVariant, h1, h2, Bool.false_eq_true, if_false, if_true]

theorem decOpt_span (sp : Option Span) (h : optSpanWf sp = true) :
    decOptWith decodeSpan (sp.map encodeSpan) = some sp := by
  cases sp with
  | none => rfl
  | some s =>
    simp only [optSpanWf] at h
    have := span_rt s h
    simp only [Option.map, decOptWith, encodeSpan, decodeSpan, this]

theorem decOpt_str (o : Option Str) : decOptWith asStr (o.map Json.str) = some o := by
  cases o <;> rfl

theorem binOp_nodup : binOpNames.Nodup := by decide
theorem unOp_nodup : unOpNames.Nodup := by decide

theorem encExpr_ne_null (x : Expr) : ∃ ms, encExpr x = .obj ms := by
  cases x; simp only [encExpr]; exact ⟨_, rfl⟩

mutual
theorem dec_expr : ∀ (x : Expr), x.wf = true → ∀ f, depth (encExpr x) < f → decExprF f (encExpr x) = some x
  | .mk k sp al dc, hw, f, hf => by
    simp only [Expr.wf, Bool.and_eq_true] at hw
    cases f with
    | zero => omega
    | succ f =>
      simp only [encExpr, depth, depthM] at hf
      have hk := dec_kind k hw.1 f (by omega)
      obtain ⟨d1, d2⟩ := tag_disjoint k
      obtain ⟨g1, g2, g3, g4⟩ := expr_members (tagOf k) (encKind k) (sp.map encodeSpan) (al.map .str) (dc.map .str) d1 d2
      simp only [decExprF, encExpr, decExprWith, g1, g2, g3, g4, decOpt_span sp hw.2, decOpt_str, hk]
theorem dec_kind : ∀ (k : ExprKind), k.wf = true → ∀ f, depth (encKind k) ≤ f →
    decKindWith (decExprF f) (tagOf k) (encKind k) = some k
  | .ident i, _, f, _ => by
    simp [decKindWith, tagOf, encKind, ident_rt]
  | .literal l, hw, f, _ => by
    simp only [ExprKind.wf, Bool.and_eq_true] at hw
    simp [decKindWith, tagOf, encKind, decLiteral_encLiteral l hw.1 hw.2, tLiteral, tIdent]
  | .tuple xs, hw, f, hf => by
    simp only [ExprKind.wf] at hw
    simp only [encKind, depth] at hf
    have := dec_list xs hw f (by omega)
    simp [decKindWith, tagOf, encKind, decArrWith, this, tTuple, tLiteral, tIdent]
  | .array xs, hw, f, hf => by
    simp only [ExprKind.wf] at hw
    simp only [encKind, depth] at hf
    have := dec_list xs hw f (by omega)
    simp [decKindWith, tagOf, encKind, decArrWith, this, tArray, tTuple, tLiteral, tIdent]
  | .pipeline xs, hw, f, hf => by
    simp only [ExprKind.wf] at hw
    simp only [encKind, one, depth, depthM] at hf
    have := dec_list xs hw f (by omega)
    simp [decKindWith, tagOf, encKind, one, getReq, getU, findAll, decArrWith, this, tPipeline, tArray, tTuple, tLiteral, tIdent]
  | .range a b, hw, f, hf => by
    simp only [ExprKind.wf, Bool.and_eq_true] at hw
    simp only [encKind, depth, depthM] at hf
    have ha := dec_opt a hw.1 f (by omega)
    have hb := dec_opt b hw.2 f (by omega)
    have n1 : kEnd ≠ kStart := by decide
    have n2 : kStart ≠ kEnd := by decide
    simp [decKindWith, tagOf, encKind, getU, findAll, n1, n2, ha, hb, tRange, tPipeline, tArray, tTuple, tLiteral, tIdent]
  | .binary l op r, hw, f, hf => by
    simp only [ExprKind.wf, Bool.and_eq_true] at hw
    simp only [encKind, depth, depthM] at hf
    have hl := dec_expr l hw.1 f (by omega)
    have hr := dec_expr r hw.2 f (by omega)
    have n1 : kOp ≠ kLeft := by decide
    have n2 : kRight ≠ kLeft := by decide
    have n3 : kLeft ≠ kOp := by decide
    have n4 : kRight ≠ kOp := by decide
    have n5 : kLeft ≠ kRight := by decide
    have n6 : kOp ≠ kRight := by decide
    simp [decKindWith, tagOf, encKind, getReq, getU, findAll, n1, n2, n3, n4, n5, n6, hl, hr, decEnum_encEnum _ binOp_nodup,
      tBinary, tRange, tPipeline, tArray, tTuple, tLiteral, tIdent]
  | .unary op e, hw, f, hf => by
    simp only [ExprKind.wf] at hw
    simp only [encKind, depth, depthM] at hf
    have he := dec_expr e hw f (by omega)
    have n1 : kExpr ≠ kOp := by decide
    have n2 : kOp ≠ kExpr := by decide
    simp [decKindWith, tagOf, encKind, getReq, getU, findAll, n1, n2, he, decEnum_encEnum _ unOp_nodup,
      tUnary, tBinary, tRange, tPipeline, tArray, tTuple, tLiteral, tIdent]
  | .funcCall n args .nil, hw, f, hf => by
    simp only [ExprKind.wf, Bool.and_eq_true] at hw
    simp only [encKind, depth, depthM] at hf
    have hn := dec_expr n hw.1.1 f (by omega)
    have ha := dec_list args hw.1.2 f (by omega)
    have n1 : kArgs ≠ kName := by decide
    have n2 : kName ≠ kArgs := by decide
    have n3 : kName ≠ kNamedArgs := by decide
    have n4 : kArgs ≠ kNamedArgs := by decide
    simp [decKindWith, tagOf, encKind, getReq, getU, findAll, n1, n2, n3, n4, hn, ha, decArrWith,
      tFuncCall, tUnary, tBinary, tRange, tPipeline, tArray, tTuple, tLiteral, tIdent]
  | .funcCall n args (.cons k v r), hw, f, hf => by
    simp only [ExprKind.wf, Bool.and_eq_true] at hw
    simp only [encKind, depth, depthM] at hf
    have hn := dec_expr n hw.1.1 f (by omega)
    have ha := dec_list args hw.1.2 f (by omega)
    have hna := dec_named (.cons k v r) hw.2 f (by simp only [encNamed, depthM]; omega)
    simp only [encNamed] at hna
    have n1 : kArgs ≠ kName := by decide
    have n2 : kName ≠ kArgs := by decide
    have n3 : kName ≠ kNamedArgs := by decide
    have n4 : kArgs ≠ kNamedArgs := by decide
    have n5 : kNamedArgs ≠ kName := by decide
    have n6 : kNamedArgs ≠ kArgs := by decide
    simp [decKindWith, tagOf, encKind, getReq, getU, findAll, n1, n2, n3, n4, n5, n6, hn, ha, hna, decArrWith,
      tFuncCall, tUnary, tBinary, tRange, tPipeline, tArray, tTuple, tLiteral, tIdent]
  | .param s, _, f, _ => by
    simp [decKindWith, tagOf, encKind, asStr, tParam, tFuncCall, tUnary, tBinary, tRange, tPipeline, tArray, tTuple, tLiteral, tIdent]
  | .internal s, _, f, _ => by
    simp [decKindWith, tagOf, encKind, asStr, tInternal, tParam, tFuncCall, tUnary, tBinary, tRange, tPipeline, tArray, tTuple,
      tLiteral, tIdent]
theorem dec_list : ∀ (xs : ExprList), xs.wf = true → ∀ f, depthL (encList xs) < f →
    decListWith (decExprF f) (encList xs) = some xs
  | .nil, _, f, _ => by simp [encList, decListWith]
  | .cons x xs, hw, f, hf => by
    simp only [ExprList.wf, Bool.and_eq_true] at hw
    simp only [encList, depthL] at hf
    have hx := dec_expr x hw.1 f (by omega)
    have hxs := dec_list xs hw.2 f (by omega)
    simp [encList, decListWith, hx, hxs]
theorem dec_opt : ∀ (a : OptExpr), a.wf = true → ∀ f, depth (encOpt a) < f →
    decOptExprWith (decExprF f) (some (encOpt a)) = some a
  | .none, _, f, _ => by simp [encOpt, decOptExprWith]
  | .some x, hw, f, hf => by
    simp only [OptExpr.wf] at hw
    simp only [encOpt] at hf ⊢
    have hx := dec_expr x hw f hf
    obtain ⟨ms, e⟩ := encExpr_ne_null x
    rw [e] at hx ⊢
    simp [decOptExprWith, hx]
theorem dec_named : ∀ (r : NamedArgs), r.wf = true → ∀ f, depthM (encNamed r) < f →
    decNamedWith (decExprF f) (encNamed r) = some r
  | .nil, _, f, _ => by simp [encNamed, decNamedWith]
  | .cons k v r, hw, f, hf => by
    simp only [NamedArgs.wf, Bool.and_eq_true] at hw
    simp only [encNamed, depthM] at hf
    have hv := dec_expr v hw.1 f (by omega)
    have hr := dec_named r hw.2 f (by omega)
    simp [encNamed, decNamedWith, hv, hr]
end


end Model.Serde
