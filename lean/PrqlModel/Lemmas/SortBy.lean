/-
Sort algebra of the reference semantics: `Model.Rel.isortBy le` (stable insertion sort) for an arbitrary
comparison `le : α → α → Bool` under explicit hypotheses (totality, transitivity), and its instance for
rows, `sortRows ks = isortBy (fun a b => cmpKeys ks a b != .gt)`.
  * `sorted_isortBy`, `perm_isortBy`                      the result is a sorted permutation
  * `filter_isortBy`                                       WHERE may be evaluated before ORDER BY
  * `map_isortBy`                                          a map that preserves the comparison commutes
  * `isortBy_of_sorted`, `filter_isortBy_of_sorted`        stability: what is already in order stays in place
  * `isortBy_eq_of_perm`, `isortBy_isortBy`                without ties (antisymmetry on the rows) the result
                                                           depends on the multiset only: the last sort wins
Core Lean only.
-/
import PrqlModel.Lemmas.ValueOrd
namespace Lemmas.SortBy
open Model.Rel

variable {α : Type}

/-- total: any two elements are comparable -/
def Total (le : α → α → Bool) : Prop := ∀ a b, le a b = true ∨ le b a = true
def Trans (le : α → α → Bool) : Prop := ∀ a b c, le a b = true → le b c = true → le a c = true
/-- no ties on `l`: two elements of `l` that are each below the other are the same element -/
def NoTies (le : α → α → Bool) (l : List α) : Prop :=
  ∀ a ∈ l, ∀ b ∈ l, le a b = true → le b a = true → a = b

abbrev SortedBy (le : α → α → Bool) (l : List α) : Prop := l.Pairwise (fun a b => le a b = true)

/-! ### membership, permutation -/

theorem perm_insBy (le : α → α → Bool) (x : α) (l : List α) : (insBy le x l).Perm (x :: l) := by
  induction l with
  | nil => exact List.Perm.refl _
  | cons y ys ih =>
    simp only [insBy]; split
    · exact List.Perm.refl _
    · exact (List.Perm.cons y ih).trans (List.Perm.swap x y ys)

theorem perm_isortBy (le : α → α → Bool) (l : List α) : (isortBy le l).Perm l := by
  induction l with
  | nil => exact List.Perm.refl _
  | cons x xs ih => exact (perm_insBy le x _).trans (List.Perm.cons x ih)

theorem mem_insBy {le : α → α → Bool} {x y : α} {l : List α} : y ∈ insBy le x l ↔ y = x ∨ y ∈ l := by
  rw [(perm_insBy le x l).mem_iff, List.mem_cons]

theorem mem_isortBy {le : α → α → Bool} {y : α} {l : List α} : y ∈ isortBy le l ↔ y ∈ l :=
  (perm_isortBy le l).mem_iff

theorem length_isortBy (le : α → α → Bool) (l : List α) : (isortBy le l).length = l.length :=
  (perm_isortBy le l).length_eq

/-! ### sortedness -/

theorem sorted_insBy {le : α → α → Bool} (htot : Total le) (htr : Trans le) {x : α} {l : List α}
    (h : SortedBy le l) : SortedBy le (insBy le x l) := by
  induction l with
  | nil => simp [insBy]
  | cons y ys ih =>
    have hp := List.pairwise_cons.mp h
    simp only [insBy]; split
    · next hxy =>
      refine List.pairwise_cons.mpr ⟨?_, h⟩
      intro z hz
      rcases List.mem_cons.mp hz with rfl | hz
      · exact hxy
      · exact htr _ _ _ hxy (hp.1 z hz)
    · next hxy =>
      have hyx : le y x = true := by
        rcases htot x y with h' | h'
        · exact absurd h' hxy
        · exact h'
      refine List.pairwise_cons.mpr ⟨?_, ih hp.2⟩
      intro z hz
      rcases mem_insBy.mp hz with rfl | hz
      · exact hyx
      · exact hp.1 z hz

theorem sorted_isortBy {le : α → α → Bool} (htot : Total le) (htr : Trans le) (l : List α) :
    SortedBy le (isortBy le l) := by
  induction l with
  | nil => exact List.Pairwise.nil
  | cons x xs ih => exact sorted_insBy htot htr ih

/-- inserting below everything puts the element in front -/
theorem insBy_of_le {le : α → α → Bool} {x : α} {l : List α} (h : ∀ y ∈ l, le x y = true) :
    insBy le x l = x :: l := by
  cases l with
  | nil => rfl
  | cons y ys => simp only [insBy]; rw [if_pos (h y (List.mem_cons_self ..))]

/-- stability: a list that is already in order is not changed -/
theorem isortBy_of_sorted {le : α → α → Bool} {l : List α} (h : SortedBy le l) : isortBy le l = l := by
  induction l with
  | nil => rfl
  | cons x xs ih =>
    have hp := List.pairwise_cons.mp h
    simp only [isortBy]; rw [ih hp.2, insBy_of_le hp.1]

theorem isortBy_idem {le : α → α → Bool} (htot : Total le) (htr : Trans le) (l : List α) :
    isortBy le (isortBy le l) = isortBy le l :=
  isortBy_of_sorted (sorted_isortBy htot htr l)

/-! ### filter -/

theorem filter_insBy {le : α → α → Bool} (htr : Trans le) (p : α → Bool) (x : α) (l : List α)
    (hs : SortedBy le l) :
    (insBy le x l).filter p = if p x then insBy le x (l.filter p) else l.filter p := by
  induction l with
  | nil => simp [insBy]; split <;> simp [*]
  | cons y ys ih =>
    have hp := List.pairwise_cons.mp hs
    simp only [insBy]
    by_cases hxy : le x y = true
    · rw [if_pos hxy]; simp only [List.filter_cons]
      by_cases hx : p x <;> by_cases hy : p y <;> simp [hx, hy, insBy, hxy]
      -- p x, ¬ p y : x is below everything that survives the filter
      symm; apply insBy_of_le
      intro z hz
      exact htr _ _ _ hxy (hp.1 z (List.mem_filter.mp hz).1)
    · rw [if_neg hxy]; simp only [List.filter_cons, ih hp.2]
      by_cases hx : p x <;> by_cases hy : p y <;> simp [hx, hy, insBy, hxy]

/-- **filter commutes with the stable sort** -/
theorem filter_isortBy {le : α → α → Bool} (htot : Total le) (htr : Trans le) (p : α → Bool) (l : List α) :
    (isortBy le l).filter p = isortBy le (l.filter p) := by
  induction l with
  | nil => rfl
  | cons x xs ih =>
    simp only [isortBy, filter_insBy htr p x _ (sorted_isortBy htot htr xs), ih, List.filter_cons]
    split <;> simp [isortBy]

/-- stability: the elements selected by `p` keep their relative order if they were in order before
(in particular elements with equal keys) -/
theorem filter_isortBy_of_sorted {le : α → α → Bool} (htot : Total le) (htr : Trans le) (p : α → Bool)
    (l : List α) (h : SortedBy le (l.filter p)) : (isortBy le l).filter p = l.filter p := by
  rw [filter_isortBy htot htr, isortBy_of_sorted h]

/-! ### map -/

theorem map_insBy_on {β : Type} {le : α → α → Bool} {le' : β → β → Bool} (f : α → β) (x : α) (l : List α)
    (hf : ∀ b ∈ l, le' (f x) (f b) = le x b) :
    (insBy le x l).map f = insBy le' (f x) (l.map f) := by
  induction l with
  | nil => rfl
  | cons y ys ih =>
    simp only [insBy, List.map_cons, hf y (List.mem_cons_self ..)]
    split
    · rfl
    · simp [ih (fun b hb => hf b (List.mem_cons_of_mem _ hb))]

/-- a map that preserves the comparison ON THE ELEMENTS OF THE LIST commutes with the sort -/
theorem map_isortBy_on {β : Type} {le : α → α → Bool} {le' : β → β → Bool} (f : α → β) (l : List α)
    (hf : ∀ a ∈ l, ∀ b ∈ l, le' (f a) (f b) = le a b) :
    (isortBy le l).map f = isortBy le' (l.map f) := by
  induction l with
  | nil => rfl
  | cons x xs ih =>
    simp only [isortBy, List.map_cons]
    rw [map_insBy_on f x _ (fun b hb => hf x (List.mem_cons_self ..) b
        (List.mem_cons_of_mem _ (mem_isortBy.mp hb))),
      ih (fun a ha b hb => hf a (List.mem_cons_of_mem _ ha) b (List.mem_cons_of_mem _ hb))]

/-- **a map that preserves the comparison commutes with the sort** -/
theorem map_isortBy {β : Type} {le : α → α → Bool} {le' : β → β → Bool} (f : α → β)
    (hf : ∀ a b, le' (f a) (f b) = le a b) (l : List α) :
    (isortBy le l).map f = isortBy le' (l.map f) :=
  map_isortBy_on f l (fun a _ b _ => hf a b)

/-! ### without ties the sorted permutation is unique -/

theorem eq_of_sorted_perm {le : α → α → Bool} {l1 l2 : List α} (hnt : NoTies le l1)
    (h1 : SortedBy le l1) (h2 : SortedBy le l2) (hp : l1.Perm l2) : l1 = l2 := by
  induction l1 generalizing l2 with
  | nil => exact hp.nil_eq
  | cons a l1' ih =>
    cases l2 with
    | nil => exact absurd hp.symm.nil_eq (by simp)
    | cons b l2' =>
      have hp1 := List.pairwise_cons.mp h1
      have hp2 := List.pairwise_cons.mp h2
      have hab : a = b := by
        have ha : a ∈ b :: l2' := hp.mem_iff.mp (List.mem_cons_self ..)
        have hb : b ∈ a :: l1' := hp.mem_iff.mpr (List.mem_cons_self ..)
        rcases List.mem_cons.mp ha with h | ha'
        · exact h
        · rcases List.mem_cons.mp hb with h | hb'
          · exact h.symm
          · exact hnt a (List.mem_cons_self ..) b hb (hp1.1 b hb') (hp2.1 a ha')
      subst hab
      have hp' : l1'.Perm l2' := List.Perm.cons_inv hp
      rw [ih (fun x hx y hy => hnt x (List.mem_cons_of_mem _ hx) y (List.mem_cons_of_mem _ hy)) hp1.2 hp2.2 hp']

theorem NoTies.perm {le : α → α → Bool} {l1 l2 : List α} (h : NoTies le l1) (hp : l1.Perm l2) :
    NoTies le l2 :=
  fun a ha b hb => h a (hp.mem_iff.mpr ha) b (hp.mem_iff.mpr hb)

/-- without ties the result of the sort depends on the multiset of rows only -/
theorem isortBy_eq_of_perm {le : α → α → Bool} (htot : Total le) (htr : Trans le) {l1 l2 : List α}
    (hnt : NoTies le l1) (hp : l1.Perm l2) : isortBy le l1 = isortBy le l2 := by
  apply eq_of_sorted_perm (hnt.perm (perm_isortBy le l1).symm)
    (sorted_isortBy htot htr l1) (sorted_isortBy htot htr l2)
  exact (perm_isortBy le l1).trans (hp.trans (perm_isortBy le l2).symm)

/-- **the last sort wins** when its key has no ties: an earlier sort (by any comparison) is unobservable -/
theorem isortBy_isortBy {le : α → α → Bool} (htot : Total le) (htr : Trans le) (le' : α → α → Bool)
    (l : List α) (hnt : NoTies le l) : isortBy le (isortBy le' l) = isortBy le l :=
  (isortBy_eq_of_perm htot htr hnt (perm_isortBy le' l).symm).symm

/-! ### rows -/

/-- the comparison `sortRows` sorts by -/
def leKeys (ks : List SortKey) (a b : Row) : Bool := cmpKeys ks a b != .gt

theorem sortRows_eq (ks : List SortKey) (rows : List Row) : sortRows ks rows = isortBy (leKeys ks) rows := rfl

theorem leKeys_total (ks : List SortKey) : Total (leKeys ks) :=
  fun a b => ValueOrd.le_total (cmpKeys ks) a b

theorem leKeys_trans (ks : List SortKey) : Trans (leKeys ks) :=
  fun a b c => ValueOrd.le_trans (cmpKeys ks) a b c

/-- the bookkeeping flag `ties` of the reference semantics is exactly the negation of `NoTies` -/
theorem noTies_of_hasTies {ks : List SortKey} {rows : List Row} (h : hasTies ks rows = false) :
    NoTies (leKeys ks) rows := by
  intro a ha b hb hab hba
  have heq : cmpKeys ks a b = .eq := (ValueOrd.le_le_iff_eq (cmpKeys ks) a b).mp ⟨hab, hba⟩
  by_cases hne : a = b
  · exact hne
  · exfalso
    have : hasTies ks rows = true := by
      simp only [hasTies, List.any_eq_true]
      exact ⟨a, ha, b, hb, by simp [hne, heq]⟩
    rw [h] at this; cases this

theorem hasTies_of_noTies {ks : List SortKey} {rows : List Row} (h : NoTies (leKeys ks) rows) :
    hasTies ks rows = false := by
  cases ht : hasTies ks rows with
  | false => rfl
  | true =>
    exfalso
    simp only [hasTies, List.any_eq_true, Bool.and_eq_true, bne_iff_ne, ne_eq, beq_iff_eq] at ht
    obtain ⟨a, ha, b, hb, hne, heq⟩ := ht
    have := (ValueOrd.le_le_iff_eq (cmpKeys ks) a b).mpr heq
    exact hne (h a ha b hb this.1 this.2)

theorem sortRows_sorted (ks : List SortKey) (rows : List Row) :
    (sortRows ks rows).Pairwise (fun a b => cmpKeys ks a b ≠ .gt) := by
  have := sorted_isortBy (leKeys_total ks) (leKeys_trans ks) rows
  refine List.Pairwise.imp ?_ this
  intro a b h; simpa [leKeys] using h

theorem sortRows_perm (ks : List SortKey) (rows : List Row) : (sortRows ks rows).Perm rows :=
  perm_isortBy _ rows

theorem filter_sortRows (ks : List SortKey) (p : Row → Bool) (rows : List Row) :
    (sortRows ks rows).filter p = sortRows ks (rows.filter p) :=
  filter_isortBy (leKeys_total ks) (leKeys_trans ks) p rows

theorem map_sortRows (ks ks' : List SortKey) (f : Row → Row)
    (hf : ∀ a b, cmpKeys ks' (f a) (f b) = cmpKeys ks a b) (rows : List Row) :
    (sortRows ks rows).map f = sortRows ks' (rows.map f) :=
  map_isortBy (le := leKeys ks) (le' := leKeys ks') f (fun a b => by simp [leKeys, hf]) rows

theorem sortRows_eq_of_perm (ks : List SortKey) {l1 l2 : List Row} (hnt : hasTies ks l1 = false)
    (hp : l1.Perm l2) : sortRows ks l1 = sortRows ks l2 :=
  isortBy_eq_of_perm (leKeys_total ks) (leKeys_trans ks) (noTies_of_hasTies hnt) hp

theorem sortRows_sortRows (ks ks' : List SortKey) (rows : List Row) (hnt : hasTies ks rows = false) :
    sortRows ks (sortRows ks' rows) = sortRows ks rows :=
  isortBy_isortBy (leKeys_total ks) (leKeys_trans ks) (leKeys ks') rows (noTies_of_hasTies hnt)

theorem sortRows_idem (ks : List SortKey) (rows : List Row) :
    sortRows ks (sortRows ks rows) = sortRows ks rows :=
  isortBy_idem (leKeys_total ks) (leKeys_trans ks) rows

/-- sorting by no key keeps the list -/
theorem sortRows_nil (rows : List Row) : sortRows [] rows = rows := by
  apply isortBy_of_sorted
  induction rows with
  | nil => exact List.Pairwise.nil
  | cons x xs ih => exact List.pairwise_cons.mpr ⟨fun _ _ => rfl, ih⟩

end Lemmas.SortBy
