/-
Feasibility spike (design phase), aggregate stage of C01-T2: GROUP BY / HAVING.
Formulation decision validated here: where PRQL leaves the row order unspecified (after `group` /
`aggregate`), the reference semantics picks a CANONICAL order (groups sorted by key), aggregates of the
proved core are permutation-invariant, and therefore plain list equality stays the invariant of
`step_push` – even though the block drops a sort that precedes the aggregate.
-/
import PrqlModel.Lemmas.SpSeg
open Rel Seg

namespace Agg

/-! ### permutation-invariant aggregation -/

inductive AggF | sum (e : Expr) | count

def aggVal (rows : List Row) : AggF → Int
  | .sum e => (rows.map (fun r => e.eval r)).foldr (· + ·) 0
  | .count => (rows.length : Int)

theorem foldr_add_perm {l1 l2 : List Int} (h : l1.Perm l2) :
    l1.foldr (· + ·) 0 = l2.foldr (· + ·) 0 := by
  induction h with
  | nil => rfl
  | cons x _ ih => simp [ih]
  | swap x y l => simp; omega
  | trans _ _ ih1 ih2 => exact ih1.trans ih2

theorem aggVal_perm {l1 l2 : List Row} (h : l1.Perm l2) (f : AggF) : aggVal l1 f = aggVal l2 f := by
  cases f with
  | sum e => exact foldr_add_perm (h.map _)
  | count => simp [aggVal, h.length_eq]

/-- canonical list of distinct keys: insertion-sorted, deduplicated -/
def insKey (k : Int) : List Int → List Int
  | [] => [k]
  | x :: xs => if k < x then k :: x :: xs else if k = x then x :: xs else x :: insKey k xs

def keys (ks : List Int) : List Int := ks.foldr insKey []

theorem insKey_comm (a b : Int) (l : List Int) : insKey a (insKey b l) = insKey b (insKey a l) := by
  induction l with
  | nil =>
    simp only [insKey]
    by_cases h1 : a < b <;> by_cases h2 : b < a <;> by_cases h3 : a = b <;>
      simp [insKey, h1, h2, h3] <;> (try omega)
    all_goals (first | omega | (subst h3; rfl) | (intro h; omega) | skip)
    all_goals (try (constructor <;> (first | omega | intro h; omega)))
  | cons x xs ih =>
    simp only [insKey]
    by_cases hax : a < x <;> by_cases hbx : b < x <;> by_cases hax' : a = x <;> by_cases hbx' : b = x <;>
      simp [insKey, hax, hbx, hax', hbx', ih] <;> (try omega)
    all_goals
      (by_cases hab : a < b <;> by_cases hba : b < a <;> by_cases he : a = b <;>
        simp [hab, hba, he] <;> (try omega))
    all_goals (try (first | omega | (subst_vars; simp) ))

theorem keys_perm {l1 l2 : List Int} (h : l1.Perm l2) : keys l1 = keys l2 := by
  induction h with
  | nil => rfl
  | cons x _ ih => simp [keys, List.foldr] at *; simp [ih]
  | swap x y l => simp [keys, List.foldr]; exact insKey_comm _ _ _
  | trans _ _ ih1 ih2 => exact ih1.trans ih2

/-- `aggregate` with one key column: one row per distinct key, in canonical key order -/
structure Group where
  keyCid : Nat
  key : Expr
  aggs : List (Nat × AggF)

def aggStep (g : Group) (t : List Row) : List Row :=
  (keys (t.map (fun r => g.key.eval r))).map fun k =>
    let rows := t.filter (fun r => g.key.eval r == k)
    (g.keyCid, k) :: g.aggs.map (fun ca => (ca.1, aggVal rows ca.2))

theorem aggStep_perm (g : Group) {l1 l2 : List Row} (h : l1.Perm l2) : aggStep g l1 = aggStep g l2 := by
  unfold aggStep
  rw [keys_perm (h.map _)]
  apply List.map_congr_left
  intro k _
  have hf := h.filter (fun r => g.key.eval r == k)
  simp only [List.cons.injEq, true_and]
  apply List.map_congr_left
  intro ca _
  rw [aggVal_perm hf]

theorem perm_ins (k : Row → Int) (x : Row) (l : List Row) : (ins k x l).Perm (x :: l) := by
  induction l with
  | nil => exact List.Perm.refl _
  | cons y ys ih =>
    simp only [ins]; split
    · exact List.Perm.refl _
    · exact (List.Perm.cons y ih).trans (List.Perm.swap x y ys)

theorem perm_isort (k : Row → Int) (l : List Row) : (isort k l).Perm l := by
  induction l with
  | nil => exact List.Perm.refl _
  | cons x xs ih => exact (perm_ins k x _).trans (List.Perm.cons x ih)

/-! ### block with GROUP BY / HAVING -/

inductive Tr2
  | filter (e : Expr) | sort (k : Expr) | take (s e : Option Nat) | aggregate (g : Group)

def step2 : Tr2 → List Row → List Row
  | .filter e, t => t.filter (fun r => e.eval r != 0)
  | .sort k, t => isort (fun r => k.eval r) t
  | .take s e, t => takeR s e t
  | .aggregate g, t => aggStep g t

structure Block2 where
  wheres : List Expr := []
  group : Option Group := none
  having : List Expr := []
  order : Option Expr := none
  range : Option Nat × Option Nat := (none, none)

def aggOpt (g : Option Group) (t : List Row) : List Row :=
  match g with | none => t | some g => aggStep g t

/-- SQL clause order: WHERE → GROUP BY → HAVING → ORDER BY → LIMIT -/
def evalBlock2 (b : Block2) (t : List Row) : List Row :=
  takeR b.range.1 b.range.2
    (sortOpt b.order ((aggOpt b.group (t.filter (whereOk b.wheres))).filter (whereOk b.having)))

def push2 (b : Block2) : Tr2 → Block2
  | .filter e =>
    match b.group with
    | some _ => { b with having := b.having ++ [e] }
    | none => { b with wheres := b.wheres ++ [e] }
  | .sort k => { b with order := some k }
  | .take s e => { b with range := compose b.range.1 b.range.2 s e }
  | .aggregate g => { b with group := some g, order := none }   -- the aggregate resets the order

def Adm2 (b : Block2) (t : List Row) : Tr2 → Prop
  | .filter _ => b.range = (none, none)
  | .sort k => b.range = (none, none) ∧
      ((aggOpt b.group (t.filter (whereOk b.wheres))).filter (whereOk b.having)).Pairwise
        (fun r r' => k.eval r ≠ k.eval r')
  | .take s _ => (∀ a, s = some a → 1 ≤ a) ∧ (∀ a, b.range.1 = some a → 1 ≤ a)
  | .aggregate _ => b.group = none ∧ b.having = [] ∧ b.range = (none, none)   -- Aggregate splits on a following Aggregate

theorem filter_whereOk_snoc (ws : List Expr) (e : Expr) (l : List Row) :
    (l.filter (whereOk ws)).filter (fun r => e.eval r != 0) = l.filter (whereOk (ws ++ [e])) := by
  rw [List.filter_filter]; congr 1; funext r; rw [whereOk_snoc, Bool.and_comm]

theorem step_push2 (b : Block2) (t : List Row) (tr : Tr2) (h : Adm2 b t tr) :
    step2 tr (evalBlock2 b t) = evalBlock2 (push2 b tr) t := by
  cases tr with
  | filter e =>
    have hr : b.range = (none, none) := h
    cases hg : b.group with
    | none =>
      simp only [step2, evalBlock2, push2, hg, hr, takeR_none, aggOpt]
      -- WHERE: filter through the (empty) HAVING, the sort, into the WHERE list
      have hcomm : ∀ l : List Row, ((l.filter (whereOk b.having))).filter (fun r => e.eval r != 0)
          = (l.filter (fun r => e.eval r != 0)).filter (whereOk b.having) := by
        intro l; simp [List.filter_filter, Bool.and_comm]
      cases b.order with
      | none => simp only [sortOpt]; rw [hcomm, filter_whereOk_snoc]
      | some k => simp only [sortOpt]; rw [filter_isort, hcomm, filter_whereOk_snoc]
    | some g =>
      simp only [step2, evalBlock2, push2, hg, hr, takeR_none, aggOpt]
      cases b.order with
      | none => simp only [sortOpt]; rw [filter_whereOk_snoc]
      | some k => simp only [sortOpt]; rw [filter_isort, filter_whereOk_snoc]
  | sort k =>
    obtain ⟨hr, hp⟩ := h
    simp only [step2, evalBlock2, push2, hr, takeR_none]
    cases b.order with
    | none => simp [sortOpt]
    | some j => simp only [sortOpt]; exact isort_isort _ hp
  | take s e =>
    obtain ⟨hs, hb⟩ := h
    simp only [step2, evalBlock2, push2]
    exact take_compose _ _ _ _ _ hb hs
  | aggregate g =>
    obtain ⟨hg, hh, hr⟩ := h
    simp only [step2, evalBlock2, push2, hg, hh, hr, takeR_none, aggOpt, sortOpt]
    have hT : ∀ l : List Row, l.filter (whereOk []) = l := by
      intro l; apply List.filter_eq_self.mpr; intro r _; rfl
    rw [hT, hT]
    cases b.order with
    | none => rfl
    | some k => exact aggStep_perm g (perm_isort _ _)   -- the dropped sort is unobservable

def AdmSeg2 : Block2 → List Row → List Tr2 → Prop
  | _, _, [] => True
  | b, t, tr :: rest => Adm2 b t tr ∧ AdmSeg2 (push2 b tr) t rest

theorem assemble_correct2 (seg : List Tr2) (b : Block2) (t : List Row) (h : AdmSeg2 b t seg) :
    seg.foldl (fun acc tr => step2 tr acc) (evalBlock2 b t) = evalBlock2 (seg.foldl push2 b) t := by
  induction seg generalizing b with
  | nil => rfl
  | cons tr rest ih =>
    simp only [List.foldl_cons]
    rw [step_push2 b t tr h.1]
    exact ih (push2 b tr) h.2

/-- edge cases of the property statement, in the model: a group over empty input yields no row -/
example (g : Group) : aggStep g [] = [] := rfl

end Agg
