/-
Feasibility spike (design phase) for C08-T2 / C09-T1: quote doubling is injective and self-delimiting
under the standard SQL lexer, and is NOT under a backslash-escaping lexer.
-/
namespace Quote

def esc (q : Char) : List Char → List Char
  | [] => []
  | c :: cs => if c = q then q :: q :: esc q cs else c :: esc q cs

/-- what sqlparser's Display does for `Value::SingleQuotedString` / quoted identifiers -/
def quote (q : Char) (s : List Char) : List Char := q :: (esc q s ++ [q])

def push (c : Char) (r : Option (List Char × List Char)) : Option (List Char × List Char) :=
  r.map (fun vr => (c :: vr.1, vr.2))

/-- standard SQL, one character at a time; `pending` = "the previous character was a quote that may
either end the literal or be the first half of a doubled quote" -/
def lexBody (q : Char) : Bool → List Char → Option (List Char × List Char)
  | false, [] => none
  | true, [] => some ([], [])
  | false, c :: cs => if c = q then lexBody q true cs else push c (lexBody q false cs)
  | true, c :: cs => if c = q then push q (lexBody q false cs) else some ([], c :: cs)

def lexQuoted (q : Char) : List Char → Option (List Char × List Char)
  | c :: cs => if c = q then lexBody q false cs else none
  | [] => none

theorem lexBody_esc (q : Char) (s rest : List Char) (hrest : rest.head? ≠ some q) :
    lexBody q false (esc q s ++ (q :: rest)) = some (s, rest) := by
  induction s with
  | nil =>
    cases rest with
    | nil => simp [esc, lexBody]
    | cons d ds =>
      have : d ≠ q := by simpa using hrest
      simp [esc, lexBody, this]
  | cons c cs ih =>
    by_cases hc : c = q
    · subst hc; simp [esc, lexBody, ih, push]
    · simp [esc, lexBody, hc, ih, push]

/-- **sql_quote_roundtrip**: the emitted literal lexes back to exactly `s` and stops exactly at `rest`,
whatever `s` contains (quotes, comment markers, newlines …), provided the emitter never puts another
quote immediately after the literal. -/
theorem quote_roundtrip (q : Char) (s rest : List Char) (hrest : rest.head? ≠ some q) :
    lexQuoted q (quote q s ++ rest) = some (s, rest) := by
  simp only [quote, List.cons_append, lexQuoted, if_true, List.append_assoc]
  exact lexBody_esc q s rest hrest

/-- a lexer in which backslash escapes the next character (MySQL, BigQuery, ClickHouse …) -/
def lexBodyBs (q : Char) : Nat → List Char → Option (List Char × List Char)
  -- state 0 = normal, 1 = after quote, 2 = after backslash
  | 0, [] => none
  | 1, [] => some ([], [])
  | _, [] => none
  | 0, c :: cs =>
    if c = '\\' then lexBodyBs q 2 cs else if c = q then lexBodyBs q 1 cs else push c (lexBodyBs q 0 cs)
  | 1, c :: cs => if c = q then push q (lexBodyBs q 0 cs) else some ([], c :: cs)
  | _, c :: cs => push c (lexBodyBs q 0 cs)

/-- counterexample for such dialects: the one-character string `\` swallows the closing quote -/
theorem quote_roundtrip_backslash_counterexample :
    ¬ (∀ s rest, rest.head? ≠ some '\'' →
        lexBodyBs '\'' 0 (esc '\'' s ++ ('\'' :: rest)) = some (s, rest)) := by
  intro h
  have := h ['\\'] [' ', 'x'] (by decide)
  revert this
  decide

end Quote
