/-
Feasibility spike (design phase) for C01/C03: a SELECT block evaluated in SQL clause order
(WHERE → projection → ORDER BY (last sort) → LIMIT/OFFSET) equals the pipeline-order meaning of
every segment `(filter|sort)* (compute|sort)* take*` – the shape `is_split_required` admits when no
aggregate/join is present.  Core Lean only.
-/
namespace Rel

/-! ### stable insertion sort and its algebra -/

variable {α : Type}

def ins (k : α → Int) (x : α) : List α → List α
  | [] => [x]
  | y :: ys => if k x < k y then x :: y :: ys else y :: ins k x ys

def isort (k : α → Int) : List α → List α
  | [] => []
  | x :: xs => ins k x (isort k xs)

def Sorted (k : α → Int) : List α → Prop
  | [] => True
  | [_] => True
  | x :: y :: ys => k x ≤ k y ∧ Sorted k (y :: ys)

theorem sorted_tail {k : α → Int} {x : α} {xs : List α} (h : Sorted k (x :: xs)) : Sorted k xs := by
  cases xs with
  | nil => trivial
  | cons y ys => exact h.2

theorem sorted_head_le {k : α → Int} {x : α} {xs : List α} (h : Sorted k (x :: xs)) :
    ∀ y ∈ xs, k x ≤ k y := by
  induction xs generalizing x with
  | nil => intro y hy; cases hy
  | cons z zs ih =>
    intro y hy
    rcases List.mem_cons.mp hy with rfl | hy
    · exact h.1
    · exact Int.le_trans h.1 (ih h.2 y hy)

theorem sorted_cons {k : α → Int} {x : α} {xs : List α} (hx : ∀ y ∈ xs, k x ≤ k y) (hs : Sorted k xs) :
    Sorted k (x :: xs) := by
  cases xs with
  | nil => trivial
  | cons y ys => exact ⟨hx y (List.mem_cons_self ..), hs⟩

theorem mem_ins {k : α → Int} {x y : α} {l : List α} : y ∈ ins k x l ↔ y = x ∨ y ∈ l := by
  induction l with
  | nil => simp [ins]
  | cons z zs ih =>
    simp only [ins]; split
    · simp
    · simp [ih]; constructor <;> (intro h; rcases h with h | h | h <;> simp [h])

theorem sorted_ins {k : α → Int} {x : α} {l : List α} (h : Sorted k l) : Sorted k (ins k x l) := by
  induction l with
  | nil => trivial
  | cons z zs ih =>
    simp only [ins]; split
    · exact ⟨by omega, h⟩
    · rename_i hlt
      apply sorted_cons
      · intro y hy
        rcases mem_ins.mp hy with rfl | hy
        · omega
        · exact sorted_head_le h y hy
      · exact ih (sorted_tail h)

theorem sorted_isort (k : α → Int) (l : List α) : Sorted k (isort k l) := by
  induction l with
  | nil => trivial
  | cons x xs ih => exact sorted_ins ih

/-- filtering commutes with stable insertion into a sorted list -/
theorem filter_ins {k : α → Int} (p : α → Bool) (x : α) (l : List α) (hs : Sorted k l) :
    (ins k x l).filter p = if p x then ins k x (l.filter p) else l.filter p := by
  induction l with
  | nil => simp [ins]; split <;> simp [*]
  | cons y ys ih =>
    have hle := sorted_head_le hs
    simp only [ins]
    by_cases hlt : k x < k y
    · simp only [hlt, if_true, List.filter_cons]
      by_cases hx : p x <;> by_cases hy : p y <;> simp [hx, hy, ins, hlt]
      -- p x, ¬ p y : x is below everything that survives the filter
      cases hf : ys.filter p with
      | nil => simp [ins]
      | cons z zs =>
        have hz : z ∈ ys := (List.mem_filter.mp (hf ▸ List.mem_cons_self ..)).1
        have := hle z hz
        simp only [ins]; rw [if_pos (by omega)]
    · simp only [hlt, if_false, List.filter_cons, ih (sorted_tail hs)]
      by_cases hx : p x <;> by_cases hy : p y <;> simp [hx, hy, ins, hlt]

/-- **sort_filter_comm**: WHERE may be evaluated before ORDER BY. -/
theorem filter_isort (k : α → Int) (p : α → Bool) (l : List α) :
    (isort k l).filter p = isort k (l.filter p) := by
  induction l with
  | nil => rfl
  | cons x xs ih =>
    simp only [isort, filter_ins p x _ (sorted_isort k xs), ih, List.filter_cons]
    split <;> simp [isort]

/-- **sort_map_comm**: a projection that leaves the key alone commutes with ORDER BY. -/
theorem map_ins {β : Type} {k : α → Int} {k' : β → Int} (f : α → β) (hk : ∀ a, k' (f a) = k a)
    (x : α) (l : List α) : (ins k x l).map f = ins k' (f x) (l.map f) := by
  induction l with
  | nil => rfl
  | cons y ys ih => simp only [ins, List.map_cons, hk]; split <;> simp [ih]

theorem map_isort {β : Type} {k : α → Int} {k' : β → Int} (f : α → β) (hk : ∀ a, k' (f a) = k a)
    (l : List α) : (isort k l).map f = isort k' (l.map f) := by
  induction l with
  | nil => rfl
  | cons x xs ih => simp only [isort, List.map_cons, map_ins f hk, ih]

/-- inserting into a list that is already sorted and whose elements are all ≤ … : sorted lists are
fixed points of `isort` when keys are strictly increasing or merely sorted -/
theorem ins_of_le {k : α → Int} {x : α} {l : List α} (h : ∀ y ∈ l, k x ≤ k y) (hs : Sorted k l)
    (hne : ∀ y ∈ l, k y ≠ k x) : ins k x l = x :: l := by
  cases l with
  | nil => rfl
  | cons y ys =>
    have h1 := h y (List.mem_cons_self ..)
    have h2 := hne y (List.mem_cons_self ..)
    simp only [ins]; rw [if_pos (by omega)]

/-- with distinct keys, insertion order is irrelevant: the result is determined by the key order -/
theorem ins_comm {k : α → Int} {x y : α} (hxy : k x ≠ k y) (l : List α) :
    ins k x (ins k y l) = ins k y (ins k x l) := by
  induction l with
  | nil =>
    simp only [ins]
    by_cases h1 : k x < k y <;> by_cases h2 : k y < k x <;> simp [ins, h1, h2] <;> omega
  | cons z zs ih =>
    simp only [ins]
    by_cases hx : k x < k z <;> by_cases hy : k y < k z
    · simp only [hx, hy, if_true, ins]
      by_cases h1 : k x < k y <;> by_cases h2 : k y < k x <;> simp [h1, h2, hx, hy] <;> omega
    · simp only [hx, hy, if_true, if_false, ins]
      have : k x < k y := by omega
      simp [this, hx, hy]
      omega
    · simp only [hx, hy, if_true, if_false, ins]
      have : k y < k x := by omega
      simp [this, hx, hy]
      omega
    · simp [hx, hy, ins, ih]

theorem mem_isort {k : α → Int} {y : α} {l : List α} : y ∈ isort k l ↔ y ∈ l := by
  induction l with
  | nil => simp [isort]
  | cons z zs ih => simp [isort, mem_ins, ih]

theorem pairwise_ins {k j : α → Int} {w : α} {l : List α} (hw : ∀ y ∈ l, k w ≠ k y)
    (hl : l.Pairwise (fun a b => k a ≠ k b)) : (ins j w l).Pairwise (fun a b => k a ≠ k b) := by
  induction l with
  | nil => simp [ins]
  | cons u us ih =>
    have hl' := List.pairwise_cons.mp hl
    simp only [ins]; split
    · exact List.pairwise_cons.mpr ⟨hw, hl⟩
    · refine List.pairwise_cons.mpr ⟨?_, ih (fun y hy => hw y (List.mem_cons_of_mem _ hy)) hl'.2⟩
      intro y hy
      rcases mem_ins.mp hy with rfl | hy
      · exact fun h => hw u (List.mem_cons_self ..) h.symm
      · exact hl'.1 y hy

theorem pairwise_isort {k j : α → Int} {l : List α} (hl : l.Pairwise (fun a b => k a ≠ k b)) :
    (isort j l).Pairwise (fun a b => k a ≠ k b) := by
  induction l with
  | nil => simp [isort]
  | cons x xs ih =>
    have hp := List.pairwise_cons.mp hl
    exact pairwise_ins (fun y hy => hp.1 y (mem_isort.mp hy)) (ih hp.2)

/-- **last sort wins**: when the last key has no ties, an earlier sort is unobservable. -/
theorem isort_ins_any {k : α → Int} (x : α) (l : List α) (j : α → Int)
    (hnd : ∀ y ∈ l, k y ≠ k x) :
    isort k (ins j x l) = ins k x (isort k l) := by
  induction l with
  | nil => rfl
  | cons y ys ih =>
    simp only [ins]; split
    · rfl
    · simp only [isort]
      rw [ih (fun z hz => hnd z (List.mem_cons_of_mem _ hz))]
      exact ins_comm (hnd y (List.mem_cons_self ..)) _

theorem isort_isort {k j : α → Int} (l : List α) (hpair : l.Pairwise (fun a b => k a ≠ k b)) :
    isort k (isort j l) = isort k l := by
  induction l with
  | nil => rfl
  | cons x xs ih =>
    have hp := List.pairwise_cons.mp hpair
    simp only [isort]
    rw [isort_ins_any x (isort j xs) j (fun y hy => (hp.1 y (mem_isort.mp hy)).symm), ih hp.2]

/-! ### take ranges (1-based, inclusive, as in PRQL) and LIMIT/OFFSET -/

/-- rows at positions `s..e` (1-based inclusive); `none` = open -/
def takeR (s e : Option Nat) (l : List α) : List α :=
  let off := (s.getD 1) - 1
  match e with
  | none => l.drop off
  | some e => (l.drop off).take (e - off)

def limitOffset (limit : Option Nat) (offset : Nat) (l : List α) : List α :=
  match limit with
  | none => l.drop offset
  | some n => (l.drop offset).take n

/-- mirror of `range_of_ranges` for two ranges (start ≥ 1) -/
def compose (s1 e1 s2 e2 : Option Nat) : Option Nat × Option Nat :=
  let s := match s2, s1 with
    | some b, some a => some (a + b - 1) | some b, none => some b | none, a => a
  let e2' := e2.map (fun b => s1.getD 1 + b - 1)
  let e := match e1, e2' with
    | some a, some b => some (min a b) | some a, none => some a | none, b => b
  (s, e)

theorem getElem?_takeR (s e : Option Nat) (l : List α) (i : Nat) :
    (takeR s e l)[i]? =
      match e with
      | none => l[(s.getD 1 - 1) + i]?
      | some e => if i < e - (s.getD 1 - 1) then l[(s.getD 1 - 1) + i]? else none := by
  cases e <;> simp [takeR, List.getElem?_take, List.getElem?_drop]

theorem take_compose (s1 e1 s2 e2 : Option Nat) (l : List α)
    (h1 : ∀ a, s1 = some a → 1 ≤ a) (h2 : ∀ b, s2 = some b → 1 ≤ b) :
    takeR s2 e2 (takeR s1 e1 l) = takeR (compose s1 e1 s2 e2).1 (compose s1 e1 s2 e2).2 l := by
  apply List.ext_getElem?
  intro i
  rw [getElem?_takeR, getElem?_takeR]
  have ha : ∀ a, s1 = some a → 1 ≤ a := h1
  have hb : ∀ b, s2 = some b → 1 ≤ b := h2
  cases s1 <;> cases s2 <;> cases e1 <;> cases e2 <;>
    simp only [compose, getElem?_takeR, Option.getD, Option.map] <;>
    (try have ha' := ha _ rfl) <;> (try have hb' := hb _ rfl) <;>
    (repeat' split) <;>
    first
      | rfl
      | omega
      | (congr 1; omega)
      | (exfalso; omega)
      | (simp only [Nat.min_def] at *; (repeat' split at *) <;> first | omega | (congr 1; omega))

theorem limit_offset (s e : Option Nat) (l : List α) :
    limitOffset (e.map (fun e => e - (s.getD 1 - 1))) (s.getD 1 - 1) l = takeR s e l := by
  cases e <;> rfl

end Rel
