/-
Feasibility spike (design phase) for C01-T3: the two lemmas that glue atomic segments together at a
split – `anchor_split` (i) keeps only the columns the second part needs and (ii) gives them fresh ids,
rewriting every reference (cid_redirects).  Neither changes what the second part computes.
-/
import PrqlModel.Lemmas.SpSeg
open Rel Seg

namespace Rename

def renRow (ρ : Nat → Nat) (r : Row) : Row := r.map (fun cv => (ρ cv.1, cv.2))

def renExpr (ρ : Nat → Nat) : Expr → Expr
  | .col c => .col (ρ c)
  | .lit i => .lit i
  | .add a b => .add (renExpr ρ a) (renExpr ρ b)
  | .lt a b => .lt (renExpr ρ a) (renExpr ρ b)

theorem lookup_ren (ρ : Nat → Nat) (hinj : ∀ a b, ρ a = ρ b → a = b) (c : Nat) (r : Row) :
    (renRow ρ r).lookup (ρ c) = r.lookup c := by
  induction r with
  | nil => rfl
  | cons x xs ih =>
    obtain ⟨d, v⟩ := x
    by_cases h : c = d
    · subst h; simp [renRow, List.lookup]
    · have h' : ρ c ≠ ρ d := fun e => h (hinj _ _ e)
      have hb : (c == d) = false := by simp [h]
      have hb' : (ρ c == ρ d) = false := by simp [h']
      simp only [renRow, List.map_cons, List.lookup, hb, hb']
      exact ih

/-- **rename_eval**: evaluating the rewritten expression on the re-labelled row gives the same value -/
theorem eval_ren (ρ : Nat → Nat) (hinj : ∀ a b, ρ a = ρ b → a = b) (e : Expr) (r : Row) :
    (renExpr ρ e).eval (renRow ρ r) = e.eval r := by
  induction e with
  | col c => simp [renExpr, Expr.eval, lookup_ren ρ hinj]
  | lit i => rfl
  | add a b iha ihb => simp [renExpr, Expr.eval, iha, ihb]
  | lt a b iha ihb => simp [renExpr, Expr.eval, iha, ihb]

def renTr (ρ : Nat → Nat) : Tr → Tr
  | .filter e => .filter (renExpr ρ e)
  | .compute c e => .compute (ρ c) (renExpr ρ e)
  | .sort k => .sort (renExpr ρ k)
  | .take s e => .take s e

theorem map_takeR {α β : Type} (f : α → β) (s e : Option Nat) (l : List α) :
    (takeR s e l).map f = takeR s e (l.map f) := by
  cases e <;> simp [takeR, List.map_drop, List.map_take]

/-- **rename_step**: a transform with all its column ids rewritten commutes with re-labelling the rows -/
theorem step_ren (ρ : Nat → Nat) (hinj : ∀ a b, ρ a = ρ b → a = b) (tr : Tr) (t : List Row) :
    step (renTr ρ tr) (t.map (renRow ρ)) = (step tr t).map (renRow ρ) := by
  cases tr with
  | filter e =>
    simp only [step, renTr, List.filter_map]
    congr 1
    apply List.filter_congr
    intro r _
    simp [Function.comp, eval_ren ρ hinj]
  | compute c e =>
    simp only [step, renTr, List.map_map]
    apply List.map_congr_left
    intro r _
    simp [Function.comp, ext, renRow, eval_ren ρ hinj e r]
    exact eval_ren ρ hinj e r
  | sort k =>
    simp only [step, renTr]
    rw [map_isort (k := fun r => k.eval r) (k' := fun r => (renExpr ρ k).eval r) (renRow ρ)
          (fun r => eval_ren ρ hinj k r)]
  | take s e => simp only [step, renTr]; exact (map_takeR _ _ _ _).symm

theorem evalSeg_ren (ρ : Nat → Nat) (hinj : ∀ a b, ρ a = ρ b → a = b) (seg : List Tr) (t : List Row) :
    evalSeg (seg.map (renTr ρ)) (t.map (renRow ρ)) = (evalSeg seg t).map (renRow ρ) := by
  induction seg generalizing t with
  | nil => rfl
  | cons tr rest ih =>
    simp only [evalSeg, List.map_cons, List.foldl_cons]
    rw [step_ren ρ hinj]
    exact ih _

/-- **restrict_eval**: columns an expression does not read can be dropped from the row -/
theorem lookup_restrict (S : List Nat) (c : Nat) (hc : c ∈ S) (r : Row) :
    (r.filter (fun cv => decide (cv.1 ∈ S))).lookup c = r.lookup c := by
  induction r with
  | nil => rfl
  | cons x xs ih =>
    obtain ⟨d, v⟩ := x
    by_cases hd : d ∈ S
    · simp only [List.filter_cons, hd, decide_true, if_true, List.lookup]
      split <;> simp_all
    · have hcd : (c == d) = false := by
        simp; intro e; subst e; exact hd hc
      simp only [List.filter_cons, hd, decide_false, List.lookup, hcd]
      simpa using ih

theorem eval_restrict (S : List Nat) (e : Expr) (r : Row) (h : ∀ c ∈ e.reads, c ∈ S) :
    e.eval (r.filter (fun cv => decide (cv.1 ∈ S))) = e.eval r := by
  induction e with
  | col c =>
    have hc : c ∈ S := h c (by simp [Expr.reads])
    simp only [Expr.eval, lookup_restrict S c hc]
  | lit i => rfl
  | add a b iha ihb =>
    simp only [Expr.reads, List.mem_append] at h
    simp only [Expr.eval]
    rw [iha (fun c hc => h c (Or.inl hc)), ihb (fun c hc => h c (Or.inr hc))]
  | lt a b iha ihb =>
    simp only [Expr.reads, List.mem_append] at h
    simp only [Expr.eval]
    rw [iha (fun c hc => h c (Or.inl hc)), ihb (fun c hc => h c (Or.inr hc))]

end Rename
