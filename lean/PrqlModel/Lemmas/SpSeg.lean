/-
Feasibility spike (design phase) for C01-T2 `assemble_correct`: every pipeline segment that the
split rule lets into ONE select block – filters, sorts, computes, takes in the admissible order –
means the same as the block evaluated in SQL clause order
   WHERE (all filters) → projection (all computes) → ORDER BY (last sort) → LIMIT/OFFSET (composed takes).
Proof = one commutation lemma per transform against the block normal form, then induction over the
segment.  Core Lean only; imports the sort/take algebra of Rel.lean.
-/
import PrqlModel.Lemmas.SpRel
open Rel

namespace Seg

abbrev Row := List (Nat × Int)

inductive Expr
  | col (c : Nat) | lit (i : Int) | add (a b : Expr) | lt (a b : Expr)

def Expr.eval (r : Row) : Expr → Int
  | .col c => (r.lookup c).getD 0
  | .lit i => i
  | .add a b => a.eval r + b.eval r
  | .lt a b => if a.eval r < b.eval r then 1 else 0

def Expr.reads : Expr → List Nat
  | .col c => [c]
  | .lit _ => []
  | .add a b => a.reads ++ b.reads
  | .lt a b => a.reads ++ b.reads

/-- an expression does not see a column it does not read -/
theorem eval_cons_fresh (e : Expr) (c : Nat) (v : Int) (r : Row) (h : c ∉ e.reads) :
    e.eval ((c, v) :: r) = e.eval r := by
  induction e with
  | col d =>
    have hne : d ≠ c := by
      intro hdc; apply h; simp [Expr.reads, hdc]
    have hbeq : (d == c) = false := by simp [hne]
    simp [Expr.eval, List.lookup, hbeq]
  | lit i => rfl
  | add a b iha ihb =>
    simp [Expr.reads] at h; simp [Expr.eval, iha h.1, ihb h.2]
  | lt a b iha ihb =>
    simp [Expr.reads] at h; simp [Expr.eval, iha h.1, ihb h.2]

inductive Tr
  | filter (e : Expr)
  | compute (c : Nat) (e : Expr)
  | sort (k : Expr)
  | take (s e : Option Nat)

def ext (c : Nat) (e : Expr) (r : Row) : Row := (c, e.eval r) :: r

/-- documented meaning of one transform (rows are an ordered list) -/
def step : Tr → List Row → List Row
  | .filter e, t => t.filter (fun r => e.eval r != 0)
  | .compute c e, t => t.map (ext c e)
  | .sort k, t => isort (fun r => k.eval r) t
  | .take s e, t => takeR s e t

def evalSeg (seg : List Tr) (t : List Row) : List Row := seg.foldl (fun acc tr => step tr acc) t

/-- one SELECT block -/
structure Block where
  wheres : List Expr := []
  computes : List (Nat × Expr) := []
  order : Option Expr := none
  range : Option Nat × Option Nat := (none, none)

def project (cs : List (Nat × Expr)) (r : Row) : Row := cs.foldl (fun r ce => ext ce.1 ce.2 r) r
def whereOk (ws : List Expr) (r : Row) : Bool := ws.all (fun e => e.eval r != 0)
def sortOpt (o : Option Expr) (t : List Row) : List Row :=
  match o with | none => t | some k => isort (fun r => k.eval r) t

/-- SQL clause order -/
def evalBlock (b : Block) (t : List Row) : List Row :=
  takeR b.range.1 b.range.2 (sortOpt b.order ((t.filter (whereOk b.wheres)).map (project b.computes)))

/-- what `translate_select_pipeline` does with one more transform of the segment -/
def push (b : Block) : Tr → Block
  | .filter e => { b with wheres := b.wheres ++ [e] }
  | .compute c e => { b with computes := b.computes ++ [(c, e)] }
  | .sort k => { b with order := some k }
  | .take s e => { b with range := compose b.range.1 b.range.2 s e }

def assemble (seg : List Tr) : Block := seg.foldl push {}

/-- admissibility of the next transform (this is what the split table + wfRq provide):
  * filter only before any compute and any take         (Compute/Take split on a following Filter)
  * compute / sort only before any take                  (Take splits on a following Compute/Sort)
  * a new compute is not read by the ORDER BY key already in place (fresh cid, C16)
  * a new sort key has no ties on the rows it orders     (hypothesis of C03: total order)
  * take bounds are ≥ 1                                  (validate_take_range) -/
def Adm (b : Block) (t : List Row) : Tr → Prop
  | .filter _ => b.computes = [] ∧ b.range = (none, none)
  | .compute c _ => b.range = (none, none) ∧ (∀ k, b.order = some k → c ∉ k.reads)
  | .sort k => b.range = (none, none) ∧
      ((t.filter (whereOk b.wheres)).map (project b.computes)).Pairwise (fun r r' => k.eval r ≠ k.eval r')
  | .take s _ => (∀ a, s = some a → 1 ≤ a) ∧ (∀ a, b.range.1 = some a → 1 ≤ a)

theorem takeR_none (l : List Row) : takeR none none l = l := by simp [takeR]

theorem project_snoc (cs : List (Nat × Expr)) (c : Nat) (e : Expr) (r : Row) :
    project (cs ++ [(c, e)]) r = ext c e (project cs r) := by
  simp [project, List.foldl_append]

theorem whereOk_snoc (ws : List Expr) (e : Expr) (r : Row) :
    whereOk (ws ++ [e]) r = (whereOk ws r && (e.eval r != 0)) := by
  simp [whereOk, List.all_append]

/-- the commutation step: applying the transform to the block's result = the block with the transform pushed -/
theorem step_push (b : Block) (t : List Row) (tr : Tr) (h : Adm b t tr) :
    step tr (evalBlock b t) = evalBlock (push b tr) t := by
  cases tr with
  | filter e =>
    obtain ⟨hc, hr⟩ := h
    simp only [step, evalBlock, push, hc, hr, takeR_none]
    have hpid : project [] = id := by funext r; rfl
    have hproj : ∀ l : List Row, l.map (project []) = l := by intro l; simp [hpid]
    rw [hproj, hproj]
    have hff : (t.filter (whereOk b.wheres)).filter (fun r => e.eval r != 0)
        = t.filter (whereOk (b.wheres ++ [e])) := by
      rw [List.filter_filter]; congr 1; funext r; rw [whereOk_snoc, Bool.and_comm]
    cases b.order with
    | none => simpa [sortOpt] using hff
    | some k =>
      simp only [sortOpt]
      rw [filter_isort, hff]
  | compute c e =>
    obtain ⟨hr, hfresh⟩ := h
    simp only [step, evalBlock, push, hr, takeR_none]
    have hmap : ∀ l : List Row, (l.map (project b.computes)).map (ext c e) = l.map (project (b.computes ++ [(c, e)])) := by
      intro l; simp [List.map_map, Function.comp_def, project_snoc]
    cases ho : b.order with
    | none => simp [sortOpt, hmap]
    | some k =>
      simp only [sortOpt]
      rw [map_isort (k := fun r => k.eval r) (k' := fun r => k.eval r) (ext c e)
            (fun r => eval_cons_fresh k c _ r (hfresh k ho)), hmap]
  | sort k =>
    obtain ⟨hr, hp⟩ := h
    simp only [step, evalBlock, push, hr, takeR_none]
    cases b.order with
    | none => simp [sortOpt]
    | some j =>
      simp only [sortOpt]
      exact isort_isort _ hp
  | take s e =>
    obtain ⟨hs, hb⟩ := h
    simp only [step, evalBlock, push]
    exact take_compose _ _ _ _ _ hb hs

/-- admissibility along a whole segment -/
def AdmSeg : Block → List Row → List Tr → Prop
  | _, _, [] => True
  | b, t, tr :: rest => Adm b t tr ∧ AdmSeg (push b tr) t rest

theorem assemble_correct_aux (seg : List Tr) (b : Block) (t : List Row) (h : AdmSeg b t seg) :
    evalSeg seg (evalBlock b t) = evalBlock (seg.foldl push b) t := by
  induction seg generalizing b with
  | nil => rfl
  | cons tr rest ih =>
    simp only [evalSeg, List.foldl_cons]
    rw [step_push b t tr h.1]
    exact ih (push b tr) h.2

/-- **assemble_correct** (spike form of C01-T2): clause-order evaluation of the assembled block
equals pipeline-order evaluation of the segment, for every admissible segment and every table. -/
theorem assemble_correct (seg : List Tr) (t : List Row) (h : AdmSeg {} t seg) :
    evalBlock (assemble seg) t = evalSeg seg t := by
  have h0 : evalBlock {} t = t := by
    have h1 : t.filter (whereOk []) = t := by
      apply List.filter_eq_self.mpr; intro r _; rfl
    have hpid : project [] = id := by funext r; rfl
    have h2 : ∀ l : List Row, l.map (project []) = l := by intro l; simp [hpid]
    simp [evalBlock, sortOpt, takeR_none, h1, h2]
  have := assemble_correct_aux seg {} t h
  rw [h0] at this
  exact this.symm

/-- non-vacuity: `filter a<5 | sort b | derive x = a+b | sort x | take 2..3` is admissible on a table
with distinct keys -/
example : AdmSeg {} [[(0,1),(1,10)],[(0,2),(1,7)],[(0,9),(1,3)],[(0,3),(1,4)]]
    [.filter (.lt (.col 0) (.lit 5)), .sort (.col 1), .compute 2 (.add (.col 0) (.col 1)),
     .sort (.col 2), .take (some 2) (some 3)] := by
  simp [AdmSeg, Adm, push, whereOk, project, ext, Expr.eval, Expr.reads, List.lookup]

end Seg
