import PrqlModel.Model.Split
namespace Lemmas.Split
open Gen.Split Model.Split

/-- boolean form of "the extracted table splits wherever SQL clause order demands it" -/
def tableSoundB : Bool :=
  Kind.all.all fun a => Kind.all.all fun b => [true, false].all fun g =>
    !(mustSplit a b g) || knownGap a b || !(recorded b) ||
      (if splitsOnAnything a then true else (splitSet a g).contains b)

theorem kind_mem_all (k : Kind) : k ∈ Kind.all := by cases k <;> decide

/-- the full statement, without the excluded pairs -/
def tableSoundFullB : Bool :=
  Kind.all.all fun a => Kind.all.all fun b => [true, false].all fun g =>
    !(mustSplit a b g) || !(recorded b) ||
      (if splitsOnAnything a then true else (splitSet a g).contains b)

theorem table_sound_of_B (h : tableSoundB = true) (a b : Kind) (g : Bool)
    (hm : mustSplit a b g = true) (hk : knownGap a b = false) (hr : recorded b = true) :
    splitsOnAnything a = true ∨ b ∈ splitSet a g := by
  have h1 := List.all_eq_true.mp h a (kind_mem_all a)
  have h2 := List.all_eq_true.mp h1 b (kind_mem_all b)
  have h3 := List.all_eq_true.mp h2 g (by cases g <;> simp)
  simp only [hm, hk, hr, Bool.not_true, Bool.false_or] at h3
  by_cases hs : splitsOnAnything a = true
  · exact Or.inl hs
  · simp only [hs] at h3
    right
    simpa using h3

/-- invariant of the scan: every kept transform is compatible with everything kept after it -/
def Compatible (seg : List Kind) : Prop :=
  ∀ pre a post, seg = pre ++ a :: post →
    splitRequired a (recordedOf post) = false

theorem recordedOf_cons (k : Kind) (seg : List Kind) : recordedOf (k :: seg) = record k (recordedOf seg) := by
  unfold recordedOf record
  by_cases h : recorded k = true <;> simp [List.filter_cons, h]

theorem scan_compatible (rev following acc : List Kind)
    (hf : following = recordedOf acc) (hc : Compatible acc) :
    Compatible (scan rev following acc) := by
  induction rev generalizing following acc with
  | nil => simpa [scan] using hc
  | cons k rest ih =>
    simp only [scan]
    split
    · exact hc
    · next hns =>
      apply ih
      · rw [recordedOf_cons, hf]
      · intro pre a post heq
        cases pre with
        | nil =>
          simp only [List.nil_append, List.cons.injEq] at heq
          obtain ⟨rfl, rfl⟩ := heq
          rw [← hf]; simpa using hns
        | cons p ps =>
          simp only [List.cons_append, List.cons.injEq] at heq
          exact hc ps a post heq.2

theorem scan_suffix (rev following acc : List Kind) :
    ∃ pre, scan rev following acc = pre ++ acc ∧ pre.reverse <+: rev := by
  induction rev generalizing following acc with
  | nil => exact ⟨[], by simp [scan]⟩
  | cons k rest ih =>
    simp only [scan]
    split
    · exact ⟨[], by simp⟩
    · obtain ⟨pre, h1, h2⟩ := ih (record k following) (k :: acc)
      refine ⟨pre ++ [k], by simp [h1], ?_⟩
      simp only [List.reverse_append, List.reverse_cons, List.reverse_nil, List.nil_append,
        List.singleton_append]
      exact List.prefix_cons_inj k |>.mpr h2

end Lemmas.Split
