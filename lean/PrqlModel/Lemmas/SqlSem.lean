/-
Per-operator agreement between SQLite's operations on INTEGER / REAL / NULL (`SVal`) and the documented operations on
`Value`: the SQL the emitter chooses for an operator computes the documented value (T5 of C02), with the two exceptions
that are findings: integer `/` (generic dialect) and the sqlite `//` template.
-/
import PrqlModel.Model.SqlExpr
namespace Lemmas.SqlSem
open Model.Val Model.PExpr Model.SqlExpr

theorem tv_null : SVal.null.toValue = Value.null := rfl
theorem tv_int (i : Int) : (SVal.int i).toValue = Value.num i := rfl
theorem tv_real (q : Rat) : (SVal.real q).toValue = Value.num q := rfl

theorem sBool_toValue (b : Bool) : (sBool b).toValue = ofBool b := by
  cases b <;> simp [sBool, tv_int, ofBool]

theorem sBool3_toValue (b : Option Bool) : (sBool3 b).toValue = ofBool3 b := by
  cases b <;> simp [sBool3, ofBool3, tv_null, sBool_toValue]

theorem truth_toValue (a : SVal) : a.toValue.truth = a.truth := by
  cases a <;> simp [tv_null, tv_int, tv_real, Value.truth, SVal.truth, SVal.rat?]

theorem isNull_toValue (a : SVal) : a.toValue.isNull = a.isNull := by
  cases a <;> rfl

theorem not_meaning0 (a : SVal) : (sNot a).toValue = vNot a.toValue := by
  simp [sNot, vNot, sBool3_toValue, truth_toValue]

/-- `x IS NULL` is the null test, `x IS NOT NULL` its negation -/
theorem is_null_meaning (a : SVal) :
    (sIsNull a).toValue = vIsNull a.toValue ∧ (sNot (sIsNull a)).toValue = vNot (vIsNull a.toValue) := by
  cases a <;> simp [sIsNull, SVal.isNull, vIsNull, tv_null, tv_int, tv_real, Value.isNull, sBool_toValue, not_meaning0]

theorem and_meaning (a b : SVal) : (sAnd a b).toValue = vAnd a.toValue b.toValue := by
  simp [sAnd, vAnd, sBool3_toValue, truth_toValue]
theorem or_meaning (a b : SVal) : (sOr a b).toValue = vOr a.toValue b.toValue := by
  simp [sOr, vOr, sBool3_toValue, truth_toValue]
theorem not_meaning (a : SVal) : (sNot a).toValue = vNot a.toValue := by
  simp [sNot, vNot, sBool3_toValue, truth_toValue]

theorem cmp_meaning (c : Cmp) (a b : SVal) : vCmp c a.toValue b.toValue = some (sCmp c a b).toValue := by
  cases a <;> cases b <;> simp [vCmp, lift2, sCmp, tv_null, tv_int, tv_real, SVal.rat?, sBool_toValue]

/-- `x BETWEEN lo AND hi` is `x >= lo && x <= hi` in three-valued logic -/
theorem between_meaning (x lo hi : SVal) :
    betweenVal x.toValue lo.toValue hi.toValue = some (sAnd (sCmp .ge x lo) (sCmp .le x hi)).toValue := by
  simp [betweenVal, cmp_meaning, and_meaning]

/-- `COALESCE(a, b)` picks the first non-null operand -/
theorem coalesce_meaning (a b : SVal) : (sCoalesce a b).toValue = vCoalesce a.toValue b.toValue := by
  cases a <;> simp [sCoalesce, vCoalesce, SVal.isNull, tv_null, tv_int, tv_real, Value.isNull]

/-- `CASE WHEN c THEN v … ELSE e END` picks the first true branch; without a default the result is NULL -/
theorem case_meaning (ρ : SEnv) (c v rest : SqlE) (vc : SVal) (hc : evalS ρ c = some vc) :
    evalS ρ (.caseW c v rest) = (if vc.toValue.truth = some true then evalS ρ v else evalS ρ rest) := by
  simp [evalS, hc, truth_toValue]
theorem case_default_null (ρ : SEnv) : evalS ρ (.caseElse .null) = some .null := rfl

theorem add_meaning (a b : SVal) : vAdd a.toValue b.toValue = some (sAdd a b).toValue := by
  cases a <;> cases b <;> simp [vAdd, lift2, sAdd, sArith, tv_null, tv_int, tv_real]
theorem sub_meaning (a b : SVal) : vSub a.toValue b.toValue = some (sSub a b).toValue := by
  cases a <;> cases b <;> simp [vSub, lift2, sSub, sArith, tv_null, tv_int, tv_real]
theorem mul_meaning (a b : SVal) : vMul a.toValue b.toValue = some (sMul a b).toValue := by
  cases a <;> cases b <;> simp [vMul, lift2, sMul, sArith, tv_null, tv_int, tv_real]
theorem neg_meaning (a : SVal) : (sNeg a).toValue = vNeg a.toValue := by
  cases a <;> simp [sNeg, vNeg, tv_null, tv_int, tv_real]

/-- the REAL literal `1.0` -/
theorem one_point_zero (ρ : SEnv) : evalS ρ (.num 10 1) = some (.real 1) := by
  simp only [evalS]; decide +kernel

theorem int_zero_iff (i : Int) : ((i : Rat) = 0) ↔ i = 0 := by
  constructor
  · intro h; exact_mod_cast h
  · intro h; subst h; rfl

/-- sqlite dialect: `(l * 1.0 / r)` is real division for every combination of INTEGER / REAL / NULL operands -/
theorem real_division_meaning (a b : SVal) :
    vDivF a.toValue b.toValue = some (sDiv (sMul a (.real 1)) b).toValue := by
  cases a <;> cases b <;> simp [vDivF, lift2, sDiv, sMul, sArith, tv_null, tv_int, tv_real, int_zero_iff] <;>
    split <;> simp_all [tv_null, tv_int, tv_real]

/-- generic dialect: `l / r` is INTEGER division on SQLite for integer operands: 7 / 2 = 3, documented 7/2 -/
theorem generic_division_counterexample :
    (sDiv (.int 7) (.int 2)).toValue = .num 3 ∧ vDivF (.num 7) (.num 2) = some (.num (7 / 2)) := by
  constructor <;> decide +kernel

/-- the sqlite `//` template on values: ROUND(ABS(l / r) - 0.5) * SIGN(l) * SIGN(r) -/
def divITemplateSqlite (l r : SVal) : SVal :=
  sMul (sMul (sRound (sSub (sAbs (sDiv l r)) (.real (1 / 2)))) (sSign l)) (sSign r)
/-- the generic `//` template: FLOOR(ABS(l / r)) * SIGN(l) * SIGN(r) -/
def divITemplateGeneric (l r : SVal) : SVal :=
  sMul (sMul (sFloor (sAbs (sDiv l r))) (sSign l)) (sSign r)

def intRange : List Int := [-9, -8, -7, -6, -5, -4, -3, -2, -1, 0, 1, 2, 3, 4, 5, 6, 7, 8, 9]

/-- `//` (sqlite) is FALSE for INTEGER operands with 0 < |l| < |r|: `1 // 2` gives -1 -/
theorem div_i_sqlite_counterexample :
    (divITemplateSqlite (.int 1) (.int 2)).toValue = .num (-1) ∧ vDivI (.num 1) (.num 2) = some (.num 0) := by
  constructor <;> decide +kernel

/-- `//` (sqlite), partial, checked on all integer pairs of [-9, 9]: truncating division whenever NOT (0 < |l| < |r|) -/
theorem div_i_sqlite_partial_bounded :
    intRange.all (fun l => intRange.all fun r =>
      (decide (0 < l.natAbs ∧ l.natAbs < r.natAbs)) ||
        (vDivI (.num l) (.num r) == some (divITemplateSqlite (.int l) (.int r)).toValue)) = true := by
  decide +kernel

/-- with a REAL operand the sqlite template is right also for small quotients (halves: 0.5 // 1, 1.5 // 1, -2.5 // 2 …) -/
theorem div_i_sqlite_real_bounded :
    intRange.all (fun l => intRange.all fun r =>
      (vDivI (.num ((l : Rat) / 2)) (.num r) == some (divITemplateSqlite (.real ((l : Rat) / 2)) (.int r)).toValue)) = true := by
  decide +kernel

/-- `//` (generic template) on all integer pairs of [-9, 9] -/
theorem div_i_generic_bounded :
    intRange.all (fun l => intRange.all fun r =>
      (vDivI (.num l) (.num r) == some (divITemplateGeneric (.int l) (.int r)).toValue)) = true := by
  decide +kernel

end Lemmas.SqlSem
