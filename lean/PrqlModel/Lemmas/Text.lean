/- Helper lemmas about Model/Text (byte/char offsets, line/column). Core Lean only. -/
import PrqlModel.Model.Text
namespace Model.Text

theorem utf8Width_pos (c : Char) : 1 ≤ utf8Width c := by
  unfold utf8Width; split <;> (try split) <;> (try split) <;> omega

theorem utf8Width_le (c : Char) : utf8Width c ≤ 4 := by
  unfold utf8Width; split <;> (try split) <;> (try split) <;> omega

theorem length_le_byteLen (s : Src) : s.length ≤ byteLen s := by
  induction s with
  | nil => simp [byteLen]
  | cons c cs ih => have := utf8Width_pos c; simp [byteLen]; omega

theorem byteOfChar_zero (s : Src) : byteOfChar s 0 = 0 := by simp [byteOfChar, byteLen]

theorem byteOfChar_cons_succ (c : Char) (cs : Src) (k : Nat) :
    byteOfChar (c :: cs) (k + 1) = utf8Width c + byteOfChar cs k := by
  simp [byteOfChar, byteLen]

theorem byteOfChar_length (s : Src) : byteOfChar s s.length = byteLen s := by
  simp [byteOfChar]

theorem byteOfChar_le_byteLen (s : Src) (k : Nat) : byteOfChar s k ≤ byteLen s := by
  induction s generalizing k with
  | nil => simp [byteOfChar, byteLen]
  | cons c cs ih =>
    cases k with
    | zero => simp [byteOfChar, byteLen]
    | succ k => rw [byteOfChar_cons_succ]; have := ih k; simp [byteLen]; omega

/-- a successful conversion lands inside the text and denotes the same position -/
theorem charOfByte_some {s : Src} {b k : Nat} (h : charOfByte s b = some k) :
    k ≤ s.length ∧ byteOfChar s k = b := by
  induction s generalizing b k with
  | nil =>
    cases b with
    | zero => simp [charOfByte] at h; subst h; simp [byteOfChar, byteLen]
    | succ b => simp [charOfByte] at h
  | cons c cs ih =>
    cases b with
    | zero => simp [charOfByte] at h; subst h; simp [byteOfChar, byteLen]
    | succ b =>
      simp only [charOfByte] at h
      split at h
      · cases h
      · next hw =>
        cases hr : charOfByte cs (b + 1 - utf8Width c) with
        | none => simp [hr] at h
        | some k' =>
          simp [hr] at h; subst h
          have := ih hr
          rw [byteOfChar_cons_succ]
          simp; omega

theorem charOfByte_le_byteLen {s : Src} {b k : Nat} (h : charOfByte s b = some k) : b ≤ byteLen s := by
  have := charOfByte_some h
  rw [← this.2]; exact byteOfChar_le_byteLen s k

/-- the conversion is monotone -/
theorem charOfByte_mono {s : Src} {b1 b2 k1 k2 : Nat}
    (h1 : charOfByte s b1 = some k1) (h2 : charOfByte s b2 = some k2) (hle : b1 ≤ b2) : k1 ≤ k2 := by
  induction s generalizing b1 b2 k1 k2 with
  | nil =>
    cases b1 with
    | zero => simp [charOfByte] at h1; omega
    | succ b => simp [charOfByte] at h1
  | cons c cs ih =>
    cases b1 with
    | zero => simp [charOfByte] at h1; omega
    | succ b1 =>
      cases b2 with
      | zero => omega
      | succ b2 =>
        simp only [charOfByte] at h1 h2
        split at h1
        · cases h1
        · split at h2
          · cases h2
          · cases hr1 : charOfByte cs (b1 + 1 - utf8Width c) with
            | none => simp [hr1] at h1
            | some a1 =>
              cases hr2 : charOfByte cs (b2 + 1 - utf8Width c) with
              | none => simp [hr2] at h2
              | some a2 =>
                simp [hr1] at h1; simp [hr2] at h2
                have := ih hr1 hr2 (by omega)
                omega

/-- character offsets are boundaries, and converting back gives the character offset -/
theorem charOfByte_byteOfChar (s : Src) (k : Nat) (hk : k ≤ s.length) :
    charOfByte s (byteOfChar s k) = some k := by
  induction s generalizing k with
  | nil => simp at hk; subst hk; simp [byteOfChar, byteLen, charOfByte]
  | cons c cs ih =>
    cases k with
    | zero => simp [byteOfChar, byteLen, charOfByte]
    | succ k =>
      rw [byteOfChar_cons_succ]
      have hw := utf8Width_pos c
      obtain ⟨m, hm⟩ : ∃ m, utf8Width c + byteOfChar cs k = m + 1 := ⟨utf8Width c + byteOfChar cs k - 1, by omega⟩
      rw [hm]
      simp only [charOfByte]
      have : ¬ (m + 1 < utf8Width c) := by omega
      simp only [this, if_false]
      have : m + 1 - utf8Width c = byteOfChar cs k := by omega
      rw [this, ih k (by simpa using hk)]
      rfl

/-- with only one-byte characters before it, a byte offset *is* the character offset -/
theorem charOfByte_ascii {s : Src} {n b : Nat} (ha : asciiPrefix s n) (hb : b ≤ n) (hl : b ≤ byteLen s) :
    charOfByte s b = some b := by
  induction s generalizing n b with
  | nil => simp [byteLen] at hl; subst hl; simp [charOfByte]
  | cons c cs ih =>
    cases b with
    | zero => simp [charOfByte]
    | succ b =>
      cases n with
      | zero => omega
      | succ n =>
        have hc : utf8Width c = 1 := ha c (by simp)
        have ha' : asciiPrefix cs n := by
          intro d hd; exact ha d (by simp [hd])
        simp only [charOfByte, hc]
        have : ¬ (b + 1 < 1) := by omega
        simp only [this, if_false]
        have hl' : b ≤ byteLen cs := by simp [byteLen, hc] at hl; omega
        have : b + 1 - 1 = b := by omega
        rw [this, ih ha' (by omega) hl']
        rfl

theorem charOfByteSteps_le (s : Src) (b : Nat) : charOfByteSteps s b ≤ b ∧ charOfByteSteps s b ≤ s.length := by
  induction s generalizing b with
  | nil => cases b <;> simp [charOfByteSteps]
  | cons c cs ih =>
    cases b with
    | zero => simp [charOfByteSteps]
    | succ b =>
      simp only [charOfByteSteps]
      have hw := utf8Width_pos c
      split
      · simp
      · have := ih (b + 1 - utf8Width c); simp; omega

theorem lineColSteps_le (s : Src) (off : Nat) : lineColSteps s off ≤ off ∧ lineColSteps s off ≤ s.length := by
  induction s generalizing off with
  | nil => cases off <;> simp [lineColSteps]
  | cons c cs ih =>
    cases off with
    | zero => simp [lineColSteps]
    | succ off => simp only [lineColSteps]; have := ih off; simp; omega

/-! ### line / column -/

theorem brkAt_cons_succ (c : Char) (rest : Src) (i : Nat) : brkAt (c :: rest) (i + 1) = brkAt rest i := rfl
theorem brkAt_cons_zero (c : Char) (rest : Src) : brkAt (c :: rest) 0 = breakAfter c rest := rfl

theorem count_range_succ (f : Nat → Bool) (n : Nat) :
    ((List.range (n + 1)).filter f).length
      = (if f 0 then 1 else 0) + ((List.range n).filter (fun i => f (i + 1))).length := by
  rw [List.range_succ_eq_map, List.filter_cons, List.filter_map]
  split <;> simp [Function.comp_def] <;> omega

/-- the scan computes: line = number of line starts in `(0, off]`; column = distance to the last one -/
theorem lineColAux_spec (s : Src) (off l0 c0 : Nat) (h : off ≤ s.length) :
    (lineColAux s off l0 c0).1 = l0 + ((List.range off).filter (brkAt s)).length ∧
    (((lineColAux s off l0 c0).2 = c0 + off ∧ ∀ i, i < off → brkAt s i = false) ∨
     ((lineColAux s off l0 c0).2 < off ∧ brkAt s (off - (lineColAux s off l0 c0).2 - 1) = true ∧
        ∀ i, off - (lineColAux s off l0 c0).2 ≤ i → i < off → brkAt s i = false)) := by
  induction s generalizing off l0 c0 with
  | nil =>
    have : off = 0 := by simpa using h
    subst this; simp [lineColAux]
  | cons ch rest ih =>
    cases off with
    | zero => simp [lineColAux]
    | succ off =>
      have h' : off ≤ rest.length := by simpa using h
      rw [count_range_succ]
      simp only [brkAt_cons_succ, brkAt_cons_zero]
      have heta : (fun i => brkAt rest i) = brkAt rest := rfl
      rw [heta]
      by_cases hb : breakAfter ch rest = true
      · simp only [lineColAux, hb, if_true]
        have ⟨e1, e2⟩ := ih off (l0 + 1) 0 h'
        refine ⟨by rw [e1]; omega, Or.inr ?_⟩
        rcases e2 with ⟨e2, e3⟩ | ⟨e2, e3, e4⟩
        · refine ⟨by omega, ?_, ?_⟩
          · rw [e2]
            have : off + 1 - (0 + off) - 1 = 0 := by omega
            rw [this]; exact hb
          · intro i hi1 hi2
            cases i with
            | zero => omega
            | succ i => rw [brkAt_cons_succ]; exact e3 i (by omega)
        · refine ⟨by omega, ?_, ?_⟩
          · have : off + 1 - (lineColAux rest off (l0 + 1) 0).2 - 1
                = (off - (lineColAux rest off (l0 + 1) 0).2 - 1) + 1 := by omega
            rw [this, brkAt_cons_succ]; exact e3
          · intro i hi1 hi2
            cases i with
            | zero => omega
            | succ i => rw [brkAt_cons_succ]; exact e4 i (by omega) (by omega)
      · have hb' : breakAfter ch rest = false := by simpa using hb
        simp only [lineColAux, hb', if_false, Bool.false_eq_true]
        have ⟨e1, e2⟩ := ih off l0 (c0 + 1) h'
        refine ⟨by rw [e1]; omega, ?_⟩
        rcases e2 with ⟨e2, e3⟩ | ⟨e2, e3, e4⟩
        · refine Or.inl ⟨by omega, ?_⟩
          intro i hi
          cases i with
          | zero => exact hb'
          | succ i => rw [brkAt_cons_succ]; exact e3 i (by omega)
        · refine Or.inr ⟨by omega, ?_, ?_⟩
          · have : off + 1 - (lineColAux rest off l0 (c0 + 1)).2 - 1
                = (off - (lineColAux rest off l0 (c0 + 1)).2 - 1) + 1 := by omega
            rw [this, brkAt_cons_succ]; exact e3
          · intro i hi1 hi2
            cases i with
            | zero => omega
            | succ i => rw [brkAt_cons_succ]; exact e4 i (by omega) (by omega)

/-- `lineCol` returns the position of the offset, for every offset inside the text -/
theorem lineCol_isPos (s : Src) (off : Nat) (h : off ≤ s.length) :
    ∃ lc, lineCol s off = some lc ∧ IsPos s off lc := by
  refine ⟨lineColAux s off 0 0, by simp [lineCol, h], ?_⟩
  have ⟨e1, e2⟩ := lineColAux_spec s off 0 0 h
  unfold IsPos
  rcases e2 with ⟨e2, e3⟩ | ⟨e2, e3, e4⟩
  · refine ⟨by omega, Or.inl (by omega), ?_, by omega⟩
    intro i _ hi; exact e3 i hi
  · exact ⟨by omega, Or.inr e3, e4, by omega⟩

theorem lineCol_isSome_iff (s : Src) (off : Nat) : (lineCol s off).isSome ↔ off ≤ s.length := by
  unfold lineCol; split <;> simp [*]

/-- a position is unique: `IsPos` determines line and column -/
theorem isPos_unique {s : Src} {off : Nat} {a b : Nat × Nat} (ha : IsPos s off a) (hb : IsPos s off b) : a = b := by
  obtain ⟨a1, a2, a3, a4⟩ := ha
  obtain ⟨b1, b2, b3, b4⟩ := hb
  have hl : a.1 = b.1 := by rw [a4, b4]
  have hc : a.2 = b.2 := by
    apply Nat.le_antisymm
    · -- if a.2 > b.2 then the break right before b's line start lies inside a's break-free stretch
      apply Nat.le_of_not_lt; intro hlt
      rcases b2 with b2 | b2
      · omega
      · have := a3 (off - b.2 - 1) (by omega) (by omega)
        rw [this] at b2; cases b2
    · apply Nat.le_of_not_lt; intro hlt
      rcases a2 with a2 | a2
      · omega
      · have := b3 (off - a.2 - 1) (by omega) (by omega)
        rw [this] at a2; cases a2
  cases a; cases b; simp_all

end Model.Text
