/-
The comparison of the reference semantics is a total preorder.
`Model.Rel.Value.cmp` (NULL < numbers < text, booleans compare as 0/1 with integers) and its lexicographic
lift `cmpKeys ks` (with the `desc` flag per key) are oriented (`cmp b a = (cmp a b).swap`) and transitive:
instances of core's `Std.OrientedCmp` / `Std.TransCmp`.  `Value.cmp` is NOT antisymmetric (`true` and `1`
compare equal): it is a preorder on values; `cmpChars` is a linear order on texts.
Core Lean only.
-/
import PrqlModel.Model.Rel
namespace Lemmas.ValueOrd
open Model.Rel Std

/-! ### texts -/

theorem cmpChars_eq (a b : List Char) :
    cmpChars a b = List.compareLex (compareOn Char.toNat) a b := by
  induction a generalizing b with
  | nil => cases b <;> simp [cmpChars, List.compareLex]
  | cons x xs ih =>
    cases b with
    | nil => simp [cmpChars, List.compareLex]
    | cons y ys =>
      rw [List.compareLex_cons_cons, cmpChars, ih]
      simp only [compareOn, Nat.compare_eq_ite_lt]
      by_cases h1 : x.toNat < y.toNat
      · simp [h1]
      · by_cases h2 : y.toNat < x.toNat
        · simp [h1, h2]
        · simp [h1, h2]

instance : TransCmp cmpChars := by
  have : cmpChars = List.compareLex (compareOn Char.toNat) := by
    funext a b; exact cmpChars_eq a b
  rw [this]; infer_instance

/-- `cmpChars` is a linear order: equal comparison means equal texts -/
theorem cmpChars_eq_eq {a b : List Char} (h : cmpChars a b = .eq) : a = b := by
  induction a generalizing b with
  | nil => cases b <;> simp_all [cmpChars]
  | cons x xs ih =>
    cases b with
    | nil => simp [cmpChars] at h
    | cons y ys =>
      simp only [cmpChars] at h
      by_cases h1 : x.toNat < y.toNat
      · simp [h1] at h
      · by_cases h2 : y.toNat < x.toNat
        · simp [h1, h2] at h
        · simp only [h1, h2, if_false] at h
          have : x.toNat = y.toNat := by omega
          have hxy : x = y := Char.toNat_inj.mp this
          rw [hxy, ih h]

/-! ### values -/

/-- a comparison pulled back along a function -/
theorem transCmp_comap {α β : Type} (cmp : β → β → Ordering) [TransCmp cmp] (f : α → β) :
    TransCmp (fun a b => cmp (f a) (f b)) where
  eq_swap := OrientedCmp.eq_swap (cmp := cmp)
  isLE_trans := TransCmp.isLE_trans (cmp := cmp)

/-- class of a value: NULL < numbers (integers and booleans) < text -/
def rank : Value → Nat
  | .null => 0 | .int _ => 1 | .bool _ => 1 | .str _ => 2
def num : Value → Int
  | .int i => i | .bool b => if b then 1 else 0 | _ => 0
def txt : Value → List Char
  | .str s => s | _ => []

def cmpTxt (a b : Value) : Ordering := cmpChars (txt a) (txt b)

instance : TransCmp cmpTxt := transCmp_comap cmpChars txt

theorem cmp_eq_lex (a b : Value) :
    a.cmp b = compareLex (compareOn rank) (compareLex (compareOn num) cmpTxt) a b := by
  cases a <;> cases b <;>
    simp [Value.cmp, Value.asInt?, compareLex, compareOn, rank, num, txt, cmpTxt, cmpChars,
      Int.compare_eq_ite_lt, Nat.compare_eq_ite_lt]

instance : TransCmp Value.cmp := by
  have : Value.cmp = compareLex (compareOn rank) (compareLex (compareOn num) cmpTxt) := by
    funext a b; exact cmp_eq_lex a b
  rw [this]; infer_instance

/-- `true` and `1` compare equal although they are different values: the order on values is a preorder only -/
example : (Value.bool true).cmp (.int 1) = .eq ∧ Value.bool true ≠ .int 1 := by decide

/-! ### rows: the lexicographic lift with the `desc` flag -/

/-- comparison by ONE sort key -/
def keyCmp (e : Expr) (desc : Bool) (a b : Row) : Ordering :=
  if desc then ((e.eval a).cmp (e.eval b)).swap else (e.eval a).cmp (e.eval b)

theorem cmpKeys_nil (a b : Row) : cmpKeys [] a b = .eq := rfl

theorem cmpKeys_cons (e : Expr) (d : Bool) (rest : List SortKey) (a b : Row) :
    cmpKeys ((e, d) :: rest) a b = (keyCmp e d a b).then (cmpKeys rest a b) := by
  simp only [cmpKeys, keyCmp]
  cases d <;> cases (e.eval a).cmp (e.eval b) <;> rfl

instance (e : Expr) (d : Bool) : TransCmp (keyCmp e d) := by
  cases d with
  | false =>
    have : keyCmp e false = fun a b => Value.cmp (e.eval a) (e.eval b) := by
      funext a b; simp [keyCmp]
    rw [this]; exact transCmp_comap Value.cmp _
  | true =>
    have : keyCmp e true = fun a b => Value.cmp (e.eval b) (e.eval a) := by
      funext a b; simp only [keyCmp, if_true]; exact (OrientedCmp.eq_swap (cmp := Value.cmp)).symm
    rw [this]
    have := transCmp_comap Value.cmp (fun r : Row => e.eval r)
    exact TransCmp.opposite

instance cmpKeys_trans (ks : List SortKey) : TransCmp (cmpKeys ks) := by
  induction ks with
  | nil => exact { eq_swap := rfl, isLE_trans := fun _ _ => rfl }
  | cons k rest ih =>
    obtain ⟨e, d⟩ := k
    have : cmpKeys ((e, d) :: rest) = compareLex (keyCmp e d) (cmpKeys rest) := by
      funext a b; exact cmpKeys_cons e d rest a b
    rw [this]; infer_instance

/-! ### the Bool-valued "not greater" of a comparison is total and transitive -/

theorem ne_gt_eq_isLE (o : Ordering) : (o != .gt) = o.isLE := by cases o <;> rfl

theorem le_total {α : Type} (cmp : α → α → Ordering) [OrientedCmp cmp] (a b : α) :
    (cmp a b != .gt) = true ∨ (cmp b a != .gt) = true := by
  rw [ne_gt_eq_isLE, ne_gt_eq_isLE, OrientedCmp.eq_swap (cmp := cmp) (a := b) (b := a)]
  cases cmp a b <;> simp

theorem le_trans {α : Type} (cmp : α → α → Ordering) [TransCmp cmp] (a b c : α)
    (h1 : (cmp a b != .gt) = true) (h2 : (cmp b c != .gt) = true) : (cmp a c != .gt) = true := by
  rw [ne_gt_eq_isLE] at *
  exact TransCmp.isLE_trans h1 h2

/-- both directions "not greater" is "equal" -/
theorem le_le_iff_eq {α : Type} (cmp : α → α → Ordering) [OrientedCmp cmp] (a b : α) :
    ((cmp a b != .gt) = true ∧ (cmp b a != .gt) = true) ↔ cmp a b = .eq := by
  rw [OrientedCmp.eq_swap (cmp := cmp) (a := b) (b := a)]
  cases cmp a b <;> simp

end Lemmas.ValueOrd
