/-
Lemmas about `Model.Wildcards` (mirror of `translate_wildcards`): the loop invariant behind
`Props.C05.wildcards_exact` (what the select list with its exclusion sets shows is, as a multiset, what was
requested) and the order fact (`output` is a sublist of the request).
-/
import PrqlModel.Model.Wildcards
namespace Lemmas.Wildcards
open Model.Wildcards

/-! ### nub, the known columns of a star -/

theorem mem_nub {x : Nat} {l : List Nat} : x ∈ nub l ↔ x ∈ l := by
  induction l with
  | nil => simp [nub]
  | cons y ys ih =>
    by_cases h : y ∈ ys
    · simp only [nub, h, if_true, ih, List.mem_cons]
      constructor
      · exact Or.inr
      · rintro (rfl | h') <;> assumption
    · simp only [nub, h, if_false, List.mem_cons, ih]

theorem nub_nodup (l : List Nat) : (nub l).Nodup := by
  induction l with
  | nil => simp [nub]
  | cons y ys ih =>
    by_cases h : y ∈ ys
    · simpa [nub, h] using ih
    · simp only [nub, h, if_false]
      exact List.nodup_cons.2 ⟨fun hm => h (mem_nub.1 hm), ih⟩

/-- the known columns a star `c` of instance `r` stands for besides itself -/
abbrev known (env : Env) (r c : Nat) : List Nat := (nub (env.orig r)).erase c

theorem known_nodup (env : Env) (r c : Nat) : (known env r c).Nodup := (nub_nodup _).erase c

theorem mem_known {env : Env} {r c x : Nat} : x ∈ known env r c ↔ x ≠ c ∧ x ∈ env.orig r := by
  rw [known, (nub_nodup _).mem_erase_iff, mem_nub]

/-! ### counting in filtered duplicate-free lists -/

theorem count_filter_nodup {K : List Nat} (hK : K.Nodup) (q : Nat → Bool) (x : Nat) :
    (K.filter q).count x = if q x = true ∧ x ∈ K then 1 else 0 := by
  by_cases h : q x = true ∧ x ∈ K
  · rw [if_pos h, List.count_filter h.1]
    have h1 : K.count x ≤ 1 := List.nodup_iff_count.1 hK x
    have h2 : 0 < K.count x := List.count_pos_iff.2 h.2
    omega
  · rw [if_neg h]
    apply List.count_eq_zero.2
    intro hm
    rw [List.mem_filter] at hm
    exact h ⟨hm.2, hm.1⟩

/-- taking `p` out of the exclusion set makes the star show `p` exactly once more -/
theorem count_filter_erase {K S : List Nat} (hK : K.Nodup) (hS : S.Nodup) {p : Nat} (hpS : p ∈ S) (hpK : p ∈ K)
    (x : Nat) :
    (K.filter (fun y => !decide (y ∈ S.erase p))).count x
      = (K.filter (fun y => !decide (y ∈ S))).count x + (if x = p then 1 else 0) := by
  rw [count_filter_nodup hK, count_filter_nodup hK]
  by_cases hxp : x = p
  · subst hxp
    have : x ∉ S.erase x := hS.not_mem_erase
    simp [hpS, hpK, this]
  · have : x ∈ S.erase p ↔ x ∈ S := by rw [hS.mem_erase_iff]; exact ⟨fun h => h.2, fun h => ⟨hxp, h⟩⟩
    simp [hxp, this]

theorem filter_notin_self (K : List Nat) : K.filter (fun y => !decide (y ∈ K)) = [] := by
  apply List.filter_eq_nil_iff.2
  intro a ha
  simp [ha]

theorem count_singleton_nat (p x : Nat) : ([p] : List Nat).count x = if x = p then 1 else 0 := by
  by_cases h : x = p
  · subst h; simp
  · have : p ≠ x := fun e => h e.symm
    simp [h, this]

/-! ### exclusion map -/

theorem lookup_flush_ne {k w : Nat} (S : List Nat) (E : Excl) (h : k ≠ w) :
    (flush (some (w, S)) E).lookup k = E.lookup k := by
  have hb : (k == w) = false := by simpa using h
  simp only [flush]
  split
  · rfl
  · simp [List.lookup_cons, hb]

theorem exOf_flush_ne {k w : Nat} (S : List Nat) (E : Excl) (h : k ≠ w) :
    exOf (flush (some (w, S)) E) k = exOf E k := by
  simp only [exOf, lookup_flush_ne S E h]

theorem exOf_flush_self {w : Nat} (S : List Nat) {E : Excl} (h : E.lookup w = none) :
    exOf (flush (some (w, S)) E) w = S := by
  simp only [flush]
  split
  · rename_i he
    simp only [exOf, h, Option.getD_none]
    exact (List.isEmpty_iff.1 he).symm
  · simp [exOf]

theorem shownOne_congr (env : Env) {E1 E2 : Excl} {c : Nat} (h : exOf E1 c = exOf E2 c) :
    shownOne env E1 c = shownOne env E2 c := by
  simp only [shownOne, h]

theorem shownOne_plain {env : Env} (E : Excl) {c : Nat} (h : env.wild c = none) : shownOne env E c = [c] := by
  simp only [shownOne, h]

theorem shownOne_wild {env : Env} (E : Excl) {c r : Nat} (h : env.wild c = some r) :
    shownOne env E c = c :: (known env r c).filter (fun x => !decide (x ∈ exOf E c)) := by
  simp only [shownOne, h]

theorem shown_cons (env : Env) (E : Excl) (c : Nat) (out : List Nat) :
    shown env E (c :: out) = shownOne env E c ++ shown env E out := by
  simp [shown]

theorem shown_congr (env : Env) {E1 E2 : Excl} :
    ∀ {out : List Nat}, (∀ c ∈ out, shownOne env E1 c = shownOne env E2 c) → shown env E1 out = shown env E2 out
  | [], _ => rfl
  | c :: out, h => by
    rw [shown_cons, shown_cons, h c (List.mem_cons_self ..),
      shown_congr env (fun d hd => h d (List.mem_cons_of_mem _ hd))]

/-- two exclusion maps that differ for the star `w` only -/
theorem count_shown_update (env : Env) {E1 E2 : Excl} {w : Nat}
    (h : ∀ c, c ≠ w → shownOne env E1 c = shownOne env E2 c) (x : Nat) :
    ∀ out : List Nat,
      (shown env E1 out).count x + out.count w * (shownOne env E2 w).count x
        = (shown env E2 out).count x + out.count w * (shownOne env E1 w).count x
  | [] => by simp [shown]
  | c :: out => by
    have ih := count_shown_update env h x out
    rw [shown_cons, shown_cons, List.count_append, List.count_append]
    by_cases hc : c = w
    · subst hc
      rw [List.count_cons_self, Nat.add_mul, Nat.add_mul, Nat.one_mul, Nat.one_mul]
      omega
    · rw [h c hc, List.count_cons_of_ne hc]
      omega

/-! ### the pop loop -/

theorem popLoop_suffix : ∀ (out S : List Nat), (popLoop out S).1 <:+ out
  | [], S => by simp [popLoop]
  | p :: ps, S => by
    unfold popLoop
    split
    · exact (popLoop_suffix ps _).trans (List.suffix_cons p ps)
    · exact List.suffix_refl _

theorem popLoop_subset : ∀ (out S : List Nat), ∀ y ∈ (popLoop out S).2, y ∈ S
  | [], S => by simp [popLoop]
  | p :: ps, S => by
    unfold popLoop
    split
    · intro y hy
      exact List.mem_of_mem_erase (popLoop_subset ps _ y hy)
    · intro y hy; exact hy

theorem popLoop_nodup : ∀ (out S : List Nat), S.Nodup → (popLoop out S).2.Nodup
  | [], S, h => by simpa [popLoop] using h
  | p :: ps, S, h => by
    unfold popLoop
    split
    · exact popLoop_nodup ps _ (h.erase p)
    · exact h

/-- every popped column is a plain column of the star's set: it leaves the output and the set at once, so the
star shows it instead -/
theorem popLoop_count (env : Env) (E : Excl) {K : List Nat} (hK : K.Nodup) (hplain : ∀ y ∈ K, env.wild y = none)
    (x : Nat) :
    ∀ (out S : List Nat), S.Nodup → (∀ y ∈ S, y ∈ K) →
      (shown env E out).count x + (K.filter (fun y => !decide (y ∈ S))).count x
        = (shown env E (popLoop out S).1).count x
          + (K.filter (fun y => !decide (y ∈ (popLoop out S).2))).count x
  | [], S, _, _ => rfl
  | p :: ps, S, hS, hSK => by
    unfold popLoop
    split
    · rename_i hp
      have ih := popLoop_count env E hK hplain x ps (S.erase p) (hS.erase p)
        (fun y hy => hSK y (List.mem_of_mem_erase hy))
      rw [← ih, shown_cons, shownOne_plain E (hplain p (hSK p hp)), List.count_append, count_singleton_nat,
        count_filter_erase hK hS hp (hSK p hp)]
      omega
    · rfl

/-! ### one step of the loop -/

theorem step_cases (env : Env) (st : St) (cid : Nat) :
    (∃ w S, st.star = some (w, S) ∧ cid ∈ S ∧ step env st cid = ⟨some (w, S.erase cid), st.excl, st.outRev⟩) ∨
    ((∀ w S, st.star = some (w, S) → cid ∉ S) ∧ env.wild cid = none ∧
      step env st cid = ⟨st.star, st.excl, cid :: st.outRev⟩) ∨
    ((∀ w S, st.star = some (w, S) → cid ∉ S) ∧ ∃ r, env.wild cid = some r ∧
      step env st cid = ⟨some (cid, (popLoop st.outRev (known env r cid)).2), flush st.star st.excl,
        cid :: (popLoop st.outRev (known env r cid)).1⟩) := by
  obtain ⟨star, E, out⟩ := st
  cases star with
  | none =>
    cases hw : env.wild cid with
    | none => exact Or.inr (Or.inl ⟨by simp, rfl, by simp [step, hw]⟩)
    | some r => exact Or.inr (Or.inr ⟨by simp, r, rfl, by simp [step, hw]⟩)
  | some ws =>
    obtain ⟨w, S⟩ := ws
    by_cases h : cid ∈ S
    · exact Or.inl ⟨w, S, rfl, h, by simp [step, h]⟩
    · have hm : ∀ w' S', some (w, S) = some (w', S') → cid ∉ S' := by
        intro w' S' e; cases e; exact h
      cases hw : env.wild cid with
      | none => exact Or.inr (Or.inl ⟨hm, rfl, by simp [step, h, hw, List.erase_of_not_mem h]⟩)
      | some r => exact Or.inr (Or.inr ⟨hm, r, rfl, by simp [step, h, hw, List.erase_of_not_mem h]⟩)

/-- nothing is invented and the order is kept (no hypothesis on the request) -/
theorem step_sublist (env : Env) {P : List Nat} {st : St} (h : st.outRev.reverse.Sublist P) (cid : Nat) :
    (step env st cid).outRev.reverse.Sublist (P ++ [cid]) := by
  rcases step_cases env st cid with ⟨w, S, _, _, heq⟩ | ⟨_, _, heq⟩ | ⟨_, r, _, heq⟩
  · rw [heq]; exact h.trans (List.sublist_append_left P [cid])
  · rw [heq]
    show (cid :: st.outRev).reverse.Sublist (P ++ [cid])
    rw [List.reverse_cons]
    exact List.Sublist.append h (List.Sublist.refl _)
  · rw [heq]
    show (cid :: (popLoop st.outRev (known env r cid)).1).reverse.Sublist (P ++ [cid])
    rw [List.reverse_cons]
    exact List.Sublist.append ((List.reverse_sublist.2 (popLoop_suffix _ _).sublist).trans h) (List.Sublist.refl _)

theorem fold_sublist (env : Env) : ∀ (rest P : List Nat) (st : St), st.outRev.reverse.Sublist P →
    (rest.foldl (step env) st).outRev.reverse.Sublist (P ++ rest)
  | [], P, st, h => by simpa using h
  | cid :: rest, P, st, h => by
    have := fold_sublist env rest (P ++ [cid]) (step env st cid) (step_sublist env h cid)
    simpa using this

theorem runSt_sublist (env : Env) (cols : List Nat) : (runSt env cols).outRev.reverse.Sublist cols := by
  have := fold_sublist env cols [] init (by simp [init])
  simpa [runSt] using this

/-! ### exclusion sets name known columns of their star (no hypothesis on the request) -/

def ExOk (env : Env) (w : Nat) (S : List Nat) : Prop := ∃ r, env.wild w = some r ∧ ∀ y ∈ S, y ∈ known env r w

structure InvEx (env : Env) (st : St) : Prop where
  excl : ∀ p ∈ st.excl, ExOk env p.1 p.2
  star : ∀ w S, st.star = some (w, S) → ExOk env w S

theorem flush_exok {env : Env} {star : Option (Nat × List Nat)} {E : Excl}
    (hstar : ∀ w S, star = some (w, S) → ExOk env w S) (hE : ∀ p ∈ E, ExOk env p.1 p.2) :
    ∀ p ∈ flush star E, ExOk env p.1 p.2 := by
  cases star with
  | none => simpa [flush] using hE
  | some ws =>
    obtain ⟨w, S⟩ := ws
    simp only [flush]
    split
    · exact hE
    · intro p hp
      rcases List.mem_cons.1 hp with rfl | h
      · exact hstar w S rfl
      · exact hE p h

theorem invEx_step {env : Env} {st : St} (hi : InvEx env st) (cid : Nat) : InvEx env (step env st cid) := by
  rcases step_cases env st cid with ⟨w, S, hs, _, heq⟩ | ⟨_, _, heq⟩ | ⟨_, r, hw, heq⟩
  · rw [heq]
    refine ⟨hi.excl, ?_⟩
    intro w' S' e
    cases e
    obtain ⟨r, hr, hS⟩ := hi.star w S hs
    exact ⟨r, hr, fun y hy => hS y (List.mem_of_mem_erase hy)⟩
  · rw [heq]; exact ⟨hi.excl, hi.star⟩
  · rw [heq]
    refine ⟨flush_exok hi.star hi.excl, ?_⟩
    intro w' S' e
    cases e
    exact ⟨r, hw, popLoop_subset _ _⟩

theorem fold_invEx (env : Env) : ∀ (rest : List Nat) (st : St), InvEx env st → InvEx env (rest.foldl (step env) st)
  | [], _, h => h
  | c :: rest, _, h => fold_invEx env rest _ (invEx_step h c)

theorem runSt_invEx (env : Env) (cols : List Nat) : InvEx env (runSt env cols) :=
  fold_invEx env cols init ⟨by simp [init], by simp [init]⟩

/-! ### the invariant -/

/-- state `st` after the requested prefix `P` -/
structure Inv (env : Env) (P : List Nat) (st : St) : Prop where
  sub : st.outRev.reverse.Sublist P
  once : ∀ c, (env.wild c).isSome → P.count c ≤ 1
  keys : ∀ k, k ∉ P → st.excl.lookup k = none
  star : ∀ w S, st.star = some (w, S) →
    w ∈ st.outRev ∧ st.excl.lookup w = none ∧ S.Nodup ∧
      ∃ r, env.wild w = some r ∧ (∀ y ∈ S, y ∈ known env r w) ∧ ∀ y ∈ known env r w, env.wild y = none
  cnt : ∀ x, (shown env (flush st.star st.excl) st.outRev).count x = P.count x

theorem inv_init (env : Env) : Inv env [] init where
  sub := by simp [init]
  once := by simp
  keys := by simp [init]
  star := by simp [init]
  cnt := by simp [init, shown]

theorem mem_of_mem_outRev {P : List Nat} {st : St} (h : st.outRev.reverse.Sublist P) {c : Nat}
    (hc : c ∈ st.outRev) : c ∈ P :=
  h.subset (List.mem_reverse.2 hc)

theorem inv_step {env : Env} {P : List Nat} {st : St} (hi : Inv env P st) (cid : Nat)
    (hnew : ∀ r, env.wild cid = some r → cid ∉ P ∧ ∀ y ∈ known env r cid, env.wild y = none) :
    Inv env (P ++ [cid]) (step env st cid) := by
  have hsub' := step_sublist env hi.sub cid
  rcases step_cases env st cid with ⟨w, S, hs, hmem, heq⟩ | ⟨hmiss, hw, heq⟩ | ⟨hmiss, r, hw, heq⟩
  · -- a column the pending star shows: it leaves the star's set
    obtain ⟨hwout, hlk, hSnd, r, hwr, hSK, hplain⟩ := hi.star w S hs
    have hcid : env.wild cid = none := hplain cid (hSK cid hmem)
    refine ⟨hsub', ?_, ?_, ?_, ?_⟩
    · intro c hc
      have hne : c ≠ cid := by intro e; subst e; simp [hcid] at hc
      have := hi.once c hc
      rw [List.count_append, count_singleton_nat, if_neg hne]; omega
    · intro k hk
      rw [heq]; exact hi.keys k (fun h => hk (List.mem_append_left _ h))
    · intro w' S' e
      rw [heq] at e ⊢
      cases e
      exact ⟨hwout, hlk, hSnd.erase cid, r, hwr, fun y hy => hSK y (List.mem_of_mem_erase hy), hplain⟩
    · intro x
      rw [heq]
      show (shown env (flush (some (w, S.erase cid)) st.excl) st.outRev).count x = _
      have hcnt := hi.cnt x
      rw [hs] at hcnt
      have hone : st.outRev.count w = 1 := by
        have h1 : 0 < st.outRev.count w := List.count_pos_iff.2 hwout
        have h2 : st.outRev.count w ≤ P.count w := by
          have := hi.sub.count_le w; rwa [List.count_reverse] at this
        have h3 := hi.once w (by simp [hwr])
        omega
      have hupd := count_shown_update env
        (E1 := flush (some (w, S.erase cid)) st.excl) (E2 := flush (some (w, S)) st.excl) (w := w)
        (fun c hc => shownOne_congr env (by rw [exOf_flush_ne _ _ hc, exOf_flush_ne _ _ hc])) x st.outRev
      rw [hone, Nat.one_mul, Nat.one_mul, shownOne_wild _ hwr, shownOne_wild _ hwr,
        exOf_flush_self _ hlk, exOf_flush_self _ hlk, List.count_cons, List.count_cons,
        count_filter_erase (known_nodup env r w) hSnd hmem (hSK cid hmem)] at hupd
      rw [List.count_append, count_singleton_nat]
      omega
  · -- a plain column the pending star does not show
    refine ⟨hsub', ?_, ?_, ?_, ?_⟩
    · intro c hc
      have hne : c ≠ cid := by intro e; subst e; simp [hw] at hc
      have := hi.once c hc
      rw [List.count_append, count_singleton_nat, if_neg hne]; omega
    · intro k hk
      rw [heq]; exact hi.keys k (fun h => hk (List.mem_append_left _ h))
    · intro w S e
      rw [heq] at e ⊢
      obtain ⟨h1, h2⟩ := hi.star w S e
      exact ⟨List.mem_cons_of_mem _ h1, h2⟩
    · intro x
      rw [heq]
      show (shown env (flush st.star st.excl) (cid :: st.outRev)).count x = _
      rw [shown_cons, shownOne_plain _ hw, List.count_append, List.count_append, hi.cnt x, count_singleton_nat]
      omega
  · -- a new star
    obtain ⟨hfresh, hplain⟩ := hnew r hw
    -- keys of the flushed map are requested columns
    have hkeys : ∀ k, k ∉ P → (flush st.star st.excl).lookup k = none := by
      intro k hk
      cases hst : st.star with
      | none => simpa [flush] using hi.keys k hk
      | some ws =>
        obtain ⟨w, S⟩ := ws
        have hwP : w ∈ P := mem_of_mem_outRev hi.sub (hi.star w S hst).1
        rw [lookup_flush_ne S _ (fun e => hk (by rw [e]; exact hwP))]
        exact hi.keys k hk
    have hsuf := popLoop_suffix st.outRev (known env r cid)
    have hnotin : cid ∉ (popLoop st.outRev (known env r cid)).1 :=
      fun h => hfresh (mem_of_mem_outRev hi.sub (hsuf.subset h))
    refine ⟨hsub', ?_, ?_, ?_, ?_⟩
    · intro c hc
      rw [List.count_append, count_singleton_nat]
      by_cases hne : c = cid
      · subst hne
        have : P.count c = 0 := List.count_eq_zero.2 hfresh
        simp [this]
      · have := hi.once c hc
        rw [if_neg hne]; omega
    · intro k hk
      rw [heq]; exact hkeys k (fun h => hk (List.mem_append_left _ h))
    · intro w S e
      rw [heq] at e ⊢
      cases e
      exact ⟨List.mem_cons_self .., hkeys cid hfresh, popLoop_nodup _ _ (known_nodup env r cid), r, hw,
        popLoop_subset _ _, hplain⟩
    · intro x
      rw [heq]
      show (shown env (flush (some (cid, (popLoop st.outRev (known env r cid)).2)) (flush st.star st.excl))
        (cid :: (popLoop st.outRev (known env r cid)).1)).count x = _
      have hpop := popLoop_count env (flush st.star st.excl) (known_nodup env r cid) hplain x st.outRev
        (known env r cid) (known_nodup env r cid) (fun y hy => hy)
      rw [filter_notin_self, hi.cnt x] at hpop
      rw [shown_cons, shownOne_wild _ hw, exOf_flush_self _ (hkeys cid hfresh),
        shown_congr env (E2 := flush st.star st.excl) (fun c hc =>
          shownOne_congr env (exOf_flush_ne _ _ (fun e => hnotin (by subst e; exact hc)))),
        List.count_append, List.count_append, List.count_cons, count_singleton_nat]
      simp only [List.count_nil] at hpop
      by_cases hx : x = cid
      · subst hx; simp; omega
      · have : ¬ (cid = x) := fun e => hx e.symm
        simp [hx, this]; omega

theorem fold_inv (env : Env) (cols : List Nat)
    (h1 : (cols.filter (fun c => (env.wild c).isSome)).Nodup)
    (h2 : ∀ w ∈ cols, ∀ r, env.wild w = some r → ∀ x ∈ env.orig r, x ≠ w → env.wild x = none) :
    ∀ (rest P : List Nat) (st : St), P ++ rest = cols → Inv env P st → Inv env cols (rest.foldl (step env) st) := by
  intro rest
  induction rest with
  | nil => intro P st hp hi; simp at hp; subst hp; exact hi
  | cons cid rest ih =>
    intro P st hp hi
    rw [List.foldl_cons]
    apply ih (P ++ [cid]) _ (by simp [← hp])
    apply inv_step hi
    intro r hw
    have hc : cid ∈ cols := by subst hp; simp
    constructor
    · intro hmem
      have hcnt := (List.nodup_iff_count.1 h1) cid
      rw [List.count_filter (by simp [hw])] at hcnt
      subst hp
      rw [List.count_append, List.count_cons_self] at hcnt
      have := List.count_pos_iff.2 hmem
      omega
    · intro y hy
      rw [mem_known] at hy
      exact h2 cid hc r hw y hy.2 hy.1

theorem runSt_inv (env : Env) (cols : List Nat)
    (h1 : (cols.filter (fun c => (env.wild c).isSome)).Nodup)
    (h2 : ∀ w ∈ cols, ∀ r, env.wild w = some r → ∀ x ∈ env.orig r, x ≠ w → env.wild x = none) :
    Inv env cols (runSt env cols) :=
  fold_inv env cols h1 h2 cols [] init (by simp) (inv_init env)

/-- without exclusion sets every item shows at least what it shows with them -/
theorem shownOne_subset_nil (env : Env) (E : Excl) (c : Nat) : ∀ x ∈ shownOne env E c, x ∈ shownOne env [] c := by
  intro x hx
  cases hw : env.wild c with
  | none => rw [shownOne_plain _ hw] at hx ⊢; exact hx
  | some r =>
    rw [shownOne_wild _ hw] at hx ⊢
    rcases List.mem_cons.1 hx with h | h
    · exact List.mem_cons.2 (Or.inl h)
    · refine List.mem_cons.2 (Or.inr ?_)
      rw [List.mem_filter] at h ⊢
      exact ⟨h.1, by simp [exOf]⟩

theorem shown_subset_nil (env : Env) (E : Excl) (out : List Nat) : ∀ x ∈ shown env E out, x ∈ shown env [] out := by
  intro x hx
  simp only [shown, List.mem_flatMap] at hx ⊢
  obtain ⟨c, hc, hxc⟩ := hx
  exact ⟨c, hc, shownOne_subset_nil env E c x hxc⟩

/-! ### the emitted list (`excluded.remove`) -/

theorem lookup_filter_ne {c k : Nat} (h : k ≠ c) :
    ∀ E : Excl, (E.filter (fun p => p.1 != c)).lookup k = E.lookup k
  | [] => rfl
  | (a, S) :: E => by
    have ih := lookup_filter_ne h E
    by_cases ha : a = c
    · subst ha
      have hk : (k == a) = false := by simpa using h
      simp [List.lookup_cons, hk, ih]
    · have hb : (a != c) = true := by simpa using ha
      simp only [List.filter_cons, hb, if_true, List.lookup_cons, ih]

/-- when no star occurs twice in the output, removing a used exclusion set changes nothing -/
theorem shownEmit_eq_shown (env : Env) : ∀ (out : List Nat) (E : Excl),
    (∀ c, (env.wild c).isSome → out.count c ≤ 1) → shownEmit env E out = shown env E out
  | [], _, _ => rfl
  | c :: out, E, h => by
    have htail : ∀ d, (env.wild d).isSome → out.count d ≤ 1 := fun d hd =>
      Nat.le_trans (List.Sublist.count_le d (List.sublist_cons_self c out)) (h d hd)
    rw [shownEmit, shown_cons, shownEmit_eq_shown env out _ htail]
    congr 1
    by_cases hc : (env.wild c).isSome
    · rw [if_pos hc]
      have hnot : c ∉ out := by
        have := h c hc
        rw [List.count_cons_self] at this
        exact List.count_eq_zero.1 (by omega)
      apply shown_congr
      intro d hd
      apply shownOne_congr
      have hne : d ≠ c := fun e => hnot (e ▸ hd)
      simp only [exOf, lookup_filter_ne hne]
    · rw [if_neg hc]

end Lemmas.Wildcards
