/-
Mirror of the pipeline splitter of the SQL back end (sql/pq/anchor.rs):
`split_off_back` (back-to-front scan with the `following` set, the requirement list with complexity caps,
`can_materialize`, the columns available inside the segment), the Select that ends the preceding part
(`missing`) and `anchor_split` (a new relation instance with fresh column ids and the redirect of every
column id of the atomic part).

Plain data: a column id is a number; an expression is its skeleton (which columns it reads, in the order
`CidCollector` visits them, and which node kinds decide `infer_complexity_expr`); a relation instance is the
list of its column ids. The split table itself is Gen/Split (regenerated from the source), consulted through
Model.Split.splitRequired / record.

Tie to the code: cargo feature `verif` records every call of `extract_atomic` (pipeline before, output
columns, instances, compute declarations, the two parts returned by `split_off_back`, the pipeline returned
by `anchor_split`); tools/anchortrace.py replays each recorded call through `splitOffBack` / `anchorSplit`
below and compares all parts.
-/
import PrqlModel.Model.Split
namespace Model.Anchor
open Gen.Split Model.Split

abbrev CId := Nat

/-- `Complexity` (anchor.rs), in its derived order -/
inductive Cx where
  | plain | nonGroup | windowed | aggregation
  deriving DecidableEq, Repr, Inhabited

def Cx.rank : Cx → Nat
  | .plain => 0 | .nonGroup => 1 | .windowed => 2 | .aggregation => 3

def Cx.le (a b : Cx) : Bool := a.rank ≤ b.rank
def Cx.min (a b : Cx) : Cx := if a.rank ≤ b.rank then a else b
def Cx.max (a b : Cx) : Cx := if a.rank ≤ b.rank then b else a
def Cx.lowest : Cx := .plain
def Cx.highest : Cx := .aggregation

/-- expression skeleton; argument lists are `cons`/`nil` cells so that recursion is structural -/
inductive Ex where
  | col (c : CId)
  | leaf                      -- literal, param
  | case (args : Ex)          -- rq::ExprKind::Case: conditions and values in order
  | op (args : Ex)            -- Operator / Array: complexity of the arguments
  | sstr (args : Ex)          -- SString: plain whatever it contains
  | cons (hd tl : Ex)
  | nil
  deriving Repr, Inhabited, DecidableEq

/-- `CidCollector::collect`: the column ids in visiting order (with repetitions) -/
def Ex.reads : Ex → List CId
  | .col c => [c]
  | .leaf => []
  | .case a => a.reads
  | .op a => a.reads
  | .sstr a => a.reads
  | .cons h t => h.reads ++ t.reads
  | .nil => []

/-- `infer_complexity_expr` -/
def Ex.cx : Ex → Cx
  | .col _ => .plain
  | .leaf => .plain
  | .case _ => .nonGroup
  | .op a => a.cx
  | .sstr _ => .plain
  | .cons h t => Cx.max h.cx t.cx
  | .nil => .plain

structure Comp where
  id : CId
  expr : Ex
  /-- window partition ++ window sort columns, if the compute has a window -/
  win : Option (List CId)
  isAgg : Bool
  deriving Repr, Inhabited, DecidableEq

/-- `infer_complexity` -/
def Comp.cx (c : Comp) : Cx :=
  if c.win.isSome then .windowed else if c.isAgg then .aggregation else c.expr.cx

def Comp.winCids (c : Comp) : List CId := c.win.getD []

/-- every column id a compute mentions -/
def Comp.allReads (c : Comp) : List CId := c.expr.reads ++ c.winCids

/-- transforms of a preprocessed pipeline (`SqlTransform<RIId, rq::Transform>`), reduced to what the splitter reads -/
inductive Tr where
  | from (cols : List CId)
  | join (cols : List CId) (filter : Ex)
  | compute (c : Comp)
  | filter (e : Ex)
  | aggregate (partition compute : List CId)
  | sort (cols : List CId)                       -- Super(Sort)
  | sqlSort (cols : List CId)                    -- SqlTransform::Sort (pushed by preprocess::distinct)
  | take (range : Ex) (partition sort : List CId)
  | select (cols : List CId)
  | distinct
  | distinctOn (cols : List CId)
  | union (cols : List CId)                      -- bottom instance columns
  | except (cols : List CId)
  | intersect (cols : List CId)
  | loop
  | append
  deriving Repr, Inhabited, DecidableEq

def Tr.kind : Tr → Kind
  | .from _ => .From
  | .join _ _ => .Join
  | .compute c => if c.isAgg then .AggCompute else .Compute
  | .filter _ => .Filter
  | .aggregate _ _ => .Aggregate
  | .sort _ => .Sort
  | .sqlSort _ => .Sort
  | .take _ _ _ => .Take
  | .select _ => .Select
  | .distinct => .Distinct
  | .distinctOn _ => .DistinctOn
  | .union _ => .Union
  | .except _ => .Except
  | .intersect _ => .Intersect
  | .loop => .Loop
  | .append => .Append

structure Req where
  col : CId
  maxCx : Cx
  selected : Bool
  deriving Repr, Inhabited, DecidableEq

def fromCids (cs : List CId) : List Req := cs.map fun c => { col := c, maxCx := Cx.lowest, selected := false }
def allowUpTo (rs : List Req) (m : Cx) : List Req := rs.map fun r => { r with maxCx := m }
def shouldSelect (rs : List Req) (s : Bool) : List Req := rs.map fun r => { r with selected := s }
def isRequired (rs : List Req) (c : CId) : Bool := rs.any fun r => r.col == c
def reqCols (rs : List Req) : List CId := rs.map (·.col)

/-- `get_requirements`; `following` already contains the transform's own kind (is_split_required records it
before the requirements are computed) -/
def getRequirements (t : Tr) (following : List Kind) (prev : List Req) : List Req :=
  let aggFollows := following.contains .Aggregate
  match t with
  | .aggregate partition _ => fromCids partition
  | .compute c =>
    if isRequired prev c.id then
      let base := allowUpTo (fromCids c.expr.reads) (if c.cx == .plain then .aggregation else .plain)
      match c.win with
      | some w => base ++ fromCids w
      | none => base
    else []
  | .filter e => allowUpTo (fromCids e.reads) (if !aggFollows then .aggregation else .plain)
  | .sort cols => if !aggFollows then shouldSelect (allowUpTo (fromCids cols) .aggregation) true else []
  | .sqlSort cols => if !aggFollows then fromCids cols else []
  | .distinctOn cols => allowUpTo (fromCids cols) Cx.highest
  | .take range _ _ => fromCids range.reads
  | .join _ f => fromCids f.reads
  | _ => []

/-- `can_materialize` -/
def canMaterialize (c : Comp) (required : List Req) : Bool × Cx :=
  let cap := (required.filter fun r => r.col == c.id).foldl (fun m r => Cx.min m r.maxCx) Cx.highest
  (Cx.le c.cx cap, cap)

def lookupComp (decls : List Comp) (c : CId) : Option Comp := decls.find? fun d => d.id == c

structure Scan where
  following : List Kind := []
  required : List Req := []
  avail : List CId := []
  /-- kept transforms in pipeline order (the code keeps them reversed; Selects are dropped) -/
  kept : List Tr := []
  deriving Repr, Inhabited

/-- one iteration of the scan for the popped transform `t`: `none` = stop here, `t` stays in the preceding part -/
def scanStep (decls : List Comp) (s : Scan) (t : Tr) : Option Scan × Scan :=
  -- the second component is the state left behind when the scan stops at `t` (requirements may already be appended)
  if splitRequired t.kind s.following then (none, s) else
  let following := record t.kind s.following
  let req := getRequirements t following s.required
  let required := s.required ++ req
  let s1 : Scan := { s with following := following, required := required }
  let keep (s : Scan) : Scan := match t with
    | .select _ => s
    | _ => { s with kept := t :: s.kept }
  match t with
  | .compute c =>
    let (can, cap) := canMaterialize c required
    if can then
      (some (keep { s1 with avail := c.id :: s1.avail,
                            required := required ++ shouldSelect (allowUpTo req cap) false }), s1)
    else (none, s1)
  | .aggregate _ compute =>
    let ok := compute.all fun cid => match lookupComp decls cid with
      | some c => (canMaterialize c required).1
      | none => true
    if ok then (some (keep s1), s1) else (none, s1)
  | .from cols => (some (keep { s1 with avail := cols ++ s1.avail }), s1)
  | .join cols _ => (some (keep { s1 with avail := cols ++ s1.avail }), s1)
  | _ => (some (keep s1), s1)

/-- the scan over the reversed pipeline; returns the final state and the untouched front part (in pipeline order) -/
def scanRev (decls : List Comp) : List Tr → Scan → Scan × List Tr
  | [], s => (s, [])
  | t :: rest, s =>
    match scanStep decls s t with
    | (some s', _) => scanRev decls rest s'
    | (none, sStop) => (sStop, (t :: rest).reverse)

def dedup : List CId → List CId
  | [] => []
  | c :: cs => c :: (dedup cs).filter (· != c)

structure SplitResult where
  /-- the pipeline that stays in front (without the added Select), `[]` = nothing remains -/
  rest : List Tr
  /-- columns the preceding part has to provide -/
  missing : List CId
  /-- the Select that heads the atomic part -/
  select : List CId
  /-- the atomic part without its Select, in pipeline order -/
  kept : List Tr
  deriving Repr, Inhabited

/-- `split_off_back` for a non-empty pipeline -/
def splitOffBack (decls : List Comp) (pipeline : List Tr) (output : List CId) : SplitResult :=
  let init : Scan := { required := shouldSelect (allowUpTo (fromCids output) Cx.highest) true }
  let sr := scanRev decls pipeline.reverse init
  let s := sr.1
  let rest := sr.2
  let selected := (s.required.filter (·.selected)).map (·.col)
  let required := dedup (reqCols s.required)
  let missing := required.filter fun c => !s.avail.contains c
  let select := selected.foldl (fun out c => if out.contains c then out else out ++ [c]) output
  { rest := rest, missing := missing, select := select, kept := s.kept }

def SplitResult.preceding (r : SplitResult) : Option (List Tr) :=
  if r.rest.isEmpty then none else some (r.rest ++ [.select r.missing])

def SplitResult.atomic (r : SplitResult) : List Tr := .select r.select :: r.kept

/-! ### anchor_split -/

/-- the redirect map of a split: a later entry for the same column wins (HashMap::insert) -/
def redirect (m : List (CId × CId)) (c : CId) : CId := (m.reverse.lookup c).getD c

def Ex.map (f : CId → CId) : Ex → Ex
  | .col c => .col (f c)
  | .leaf => .leaf
  | .case a => .case (a.map f)
  | .op a => .op (a.map f)
  | .sstr a => .sstr (a.map f)
  | .cons h t => .cons (h.map f) (t.map f)
  | .nil => .nil

def Comp.map (f : CId → CId) (c : Comp) : Comp :=
  { id := f c.id, expr := c.expr.map f, win := c.win.map (·.map f), isAgg := c.isAgg }

/-- `CidRedirector::fold_sql_transform`: relation instances are left alone -/
def Tr.map (f : CId → CId) : Tr → Tr
  | .from cols => .from cols
  | .join cols e => .join cols (e.map f)
  | .compute c => .compute (c.map f)
  | .filter e => .filter (e.map f)
  | .aggregate p c => .aggregate (p.map f) (c.map f)
  | .sort cols => .sort (cols.map f)
  | .sqlSort cols => .sqlSort (cols.map f)
  | .take r p s => .take (r.map f) (p.map f) (s.map f)
  | .select cols => .select (cols.map f)
  | .distinct => .distinct
  | .distinctOn cols => .distinctOn (cols.map f)
  | .union cols => .union cols
  | .except cols => .except cols
  | .intersect cols => .intersect cols
  | .loop => .loop
  | .append => .append

/-- `anchor_split`: `colsAtSplit` is the Select that ends the preceding pipeline, `next` the next fresh column id.
Returns the new instance columns and the redirected atomic pipeline headed by its From. -/
def anchorSplit (next : CId) (colsAtSplit : List CId) (atomic : List Tr) : List CId × List Tr :=
  let newCids := (List.range colsAtSplit.length).map (· + next)
  let m := colsAtSplit.zip newCids
  (newCids, .from newCids :: atomic.map (Tr.map (redirect m)))

/-! ### scope vocabulary (specification side; evaluated on real pipelines by the driver, reasoned about in Lemmas/Anchor) -/

/-- column ids a transform defines for the transforms after it -/
def Tr.defs : Tr → List CId
  | .from cs => cs
  | .join cs _ => cs
  | .compute c => [c.id]
  | _ => []

def defsOf (p : List Tr) : List CId := p.flatMap Tr.defs

/-- columns of the relation instances of a segment -/
def Tr.inst : Tr → List CId
  | .from cs => cs
  | .join cs _ => cs
  | _ => []

def instCols (p : List Tr) : List CId := p.flatMap Tr.inst

/-- every column id a transform mentions -/
def Tr.reads : Tr → List CId
  | .join _ f => f.reads
  | .compute c => c.allReads
  | .filter e => e.reads
  | .aggregate p c => p ++ c
  | .sort cs => cs
  | .sqlSort cs => cs
  | .take r p s => r.reads ++ p ++ s
  | .select cs => cs
  | .distinctOn cs => cs
  | _ => []

def Tr.isAgg : Tr → Bool
  | .aggregate _ _ => true
  | _ => false

def hasAgg (l : List Tr) : Bool := l.any Tr.isAgg

def Tr.isSelect : Tr → Bool
  | .select _ => true
  | _ => false

/-- the columns the SELECT built from a segment reads on behalf of a transform of the segment
(`aggFollows`: an Aggregate is among the transform itself and those after it): a sort in front of an aggregate is
dropped, a compute is read only through the columns that mention it, the aggregate reads its partition -/
def Tr.roots (t : Tr) (aggFollows : Bool) : List CId :=
  match t with
  | .aggregate p _ => p
  | .filter e => e.reads
  | .sort cs => if aggFollows then [] else cs
  | .sqlSort cs => if aggFollows then [] else cs
  | .distinctOn cs => cs
  | .take r _ _ => r.reads
  | .join _ f => f.reads
  | _ => []

/-- well-formed pipeline, stated on the reversed list: every transform mentions only columns defined before it (a join
condition also the columns of the relation it joins) and defines only columns that nothing before it defines -/
def wfRev : List Tr → Bool
  | [] => true
  | t :: before =>
    t.reads.all (fun c => (defsOf before).contains c || t.inst.contains c) &&
    t.defs.all (fun d => !(defsOf before).contains d) && wfRev before

def wfPipe (p : List Tr) (out : List CId) : Bool :=
  wfRev p.reverse && out.all fun c => (defsOf p).contains c

/-- executable form of `SelfSupporting` (Lemmas/Anchor): every column of `R` is external, an instance column of the
segment, or a compute of the segment whose own reads lie in `R` again -/
def selfSupportingB (ext : List CId) (seg : List Tr) (R : List CId) : Bool :=
  R.all fun c =>
    ext.contains c || (instCols seg).contains c ||
      seg.any fun t => match t with
        | .compute comp => comp.id == c && comp.allReads.all fun d => R.contains d
        | _ => false

/-- the final requirement columns of the scan (the witness set `R` of the scope theorem) -/
def finalRequired (decls : List Comp) (pipeline : List Tr) (output : List CId) : List CId :=
  let init : Scan := { required := shouldSelect (allowUpTo (fromCids output) Cx.highest) true }
  reqCols (scanRev decls pipeline.reverse init).1.required

/-- executable summary of the scope theorem for one split -/
def splitClosedB (decls : List Comp) (p : List Tr) (out : List CId) : Bool :=
  let r := splitOffBack decls p out
  let R := finalRequired decls p out
  selfSupportingB r.missing r.kept R && r.missing.all (fun c => (defsOf r.rest).contains c) &&
    r.select.all (fun c => R.contains c)

/-! ### extract_atomic as a whole -/

/-- `AnchorContext::determine_select_columns`: the columns a pipeline ends with (argument: the pipeline REVERSED, last
transform first) -/
def determineSelectRev : List Tr → List CId
  | [] => []
  | .from cols :: _ => cols
  | .join cols _ :: before => determineSelectRev before ++ cols
  | .select cols :: _ => cols
  | .aggregate partition compute :: _ => partition ++ compute
  | _ :: before => determineSelectRev before

def determineSelect (p : List Tr) : List CId := determineSelectRev p.reverse

structure Extracted where
  /-- the atomic pipeline that is compiled to one SELECT -/
  atomic : List Tr
  /-- the pipelines stashed as new relations (what `anchor_split` declares), innermost first -/
  stashed : List (List Tr)
  /-- the requested output columns as they are called in `atomic` (after the redirects) -/
  output : List CId
  next : CId
  deriving Repr, Inhabited

/-- the Select of an atomic pipeline (the first one, as `translate_select_pipeline` plucks it) -/
def selectOf (p : List Tr) : Option (List CId) := p.findSome? fun t => match t with | .select cs => some cs | _ => none

structure Stage1 where
  atomic : List Tr
  stashed : List (List Tr)
  out1 : List CId
  next1 : CId
  deriving Repr, Inhabited

/-- first half of `extract_atomic`: split off the last atomic part and anchor it -/
def stage1 (decls : List Comp) (next : CId) (p : List Tr) (out : List CId) : Stage1 :=
  let r := splitOffBack decls p out
  if r.rest.isEmpty then { atomic := r.atomic, stashed := [], out1 := out, next1 := next }
  else
    { atomic := (anchorSplit next r.missing r.atomic).2, stashed := [r.rest ++ [.select r.missing]],
      out1 := out.map (redirect (r.missing.zip (anchorSplit next r.missing r.atomic).1)),
      next1 := next + r.missing.length }

/-- second half: if the Select had to be widened by columns that other clauses need, wrap the pipeline into a limiting
SELECT of exactly the requested columns -/
def stage2 (s : Stage1) : Extracted :=
  let selectCols := (selectOf s.atomic).getD []
  if selectCols.any (fun c => !s.out1.contains c) then
    { atomic := (anchorSplit s.next1 selectCols [.select s.out1]).2,
      stashed := s.stashed ++ [s.atomic ++ [.select selectCols]],
      output := s.out1.map (redirect (selectCols.zip (anchorSplit s.next1 selectCols [.select s.out1]).1)),
      next := s.next1 + selectCols.length }
  else { atomic := s.atomic, stashed := s.stashed, output := s.out1, next := s.next1 }

/-- `extract_atomic` for the requested output columns `out` (= `determine_select_columns`, passed through the positional
mapping when the pipeline is the bottom of a set operation) -/
def extractAtomic (decls : List Comp) (next : CId) (p : List Tr) (out : List CId) : Extracted :=
  stage2 (stage1 decls next p out)

end Model.Anchor
