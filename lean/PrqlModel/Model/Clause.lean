/-
Mirror of the LIMIT / OFFSET / FETCH emission of `translate_select_pipeline` (sql/gen_query.rs), which is
where the dialect flag `use_fetch` (Gen/Dialects, from sql/dialect.rs) decides the clause shape:
  offset = start-1 (no OFFSET clause when 0), limit = end - offset;
  use_fetch: the limit becomes FETCH FIRST n ROWS ONLY, which needs an OFFSET (0 is added) and an ORDER BY
  (a placeholder `(SELECT NULL)`, or the first projected expression under DISTINCT, is added).
-/
import PrqlModel.Model.Take
import PrqlModel.Gen.Dialects
namespace Model.Clause
open Model.Take Gen

inductive OrderFill | none | selectNull | firstProjection
  deriving DecidableEq, Repr

structure Clauses where
  limit : Option Nat
  offset : Option Nat
  /-- `OFFSET n ROWS` spelling -/
  offsetRows : Bool
  fetch : Option Nat
  orderFill : OrderFill
  deriving DecidableEq, Repr

def emit (useFetch : Bool) (r : Range) (orderByEmpty distinct : Bool) : Clauses :=
  let lo := limitOffsetOf r
  let offset0 : Option Nat := if lo.2 = 0 then Option.none else some lo.2
  let fetch : Option Nat := if useFetch then lo.1 else Option.none
  let limit : Option Nat := if useFetch then Option.none else lo.1
  if fetch.isSome then
    { limit := limit,
      offset := some (offset0.getD 0),
      offsetRows := true,
      fetch := fetch,
      orderFill := if orderByEmpty then (if distinct then .firstProjection else .selectNull) else .none }
  else
    { limit := limit, offset := offset0, offsetRows := useFetch, fetch := Option.none, orderFill := .none }

def emitFor (d : Dialect) (r : Range) (orderByEmpty distinct : Bool) : Clauses :=
  emit d.use_fetch r orderByEmpty distinct

/-- rows a clause set selects from an (ordered) list: OFFSET then LIMIT or FETCH -/
def select (c : Clauses) (l : List α) : List α :=
  let l' := l.drop (c.offset.getD 0)
  match c.limit, c.fetch with
  | some n, _ => l'.take n
  | Option.none, some n => l'.take n
  | Option.none, Option.none => l'

/-! ### the quantifier of a set operation (`translate_set_ops_pipeline`): `UNION ALL` keeps duplicates; the de-duplicating form
is spelled `UNION DISTINCT` only where the dialect flag `set_ops_distinct` says the engine knows that spelling, otherwise the
bare `UNION` (which de-duplicates by default) -/

inductive SetQuant | distinct | bare | all
  deriving DecidableEq, Repr

def setQuantifier (setOpsDistinct distinct : Bool) : SetQuant :=
  if distinct then (if setOpsDistinct then .distinct else .bare) else .all

def setQuantifierFor (d : Dialect) (distinct : Bool) : SetQuant := setQuantifier d.set_ops_distinct distinct

end Model.Clause
