/-
Mirror of `compile_relation_instance` (sql/pq/gen_query.rs): when a relation is referenced, is it used by name or inlined
as a sub-query, and where does its definition land in the WITH list?

A relation is `Defined` (a database table, or a relation whose CTE is under way or finished) or still to be defined.
Referencing a defined relation gives a reference by name. Otherwise the relation is compiled now - which references the
relations of ITS body, recursively - and either (CTEs allowed here and preferred for this reference) it is marked defined
first and pushed to the WITH list after its body, or it stays undefined and becomes a sub-query in place.

Input: the body of every compilation of a relation as the list of references made while compiling it (the structure is discovered by the
compiler while it splits pipelines; here it is data), each with the two flags the decision reads. Output: the flat log of
what happens. Recursion runs on fuel; `Props/C07.lean` shows that the references of a ranked (acyclic) structure are always
to relations that are defined EARLIER in the WITH list.

Tie: cargo feature `verif` brackets every call of `compile_relation_instance` and records every push to the WITH list;
tools/ctetrace.py rebuilds the bodies from the nesting of the recorded calls and replays them here.
-/
namespace Model.CteOrder

structure Ref where
  tid : Nat
  preferCte : Bool
  allowCtes : Bool
  /-- which recorded body is compiled if this reference has to define the relation (a relation that is inlined more than once
  is compiled more than once, and every compilation splits its pipeline into new relations) -/
  bodyId : Nat := 0
  deriving Repr, DecidableEq, Inhabited

abbrev Bodies := List (Nat × List Ref)

def bodyOf (b : Bodies) (t : Nat) : List Ref := (b.lookup t).getD []

inductive Ev where
  | useRef (tid : Nat)        -- the reference is emitted as a name
  | subBegin (tid : Nat)      -- the relation is inlined as a sub-query: its body follows
  | subEnd (tid : Nat)
  | cteBegin (tid : Nat)      -- the relation becomes a CTE: its body follows
  | ctePush (tid : Nat)       -- .. and is pushed to the WITH list
  deriving Repr, DecidableEq, Inhabited

structure St where
  /-- relations with status `Defined` -/
  defined : List Nat
  log : List Ev := []
  deriving Repr, Inhabited

/-- `compile_relation_instance` -/
def compileRef (b : Bodies) : Nat → St → Ref → St
  | 0, st, _ => st
  | fuel + 1, st, r =>
    if st.defined.contains r.tid then { st with log := st.log ++ [.useRef r.tid] }
    else if !(r.allowCtes && r.preferCte) then
      -- status restored before the body is compiled: the relation stays undefined
      let st1 := (bodyOf b r.bodyId).foldl (fun s x => compileRef b fuel s x) { st with log := st.log ++ [.subBegin r.tid] }
      { st1 with log := st1.log ++ [.subEnd r.tid] }
    else
      let st1 := (bodyOf b r.bodyId).foldl (fun s x => compileRef b fuel s x)
        { defined := r.tid :: st.defined, log := st.log ++ [.cteBegin r.tid] }
      { st1 with log := st1.log ++ [.ctePush r.tid, .useRef r.tid] }

def compileRefs (b : Bodies) (fuel : Nat) (st : St) (refs : List Ref) : St :=
  refs.foldl (fun s x => compileRef b fuel s x) st

/-- the main relation: its references in order -/
def compileMain (b : Bodies) (fuel : Nat) (extern : List Nat) (main : List Ref) : List Ev :=
  (compileRefs b fuel { defined := extern } main).log

/-- the WITH list: the pushes in order -/
def withList (log : List Ev) : List Nat := log.filterMap fun | .ctePush t => some t | _ => none

end Model.CteOrder
