/-
Mirror of the Flattener (semantic/resolver/flatten.rs): nested `group` / `window` transform calls are flattened into one
pipeline, and every transform call receives the partition, the window frame and the sort that are in effect where it
stands.

A pipeline is the nesting of the resolved PL: each transform call holds its input (`init`), `group` / `window` hold the
body of their closure (whose innermost input is the closure parameter, i.e. `nil` here), `join` / `append` hold the
relation they take as argument. Sort specifications, partitions and frames are opaque ids (0 = none / empty / default).

State of the pass: `sort` flows from a transform to the ones after it; `undone` flows the other way (a `group` with a
non-empty key makes every `sort` of its input and of its body disappear as a transform - the order survives only in the
`sort` field handed to the transforms behind it); `partition` and `frame` are set for a body and reset after it.
A relation given to `join` / `append` is flattened with an empty sort and leaves the sort of the enclosing pipeline
untouched (fix 147decc).

Tie: cargo feature `verif` records input and output of every call of `Flattener::fold`; tools/flattrace.py replays them.
-/
namespace Model.Flatten

inductive PL where
  | nil
  | sort (init : PL) (by_ : Nat)
  | group (init : PL) (byEmpty : Bool) (byId : Nat) (inner : PL)
  | window (init : PL) (frame : Nat) (inner : PL)
  | join (init : PL) (side : PL)
  | append (init : PL) (side : PL)
  | other (init : PL) (tag : Nat)
  deriving Repr, DecidableEq, Inhabited

structure St where
  sort : Nat := 0
  undone : Bool := false
  partition : Nat := 0
  frame : Nat := 0
  deriving Repr, DecidableEq, Inhabited

/-- an emitted transform call (`by_`: the key of a Sort that is kept), or a bracket around the flattened argument of a
join / append -/
inductive Out where
  | tr (tag : Nat) (by_ : Nat) (partition frame sort : Nat)
  | sideBegin
  | sideEnd
  deriving Repr, DecidableEq, Inhabited

def tagSort : Nat := 1
def tagJoin : Nat := 2
def tagAppend : Nat := 3

/-- `Flattener::fold_expr` on a transform call -/
def flat : St → PL → St × List Out
  | st, .nil => (st, [])
  | st, .sort init by_ =>
    let r := flat st init
    let s := { r.1 with sort := by_ }
    if s.undone then (s, r.2) else (s, r.2 ++ [.tr tagSort by_ s.partition s.frame s.sort])
  | st, .group init byEmpty byId inner =>
    let r := flat (if byEmpty then st else { st with undone := true }) init
    let b := flat { r.1 with partition := byId, sort := 0 } inner
    ({ b.1 with partition := 0, sort := 0, undone := st.undone }, r.2 ++ b.2)
  | st, .window init frame inner =>
    let r := flat st init
    let b := flat { r.1 with frame := frame } inner
    ({ b.1 with frame := 0 }, r.2 ++ b.2)
  | st, .join init side =>
    let r := flat st init
    let s := flat { r.1 with sort := 0 } side
    let st' := { s.1 with sort := r.1.sort }
    (st', r.2 ++ [.sideBegin] ++ s.2 ++ [.sideEnd, .tr tagJoin 0 st'.partition st'.frame 0])
  | st, .append init side =>
    let r := flat st init
    let s := flat { r.1 with sort := 0 } side
    let st' := { s.1 with sort := r.1.sort }
    (st', r.2 ++ [.sideBegin] ++ s.2 ++ [.sideEnd, .tr tagAppend 0 st'.partition st'.frame 0])
  | st, .other init tag =>
    let r := flat st init
    (r.1, r.2 ++ [.tr tag 0 r.1.partition r.1.frame r.1.sort])

/-- `Flattener::fold` -/
def flatten (p : PL) : List Out := (flat {} p).2

/-! ### specification -/

/-- does the pipeline (at this nesting level) contain no group / window / join / append? -/
def PL.simple : PL → Bool
  | .nil => true
  | .sort init _ => init.simple
  | .other init _ => init.simple
  | _ => false

/-- the sort in effect after a pipeline that started with sort `s0`: the most recent `sort`, nothing after a `group`;
join / append / window / other transforms keep it -/
def effSort (s0 : Nat) : PL → Nat
  | .nil => s0
  | .sort _ by_ => by_
  | .group _ _ _ _ => 0
  | .window init _ inner => effSort (effSort s0 init) inner
  | .join init _ => effSort s0 init
  | .append init _ => effSort s0 init
  | .other init _ => effSort s0 init

end Model.Flatten
