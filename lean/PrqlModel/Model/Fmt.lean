/-
The formatter (prqlc/src/codegen/ast.rs) on the expression fragment: `needs_parenthesis` over the strengths / associativity /
`can_bind_left` of `Gen/Fmt`, `write_within` (context strength = max of the ancestors' since the last parenthesis),
`write_between` (parentheses reset the context), and the `Display` of literals (lexer/lr.rs: quote_string,
escape_all_except_quotes) and identifiers (pr/ident.rs: display_ident_part; codegen: write_ident_part).
Line breaking (width arithmetic) is not modelled: `fmtExpr` is the single-line form.
-/
import PrqlModel.Gen.Fmt
import PrqlModel.Model.PrecU
import PrqlModel.Model.Pratt
import PrqlModel.Model.Lex
namespace Model.Fmt
open Gen.Pratt Gen.Fmt Model.PExpr Model.Pratt

/-- `needs_parenthesis` after the `unbound_expr` test: context strength, own strength, position, own associativity -/
def needsParen (ctx own : Nat) (pos assoc : Pos) : Bool :=
  if ctx > own then true
  else if ctx < own then false
  else !(match pos with
    | .Left => assoc == .Left
    | .Right => assoc == .Right
    | .Unspecified => false)

/-- the formatter's decision on operator nodes (binary / unary): parent, "child is the left operand", child.
The context strength of a child is the parent's strength (the child was not parenthesised only if it is at least as strong
as its own context); the associativity consulted is the CHILD's. -/
def fmtNp : PrecU.Np BinOp UnOp
  | .b p, isLeft, .b c => needsParen (binStrength p) (binStrength c) (if isLeft then .Left else .Right) (binAssoc c)
  | .b p, isLeft, .u _ => needsParen (binStrength p) unaryStrength (if isLeft then .Left else .Right) .Unspecified
  | .u _, _, .b c => needsParen unaryStrength (binStrength c) .Unspecified (binAssoc c)
  | .u _, _, .u _ => needsParen unaryStrength unaryStrength .Unspecified .Unspecified

/-! ### the writer -/
structure Opt where
  ctx : Nat := 0
  pos : Pos := .Unspecified
  unbound : Bool := false

def strengthOf : SExpr → Nat
  | .col _ => identStrength
  | .lit _ => otherStrength
  | .un _ _ => unaryStrength
  | .bin o _ _ => binStrength o
  | .caseB _ _ _ => otherStrength
  | .caseEnd => otherStrength
  | .inRange _ _ _ => otherStrength      -- a pipeline
  | .fn1 _ _ => funcCallStrength
  | .call2 _ _ _ => funcCallStrength

def assocOf : SExpr → Pos
  | .bin o _ _ => binAssoc o
  | _ => .Unspecified

def canBindLeftE : SExpr → Bool
  | .un o _ => canBindLeft o
  | _ => false

def needsParenE (e : SExpr) (o : Opt) : Bool :=
  (o.unbound && canBindLeftE e) || needsParen o.ctx (strengthOf e) o.pos (assocOf e)

/-! literals -/
def hexDigit (d : Nat) : Char := if d < 10 then Char.ofNat ('0'.toNat + d) else Char.ofNat ('a'.toNat + d - 10)

def hexDigitsAux : Nat → Nat → List Char → List Char
  | 0, _, acc => acc
  | f + 1, n, acc => if n < 16 then hexDigit n :: acc else hexDigitsAux f (n / 16) (hexDigit (n % 16) :: acc)

/-- `char::escape_default` -/
def escapeDefault (c : Char) : List Char :=
  if c = '\t' then ['\\', 't'] else if c = '\r' then ['\\', 'r'] else if c = '\n' then ['\\', 'n']
  else if c = '\\' then ['\\', '\\'] else if c = '\'' then ['\\', '\''] else if c = '"' then ['\\', '"']
  else if 0x20 ≤ c.toNat && c.toNat ≤ 0x7e then [c]
  else ['\\', 'u', '{'] ++ hexDigitsAux 8 c.toNat [] ++ ['}']

/-- `escape_all_except_quotes` -/
def escapeAllExceptQuotes (s : List Char) : List Char :=
  s.flatMap fun c => if c = '"' || c = '\'' then [c] else escapeDefault c

/-- longest run of `q` in `s` -/
def maxRun (q : Char) (s : List Char) : Nat :=
  (s.foldl (fun (acc : Nat × Nat) c => if c = q then (acc.1 + 1, max acc.2 (acc.1 + 1)) else (0, acc.2)) (0, 0)).2

/-- `quote_string` -/
def quoteString (s : List Char) : List Char :=
  if !s.contains '"' then ['"'] ++ s ++ ['"']
  else if !s.contains '\'' then ['\''] ++ s ++ ['\'']
  else
    let quote := if s.head? = some '"' || s.getLast? = some '"' then '\'' else '"'
    let n := (maxRun quote s + 1) / 2 * 2 + 1
    List.replicate n quote ++ s ++ List.replicate n quote

def stripTrailingZeros (ds : List Char) : List Char := (ds.reverse.dropWhile (· == '0')).reverse

/-- `{f}` of the f64 nearest to `m / 10^e` (few digits: the shortest round-trip representation is the decimal itself):
no trailing zeros, no fraction at all when it is zero -/
def floatDisplay (m : Int) (e : Nat) : List Char :=
  let n := m.natAbs
  let frac := stripTrailingZeros (padFrac e (natDigits (n % tenPow e)))
  (if m < 0 then ['-'] else []) ++ natDigits (n / tenPow e) ++ (if frac.isEmpty then [] else '.' :: frac)

/-- `Display for Literal` -/
def litDisplay : Lit → List Char
  | .null => ['n', 'u', 'l', 'l']
  | .int i => (if i < 0 then ['-'] else []) ++ natDigits i.natAbs
  | .bool b => if b then ['t', 'r', 'u', 'e'] else ['f', 'a', 'l', 's', 'e']
  | .float m e => floatDisplay m e
  | .str s => quoteString (escapeAllExceptQuotes s)

/-! identifiers -/
def inRanges (rs : List (Char × Char)) (c : Char) : Bool := rs.any fun r => r.1 ≤ c && c ≤ r.2

/-- `display_ident_part`: how an identifier EXPRESSION is printed (no keyword check) -/
def displayIdentPart (s : List Char) : List Char :=
  match s with
  | [] => ['`', '`']
  | c :: r => if !inRanges displayStart c || r.any (fun x => !inRanges displayCont x) then ['`'] ++ s ++ ['`'] else s

/-- `valid_prql_ident` -/
def validPrqlIdent (s : List Char) : Bool :=
  s == ['*'] || match s with
    | [] => false
    | c :: r => inRanges identStart c && r.all (inRanges identCont)

/-- `write_ident_part`: aliases, parameter names, import aliases -/
def writeIdentPart (s : List Char) : List Char :=
  if validPrqlIdent s && !keywords.contains s then s else ['`'] ++ s ++ ['`']

def intercalate (sep : List Char) : List (List Char) → List Char
  | [] => []
  | [x] => x
  | x :: xs => x ++ sep ++ intercalate sep xs

mutual
/-- `Expr::write` (no alias) -/
def fmt (o : Opt) : SExpr → List Char
  | .col i => colName i
  | .lit l => litDisplay l
  | .un u x =>
    let body (o' : Opt) := u.text ++ fmt { o' with ctx := max o'.ctx unaryStrength } x
    if needsParenE (.un u x) o then ['('] ++ body { o with ctx := 0, unbound := false } ++ [')'] else body o
  | .bin b l r =>
    let body (o' : Opt) :=
      fmt { o' with ctx := max o'.ctx (binStrength b), pos := .Left } l ++ [' '] ++ b.text ++ [' ']
        ++ fmt { o' with ctx := max o'.ctx (binStrength b), pos := .Right } r
    if needsParenE (.bin b l r) o then ['('] ++ body { o with ctx := 0, unbound := false } ++ [')'] else body o
  | .caseB c v rest =>
    let o' : Opt := { o with ctx := 0, unbound := false }
    ['c', 'a', 's', 'e', ' ', '['] ++ fmt o' c ++ [' ', '=', '>', ' '] ++ fmt o' v ++ caseTail o' rest
  | .caseEnd => ['c', 'a', 's', 'e', ' ', '[', ']']
  | .inRange x lo hi =>
    -- Pipeline [x, FuncCall(in, [Range lo hi])]: parentheses reset the context; the range is an argument (unbound)
    let o0 : Opt := { o with ctx := 0, unbound := false }
    let oa : Opt := { o with ctx := max funcCallStrength rangeStrength, unbound := true }
    ['('] ++ fmt o0 x ++ [' ', '|', ' ', 'i', 'n', ' ']
      ++ fmt oa lo ++ ['.', '.'] ++ fmt oa hi ++ [')']
  | .fn1 f x =>
    let body (o' : Opt) := fn1Name f ++ [' '] ++ fmt { o' with ctx := max o'.ctx funcCallStrength, unbound := true } x
    if needsParenE (.fn1 f x) o then ['('] ++ body { o with ctx := 0, unbound := false } ++ [')'] else body o
  | .call2 b l r =>
    let body (o' : Opt) :=
      let oa : Opt := { o' with ctx := max o'.ctx funcCallStrength, unbound := true }
      userFnName b ++ [' '] ++ fmt oa l ++ [' '] ++ fmt oa r
    if needsParenE (.call2 b l r) o then ['('] ++ body { o with ctx := 0, unbound := false } ++ [')'] else body o
def caseTail (o : Opt) : SExpr → List Char
  | .caseB c v rest => [',', ' '] ++ fmt o c ++ [' ', '=', '>', ' '] ++ fmt o v ++ caseTail o rest
  | .caseEnd => [']']
  | e => [',', ' ', 't', 'r', 'u', 'e', ' ', '=', '>', ' '] ++ fmt o e ++ [']']
end

/-- the formatter's single-line text of an expression at top level (e.g. after `let x = `) -/
def fmtExpr (e : SExpr) : List Char := fmt {} e

/-! ### the operator fragment as a `PrecU` printer -/
/-- operator trees among the source trees -/
def ofSExpr? : SExpr → Option PTree
  | .col i => some (.leaf (.col i))
  | .lit l => some (.leaf (.lit l))
  | .un u x => (ofSExpr? x).map (.un u)
  | .bin b l r => do pure (.bin b (← ofSExpr? l) (← ofSExpr? r))
  | _ => none

def ptokText : PTok → List Char
  | .atom (.col i) => colName i
  | .atom (.lit l) => litDisplay l
  | .atom .star => ['*']
  | .op o => [' '] ++ o.text ++ [' ']
  | .pre u => u.text
  | .lp => ['(']
  | .rp => [')']

/-- the formatter's spacing: a binary operator between spaces, nothing else -/
def renderF (ts : List PTok) : List Char := ts.flatMap ptokText

/-! ### literals and identifiers against the lexer -/
/-- `Display` of a lexer literal (the kinds the `literal()` lexer produces; floats as decimal text `i.f`) -/
def lexLitDisplay : Model.Lex.Lit → Option (List Char)
  | .null => some (litDisplay .null)
  | .boolean b => some (litDisplay (.bool b))
  | .integer i => some (litDisplay (.int i))
  | .string s => some (litDisplay (.str s))
  | .rawString s => some ('r' :: quoteString s)
  | .valueAndUnit n u => some (litDisplay (.int n) ++ u)
  | .float text =>
    -- decimal text `int.frac`: the f64 is printed as the shortest decimal
    let ip := text.takeWhile (· != '.')
    let fp := (text.dropWhile (· != '.')).drop 1
    if ip.all Char.isDigit && fp.all Char.isDigit && !ip.isEmpty && !fp.isEmpty then
      some (floatDisplay (Model.Lex.natOfDigits 10 (ip ++ fp)) fp.length)
    else none
  | _ => none

/-- what the lexer makes of a printed identifier: an identifier only if it is neither a keyword, a literal nor a parameter -/
def lexIdent (t : List Char) : Option (List Char) :=
  if (Model.Lex.keyword t).isSome || (Model.Lex.literal t).isSome || (Model.Lex.param t).isSome then none
  else match Model.Lex.identPart t with
    | some (s, []) => some s
    | _ => none

end Model.Fmt
