/-
Function application of the PRQL core (mirror of the argument binding in semantic/resolver/functions.rs:
`apply_args_to_closure` / `desugar_pipeline`), at the level the equivalences of C06 and the rejections of
C10 need: a function has positional parameters and named parameters with defaults; a call passes
positional arguments in order and named arguments by name; `x | f a` is `f a x`.
The body is an expression over the parameters (positional first, then named, by position).
-/
import PrqlModel.Model.Rel
namespace Model.Fn
open Model.Rel

/-- substitute expressions for columns (inlining a function body / a computed column) -/
def subst (σ : List Expr) : Expr → Expr
  | .col i => σ.getD i (.lit .null)
  | .lit v => .lit v
  | .bin op a b => .bin op (subst σ a) (subst σ b)
  | .neg a => .neg (subst σ a)
  | .not a => .not (subst σ a)
  | .isNull a => .isNull (subst σ a)
  | .notNull a => .notNull (subst σ a)
  | .ite c t e => .ite (subst σ c) (subst σ t) (subst σ e)

abbrev Name := List Char

structure FnDecl where
  positional : Nat
  named : List (Name × Expr)       -- name and default
  body : Expr                      -- over positional ++ named parameters

inductive CallErr
  | tooManyPositional
  | missingPositional
  | unknownNamed (n : Name)
  deriving Repr, DecidableEq

/-- bind the arguments of a call: the environment for the body, or a rejection -/
def bindArgs (f : FnDecl) (pos : List Expr) (named : List (Name × Expr)) : Except CallErr (List Expr) :=
  if f.positional < pos.length then .error .tooManyPositional
  else if pos.length < f.positional then .error .missingPositional
  else match named.find? (fun na => !(f.named.any fun p => p.1 == na.1)) with
    | some na => .error (.unknownNamed na.1)
    | none => .ok (pos ++ f.named.map fun p => ((named.find? fun na => na.1 == p.1).map (·.2)).getD p.2)

/-- a call, as the expression it resolves to -/
def call (f : FnDecl) (pos : List Expr) (named : List (Name × Expr)) : Except CallErr Expr :=
  (bindArgs f pos named).map fun σ => subst σ f.body

/-- `x | f a…` -/
def pipeCall (f : FnDecl) (x : Expr) (pos : List Expr) (named : List (Name × Expr)) : Except CallErr Expr :=
  call f (pos ++ [x]) named

end Model.Fn
