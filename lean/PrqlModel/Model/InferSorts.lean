/-
Mirror of the sorting inference of the SQL back end (sql/pq/postprocess.rs):

* `SortingInference::fold_sql_transforms` - one pass over the transforms of a SELECT block with the state
  (`sorting`, `sorting_from_distinct_on`): a From inherits the sorting of the relation it reads, a Sort replaces the
  sorting and is dropped, Distinct / Aggregate clear it, a Join keeps it unless it came from DISTINCT ON, a Sort is
  emitted in front of every Take (the take's embedded sort if it is a plain take that has one, otherwise the sorting in
  effect) and of every DistinctOn; the Select of a block that is not the main relation is widened by the columns of the
  final sorting;
* the bookkeeping between blocks (`ctes_sorting`): the sorting a block ends with is remembered under the CTE's id and
  handed to every later reader.

A sorting is a list of (column id, descending?). What the From arm finds for the relation it reads (look-up in
`ctes_sorting` or the recursive fold of a sub-query, then `redirect_sorts`) is an input of the block-level mirror; the
look-up itself is the small state machine `Store` below.

Tie to the code: cargo feature `verif` records every call of `fold_sql_transforms` (input transforms, what each From
inherited before / after the redirect, output transforms, final sorting and flag) and every `ctes_sorting.insert`;
tools/sorttrace.py replays the calls through `inferBlock` and checks the look-ups against `Store`.
-/
namespace Model.InferSorts

abbrev CId := Nat
abbrev Sorting := List (CId × Bool)

inductive STr where
  | from (inherited : Sorting) (fromDistinctOn : Bool)
  | sort (s : Sorting)
  | distinct
  | aggregate
  | join
  | take (plain : Bool) (embedded : Sorting)     -- plain: `take.partition.is_empty()`
  | distinctOn
  | select (cols : List CId)
  | other                                        -- Filter, Union, Except, Intersect
  deriving Repr, DecidableEq, Inhabited

/-- output transforms: an emitted Sort, or the input transform handed through -/
inductive OTr where
  | emitted (s : Sorting)
  | keep (t : STr)
  deriving Repr, DecidableEq, Inhabited

structure St where
  sorting : Sorting := []
  fromDO : Bool := false
  deriving Repr, DecidableEq, Inhabited

/-- one iteration of the loop: the new state and what is pushed to `result` -/
def step (st : St) : STr → St × List OTr
  | .from inh f => ({ sorting := inh, fromDO := f }, [.keep (.from inh f)])
  | .sort s => ({ sorting := s, fromDO := false }, [])
  | .distinct => ({ sorting := [], fromDO := false }, [.keep .distinct])
  | .aggregate => ({ sorting := [], fromDO := false }, [.keep .aggregate])
  | .join => (if st.fromDO then { sorting := [], fromDO := false } else st, [.keep .join])
  | .take plain emb =>
    (st, [.emitted (if plain && !emb.isEmpty then emb else st.sorting), .keep (.take plain emb)])
  | .distinctOn => ({ st with fromDO := true }, [.emitted st.sorting, .keep .distinctOn])
  | .select cols => (st, [.keep (.select cols)])
  | .other => (st, [.keep .other])

def run : St → List STr → St × List OTr
  | st, [] => (st, [])
  | st, t :: ts =>
    let (st1, o1) := step st t
    let (st2, o2) := run st1 ts
    (st2, o1 ++ o2)

/-- the first Select of the output is widened by the sort columns that it lacks (blocks that are not the main relation) -/
def widen (cols : List CId) (s : Sorting) : List CId :=
  s.foldl (fun acc c => if acc.contains c.1 then acc else acc ++ [c.1]) cols

def widenFirstSelect (s : Sorting) : List OTr → List OTr
  | [] => []
  | .keep (.select cols) :: rest => .keep (.select (widen cols s)) :: rest
  | o :: rest => o :: widenFirstSelect s rest

/-- `fold_sql_transforms` -/
def inferBlock (main : Bool) (ts : List STr) : St × List OTr :=
  let (st, out) := run {} ts
  (st, if main then out else widenFirstSelect st.sorting out)

/-! ### specification: the sort in effect, read off the transforms from the most recent one backwards -/

/-- was the sorting in effect produced by a DISTINCT ON? (argument: the transforms so far, most recent first) -/
def doInEffect : List STr → Bool
  | [] => false
  | .from _ f :: _ => f
  | .sort _ :: _ => false
  | .distinct :: _ => false
  | .aggregate :: _ => false
  | .distinctOn :: _ => true
  | .join :: _ => false
  | _ :: before => doInEffect before

/-- the sort in effect after the given transforms (most recent first): the most recent Sort, or what the most recent
From inherited, unless a Distinct / Aggregate came later, or a Join came later while the order was only the internal
one of a DISTINCT ON -/
def inEffect : List STr → Sorting
  | [] => []
  | .from inh _ :: _ => inh
  | .sort s :: _ => s
  | .distinct :: _ => []
  | .aggregate :: _ => []
  | .join :: before => if doInEffect before then [] else inEffect before
  | _ :: before => inEffect before

/-! ### between blocks: the store of remembered sortings -/

structure Store where
  entries : List (Nat × (Sorting × Bool)) := []
  deriving Repr, Inhabited

/-- `ctes_sorting.insert(tid, ..)` -/
def Store.insert (s : Store) (tid : Nat) (v : Sorting × Bool) : Store := { entries := (tid, v) :: s.entries }

/-- the From arm: `ctes_sorting.get(tid)`; an unknown relation has no order. Reading does not change the store. -/
def Store.read (s : Store) (tid : Nat) : Sorting × Bool := (s.entries.lookup tid).getD ([], false)

/-- `redirect_sorts`: every column through the redirect map of the reading instance -/
def redirectSorts (m : List (CId × CId)) (s : Sorting) : Sorting :=
  s.map fun c => ((m.lookup c.1).getD c.1, c.2)

end Model.InferSorts
