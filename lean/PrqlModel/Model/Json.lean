/-
JSON values, a compact printer with serde_json's escaping, and a total parser, with the
round-trip theorem `Model.Json.parse_print : j.wf → parse (print j) = some j`.

Core Lean only (the driver links this file).  Strings are `List Char`.
Numbers: IEEE floats are NOT modelled.  A JSON number token without fraction/exponent is an
`Int`; every other number token is kept verbatim as opaque text (`JNum.text`).

Shared helpers for other models:
* `Model.Dec` – decimal printing / reading of `Nat` (`natDigits`, `readNat`, `readNat_natDigits`).
* `Model.Json.{get?, items, asStr, asInt, asNat, asBool, members}` – accessors.
-/
namespace Model

/-! ## decimal naturals -/
namespace Dec

def digitChar (n : Nat) : Char := Char.ofNat (48 + n % 10)
def digitVal (c : Char) : Nat := c.toNat - 48

/-- fuelled most-significant-first decimal digits (fuel `n+1` always suffices) -/
def digitsF : Nat → Nat → List Char
  | 0, _ => []
  | f + 1, n => if n < 10 then [digitChar n] else digitsF f (n / 10) ++ [digitChar (n % 10)]

/-- what Rust's `{}` prints for an unsigned integer -/
def natDigits (n : Nat) : List Char := digitsF (n + 1) n

def digitsVal (ds : List Char) : Nat := ds.foldl (fun a c => a * 10 + digitVal c) 0

/-- a non-empty all-digit token read as a natural (leading zeros allowed) -/
def readNat (ds : List Char) : Option Nat :=
  if ds ≠ [] ∧ ds.all Char.isDigit = true then some (digitsVal ds) else none

theorem digitChar_ok : ∀ n : Fin 10, (digitChar n.val).isDigit = true ∧ digitVal (digitChar n.val) = n.val := by
  decide

theorem digitChar_isDigit (n : Nat) : (digitChar n).isDigit = true := by
  have h := (digitChar_ok ⟨n % 10, Nat.mod_lt _ (by decide)⟩).1
  simpa [digitChar] using h

theorem digitVal_digitChar (n : Nat) (h : n < 10) : digitVal (digitChar n) = n :=
  (digitChar_ok ⟨n, h⟩).2

theorem digitsVal_snoc (ds : List Char) (c : Char) :
    digitsVal (ds ++ [c]) = digitsVal ds * 10 + digitVal c := by
  simp [digitsVal, List.foldl_append]

theorem digitsF_spec : ∀ (f n : Nat), n < f →
    digitsF f n ≠ [] ∧ (digitsF f n).all Char.isDigit = true ∧ digitsVal (digitsF f n) = n
  | 0, n, h => by omega
  | f + 1, n, h => by
    unfold digitsF
    by_cases h10 : n < 10
    · simp only [h10, if_true]
      refine ⟨by simp, by simp [digitChar_isDigit], ?_⟩
      simp [digitsVal, digitVal_digitChar n h10]
    · simp only [h10, if_false]
      have ⟨_, h2, h3⟩ := digitsF_spec f (n / 10) (by omega)
      refine ⟨by simp, ?_, ?_⟩
      · simp [List.all_append, h2, digitChar_isDigit]
      · rw [digitsVal_snoc, h3, digitVal_digitChar _ (Nat.mod_lt _ (by decide))]; omega

/-- the first digit of a positive number is not `0` -/
theorem digitsF_head : ∀ (f n : Nat), n < f → 1 ≤ n →
    ∃ d tl, digitsF f n = digitChar d :: tl ∧ 1 ≤ d ∧ d < 10
  | 0, n, h, _ => by omega
  | f + 1, n, h, h1 => by
    unfold digitsF
    by_cases h10 : n < 10
    · simp only [h10, if_true]; exact ⟨n, [], rfl, h1, h10⟩
    · simp only [h10, if_false]
      have ⟨d, tl, e, hd⟩ := digitsF_head f (n / 10) (by omega) (by omega)
      exact ⟨d, tl ++ [digitChar (n % 10)], by simp [e], hd⟩

theorem natDigits_ne_nil (n : Nat) : natDigits n ≠ [] := (digitsF_spec (n + 1) n (by omega)).1
theorem natDigits_all_digit (n : Nat) : (natDigits n).all Char.isDigit = true :=
  (digitsF_spec (n + 1) n (by omega)).2.1
theorem digitsVal_natDigits (n : Nat) : digitsVal (natDigits n) = n :=
  (digitsF_spec (n + 1) n (by omega)).2.2

/-- decimal print/read round trip for every natural number -/
theorem readNat_natDigits (n : Nat) : readNat (natDigits n) = some n := by
  simp [readNat, natDigits_ne_nil, natDigits_all_digit, digitsVal_natDigits]

theorem natDigits_zero : natDigits 0 = ['0'] := by decide

theorem natDigits_head_pos (n : Nat) (h : 1 ≤ n) :
    ∃ d tl, natDigits n = digitChar d :: tl ∧ 1 ≤ d ∧ d < 10 :=
  digitsF_head (n + 1) n (by omega) h

end Dec

/-! ## values -/

/-- a JSON number: an integer token, or any other number token kept as text -/
inductive JNum where
  | int (i : Int)
  | text (s : List Char)
  deriving DecidableEq, Repr

mutual
inductive Json where
  | null
  | bool (b : Bool)
  | num (n : JNum)
  | str (s : List Char)
  | arr (xs : JList)
  | obj (ms : JMembers)
inductive JList where
  | nil
  | cons (x : Json) (xs : JList)
/-- association list of an object, in document order (duplicate keys are representable) -/
inductive JMembers where
  | nil
  | cons (k : List Char) (v : Json) (ms : JMembers)
end

deriving instance DecidableEq for Json, JList, JMembers

namespace Json
open Dec

/-! ### characters -/
def isWs (c : Char) : Bool := c = ' ' || c = '\n' || c = '\r' || c = '\t'

/-- the characters a JSON number token is made of -/
def isNumChar (c : Char) : Bool := c.isDigit || c = '-' || c = '+' || c = '.' || c = 'e' || c = 'E'

def skipWs : List Char → List Char
  | [] => []
  | c :: r => if isWs c then skipWs r else c :: r

/-! ### numbers -/

def printNum : JNum → List Char
  | .int (.ofNat n) => natDigits n
  | .int (.negSucc n) => '-' :: natDigits (n + 1)
  | .text s => s

/-- after `e` / `E`: optional sign, then one or more digits -/
def expOk (r : List Char) : Bool :=
  match r with
  | [] => false
  | c :: ds => if c = '+' ∨ c = '-' then (ds ≠ [] && ds.all Char.isDigit) else r.all Char.isDigit

/-- what may follow the integer part of a number token that is not a plain integer -/
def fracExpOk (r : List Char) : Bool :=
  match r with
  | [] => false
  | c :: x =>
    if c = '.' then
      let fd := x.takeWhile Char.isDigit
      match x.dropWhile Char.isDigit with
      | [] => fd ≠ []
      | e :: y => fd ≠ [] && (e = 'e' || e = 'E') && expOk y
    else if c = 'e' ∨ c = 'E' then expOk x
    else false

def classifyBody (neg : Bool) (tok body : List Char) : Option JNum :=
  let ip := body.takeWhile Char.isDigit
  let r1 := body.dropWhile Char.isDigit
  match ip with
  | [] => none
  | d :: ds =>
    if d = '0' ∧ ds ≠ [] then none       -- no leading zeros
    else match r1 with
      | [] => some (.int (if neg then - (digitsVal ip : Int) else (digitsVal ip : Int)))
      | _ :: _ => if fracExpOk r1 then some (.text tok) else none

/-- a complete number token (grammar of RFC 8259): integers become `Int`, the rest stays text -/
def classify (tok : List Char) : Option JNum :=
  match tok with
  | [] => none
  | c :: b => if c = '-' then classifyBody true tok b else classifyBody false tok tok

/-- split off the maximal run of number characters -/
def spanNum : List Char → List Char × List Char
  | [] => ([], [])
  | c :: r => if isNumChar c then ((spanNum r).1.cons c, (spanNum r).2) else ([], c :: r)

def wfNum : JNum → Bool
  | .int _ => true
  | .text s => s.all isNumChar && (classify s == some (.text s))

/-! ### strings -/

def hexDigit (n : Nat) : Char := if n < 10 then Char.ofNat (48 + n) else Char.ofNat (87 + n)

def hexVal (c : Char) : Option Nat :=
  if c.isDigit then some (c.toNat - 48)
  else if 97 ≤ c.toNat ∧ c.toNat ≤ 102 then some (c.toNat - 87)
  else if 65 ≤ c.toNat ∧ c.toNat ≤ 70 then some (c.toNat - 55)
  else none

def hex4 (a b c d : Char) : Option Nat :=
  match hexVal a, hexVal b, hexVal c, hexVal d with
  | some a, some b, some c, some d => some (((a * 16 + b) * 16 + c) * 16 + d)
  | _, _, _, _ => none

/-- serde_json's `format_escaped_str_contents`: `"` `\` and the C0 controls are escaped, nothing else -/
def escapeChar (c : Char) : List Char :=
  if c = '"' then ['\\', '"']
  else if c = '\\' then ['\\', '\\']
  else if c = '\n' then ['\\', 'n']
  else if c = '\r' then ['\\', 'r']
  else if c = '\t' then ['\\', 't']
  else if c = Char.ofNat 8 then ['\\', 'b']
  else if c = Char.ofNat 12 then ['\\', 'f']
  else if c.toNat < 32 then ['\\', 'u', '0', '0', hexDigit (c.toNat / 16), hexDigit (c.toNat % 16)]
  else [c]

def escape : List Char → List Char
  | [] => []
  | c :: cs => escapeChar c ++ escape cs

def printStr (s : List Char) : List Char := '"' :: (escape s ++ ['"'])

def unescape1 (e : Char) : Option Char :=
  if e = '"' then some '"'
  else if e = '\\' then some '\\'
  else if e = '/' then some '/'
  else if e = 'n' then some '\n'
  else if e = 'r' then some '\r'
  else if e = 't' then some '\t'
  else if e = 'b' then some (Char.ofNat 8)
  else if e = 'f' then some (Char.ofNat 12)
  else none

def consFst (c : Char) : Option (List Char × List Char) → Option (List Char × List Char)
  | some (s, r) => some (c :: s, r)
  | none => none

/-- string contents after the opening quote, up to and including the closing quote.
`\uXXXX` escapes are decoded (surrogate pairs combined, lone surrogates rejected);
raw control characters are rejected as serde_json does. -/
def pStr : List Char → Option (List Char × List Char)
  | [] => none
  | c :: r =>
    if c = '"' then some ([], r)
    else if c = '\\' then
      match r with
      | [] => none
      | e :: r1 =>
        if e = 'u' then
          match r1 with
          | a :: b :: c' :: d :: r2 =>
            match hex4 a b c' d with
            | none => none
            | some v =>
              if 0xD800 ≤ v ∧ v < 0xDC00 then
                match r2 with
                | b1 :: u1 :: a2 :: b2 :: c2 :: d2 :: r3 =>
                  if b1 = '\\' ∧ u1 = 'u' then
                    match hex4 a2 b2 c2 d2 with
                    | none => none
                    | some w =>
                      if 0xDC00 ≤ w ∧ w < 0xE000 then
                        consFst (Char.ofNat (0x10000 + (v - 0xD800) * 0x400 + (w - 0xDC00))) (pStr r3)
                      else none
                  else none
                | _ => none
              else if 0xDC00 ≤ v ∧ v < 0xE000 then none
              else consFst (Char.ofNat v) (pStr r2)
          | _ => none
        else
          match unescape1 e with
          | some ch => consFst ch (pStr r1)
          | none => none
    else if c.toNat < 32 then none
    else consFst c (pStr r)

/-! ### structure -/

mutual
def print : Json → List Char
  | .null => ['n', 'u', 'l', 'l']
  | .bool true => ['t', 'r', 'u', 'e']
  | .bool false => ['f', 'a', 'l', 's', 'e']
  | .num n => printNum n
  | .str s => printStr s
  | .arr .nil => ['[', ']']
  | .arr (.cons x xs) => '[' :: (print x ++ printArrTail xs)
  | .obj .nil => ['{', '}']
  | .obj (.cons k v ms) => '{' :: (printStr k ++ ':' :: (print v ++ printObjTail ms))
/-- what follows an array element: `]` or `,` and the next element -/
def printArrTail : JList → List Char
  | .nil => [']']
  | .cons x xs => ',' :: (print x ++ printArrTail xs)
def printObjTail : JMembers → List Char
  | .nil => ['}']
  | .cons k v ms => ',' :: (printStr k ++ ':' :: (print v ++ printObjTail ms))
end

mutual
def wf : Json → Bool
  | .null => true
  | .bool _ => true
  | .num n => wfNum n
  | .str _ => true
  | .arr xs => wfList xs
  | .obj ms => wfMembers ms
def wfList : JList → Bool
  | .nil => true
  | .cons x xs => wf x && wfList xs
def wfMembers : JMembers → Bool
  | .nil => true
  | .cons _ v ms => wf v && wfMembers ms
end

/-- expect the literal `lit` -/
def expect : List Char → List Char → Option (List Char)
  | [], s => some s
  | _ :: _, [] => none
  | l :: ls, c :: s => if l = c then expect ls s else none

/-- `"key" ws :` after leading whitespace has been skipped; returns key and rest -/
def pKey (s : List Char) : Option (List Char × List Char) :=
  match s with
  | [] => none
  | q :: r =>
    if q = '"' then
      match pStr r with
      | none => none
      | some (k, r1) =>
        match skipWs r1 with
        | [] => none
        | c :: r2 => if c = ':' then some (k, r2) else none
    else none

mutual
/-- one value (leading whitespace allowed); fuel bounds the number of nested calls -/
def pValue : Nat → List Char → Option (Json × List Char)
  | 0, _ => none
  | f + 1, s =>
    match skipWs s with
    | [] => none
    | c :: r =>
      if c = '"' then
        match pStr r with
        | some (x, r1) => some (.str x, r1)
        | none => none
      else if c = '[' then
        match skipWs r with
        | [] => none
        | c1 :: r1 =>
          if c1 = ']' then some (.arr .nil, r1)
          else
            match pValue f (c1 :: r1) with
            | none => none
            | some (x, r2) =>
              match pArrTail f r2 with
              | none => none
              | some (xs, r3) => some (.arr (.cons x xs), r3)
      else if c = '{' then
        match skipWs r with
        | [] => none
        | c1 :: r1 =>
          if c1 = '}' then some (.obj .nil, r1)
          else
            match pKey (c1 :: r1) with
            | none => none
            | some (k, r2) =>
              match pValue f r2 with
              | none => none
              | some (v, r3) =>
                match pObjTail f r3 with
                | none => none
                | some (ms, r4) => some (.obj (.cons k v ms), r4)
      else if c = 't' then (expect ['r', 'u', 'e'] r).map fun r1 => (.bool true, r1)
      else if c = 'f' then (expect ['a', 'l', 's', 'e'] r).map fun r1 => (.bool false, r1)
      else if c = 'n' then (expect ['u', 'l', 'l'] r).map fun r1 => (.null, r1)
      else
        match classify (spanNum (c :: r)).1 with
        | some n => some (.num n, (spanNum (c :: r)).2)
        | none => none
def pArrTail : Nat → List Char → Option (JList × List Char)
  | 0, _ => none
  | f + 1, s =>
    match skipWs s with
    | [] => none
    | c :: r =>
      if c = ']' then some (.nil, r)
      else if c = ',' then
        match pValue f r with
        | none => none
        | some (x, r1) =>
          match pArrTail f r1 with
          | none => none
          | some (xs, r2) => some (.cons x xs, r2)
      else none
def pObjTail : Nat → List Char → Option (JMembers × List Char)
  | 0, _ => none
  | f + 1, s =>
    match skipWs s with
    | [] => none
    | c :: r =>
      if c = '}' then some (.nil, r)
      else if c = ',' then
        match pKey (skipWs r) with
        | none => none
        | some (k, r1) =>
          match pValue f r1 with
          | none => none
          | some (v, r2) =>
            match pObjTail f r2 with
            | none => none
            | some (ms, r3) => some (.cons k v ms, r3)
      else none
end

/-- a complete JSON document: one value, surrounded by optional whitespace -/
def parse (s : List Char) : Option Json :=
  match pValue (s.length + 1) s with
  | some (j, r) => if skipWs r = [] then some j else none
  | none => none

/-! ## round trip: `parse (print j) = some j` -/

theorem skipWs_cons {c : Char} (r : List Char) (h : isWs c = false) : skipWs (c :: r) = c :: r := by
  simp [skipWs, h]

def okRest : List Char → Bool
  | [] => true
  | c :: _ => !isNumChar c

theorem spanNum_append : ∀ (s rest : List Char), s.all isNumChar = true → okRest rest = true →
    spanNum (s ++ rest) = (s, rest)
  | [], [], _, _ => rfl
  | [], c :: r, _, h => by
    simp only [okRest, Bool.not_eq_true'] at h
    simp [spanNum, h]
  | c :: s, rest, hs, h => by
    simp only [List.all_cons, Bool.and_eq_true] at hs
    simp [spanNum, hs.1, spanNum_append s rest hs.2 h]

theorem isDigit_isNumChar {c : Char} (h : c.isDigit = true) : isNumChar c = true := by
  simp [isNumChar, h]

theorem all_digit_all_numChar {s : List Char} (h : s.all Char.isDigit = true) : s.all isNumChar = true := by
  simp only [List.all_eq_true] at *
  intro c hc; exact isDigit_isNumChar (h c hc)

theorem digit_ne_minus {c : Char} (h : c.isDigit = true) : c ≠ '-' := by
  intro e; subst e; revert h; decide

theorem takeWhile_all (p : Char → Bool) : ∀ (l : List Char), l.all p = true →
    l.takeWhile p = l ∧ l.dropWhile p = []
  | [], _ => ⟨rfl, rfl⟩
  | c :: l, h => by
    simp only [List.all_cons, Bool.and_eq_true] at h
    have ⟨a, b⟩ := takeWhile_all p l h.2
    simp [List.takeWhile, List.dropWhile, h.1, a, b]

theorem classifyBody_digits (neg : Bool) (tok : List Char) (n : Nat) :
    classifyBody neg tok (natDigits n) = some (.int (if neg then - (n : Int) else (n : Int))) := by
  have hall := natDigits_all_digit n
  have ⟨htw, hdw⟩ := takeWhile_all _ _ hall
  unfold classifyBody
  simp only [htw, hdw]
  by_cases h0 : n = 0
  · subst h0; simp [natDigits_zero, digitsVal, digitVal]
  · obtain ⟨d, tl, e, hd1, hd2⟩ := natDigits_head_pos n (by omega)
    have hne : digitChar d ≠ '0' := by
      have : ∀ d : Fin 10, 1 ≤ d.val → digitChar d.val ≠ '0' := by decide
      exact this ⟨d, hd2⟩ hd1
    have hv := digitsVal_natDigits n
    rw [e] at hv ⊢
    simp [hne, hv]

theorem classify_printNum_int (i : Int) : classify (printNum (.int i)) = some (.int i) := by
  cases i with
  | ofNat n =>
    simp only [printNum]
    have hne := natDigits_ne_nil n
    have hall := natDigits_all_digit n
    have := classifyBody_digits false (natDigits n) n
    cases h : natDigits n with
    | nil => exact absurd h hne
    | cons c b =>
      rw [h] at hall this
      simp only [List.all_cons, Bool.and_eq_true] at hall
      simp [classify, digit_ne_minus hall.1, this]
  | negSucc n =>
    simp only [printNum, classify, if_true]
    rw [classifyBody_digits]
    simp [Int.negSucc_eq]

theorem printNum_spec (n : JNum) (h : wfNum n = true) :
    printNum n ≠ [] ∧ (printNum n).all isNumChar = true ∧ classify (printNum n) = some n := by
  cases n with
  | int i =>
    refine ⟨?_, ?_, classify_printNum_int i⟩
    · cases i <;> simp [printNum, natDigits_ne_nil]
    · cases i with
      | ofNat n => exact all_digit_all_numChar (natDigits_all_digit n)
      | negSucc n =>
        simp only [printNum, List.all_cons, Bool.and_eq_true]
        exact ⟨by decide, all_digit_all_numChar (natDigits_all_digit _)⟩
  | text s =>
    simp only [wfNum, Bool.and_eq_true, beq_iff_eq] at h
    refine ⟨?_, h.1, h.2⟩
    intro e; simp only [printNum] at e; rw [e] at h; simp [classify] at h


/-! ### strings -/

theorem hex4_ctrl : ∀ n : Fin 32, hex4 '0' '0' (hexDigit (n.val / 16)) (hexDigit (n.val % 16)) = some n.val := by
  decide

theorem consFst_some (c : Char) (s r : List Char) : consFst c (some (s, r)) = some (c :: s, r) := rfl

theorem pStr_cons (c : Char) (r : List Char) : pStr (c :: r) =
    if c = '"' then some ([], r)
    else if c = '\\' then
      match r with
      | [] => none
      | e :: r1 =>
        if e = 'u' then
          match r1 with
          | a :: b :: c' :: d :: r2 =>
            match hex4 a b c' d with
            | none => none
            | some v =>
              if 0xD800 ≤ v ∧ v < 0xDC00 then
                match r2 with
                | b1 :: u1 :: a2 :: b2 :: c2 :: d2 :: r3 =>
                  if b1 = '\\' ∧ u1 = 'u' then
                    match hex4 a2 b2 c2 d2 with
                    | none => none
                    | some w =>
                      if 0xDC00 ≤ w ∧ w < 0xE000 then
                        consFst (Char.ofNat (0x10000 + (v - 0xD800) * 0x400 + (w - 0xDC00))) (pStr r3)
                      else none
                  else none
                | _ => none
              else if 0xDC00 ≤ v ∧ v < 0xE000 then none
              else consFst (Char.ofNat v) (pStr r2)
          | _ => none
        else
          match unescape1 e with
          | some ch => consFst ch (pStr r1)
          | none => none
    else if c.toNat < 32 then none
    else consFst c (pStr r) := by
  conv => lhs; rw [pStr.eq_def]
  all_goals rfl

theorem pStr_escapeChar (c : Char) (tl : List Char) : pStr (escapeChar c ++ tl) = consFst c (pStr tl) := by
  unfold escapeChar
  split
  · next h => subst h; simp [pStr_cons, unescape1]
  split
  · next h => subst h; simp [pStr_cons, unescape1]
  split
  · next h => subst h; simp [pStr_cons, unescape1]
  split
  · next h => subst h; simp [pStr_cons, unescape1]
  split
  · next h => subst h; simp [pStr_cons, unescape1]
  split
  · next h => subst h; simp [pStr_cons, unescape1]
  split
  · next h => subst h; simp [pStr_cons, unescape1]
  split
  · next h1 h2 h3 h4 h5 h6 h7 h =>
    have hx := hex4_ctrl ⟨c.toNat, h⟩
    simp only at hx
    have hc : Char.ofNat c.toNat = c := Char.ofNat_toNat c
    have e1 : ¬ (55296 ≤ c.toNat ∧ c.toNat < 56320) := by omega
    have e2 : ¬ (56320 ≤ c.toNat ∧ c.toNat < 57344) := by omega
    simp [pStr_cons, hx, hc, e1, e2]
  · next h1 h2 h3 h4 h5 h6 h7 h =>
    simp [pStr_cons, h1, h2, h]

theorem pStr_escape : ∀ (s rest : List Char), pStr (escape s ++ '"' :: rest) = some (s, rest)
  | [], rest => by simp [escape, pStr_cons]
  | c :: s, rest => by
    simp only [escape, List.append_assoc]
    rw [pStr_escapeChar, pStr_escape s rest]; rfl



/-! ### structure -/

theorem numChar_not_ws {c : Char} (h : isNumChar c = true) : isWs c = false := by
  cases hw : isWs c with
  | false => rfl
  | true =>
    simp only [isWs, Bool.or_eq_true, decide_eq_true_eq] at hw
    rcases hw with ((h1 | h1) | h1) | h1 <;> subst h1 <;> revert h <;> decide

theorem numChar_ne {c d : Char} (h : isNumChar c = true) (hd : isNumChar d = false) : c ≠ d := by
  intro e; subst e; rw [h] at hd; cases hd

theorem print_head : ∀ (j : Json), wf j = true →
    ∃ c tl, print j = c :: tl ∧ isWs c = false ∧ c ≠ ']'
  | .null, _ => ⟨'n', _, by simp only [print]; rfl, by decide, by decide⟩
  | .bool true, _ => ⟨'t', _, by simp only [print]; rfl, by decide, by decide⟩
  | .bool false, _ => ⟨'f', _, by simp only [print]; rfl, by decide, by decide⟩
  | .str s, _ => ⟨'"', _, by simp only [print, printStr]; rfl, by decide, by decide⟩
  | .arr .nil, _ => ⟨'[', _, by simp only [print]; rfl, by decide, by decide⟩
  | .arr (.cons _ _), _ => ⟨'[', _, by simp only [print]; rfl, by decide, by decide⟩
  | .obj .nil, _ => ⟨'{', _, by simp only [print]; rfl, by decide, by decide⟩
  | .obj (.cons _ _ _), _ => ⟨'{', _, by simp only [print]; rfl, by decide, by decide⟩
  | .num n, h => by
    simp only [wf] at h
    obtain ⟨h1, h2, _⟩ := printNum_spec n h
    simp only [print]
    cases hp : printNum n with
    | nil => exact absurd hp h1
    | cons c tl =>
      rw [hp] at h2
      simp only [List.all_cons, Bool.and_eq_true] at h2
      exact ⟨c, tl, rfl, numChar_not_ws h2.1, numChar_ne h2.1 (by decide)⟩

theorem pKey_print (k rest : List Char) : pKey (printStr k ++ ':' :: rest) = some (k, rest) := by
  simp [pKey, printStr, pStr_escape, skipWs, isWs]


theorem okRest_cons {c : Char} (r : List Char) (h : isNumChar c = false) : okRest (c :: r) = true := by
  simp [okRest, h]

theorem expect_append : ∀ (l rest : List Char), expect l (l ++ rest) = some rest
  | [], _ => by simp [expect]
  | c :: l, rest => by simp [expect, expect_append l rest]

theorem skipWs_lit (c : Char) (r : List Char) (h : isWs c = false := by decide) : skipWs (c :: r) = c :: r :=
  skipWs_cons r h

mutual
theorem pValue_print : ∀ (j : Json), wf j = true → ∀ (f : Nat) (rest : List Char), okRest rest = true →
    (print j).length ≤ f → pValue f (print j ++ rest) = some (j, rest)
  | .null, _, f, rest, _, hf => by
    cases f with
    | zero => simp [print] at hf
    | succ f => simp [print, pValue, skipWs, isWs, expect]
  | .bool true, _, f, rest, _, hf => by
    cases f with
    | zero => simp [print] at hf
    | succ f => simp [print, pValue, skipWs, isWs, expect]
  | .bool false, _, f, rest, _, hf => by
    cases f with
    | zero => simp [print] at hf
    | succ f => simp [print, pValue, skipWs, isWs, expect]
  | .str s, _, f, rest, _, hf => by
    cases f with
    | zero => simp [print, printStr] at hf
    | succ f => simp [print, printStr, pValue, skipWs, isWs, pStr_escape]
  | .num n, hw, f, rest, hr, hf => by
    simp only [wf] at hw
    obtain ⟨h1, h2, h3⟩ := printNum_spec n hw
    simp only [print] at hf ⊢
    cases f with
    | zero => cases hp : printNum n with
      | nil => exact absurd hp h1
      | cons c tl => rw [hp] at hf; simp at hf
    | succ f =>
      have hsp := spanNum_append _ _ h2 hr
      cases hp : printNum n with
      | nil => exact absurd hp h1
      | cons c tl =>
        rw [hp] at h2 hsp h3
        simp only [List.all_cons, Bool.and_eq_true] at h2
        have hc := h2.1
        have hws := numChar_not_ws hc
        simp only [List.cons_append] at hsp ⊢
        simp only [pValue, skipWs, hws, Bool.false_eq_true, if_false]
        simp only [numChar_ne hc (d := '"') (by decide), numChar_ne hc (d := '[') (by decide),
          numChar_ne hc (d := '{') (by decide), numChar_ne hc (d := 't') (by decide),
          numChar_ne hc (d := 'f') (by decide), numChar_ne hc (d := 'n') (by decide), if_false, hsp, h3]
  | .arr .nil, _, f, rest, _, hf => by
    cases f with
    | zero => simp [print] at hf
    | succ f => simp [print, pValue, skipWs, isWs]
  | .arr (.cons x xs), hw, f, rest, hr, hf => by
    simp only [wf, wfList, Bool.and_eq_true] at hw
    simp only [print, List.length_cons, List.length_append] at hf
    cases f with
    | zero => omega
    | succ f =>
      obtain ⟨c, tl, hp, hws, hne⟩ := print_head x hw.1
      have hx := pValue_print x hw.1 f (printArrTail xs ++ rest)
        (by cases xs <;> simp [printArrTail, okRest, isNumChar] <;> decide) (by omega)
      have hxs := pArrTail_print xs hw.2 f rest (by omega)
      rw [hp] at hx
      simp only [List.cons_append] at hx
      simp only [print, hp, List.cons_append, List.append_assoc, pValue, skipWs_lit '[', skipWs_cons _ hws]
      simp [hne, hx, hxs]
  | .obj .nil, _, f, rest, _, hf => by
    cases f with
    | zero => simp [print] at hf
    | succ f => simp [print, pValue, skipWs, isWs]
  | .obj (.cons k v ms), hw, f, rest, hr, hf => by
    simp only [wf, wfMembers, Bool.and_eq_true] at hw
    simp only [print, List.length_cons, List.length_append] at hf
    cases f with
    | zero => omega
    | succ f =>
      have hv := pValue_print v hw.1 f (printObjTail ms ++ rest)
        (by cases ms <;> simp [printObjTail, okRest, isNumChar] <;> decide) (by omega)
      have hms := pObjTail_print ms hw.2 f rest (by omega)
      have hk := pKey_print k (print v ++ (printObjTail ms ++ rest))
      simp only [printStr, List.cons_append, List.append_assoc, List.nil_append] at hk
      simp only [print, printStr, List.cons_append, List.append_assoc, List.nil_append, pValue, skipWs_lit '{', skipWs_lit '"']
      simp [hk, hv, hms]
theorem pArrTail_print : ∀ (xs : JList), wfList xs = true → ∀ (f : Nat) (rest : List Char),
    (printArrTail xs).length ≤ f → pArrTail f (printArrTail xs ++ rest) = some (xs, rest)
  | .nil, _, f, rest, hf => by
    cases f with
    | zero => simp [printArrTail] at hf
    | succ f => simp [printArrTail, pArrTail, skipWs, isWs]
  | .cons x xs, hw, f, rest, hf => by
    simp only [wfList, Bool.and_eq_true] at hw
    simp only [printArrTail, List.length_cons, List.length_append] at hf
    cases f with
    | zero => omega
    | succ f =>
      have hx := pValue_print x hw.1 f (printArrTail xs ++ rest)
        (by cases xs <;> simp [printArrTail, okRest, isNumChar] <;> decide) (by omega)
      have hxs := pArrTail_print xs hw.2 f rest (by omega)
      simp only [printArrTail, List.cons_append, List.append_assoc, pArrTail, skipWs_lit ',']
      simp [hx, hxs]
theorem pObjTail_print : ∀ (ms : JMembers), wfMembers ms = true → ∀ (f : Nat) (rest : List Char),
    (printObjTail ms).length ≤ f → pObjTail f (printObjTail ms ++ rest) = some (ms, rest)
  | .nil, _, f, rest, hf => by
    cases f with
    | zero => simp [printObjTail] at hf
    | succ f => simp [printObjTail, pObjTail, skipWs, isWs]
  | .cons k v ms, hw, f, rest, hf => by
    simp only [wfMembers, Bool.and_eq_true] at hw
    simp only [printObjTail, List.length_cons, List.length_append] at hf
    cases f with
    | zero => omega
    | succ f =>
      have hv := pValue_print v hw.1 f (printObjTail ms ++ rest)
        (by cases ms <;> simp [printObjTail, okRest, isNumChar] <;> decide) (by omega)
      have hms := pObjTail_print ms hw.2 f rest (by omega)
      have hk := pKey_print k (print v ++ (printObjTail ms ++ rest))
      simp only [printStr, List.cons_append, List.append_assoc, List.nil_append] at hk
      simp only [printObjTail, printStr, List.cons_append, List.append_assoc, List.nil_append, pObjTail, skipWs_lit ',', skipWs_lit '"']
      simp [hk, hv, hms]
end

/-- **Round trip.**  Every well-formed value is read back from its compact text.
`wf` only constrains opaque number text: it must be a JSON number token that is not a plain
integer (plain integers are represented by `JNum.int`). -/
theorem parse_print (j : Json) (h : wf j = true) : parse (print j) = some j := by
  have := pValue_print j h ((print j).length + 1) [] rfl (by omega)
  simp only [List.append_nil] at this
  simp [parse, this, skipWs]


/-! ## accessors (the API other models / handlers use) -/

def JList.toList : JList → List Json
  | .nil => []
  | .cons x xs => x :: JList.toList xs
def JList.ofList : List Json → JList
  | [] => .nil
  | x :: xs => .cons x (JList.ofList xs)
def JMembers.toList : JMembers → List (List Char × Json)
  | .nil => []
  | .cons k v ms => (k, v) :: JMembers.toList ms
def JMembers.ofList : List (List Char × Json) → JMembers
  | [] => .nil
  | (k, v) :: ms => .cons k v (JMembers.ofList ms)

def JMembers.find? (k : List Char) : JMembers → Option Json
  | .nil => none
  | .cons k' v ms => if k' = k then some v else JMembers.find? k ms

/-- value of the first member called `k` of an object -/
def get? (k : List Char) : Json → Option Json
  | .obj ms => JMembers.find? k ms
  | _ => none
/-- the members of an object, in document order -/
def members : Json → Option (List (List Char × Json))
  | .obj ms => some (JMembers.toList ms)
  | _ => none
/-- the elements of an array -/
def items : Json → Option (List Json)
  | .arr xs => some (JList.toList xs)
  | _ => none
def asStr : Json → Option (List Char)
  | .str s => some s
  | _ => none
def asInt : Json → Option Int
  | .num (.int i) => some i
  | _ => none
def asNat : Json → Option Nat
  | .num (.int (.ofNat n)) => some n
  | _ => none
def asBool : Json → Option Bool
  | .bool b => some b
  | _ => none
def isNull : Json → Bool
  | .null => true
  | _ => false
/-- `j.path? [k₁, k₂, …]` = nested `get?` -/
def path? : List (List Char) → Json → Option Json
  | [], j => some j
  | k :: ks, j => match get? k j with
    | some v => path? ks v
    | none => none

/-- `n`-th element of an array -/
def item? (n : Nat) : Json → Option Json
  | .arr xs => (JList.toList xs)[n]?
  | _ => none

mutual
/-- nesting depth: scalars 0, containers 1 + the deepest element -/
def depth : Json → Nat
  | .arr xs => 1 + depthL xs
  | .obj ms => 1 + depthM ms
  | _ => 0
def depthL : JList → Nat
  | .nil => 0
  | .cons x xs => max (depth x) (depthL xs)
def depthM : JMembers → Nat
  | .nil => 0
  | .cons _ v ms => max (depth v) (depthM ms)
end

def mkObj (ms : List (List Char × Json)) : Json := .obj (JMembers.ofList ms)
def mkArr (xs : List Json) : Json := .arr (JList.ofList xs)
def mkNat (n : Nat) : Json := .num (.int n)

theorem JList.toList_ofList : ∀ xs : List Json, JList.toList (JList.ofList xs) = xs
  | [] => rfl
  | x :: xs => by simp [JList.ofList, JList.toList, JList.toList_ofList xs]
theorem JMembers.toList_ofList : ∀ ms : List (List Char × Json), JMembers.toList (JMembers.ofList ms) = ms
  | [] => rfl
  | (k, v) :: ms => by simp [JMembers.ofList, JMembers.toList, JMembers.toList_ofList ms]

/-- non-vacuity of `parse_print`: a value with every constructor, by evaluation -/
example :
    let j := mkObj [(['a'], mkArr [mkNat 12, .num (.int (-3)), .num (.text ['1', '.', '5', 'e', '-', '7']),
      .str ['\n', '"', Char.ofNat 1], .null, .bool true, mkObj []])]
    wf j = true ∧ parse (print j) = some j := by decide

end Json
end Model
