/-
Mirror model of the PRQL lexer (prqlc-parser/src/lexer/mod.rs, chumsky 0.12 combinators on `&str`).

The chumsky parsers are PEG-style: `choice` = ordered choice (first success wins, no re-entry), `or_not`/`repeated`
rewind on failure, `rewind` = look-ahead.  A parser here is a function on the remaining input `List Char` returning the
value and the remaining input (always a suffix).  Repetitions whose item is a composite parser run on fuel
(`repeatF`); `Lemmas/Lex.lean` proves that the fuel handed in (`length + 1`) is never exhausted.
Spans are BYTE offsets into the UTF-8 source, computed as `total - utf8Len remaining`.
All tables (keywords, operators, character sets, limits, alternative orders) come from `Gen/Lex.lean`, the Unicode
classes `char::is_alphabetic` / `is_alphanumeric` from `Gen/Unicode.lean`.
Floats are represented by their normalised source text (underscores removed); IEEE values are not modelled.
-/
import PrqlModel.Gen.Lex
import PrqlModel.Gen.Unicode
namespace Model.Lex
open Gen.Lex Gen.Unicode

abbrev Src := List Char

inductive Lit where
  | null
  | integer (i : Int)
  | float (text : Src)
  | boolean (b : Bool)
  | string (s : Src)
  | rawString (s : Src)
  | date (s : Src)
  | time (s : Src)
  | timestamp (s : Src)
  | valueAndUnit (n : Int) (unit : Src)
  deriving DecidableEq, Repr

inductive Kind where
  | newLine
  | ident (s : Src)
  | keyword (s : Src)
  | literal (l : Lit)
  | param (s : Src)
  | range (bindLeft bindRight : Bool)
  | interpolation (c : Char) (s : Src)
  | control (c : Char)
  | op (o : Op)
  | annotate
  | comment (s : Src)
  | docComment (s : Src)
  /-- the comments between the newline and the backslash; `true` = doc comment -/
  | lineWrap (comments : List (Bool × Src))
  | start
  deriving DecidableEq, Repr

structure Token where
  kind : Kind
  start : Nat
  stop : Nat
  deriving DecidableEq, Repr

/-! ### text -/

def width (c : Char) : Nat :=
  if c.toNat < 0x80 then 1 else if c.toNat < 0x800 then 2 else if c.toNat < 0x10000 then 3 else 4

def utf8Len : Src → Nat
  | [] => 0
  | c :: r => width c + utf8Len r

/-- skip characters until at least `n` bytes are skipped (exact on character boundaries) -/
def dropBytes : Nat → Src → Src
  | 0, s => s
  | _ + 1, [] => []
  | n + 1, c :: r => dropBytes (n + 1 - width c) r

/-- take characters until at least `n` bytes are taken (exact on character boundaries) -/
def takeBytes : Nat → Src → Src
  | 0, _ => []
  | _ + 1, [] => []
  | n + 1, c :: r => c :: takeBytes (n + 1 - width c) r

/-- the source text between byte offsets `a` and `b` (`&src[a..b]` when both are character boundaries) -/
def byteSlice (s : Src) (a b : Nat) : Src := takeBytes (b - a) (dropBytes a s)

/-- `b` is a character boundary of `s` -/
def IsBoundary (s : Src) (b : Nat) : Prop := ∃ k, k ≤ s.length ∧ utf8Len (s.take k) = b

/-! ### primitives -/

def isInlineWs (c : Char) : Bool := inlineWhitespace.contains c

/-- `whitespace().or_not()` (also `whitespace().repeated()`): skip all inline whitespace -/
def skipWs (s : Src) : Src := s.dropWhile isInlineWs

/-- `just(p)` -/
def stripPrefix : Src → Src → Option Src
  | [], s => some s
  | _ :: _, [] => none
  | p :: ps, c :: cs => if p = c then stripPrefix ps cs else none

/-- `newline()`: `\n`, or `\r` optionally followed by `\n` -/
def newline : Src → Option Src
  | '\n' :: r => some r
  | '\r' :: '\n' :: r => some r
  | '\r' :: r => some r
  | _ => none

/-- `end_expr()` (look-ahead only) -/
def endExpr (s : Src) : Bool :=
  match s with
  | [] => true
  | c :: _ => endExprChars.contains c || (newline s).isSome || endExprStrs.any (fun p => (stripPrefix p s).isSome)

/-- `any().filter(p).repeated().at_most(n)`: longest prefix of at most `n` characters satisfying `p` -/
def takeUpTo (p : Char → Bool) : Nat → Src → Src × Src
  | 0, s => ([], s)
  | _ + 1, [] => ([], [])
  | n + 1, c :: r => if p c then ((c :: (takeUpTo p n r).1), (takeUpTo p n r).2) else ([], c :: r)

/-- first alternative of an ordered choice of `just(..)` that matches -/
def firstPrefix : List Src → Src → Option (Src × Src)
  | [], _ => none
  | p :: ps, s => match stripPrefix p s with
    | some r => some (p, r)
    | none => firstPrefix ps s

/-- `repeated()` over a composite item parser: collect items until the item parser fails; the rest is where it failed.
`none` only when the fuel runs out (never, see `Lemmas.Lex.repeatF_isSome`). -/
def repeatF {α : Type} (step : Src → Option (α × Src)) : Nat → Src → Option (List α × Src)
  | 0, _ => none
  | n + 1, s => match step s with
    | none => some ([], s)
    | some (a, r) => match repeatF step n r with
      | some (as, r') => some (a :: as, r')
      | none => none

def isDigit (c : Char) : Bool := c.isDigit
def isHexDigit (c : Char) : Bool := c.isDigit || ('a' ≤ c && c ≤ 'f') || ('A' ≤ c && c ≤ 'F')
def isDigitOrUnderscore (c : Char) : Bool := isDigit c || c == '_'

def digitVal (c : Char) : Nat :=
  if c.isDigit then c.toNat - '0'.toNat
  else if 'a' ≤ c && c ≤ 'f' then c.toNat - 'a'.toNat + 10
  else if 'A' ≤ c && c ≤ 'F' then c.toNat - 'A'.toNat + 10
  else 0

def natOfDigits (base : Nat) (ds : Src) : Nat := ds.foldl (fun acc c => acc * base + digitVal c) 0

def i64Max : Nat := 9223372036854775807

/-! ### comments, line wraps -/

def notCommentStop (c : Char) : Bool := !commentStop.contains c

/-- `comment()`: `#` then (`!` text → doc comment | text → comment); text runs to the end of the line -/
def comment : Src → Option ((Bool × Src) × Src)
  | '#' :: '!' :: r => some ((true, r.takeWhile notCommentStop), r.dropWhile notCommentStop)
  | '#' :: r => some ((false, r.takeWhile notCommentStop), r.dropWhile notCommentStop)
  | _ => none

def commentKind (c : Bool × Src) : Kind := if c.1 then .docComment c.2 else .comment c.2

/-- one iteration of the repetition inside `line_wrap`: `whitespace().repeated() comment() newline()` -/
def lineWrapItem (s : Src) : Option ((Bool × Src) × Src) :=
  match comment (skipWs s) with
  | some (c, r) => match newline r with
    | some r' => some (c, r')
    | none => none
  | none => none

/-- `line_wrap()`: newline, (ws* comment newline)*, ws*, backslash -/
def lineWrap (s : Src) : Option (Kind × Src) :=
  match newline s with
  | none => none
  | some r => match repeatF lineWrapItem (r.length + 1) r with
    | none => none
    | some (cs, r1) => match skipWs r1 with
      | '\\' :: r2 => some (.lineWrap cs, r2)
      | _ => none

/-! ### quoted strings -/

def validScalar (n : Nat) : Bool := n < 0xD800 || (0xDFFF < n && n < 0x110000)

/-- `char::from_u32(u32::from_str_radix(hex, 16).unwrap_or(0)).unwrap_or('\u{FFFD}')` (at most 6 hex digits: no overflow) -/
def charOfHex (hex : Src) : Char :=
  let n := natOfDigits 16 hex
  if validScalar n then Char.ofNat n else Char.ofNat 0xFFFD

/-- `parse_escape_sequence`, called after the backslash; `none` input = backslash at end of input -/
def parseEscape : Src → Char × Src
  | [] => ('\\', [])
  | c :: r =>
    match simpleEscapes.lookup c with
    | some v => (v, r)
    | none =>
      if c = 'u' then
        match r with
        | '{' :: r1 =>
          let hr := takeUpTo isHexDigit unicodeEscapeMaxHex r1
          match hr.2 with
          | '}' :: r3 => (charOfHex hr.1, r3)
          | r2 => (charOfHex hr.1, r2)
        | _ => (c, r)
      else if c = 'x' then
        let hr := takeUpTo isHexDigit hexEscapeDigits r
        if hr.1.length = hexEscapeDigits then (charOfHex hr.1, hr.2) else (c, hr.2)
      else (c, r)    -- the quote character itself, or an unknown escape: keep the character

/-- does the input start with `n` copies of `q`?  then the rest after them -/
def stripQuotes (q : Char) : Nat → Src → Option Src
  | 0, s => some s
  | _ + 1, [] => none
  | n + 1, c :: r => if c = q then stripQuotes q n r else none

/-- one content character of a quoted string with an `n`-quote delimiter (fails at the delimiter and at end of input) -/
def contentChar (q : Char) (n : Nat) (escaping : Bool) (s : Src) : Option (Char × Src) :=
  match stripQuotes q n s with
  | some _ => none
  | none => match s with
    | [] => none
    | c :: r => if escaping && c = '\\' then some (parseEscape r) else some (c, r)

/-- `multi_quoted_string(q, escaping)`: an even number of quotes is the empty string; an odd number `n` opens a string
that runs to the next run of `n` quotes -/
def multiQuoted (q : Char) (escaping : Bool) (s : Src) : Option (Src × Src) :=
  let n := (s.takeWhile (· == q)).length
  let r := s.dropWhile (· == q)
  if n = 0 then none
  else if n % 2 = 0 then some ([], r)
  else match repeatF (contentChar q n escaping) (r.length + 1) r with
    | none => none
    | some (cs, r1) => match stripQuotes q n r1 with
      | some r2 => some (cs, r2)
      | none => none

/-- `quoted_string(escaped)` -/
def quotedString (escaping : Bool) (s : Src) : Option (Src × Src) :=
  match multiQuoted '"' escaping s with
  | some x => some x
  | none => multiQuoted '\'' escaping s

def interpolation : Src → Option (Kind × Src)
  | c :: r => if interpolationPrefixes.contains c then
      match quotedString true r with
      | some (v, r') => some (.interpolation c v, r')
      | none => none
    else none
  | [] => none

def isRawStringChar (c : Char) : Bool := !rawStringStop.contains c
def isQuote (c : Char) : Bool := c == '\'' || c == '"'

/-- `raw_string()`: `r`, a quote, characters that are neither quote nor newline, a quote (either kind) -/
def rawString : Src → Option (Lit × Src)
  | 'r' :: q :: r => if isQuote q then
      match r.dropWhile isRawStringChar with
      | q2 :: r' => if isQuote q2 then some (.rawString (r.takeWhile isRawStringChar), r') else none
      | [] => none
    else none
  | _ => none

/-! ### parameters, identifiers, keywords -/

def isParamChar (c : Char) : Bool := isAlphanumeric c || c == '_' || c == '.'
def isIdentStart (c : Char) : Bool := isAlphabetic c || c == '_'
def isIdentCont (c : Char) : Bool := isAlphanumeric c || c == '_'

def param : Src → Option (Kind × Src)
  | '$' :: r => some (.param (r.takeWhile isParamChar), r.dropWhile isParamChar)
  | _ => none

/-- `ident_part()`: plain identifier, or anything between backticks -/
def identPart : Src → Option (Src × Src)
  | c :: r =>
    if isIdentStart c then some (c :: r.takeWhile isIdentCont, r.dropWhile isIdentCont)
    else if c = '`' then
      match r.dropWhile (· != '`') with
      | _ :: r' => some (r.takeWhile (· != '`'), r')
      | [] => none
    else none
  | [] => none

def keyword (s : Src) : Option (Kind × Src) :=
  match firstPrefix keywords s with
  | some (k, r) => if endExpr r then some (.keyword k, r) else none
  | none => none

/-! ### numbers -/

/-- `just("_").or_not()` -/
def dropUnderscore : Src → Src
  | '_' :: r => r
  | r => r

/-- `parse_number_with_base(prefix, base, max_digits, valid_digit)` -/
def radixNumber (pre : Src) (base maxDigits : Nat) (valid : Char → Bool) (s : Src) : Option (Lit × Src) :=
  match stripPrefix pre s with
  | none => none
  | some r =>
    if (takeUpTo valid maxDigits (dropUnderscore r)).1 = [] then none
    else some (.integer (natOfDigits base (takeUpTo valid maxDigits (dropUnderscore r)).1),
               (takeUpTo valid maxDigits (dropUnderscore r)).2)

def isBinDigit (c : Char) : Bool := c == '0' || c == '1'
def isOctDigit (c : Char) : Bool := '0' ≤ c && c ≤ '7'

/-- `parse_integer()`: a non-zero digit followed by digits/underscores, or a single `0` -/
def parseInteger : Src → Option (Src × Src)
  | c :: r =>
    if isDigit c && c != '0' then some (c :: r.takeWhile isDigitOrUnderscore, r.dropWhile isDigitOrUnderscore)
    else if c = '0' then some (['0'], r)
    else none
  | [] => none

def removeUnderscores (s : Src) : Src := s.filter (· != '_')

/-- the optional fraction: `.` digit (digit | `_`)* -/
def fraction : Src → Src × Src
  | '.' :: d :: r => if isDigit d then ('.' :: d :: r.takeWhile isDigitOrUnderscore, r.dropWhile isDigitOrUnderscore)
                     else ([], '.' :: d :: r)
  | s => ([], s)

/-- the optional exponent: `e|E`, optional sign, at least one digit -/
def exponent : Src → Src × Src
  | e :: r =>
    if e = 'e' || e = 'E' then
      match r with
      | sgn :: d :: r' =>
        if (sgn = '+' || sgn = '-') && isDigit d then (e :: sgn :: d :: r'.takeWhile isDigit, r'.dropWhile isDigit)
        else if isDigit sgn then (e :: sgn :: (d :: r').takeWhile isDigit, (d :: r').dropWhile isDigit)
        else ([], e :: r)
      | [d] => if isDigit d then ([e, d], []) else ([], e :: r)
      | [] => ([], e :: r)
    else ([], e :: r)
  | [] => ([], [])

/-- `number()`: integer when the text has neither fraction nor exponent and fits `i64`, otherwise a float (every text of
this shape is accepted by `str::parse::<f64>`, so the `Integer(0)` fallback is unreachable) -/
def number (s : Src) : Option (Lit × Src) :=
  match parseInteger s with
  | none => none
  | some (i, r) =>
    let fr := fraction r
    let ex := exponent fr.2
    let text := removeUnderscores (i ++ fr.1 ++ ex.1)
    if fr.1 = [] && ex.1 = [] && natOfDigits 10 text ≤ i64Max then some (.integer (natOfDigits 10 text), ex.2)
    else some (.float text, ex.2)

/-- `value_and_unit()` -/
def valueAndUnit (s : Src) : Option (Lit × Src) :=
  match parseInteger s with
  | none => none
  | some (i, r) => match firstPrefix timeUnits r with
    | none => none
    | some (u, r') =>
      if endExpr r' then
        let n := natOfDigits 10 (removeUnderscores i)
        some (.valueAndUnit (if n ≤ i64Max then n else 1) u, r')
      else none

def boolean (s : Src) : Option (Lit × Src) :=
  match firstPrefix (booleanLits.map (·.1)) s with
  | some (k, r) => if endExpr r then some (.boolean ((booleanLits.lookup k).getD false), r) else none
  | none => none

def null (s : Src) : Option (Lit × Src) :=
  match stripPrefix nullLit s with
  | some r => if endExpr r then some (.null, r) else none
  | none => none

def string (s : Src) : Option (Lit × Src) :=
  match quotedString true s with
  | some (v, r) => some (.string v, r)
  | none => none

/-- ordered choice -/
def orElse {α : Type} (a : Option α) (b : Unit → Option α) : Option α :=
  match a with
  | some x => some x
  | none => b ()

/-- `literal()` -/
def literal (s : Src) : Option (Lit × Src) :=
  orElse (radixNumber binPrefix 2 binMaxDigits isBinDigit s) fun _ =>
  orElse (radixNumber hexPrefix 16 hexMaxDigits isHexDigit s) fun _ =>
  orElse (radixNumber octPrefix 8 octMaxDigits isOctDigit s) fun _ =>
  orElse (string s) fun _ =>
  orElse (rawString s) fun _ =>
  orElse (valueAndUnit s) fun _ =>
  orElse (number s) fun _ =>
  orElse (boolean s) fun _ =>
  null s

/-! ### dates and times -/

/-- `digits(n)` = `text::digits(10).exactly(n)` -/
def digitsExact (n : Nat) (s : Src) : Option (Src × Src) :=
  let dr := takeUpTo isDigit n s
  if dr.1.length = n then some dr else none

/-- `date_inner()`: YYYY-MM-DD; the value is the matched text -/
def dateInner (s : Src) : Option (Src × Src) :=
  match digitsExact dateDigits.1 s with
  | some (y, '-' :: r1) => match digitsExact dateDigits.2.1 r1 with
    | some (m, '-' :: r2) => match digitsExact dateDigits.2.2 r2 with
      | some (d, r3) => some (y ++ '-' :: m ++ '-' :: d, r3)
      | none => none
    | _ => none
  | _ => none

/-- `time_component(sep, digits(2))` -/
def sepDigits (sep : Char) : Src → Src × Src
  | c :: r => if c = sep then
      match digitsExact timeDigits r with
      | some (d, r') => (sep :: d, r')
      | none => ([], c :: r)
    else ([], c :: r)
  | [] => ([], [])

def millis : Src → Src × Src
  | '.' :: r =>
    let dr := takeUpTo isDigit msMaxDigits r
    if dr.1 = [] then ([], '.' :: r) else ('.' :: dr.1, dr.2)
  | s => ([], s)

/-- `just(':').or_not()` -/
def dropColon : Src → Src
  | ':' :: r => r
  | r => r

/-- `Z`, or sign HH `:`? MM (printed without the colon) -/
def timezone : Src → Src × Src
  | 'Z' :: r => (['Z'], r)
  | c :: r =>
    if c = '-' || c = '+' then
      match digitsExact timeDigits r with
      | some (h, r1) =>
        match digitsExact timeDigits (dropColon r1) with
        | some (m, r3) => (c :: h ++ m, r3)
        | none => ([], c :: r)
      | none => ([], c :: r)
    else ([], c :: r)
  | [] => ([], [])

/-- `time_inner()` -/
def timeInner (s : Src) : Option (Src × Src) :=
  match digitsExact timeDigits s with
  | none => none
  | some (h, r) =>
    let mi := sepDigits ':' r
    let se := sepDigits ':' mi.2
    let ms := millis se.2
    let tz := timezone ms.2
    some (h ++ mi.1 ++ se.1 ++ ms.1 ++ tz.1, tz.2)

def timestampLit (s : Src) : Option (Lit × Src) :=
  match dateInner s with
  | some (d, 'T' :: r) => match timeInner r with
    | some (t, r') => if endExpr r' then some (.timestamp (d ++ 'T' :: t), r') else none
    | none => none
  | _ => none

def dateLit (s : Src) : Option (Lit × Src) :=
  match dateInner s with
  | some (d, r) => if endExpr r then some (.date d, r) else none
  | none => none

def timeLit (s : Src) : Option (Lit × Src) :=
  match timeInner s with
  | some (t, r) => if endExpr r then some (.time t, r) else none
  | none => none

/-- `date_token()`: `@`, a digit ahead, then timestamp | date | time -/
def dateToken : Src → Option (Kind × Src)
  | '@' :: d :: r =>
    if isDigit d then
      match orElse (timestampLit (d :: r)) fun _ => orElse (dateLit (d :: r)) fun _ => timeLit (d :: r) with
      | some (l, r') => some (.literal l, r')
      | none => none
    else none
  | _ => none

/-! ### one token -/

def multiCharOp : List (Src × Op × Bool) → Src → Option (Kind × Src)
  | [], _ => none
  | (p, o, guarded) :: rest, s =>
    match stripPrefix p s with
    | some r => if !guarded || endExpr r then some (.op o, r) else multiCharOp rest s
    | none => multiCharOp rest s

def newlineTok (s : Src) : Option (Kind × Src) :=
  match newline s with
  | some r => some (.newLine, r)
  | none => none

def annotate : Src → Option (Kind × Src)
  | '@' :: r => some (.annotate, r)
  | _ => none

def control : Src → Option (Kind × Src)
  | c :: r => if controlChars.contains c then some (.control c, r) else none
  | [] => none

def literalTok (s : Src) : Option (Kind × Src) :=
  match literal s with
  | some (l, r) => some (.literal l, r)
  | none => none

def identTok (s : Src) : Option (Kind × Src) :=
  match identPart s with
  | some (v, r) => some (.ident v, r)
  | none => none

def commentTok (s : Src) : Option (Kind × Src) :=
  match comment s with
  | some (c, r) => some (commentKind c, r)
  | none => none

/-- `token()` -/
def token (s : Src) : Option (Kind × Src) :=
  orElse (lineWrap s) fun _ =>
  orElse (newlineTok s) fun _ =>
  orElse (multiCharOp multiCharOps s) fun _ =>
  orElse (interpolation s) fun _ =>
  orElse (param s) fun _ =>
  orElse (dateToken s) fun _ =>
  orElse (annotate s) fun _ =>
  orElse (control s) fun _ =>
  orElse (literalTok s) fun _ =>
  orElse (keyword s) fun _ =>
  orElse (identTok s) fun _ =>
  commentTok s

def startsWithWs : Src → Bool
  | c :: _ => isInlineWs c
  | [] => false

/-- a token as the lexing loop sees it: kind, the input where its span starts, the input where its span ends -/
structure RawTok where
  kind : Kind
  from_ : Src
  to_ : Src

/-- `lex_token()`: `choice((ws? ".." ws?, ws? token))`; a range token's span includes the whitespace on both sides,
every other token's span starts after the skipped whitespace -/
def lexToken (s : Src) : Option (RawTok × Src) :=
  let s1 := skipWs s
  match stripPrefix rangeStr s1 with
  | some r => some (⟨.range (!startsWithWs s) (!startsWithWs r), s, skipWs r⟩, skipWs r)
  | none => match token s1 with
    | some (k, r) => some (⟨k, s1, r⟩, r)
    | none => none

/-! ### the lexer -/

inductive LexErr where
  /-- `lexer()` stopped here (remaining input, after optional whitespace, is not empty) -/
  | unexpected (bytePos : Nat)
  /-- unreachable: the repetition ran out of fuel -/
  | fuel
  deriving DecidableEq, Repr

/-- a non-empty list of errors -/
structure LexErrors where
  first : LexErr
  more : List LexErr
  deriving DecidableEq, Repr

def LexErrors.toList (e : LexErrors) : List LexErr := e.first :: e.more

def mkToken (total : Nat) (t : RawTok) : Token := ⟨t.kind, total - utf8Len t.from_, total - utf8Len t.to_⟩

/-- `lex_token().repeated().collect().then_ignore(whitespace().or_not())` followed by end of input -/
def lexRaw (src : Src) : Except LexErrors (List RawTok) :=
  match repeatF lexToken (src.length + 1) src with
  | none => .error ⟨.fuel, []⟩
  | some (toks, rest) =>
    if skipWs rest = [] then .ok toks else .error ⟨.unexpected (utf8Len src - utf8Len (skipWs rest)), []⟩

/-- `lex_source`: the tokens preceded by `Start` at 0..0, or the errors (never both) -/
def lex (src : Src) : Except LexErrors (List Token) :=
  match lexRaw src with
  | .ok toks => .ok (⟨.start, 0, 0⟩ :: toks.map (mkToken (utf8Len src)))
  | .error e => .error e

/-- `lex_source_recovery`: `(Some(tokens), [])` or `(None, errors)` -/
def lexRecovery (src : Src) : Option (List Token) × List LexErr :=
  match lex src with
  | .ok toks => (some toks, [])
  | .error e => (none, e.toList)

/-! ### vocabulary of the C17 statements -/

/-- the text between consecutive tokens, before the first and after the last one, is inline whitespace only
(`pos` = where the previous token ended) -/
def GapsWs (src : Src) : Nat → List Token → Prop
  | pos, [] => ∀ c ∈ byteSlice src pos (utf8Len src), isInlineWs c = true
  | pos, t :: ts => (∀ c ∈ byteSlice src pos t.start, isInlineWs c = true) ∧ GapsWs src t.stop ts

end Model.Lex
