/-
Literal values on their way from PRQL source to SQL text (C08).

* PRQL side: the value of a literal slice is what the lexer model (`Model/Lex`) computes for it
  (`litOfSlice`, `stringOfSlice`, `tokenOfSlice`); nothing is re-modelled here.
* SQL side, emitter (mirror kernels):
  - `sqlEscape` mirrors what prints a `Value::SingleQuotedString` (and a quoted `Ident`): sqlparser-0.60 `ast/value.rs`,
    `impl Display for EscapeQuotedString`.  This is NOT plain quote doubling: a quote that follows a backslash, and both quotes
    of an adjacent pair, are printed as they are ("may already be escaped").
  - `sqlQuote` / `sqlQuoteIdent` mirror prqlc: the quotes of the value are doubled FIRST (gen_expr.rs `translate_literal`,
    `translate_ident_part`, commits 938f352 / 3b64e89) and the doubled value goes through that printer; `Props.C08.sql_quote_eq_doubling`
    proves the composition is plain doubling.  `sqlQuoteRaw` / `sqlQuoteIdentRaw` = the printer alone on the raw value.
  - `sqlQuoteStd` = plain doubling, the emitter the property needs (reference).
  - `printInt` mirrors `format!("{i}")` of an `i64` (gen_expr.rs `translate_literal`).
* SQL side, readers (reference semantics): `sqlLexString` = standard SQL (quote doubling only; SQLite, Postgres, DuckDB, MSSQL,
  ANSI); `sqlLexStringBs` mirrors sqlparser's `tokenize_quoted_string` for dialects with
  `supports_string_literal_backslash_escape` (MySQL, BigQuery, ClickHouse, Snowflake, Redshift); `sqlParseInt`.
* f-strings: `fstrItems` mirrors parser/interpolation.rs, `FExpr`/`lowerF`/`collectConcat` mirror the `std.concat` fold of
  lowering.rs and `collect_concat_args` of gen_expr.rs.
* relation literals: `relLitSelects` / `evalUnionAll` (gen_query.rs `translate_relation_literal`).
Floats are outside the model (no IEEE arithmetic in core Lean): a float literal is its normalised source text.
-/
import PrqlModel.Model.Lex
import PrqlModel.Lemmas.SpQuote
namespace Model.Lit
open Model.Lex

/-! ### PRQL side -/

/-- the literal a complete source slice denotes (none: the slice is not exactly one literal) -/
def litOfSlice (src : Src) : Option Lit :=
  match literal src with
  | some (l, []) => some l
  | _ => none

/-- value of a string / raw-string literal slice -/
def stringOfSlice (src : Src) : Option Src :=
  match litOfSlice src with
  | some (.string v) => some v
  | some (.rawString v) => some v
  | _ => none

/-- the one token a slice is (covers `f"…"`, `s"…"`, dates) -/
def tokenOfSlice (src : Src) : Option Kind :=
  match token src with
  | some (k, []) => some k
  | _ => none

/-- a PRQL spelling for an arbitrary string value: double quotes, `\` and `"` escaped, everything else verbatim -/
def prqlEscape : Src → Src
  | [] => []
  | c :: cs => if c = '\\' ∨ c = '"' then '\\' :: c :: prqlEscape cs else c :: prqlEscape cs

def prqlQuote (s : Src) : Src := '"' :: (prqlEscape s ++ ['"'])

/-! ### SQL emitter -/

/-- `impl Display for EscapeQuotedString` (sqlparser 0.60): `prev` is `previous_char` -/
def sqlEscape (q : Char) : Char → Src → Src
  | _, [] => []
  | prev, [c] => if c = q then (if prev = '\\' then [c] else [c, c]) else [c]
  | prev, c :: d :: ds =>
    if c = q then
      if prev = '\\' then c :: sqlEscape q prev (d :: ds)         -- "already escaped with a backslash": `continue`
      else if d = q then c :: d :: sqlEscape q c ds                -- "already escaped with another quote"
      else c :: c :: sqlEscape q c (d :: ds)                       -- doubled
    else c :: sqlEscape q c (d :: ds)

/-- sqlparser's printer applied to an UN-doubled value (`Value::SingleQuotedString(raw)`): what prqlc printed before commit
938f352; kept only to state why the doubling is needed (`Props.C08.printer_alone_*`) -/
def sqlQuoteRaw (s : Src) : Src := '\'' :: (sqlEscape '\'' (Char.ofNat 0) s ++ ['\''])

/-- what prqlc prints for a string value (gen_expr.rs `translate_literal`): every quote of the value is doubled
(`s.replace('\'', "''")`) and the result goes through sqlparser's printer -/
def sqlQuote (s : Src) : Src := '\'' :: (sqlEscape '\'' (Char.ofNat 0) (Quote.esc '\'' s) ++ ['\''])

/-- sqlparser's printer applied to an un-doubled identifier (`Ident::with_quote(q, raw)`), the behaviour before commit 3b64e89 -/
def sqlQuoteIdentRaw (q : Char) (s : Src) : Src := q :: (sqlEscape q (Char.ofNat 0) s ++ [q])

/-- the `Ident` value `translate_ident_part` builds for a quoted name: the quote character doubled -/
def identValue (q : Char) (s : Src) : Src := Quote.esc q s

/-- what a quoted identifier prints as: `Ident::with_quote(q, identValue q s)` through sqlparser's printer -/
def sqlQuoteIdent (q : Char) (s : Src) : Src := q :: (sqlEscape q (Char.ofNat 0) (identValue q s) ++ [q])

/-- plain quote doubling: the reference emitter -/
def sqlQuoteStd (s : Src) : Src := Quote.quote '\'' s

def printNat (n : Nat) : Src := Nat.toDigits 10 n

/-- `format!("{i}")` -/
def printInt : Int → Src
  | .ofNat n => printNat n
  | .negSucc n => '-' :: printNat (n + 1)

/-! ### SQL readers -/

/-- standard SQL string literal: `'`, body with `''` for `'`, `'` -/
def sqlLexString (s : Src) : Option (Src × Src) := Quote.lexQuoted '\'' s

def bsUnescape (c : Char) : Char :=
  if c = '0' then Char.ofNat 0 else if c = 'a' then Char.ofNat 7 else if c = 'b' then Char.ofNat 8
  else if c = 'f' then Char.ofNat 12 else if c = 'n' then Char.ofNat 10 else if c = 'r' then Char.ofNat 13
  else if c = 't' then Char.ofNat 9 else if c = 'Z' then Char.ofNat 26 else c

/-- body of a single-quoted string under sqlparser's tokenizer with `backslash_escape` (state 0 normal, 1 after a quote,
2 after a backslash); `wild` = `ignores_wildcard_escapes` (MySQL keeps `\%` and `\_`) -/
def lexBodyBs (wild : Bool) : Nat → Src → Option (Src × Src)
  | 0, [] => none
  | 1, [] => some ([], [])
  | _, [] => none
  | 0, c :: cs =>
    if c = '\'' then lexBodyBs wild 1 cs
    else if c = '\\' then lexBodyBs wild 2 cs
    else Quote.push c (lexBodyBs wild 0 cs)
  | 1, c :: cs => if c = '\'' then Quote.push '\'' (lexBodyBs wild 0 cs) else some ([], c :: cs)
  | _, c :: cs =>
    if wild && (c = '%' || c = '_') then Quote.push '\\' (Quote.push c (lexBodyBs wild 0 cs))
    else Quote.push (bsUnescape c) (lexBodyBs wild 0 cs)

def sqlLexStringBs (wild : Bool) : Src → Option (Src × Src)
  | c :: cs => if c = '\'' then lexBodyBs wild 0 cs else none
  | [] => none

/-- SQL integer: optional `-`, at least one digit, nothing else -/
def sqlParseInt : Src → Option Int
  | '-' :: ds => if ds ≠ [] ∧ ds.all isDigit then some (-((natOfDigits 10 ds : Nat) : Int)) else none
  | ds => if ds ≠ [] ∧ ds.all isDigit then some ((natOfDigits 10 ds : Nat) : Int) else none

/-! ### the SQL expression of a literal (dialect-independent part) -/

def boolText (b : Bool) : Src := if b then "true".toList else "false".toList

/-- text emitted for a literal; `none` = float / date / time / interval (tied by correspondence only) -/
def emitLit : Lit → Option Src
  | .null => some "NULL".toList
  | .integer i => some (printInt i)
  | .boolean b => some (boolText b)
  | .string s => some (sqlQuote s)
  | .rawString s => some (sqlQuote s)
  | _ => none

/-! ### f-strings -/

inductive FItem where
  | str (s : Src)
  | expr (path : List Src) (fmt : Option Src)
  deriving DecidableEq, Repr

/-- `plain`: identifier start, identifier characters -/
def interpPlain : Src → Option (Src × Src)
  | c :: r => if isIdentStart c then some (c :: r.takeWhile isIdentCont, r.dropWhile isIdentCont) else none
  | [] => none

/-- `backticks` -/
def interpBackticks : Src → Option (Src × Src)
  | '`' :: r => match r.dropWhile (· != '`') with
    | _ :: r' => some (r.takeWhile (· != '`'), r')
    | [] => none
  | _ => none

def interpPart (s : Src) : Option (Src × Src) :=
  match interpPlain s with
  | some x => some x
  | none => interpBackticks s

/-- `part ('.' part)*`, on fuel -/
def interpPath : Nat → Src → Option (List Src × Src)
  | 0, _ => none
  | n + 1, s => match interpPart s with
    | none => none
    | some (p, r) => match r with
      | '.' :: r' => match interpPath n r' with
        | some (ps, r'') => some (p :: ps, r'')
        | none => some ([p], r)        -- `separated_by` rewinds a separator without item
      | _ => some ([p], r)

/-- `{ path (':' fmt)? }` -/
def interpExpr (s : Src) : Option (FItem × Src) :=
  match s with
  | '{' :: r => match interpPath (r.length + 1) r with
    | none => none
    | some (path, r1) => match r1 with
      | '}' :: r2 => some (.expr path none, r2)
      | ':' :: r2 => match r2.dropWhile (· != '}') with
        | _ :: r3 => some (.expr path (some (r2.takeWhile (· != '}'))), r3)
        | [] => none
      | _ => none
  | _ => none

/-- the string alternative: `{{` → `{`, `}}` → `}`, any other character except a brace; at least one -/
def interpStrChars : Src → Src × Src
  | '{' :: '{' :: r => let x := interpStrChars r; ('{' :: x.1, x.2)
  | '}' :: '}' :: r => let x := interpStrChars r; ('}' :: x.1, x.2)
  | c :: r => if c = '{' ∨ c = '}' then ([], c :: r) else let x := interpStrChars r; (c :: x.1, x.2)
  | [] => ([], [])

/-- `expr.or(string).repeated().then_ignore(end())` -/
def fstrItemsF : Nat → Src → Option (List FItem)
  | 0, _ => none
  | _ + 1, [] => some []
  | n + 1, s =>
    match interpExpr s with
    | some (it, r) => (fstrItemsF n r).map (it :: ·)
    | none =>
      let x := interpStrChars s
      if x.1 = [] then none else (fstrItemsF n x.2).map (.str x.1 :: ·)

def fstrItems (s : Src) : Option (List FItem) := fstrItemsF (s.length + 1) s

/-- double the braces: the spelling of a literal fragment inside an f-string -/
def braceEscape : Src → Src
  | [] => []
  | c :: cs => if c = '{' ∨ c = '}' then c :: c :: braceEscape cs else c :: braceEscape cs

/-- the RQ expression an f-string lowers to -/
inductive FExpr where
  | lit (s : Src)
  | col (path : List Src)
  | concat (a b : FExpr)
  deriving DecidableEq, Repr

def lowerItem : FItem → FExpr
  | .str s => .lit s
  | .expr p _ => .col p

/-- `res = maybe_binop(res, "std.concat", item)` over the items; the empty f-string is the empty string literal -/
def lowerF (items : List FItem) : FExpr :=
  match items with
  | [] => .lit []
  | i :: is => is.foldl (fun acc j => .concat acc (lowerItem j)) (lowerItem i)

/-- `collect_concat_args` -/
def collectConcat : FExpr → List FExpr
  | .concat a b => collectConcat a ++ collectConcat b
  | e => [e]

/-- meaning: string concatenation, columns looked up in `env` -/
def evalF (env : List Src → Src) : FExpr → Src
  | .lit s => s
  | .col p => env p
  | .concat a b => evalF env a ++ evalF env b

def evalItem (env : List Src → Src) : FItem → Src
  | .str s => s
  | .expr p _ => env p

/-! ### relation literals -/

/-- one `SELECT v1 AS c1, …` per row -/
def relLitSelects (cols : List Src) (rows : List (List Lit)) : List (List (Src × Lit)) :=
  rows.map fun r => cols.zip r

/-- `UNION ALL` of constant SELECTs: the rows in order -/
def evalUnionAll (selects : List (List (Src × Lit))) : List (List Lit) := selects.map fun s => s.map (·.2)

/-! ### the time-zone suffix of a temporal literal on SQLite (`translate_datetime_literal_with_sqlite_function`, gen_expr.rs)

SQLite's date functions want `[+-]HH:MM`; the text of the literal may end in `[+-]HHMM`. The code replaces the match of
`([+-]\d{2}):?(\d{2})$` by `\1:\2`. ASCII digits only (the lexer admits no others in a temporal literal). -/

def isSign (c : Char) : Bool := c == '+' || c == '-'
def isAsciiDigit (c : Char) : Bool := decide ('0'.toNat ≤ c.toNat) && decide (c.toNat ≤ '9'.toNat)

def sqliteTz (s : Src) : Src :=
  match s.reverse with
  | d :: c :: b :: a :: sg :: rest =>
    if isSign sg && isAsciiDigit a && isAsciiDigit b && isAsciiDigit c && isAsciiDigit d then
      rest.reverse ++ [sg, a, b, ':', c, d]
    else s
  | _ => s

/-- the statement text of a DATE literal on SQLite -/
def sqliteDateLiteral (s : Src) : Src := "DATE(".toList ++ sqlQuote (sqliteTz s) ++ [')']

end Model.Lit
