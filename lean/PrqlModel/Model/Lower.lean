/-
A state-machine model of the *identifier discipline* of `Lowerer` (prqlc/src/semantic/lowering.rs).

State (mirrors the fields of `struct Lowerer`):
  nextCid, nextTid   `cid: IdGenerator<CId>`, `tid: IdGenerator<TId>` (utils/id_gen.rs: `gen` returns next_id and increments)
  mapping            `node_mapping: HashMap<usize, LoweredTarget>` (expression id -> Compute(cid) | Input(column -> cid)),
                     as an association list, newest binding first
  tableMap           `table_mapping: HashMap<Ident, TId>` (the fully qualified ident is abstracted to a number)
  frames             the `pipeline` buffer of the running `lower_relation` call (head) and the `prev_pipeline`s saved by the
                     enclosing calls (tail); a frame opened for a `loop` closure is marked (no `From` is pushed for the closure
                     parameter, `lower_pipeline`'s `closure_param` case)
  tables             `table_buffer: Vec<TableDecl>`

Operations (`Op`) and what they mirror:
  declareExtern      lower_table_decl, TableExpr::LocalTable: tid = table_mapping.entry(..).or_insert_with(gen); push TableDecl
  beginRelation      lower_relation: `prev_pipeline = self.pipeline.drain(..)`
  beginLoop          the same for TransformKind::Loop (closure body; the input is the closure parameter, no From)
  fromTable          lower_pipeline base case -> lower_table_ref(Ident) -> create_a_table_instance -> push From
  joinTable / appendTable   TransformKind::Join / Append with an Ident argument (instance + push)
  declareAsColumn    declare_as_column: memo hit on node_mapping -> nothing; otherwise cid = gen, push Compute, remember
  aliasColumn        declare_as_column's short cut "expr is just a ColumnRef with no renaming": remember, push nothing
  push               Select / Filter / Aggregate / Sort / Take pushed by lower_pipeline
  endInlineFrom / endInlineJoin / endInlineAppend
                     lower_table_ref(TransformCall): push_select, close the relation, new tid, push TableDecl,
                     create_a_table_instance, redirect_mappings (final Select's cids -> instance cids), then the From/Join/Append
  endCte             lower_table_decl, TableExpr::RelationVar (and the main relation): push_select, close, push TableDecl
  endLoop            TransformKind::Loop: close the body (its push_select is popped again), push Loop(body)
  finish             lower_to_ir: the last TableDecl pushed is the main relation, the others are `tables`

Guards.  An operation is *enabled* only if
  (a) its look-ups succeed (table_mapping.get, table_buffer.find: `Error::new_bug(4474)` / `unwrap` in the source),
  (b) it respects the shape discipline of lower_pipeline (From first, and only in a fresh non-loop buffer), and
  (c) the column ids in the expressions / lists it carries are *visible* in the current buffer.
(c) is not established by the Lowerer: the cids come from `lookup_cid` on targets the resolver put into the frame, so it is the
resolver's contract (C10) - the listed findings stale-sort-after-select and stale-sort-after-aggregate are exactly violations of (c) by the
Flattener.  Everything else that `wfRq` demands - freshness and single definition of every cid, table ids distinct and declared
before use, From first, Select last with the declared arity - is established by the operations themselves (Props/C16.lean).

Not mirrored: expression lowering proper (`lower_expr` is represented by the finished `Expr`), the order in which a tid for an
inline table is drawn (before the sub-relation in the source, after it here: id values differ, the order of `table_buffer` does
not), s-string / literal / built-in-function tables (they are `declareOther`: a table without pipeline), `find_selected_all`,
error paths.
-/
import PrqlModel.Model.Rq
namespace Model.Lower
open Model.Rq

/-- `LoweredTarget` -/
inductive Target where
  | compute (c : CId)
  | input (cols : List (RelCol × CId))
  deriving Repr

def Target.cids : Target → List CId
  | .compute c => [c]
  | .input cols => cols.map (·.2)

structure Frame where
  buf : List Transform := []
  isLoop : Bool := false
  deriving Repr

structure St where
  nextCid : Nat := 0
  nextTid : Nat := 0
  mapping : List (Nat × Target) := []
  tableMap : List (Nat × TId) := []
  frames : List Frame := []
  tables : List TableDecl := []
  deriving Repr

def St.init : St := {}

/-- `create_a_table_instance`: one fresh cid per (distinct) declared column -/
def freshCols (next : Nat) : List RelCol → List (RelCol × CId)
  | [] => []
  | c :: cs => (c, next) :: freshCols (next + 1) cs

/-- what is visible at the end of the current buffer (none: some buffer is out of scope or ill-shaped) -/
def visOf : List Frame → Option (List CId)
  | [] => none
  | f :: rest =>
    if f.isLoop then
      match visOf rest with
      | some v => (match scopeL v f.buf with | .ok v' => some v' | .error _ => none)
      | none => none
    else
      match f.buf with
      | [] => some []
      | .from_ t :: ts => (match scopeL t.cids ts with | .ok v' => some v' | .error _ => none)
      | _ :: _ => none

def isFrom : Transform → Bool
  | .from_ _ => true
  | _ => false

/-- select / filter / aggregate / sort / take: transforms that define nothing and reference no table -/
def isPlain : Transform → Bool
  | .select _ => true
  | .filter _ => true
  | .aggregate _ _ => true
  | .sort _ => true
  | .take _ => true
  | _ => false

/-- append a transform to the current buffer, if the shape discipline and the scope allow it -/
def pushT (st : St) (t : Transform) : Option St :=
  match st.frames with
  | [] => none
  | f :: rest =>
    if isFrom t then
      if f.buf.isEmpty && !f.isLoop then some { st with frames := { f with buf := [t] } :: rest } else none
    else if f.buf.isEmpty && !f.isLoop then none
    else
      match visOf (f :: rest) with
      | none => none
      | some v =>
        match scopeStep v t with
        | .error _ => none
        | .ok _ => some { st with frames := { f with buf := f.buf ++ [t] } :: rest }

/-- `create_a_table_instance(id, name, tid)` -/
def instantiate (st : St) (node : Nat) (tid : TId) (name : Option (List Char)) : Option (St × TableRef) :=
  match st.tables.find? (fun t => t.id == tid) with
  | none => none
  | some tbl =>
    let cols := freshCols st.nextCid tbl.relation.columns.eraseDups
    some ({ st with nextCid := st.nextCid + cols.length, mapping := (node, .input cols) :: st.mapping },
          { source := tid, columns := cols, name := name, preferCte := true })

def redirectCid (r : List (CId × CId)) (c : CId) : CId :=
  match r.lookup c with
  | some n => n
  | none => c

/-- `redirect_mappings` on one target -/
def Target.redirect (r : List (CId × CId)) : Target → Target
  | .compute c => .compute (redirectCid r c)
  | .input cols => .input (cols.map fun kc => (kc.1, redirectCid r kc.2))

/-- `lower_relation`'s tail: `push_select` and the relation value; the frame is popped -/
def closeRelation (st : St) (cols : List (RelCol × CId)) : Option (St × Relation) :=
  match st.frames with
  | [] => none
  | f :: rest =>
    if f.isLoop then none else
    match pushT st (.select (cols.map (·.2))) with
    | none => none
    | some st' =>
      match st'.frames with
      | f' :: _ => some ({ st' with frames := rest }, { kind := .pipeline f'.buf, columns := cols.map (·.1) })
      | [] => none

/-- close the current relation as an anonymous table, instantiate it, redirect the mappings of its final Select -/
def endInline (st : St) (node : Nat) (cols : List (RelCol × CId)) : Option (St × TableRef) :=
  match closeRelation st cols with
  | none => none
  | some (st1, rel) =>
    let tid := st1.nextTid
    let tbl : TableDecl := { id := tid, name := none, relation := rel }
    let st2 := { st1 with nextTid := tid + 1, tables := st1.tables ++ [tbl] }
    match instantiate st2 node tid none with
    | none => none
    | some (st3, tref) =>
      let r := (cols.map (·.2)).zip tref.cids
      some ({ st3 with mapping := st3.mapping.map fun e => (e.1, e.2.redirect r) }, tref)

inductive Op where
  | declareExtern (key : Nat) (cols : List RelCol)
  | declareOther (kind : RelKind) (cols : List RelCol)
  | beginRelation
  | beginLoop
  | fromTable (node key : Nat) (name : Option (List Char))
  | joinTable (node key : Nat) (name : Option (List Char)) (side : JoinSide) (filter : Expr)
  | appendTable (node key : Nat) (name : Option (List Char))
  | declareAsColumn (node : Nat) (expr : Expr) (window : Option Window) (isAgg : Bool)
  | aliasColumn (node : Nat) (cid : CId)
  | push (t : Transform)
  | endInlineFrom (node : Nat) (cols : List (RelCol × CId))
  | endInlineJoin (node : Nat) (cols : List (RelCol × CId)) (side : JoinSide) (filter : Expr)
  | endInlineAppend (node : Nat) (cols : List (RelCol × CId))
  | endCte (key : Nat) (name : Option (List Char)) (cols : List (RelCol × CId))
  | endLoop
  deriving Repr

/-- relation kinds that `declareOther` may introduce: no pipeline, nothing referenced -/
def isLeafKind : RelKind → Bool
  | .externRef _ => true
  | .literal _ _ => true
  | .sstring xs => xs.cids.isEmpty
  | .builtin _ xs => xs.cids.isEmpty
  | .pipeline _ => false

def step (st : St) : Op → Option St
  | .declareExtern key cols =>
    if (st.tableMap.lookup key).isSome then none else
    let tbl : TableDecl := { id := st.nextTid, name := none, relation := { kind := .externRef [], columns := cols } }
    some { st with nextTid := st.nextTid + 1, tableMap := (key, st.nextTid) :: st.tableMap, tables := st.tables ++ [tbl] }
  | .declareOther kind cols =>
    if isLeafKind kind then
      let tbl : TableDecl := { id := st.nextTid, name := none, relation := { kind := kind, columns := cols } }
      some { st with nextTid := st.nextTid + 1, tables := st.tables ++ [tbl] }
    else none
  | .beginRelation => some { st with frames := {} :: st.frames }
  | .beginLoop =>
    match st.frames with
    | [] => none
    | _ :: _ => some { st with frames := { isLoop := true } :: st.frames }
  | .fromTable node key name =>
    match st.tableMap.lookup key with
    | none => none
    | some tid =>
      match instantiate st node tid name with
      | none => none
      | some (st1, tref) => pushT st1 (.from_ tref)
  | .joinTable node key name side filter =>
    match st.tableMap.lookup key with
    | none => none
    | some tid =>
      match instantiate st node tid name with
      | none => none
      | some (st1, tref) => pushT st1 (.join side tref filter)
  | .appendTable node key name =>
    match st.tableMap.lookup key with
    | none => none
    | some tid =>
      match instantiate st node tid name with
      | none => none
      | some (st1, tref) => pushT st1 (.append { tref with preferCte := false })
  | .declareAsColumn node expr window isAgg =>
    match st.mapping.lookup node with
    | some (.compute _) => some st
    | _ =>
      let cid := st.nextCid
      match pushT st (.compute { id := cid, expr := expr, window := window, isAggregation := isAgg }) with
      | none => none
      | some st1 => some { st1 with nextCid := cid + 1, mapping := (node, .compute cid) :: st1.mapping }
  | .aliasColumn node cid =>
    match visOf st.frames with
    | none => none
    | some v => if v.contains cid then some { st with mapping := (node, .compute cid) :: st.mapping } else none
  | .push t => if isPlain t then pushT st t else none
  | .endInlineFrom node cols =>
    match endInline st node cols with
    | none => none
    | some (st1, tref) => pushT st1 (.from_ tref)
  | .endInlineJoin node cols side filter =>
    match endInline st node cols with
    | none => none
    | some (st1, tref) => pushT st1 (.join side tref filter)
  | .endInlineAppend node cols =>
    match endInline st node cols with
    | none => none
    | some (st1, tref) => pushT st1 (.append { tref with preferCte := false })
  | .endCte key name cols =>
    if (st.tableMap.lookup key).isSome then none else
    match closeRelation st cols with
    | none => none
    | some (st1, rel) =>
      let tbl : TableDecl := { id := st1.nextTid, name := name, relation := rel }
      some { st1 with nextTid := st1.nextTid + 1, tableMap := (key, st1.nextTid) :: st1.tableMap, tables := st1.tables ++ [tbl] }
  | .endLoop =>
    match st.frames with
    | f :: p :: rest =>
      if f.isLoop then pushT { st with frames := p :: rest } (.loop f.buf) else none
    | _ => none

def run (st : St) : List Op → Option St
  | [] => some st
  | o :: os => match step st o with
    | some st' => run st' os
    | none => none

/-- `lower_to_ir`'s end: the table pushed last is the main relation -/
def finish (st : St) : Option RelationalQuery :=
  match st.frames with
  | [] =>
    match st.tables.reverse with
    | m :: ts => some { tables := ts.reverse, relation := m.relation }
    | [] => none
  | _ :: _ => none

def lower (ops : List Op) : Option RelationalQuery :=
  match run St.init ops with
  | some st => finish st
  | none => none

end Model.Lower
