/-
Identifiers and generated names (C09).

* `isKeyword`, `identBare`, `identPart`, `emitIdent`: mirror of `translate_ident_part` (sql/gen_expr.rs: the quote character
  of a quoted name is doubled, commit 3b64e89), `is_keyword` (sql/keywords.rs) and of how sqlparser prints an `Ident` (quote char
  + `EscapeQuotedString`, i.e. `Model.Lit.sqlEscape`, which prints an already doubled value verbatim).  Tables come from `Gen/Ident`, `Gen/Keywords`, `Gen/Dialects`.
* `sqlLexIdent`: reference reader of one SQL identifier (quoted with doubling, or a bare word).  Case folding: a bare word is
  folded by the database (lower case in Postgres, upper case in the standard); prqlc emits bare only `[a-z_$][a-z0-9_$]*`.
* `genName`, `freshen`, `assignSeq`: mirror of `NameGenerator::gen` and of the two loops of `assign_names`
  (sql/pq/postprocess.rs: CTE names over the declarations in id order; relation-instance aliases per atomic pipeline).
* `splitNames`: mirror of the `used_new_names` loop of `anchor_split` (sql/pq/anchor.rs).
* `idSkip`, `idLoad`: `IdGenerator::skip` / `IdLoader` (utils/id_gen.rs).
-/
import PrqlModel.Gen.Ident
import PrqlModel.Gen.Keywords
import PrqlModel.Gen.Dialects
import PrqlModel.Model.Lit
namespace Model.Names
open Gen

abbrev Src := List Char

/-! ### identifiers -/

/-- `char::to_ascii_uppercase` -/
def upperAscii (c : Char) : Char := if 'a' ≤ c ∧ c ≤ 'z' then Char.ofNat (c.toNat - 32) else c

/-- `keywords::is_keyword(ident, dialect)` -/
def isKeyword (d : Dialect) (s : Src) : Bool :=
  Gen.Keywords.sqlKeywords.contains (s.map upperAscii) || (Gen.Keywords.dialectKeywords d.nameL).contains (s.map upperAscii)

def identBare (d : Dialect) (s : Src) : Bool := !d.always_quoted && Gen.Ident.validIdent s && !isKeyword d s

/-- `translate_ident_part`: the `sql_ast::Ident` (value, quote style); a quoted name carries its quote character doubled -/
def identPart (d : Dialect) (s : Src) : Src × Option Char :=
  if identBare d s then (s, none) else (Model.Lit.identValue d.ident_quote s, some d.ident_quote)

/-- the text sqlparser prints for that `Ident` -/
def emitIdent (d : Dialect) (s : Src) : Src := if identBare d s then s else Model.Lit.sqlQuoteIdent d.ident_quote s

/-- reference emitter: plain doubling of the quote character -/
def emitIdentStd (d : Dialect) (s : Src) : Src := if identBare d s then s else Quote.quote d.ident_quote s

/-- characters of a bare SQL word: it starts with a letter or `_` (a leading `$` is a parameter marker in SQLite and Postgres and
no identifier for sqlparser's ANSI, MsSql, BigQuery, Postgres parsers) and goes on with letters, digits, `_`, `$` -/
def wordStartRanges : List (Char × Char) := [('a', 'z'), ('A', 'Z'), ('_', '_')]
def wordRanges : List (Char × Char) := wordStartRanges ++ [('0', '9'), ('$', '$')]
def isWordStart (c : Char) : Bool := Gen.Ident.inClass wordStartRanges c
def isWordChar (c : Char) : Bool := Gen.Ident.inClass wordRanges c

/-- one SQL identifier: quoted by the dialect's quote character (doubling inside), or a bare word -/
def sqlLexIdent (d : Dialect) : Src → Option (Src × Src)
  | [] => none
  | c :: cs =>
    if c = d.ident_quote then Quote.lexQuoted d.ident_quote (c :: cs)
    else if isWordStart c then some ((c :: cs).takeWhile isWordChar, (c :: cs).dropWhile isWordChar)
    else none

/-! ### generated names -/

/-- `format!("{}{}", prefix, id)` -/
def genName (pre : Src) (n : Nat) : Src := pre ++ Nat.toDigits 10 n

/-- `while name.is_none() || names.contains(name) { name = gen() }`, on fuel; the final name and the counter -/
def freshen (pre : Src) : Nat → List Src → Option Src → Nat → Option (Src × Nat)
  | 0, _, _, _ => none
  | f + 1, names, some x, n => if names.contains x then freshen pre f names (some (genName pre n)) (n + 1) else some (x, n)
  | f + 1, names, none, n => freshen pre f names (some (genName pre n)) (n + 1)

/-- one pass of `assign_names` over a sequence of optional names (declarations in id order, or the relation instances of one
atomic pipeline in fold order): the names assigned, and the counter -/
def assignSeq (pre : Src) : List (Option Src) → List Src → Nat → Option (List Src × Nat)
  | [], _, n => some ([], n)
  | d :: ds, names, n =>
    match freshen pre (names.length + 2) names d n with
    | none => none
    | some (x, n') =>
      match assignSeq pre ds (x :: names) n' with
      | some (xs, n'') => some (x :: xs, n'')
      | none => none

/-- the `used_new_names` loop of `anchor_split`; input: the column names at the split after `ensure_column_name`
(`none` = wildcard); a clash is renamed ONCE by the generator and not checked again -/
def splitNames (pre : Src) : List (Option Src) → List Src → Nat → List (Option Src) × Nat
  | [], _, n => ([], n)
  | none :: cs, used, n => let r := splitNames pre cs used n; (none :: r.1, r.2)
  | some x :: cs, used, n =>
    if used.contains x then
      let r := splitNames pre cs (genName pre n :: used) (n + 1); (some (genName pre n) :: r.1, r.2)
    else
      let r := splitNames pre cs (x :: used) n; (some x :: r.1, r.2)

/-- `IdGenerator::skip` -/
def idSkip (next id : Nat) : Nat := max next (id + 1)
/-- `IdLoader`: skip over every id of the query -/
def idLoad (ids : List Nat) : Nat := ids.foldl idSkip 0

end Model.Names
