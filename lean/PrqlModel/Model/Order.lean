/-
Models for C11 (compilation is a pure function of sources and options).

Part 1.  What the compiler does with the ENUMERATION of a HashMap / HashSet.  A hash container is modelled by
         *an arbitrary enumeration* `l : List α` of its entries; two enumerations of the same container are
         permutations of one another (`List.Perm`).  Every function below mirrors one way the Rust code consumes an
         enumeration (the inventory of tools/gen_hashsites.py maps each source site to one of them).
Part 2.  The global debug log `CURRENT_LOG : RwLock<Option<DebugLog>>` of prqlc/src/debug/log.rs as a state machine.

No imports besides the regenerated shape table: the driver links this module.
-/
import PrqlModel.Gen.HashSites
namespace Model.Order

/-! ### Part 1: consumers of an enumeration -/

/-- `map.into_iter().next()`: the first entry of the enumeration
(functions.rs `apply_args_to_closure`: the "unknown named argument" that is reported). -/
def firstOf (l : List α) : Option α := l.head?

/-- `map.iter().find(p)` / `for (k, v) in map.iter() { if p { ..; break } }`: first match in enumeration order
(postprocess.rs `alias_last_sorting` over `cid_redirects`, gen_query.rs `find_map(|(k, v)| v == original_cid)`,
postprocess.rs `relation_instances.iter_mut().find(source == cte.tid)`, parser.rs `sources.keys().find(uppercase)`). -/
def findFirst (p : α → Bool) (l : List α) : Option α := l.find? p

/-- `iter.collect::<HashMap<K, V>>()`: later entries overwrite earlier ones with the same key; the resulting map is
represented by its lookup function (postprocess.rs `column_aliases`: referenced column ↦ the alias compute). -/
def collectLast [DecidableEq κ] (l : List (κ × β)) (k : κ) : Option β :=
  (l.reverse.find? (fun e => e.1 == k)).map (·.2)

/-- `iter.map(f).try_collect()`: the first error in enumeration order, if any
(ast_expand.rs `expand_expr` over `named_args`, ir/pl/fold.rs `fold_func_call`). -/
def firstError (f : α → Except ε β) (l : List α) : Option ε :=
  l.findSome? (fun x => match f x with | .error e => some e | .ok _ => none)

/-- `for (k, v) in &map { out += print k v }`: output text in enumeration order
(codegen/ast.rs named arguments of a call, serde `Serialize` of `named_args`, parser/stmt.rs "unknown query definition arguments"). -/
def printAll (pr : α → List Nat) (l : List α) : List Nat := (l.map pr).flatten

/-- `map.values_mut()` with a pure per-value update (lowering.rs `redirect_mappings`). -/
def valuesMut (f : β → β) (l : List (κ × β)) : List (κ × β) := l.map (fun e => (e.1, f e.2))

/-- insertion into a list sorted by a `Nat` key; equal keys keep their relative order (Rust's `sort_by`, `sort_by_key`,
itertools `sorted_by_key` are all stable sorts). -/
def insertBy (key : α → Nat) (a : α) : List α → List α
  | [] => [a]
  | b :: l => if key a ≤ key b then a :: b :: l else b :: insertBy key a l

/-- stable sort by key (`names.iter().sorted_by_key(|(_, d)| d.order)`, `input_cols.sort_by_key(|e| e.1.1)`,
`cids.iter().sorted_by_key(|c| c.get())`, `sources.sort_by(module_path)`, `dependencies.sort_by(ident)`, `chunks.sort()`). -/
def sortBy (key : α → Nat) (l : List α) : List α := l.foldr (insertBy key) []

/-- `set.iter().all(p)`, `.any(p)`, `keys().max()`: reductions by a commutative, associative operation. -/
def maxOf (l : List Nat) : Nat := l.foldl max 0

/-- depth-first topological order over an already ordered dependency list (utils/toposort.rs: it receives a slice, its own
`HashMap` is only used for lookups).  `fuel` bounds the recursion; nodes are positions in the list. -/
def visit (deps : List (List Nat)) : Nat → Nat → List Nat → List Nat
  | 0, _, done => done
  | fuel + 1, n, done =>
    if done.contains n then done else
    let ds := deps.getD n []
    (ds.foldl (fun acc d => visit deps fuel d acc) done) ++ [n]

/-- lowering.rs `toposort_tables`: enumerate the table map, SORT the dependency list by identifier, then the
deterministic DFS from the main table. -/
def toposortTables (key : α → Nat) (depsOf : List α → List (List Nat)) (start : Nat) (enumeration : List α) : List Nat :=
  let sorted := sortBy key enumeration
  visit (depsOf sorted) (sorted.length + 1) start []

/-! ### Part 2: the global debug log -/

/-- state of `static CURRENT_LOG: RwLock<Option<DebugLog>>` -/
inductive Log where
  | absent                                      -- `None`
  | active (suppress : Nat) (entries : Nat)     -- `Some(DebugLog { suppress_count, entries, .. })`
  | poisoned                                    -- a thread panicked while holding the write guard
  deriving DecidableEq, Repr

/-- operations of `prqlc::debug` (`#[doc(hidden)] pub`); `unsuppress` is the `Drop` of a `LogSuppressLock` that was `Some` -/
inductive Op where
  | start | finish | entry | suppress | unsuppress | isEnabled
  deriving DecidableEq, Repr

/-- what the caller observes -/
inductive Obs where
  | unit | panic | logSome (entries : Nat) | logNone | token (some : Bool) | enabled (b : Bool)
  deriving DecidableEq, Repr

/-- one operation.  Every function begins with `CURRENT_LOG.write().unwrap()` (`read()` for `log_is_enabled`), which panics
when the lock is poisoned.  `log_start` asserts `lock.is_none()` WHILE HOLDING the write guard; the `Drop` of a suppress lock
does `suppress_count -= 1` while holding it (an underflow panics when overflow checks are on).  Both shapes are re-read from
debug/log.rs by the translator on every run (`Gen.HashSites.logStartAssertsUnderWriteLock`, `logUnsuppressSubtractsUnderWriteLock`). -/
def step : Log → Op → Log × Obs
  | .poisoned, _ => (.poisoned, .panic)
  | .absent, .start => (.active 0 0, .unit)
  | .active s e, .start => if Gen.HashSites.logStartAssertsUnderWriteLock then (.poisoned, .panic) else (.active s e, .unit)
  | .absent, .finish => (.absent, .logNone)
  | .active _ e, .finish => (.absent, .logSome e)
  | .absent, .entry => (.absent, .unit)
  | .active s e, .entry => (if s > 0 then .active s e else .active s (e + 1), .unit)
  | .absent, .suppress => (.absent, .token false)
  | .active s e, .suppress => (.active (s + 1) e, .token true)
  | .absent, .unsuppress => (.absent, .unit)
  | .active 0 e, .unsuppress => if Gen.HashSites.logUnsuppressSubtractsUnderWriteLock then (.poisoned, .panic) else (.active 0 e, .unit)
  | .active (s + 1) e, .unsuppress => (.active s e, .unit)
  | .absent, .isEnabled => (.absent, .enabled false)
  | .active s e, .isEnabled => (.active s e, .enabled (s == 0))

/-- the log operations ONE compile performs, in program order, as far as the lock protocol is concerned:
`parser::parse` starts with `log_entry`, the resolver loads std under `log_suppress()` / drop, further entries follow.
A suppress token that was `None` (log absent at that time) does nothing when dropped. -/
inductive COp where
  | entry | suppress | dropToken
  deriving DecidableEq, Repr

def compileOps : List COp := [.entry, .entry, .suppress, .entry, .dropToken, .entry, .entry]

/-- an event of an interleaving: a step of the compiling thread, or an operation of some other thread -/
inductive Ev where
  | mine | other (op : Op)
  deriving DecidableEq, Repr

/-- result of a compile call: the value, or a panic -/
inductive Res (ρ : Type) where
  | value (r : ρ) | panicked
  deriving DecidableEq, Repr

/-- one log operation of the compiling thread; `tok` = whether its pending suppress token is `Some`.
`.error s` = the operation panicked and left the log in state `s`. -/
def mineStep : Log → COp → Bool → Except Log (Log × Bool)
  | s, .entry, tok => match step s .entry with
    | (s', .panic) => .error s'
    | (s', _) => .ok (s', tok)
  | s, .suppress, tok => match step s .suppress with
    | (s', .panic) => .error s'
    | (s', .token b) => .ok (s', b)
    | (s', _) => .ok (s', tok)
  | s, .dropToken, tok =>
    if tok then match step s .unsuppress with
      | (s', .panic) => .error s'
      | (s', _) => .ok (s', false)
    else .ok (s, false)

/-- run the compile of a source whose pure result is `r` against an interleaving.  `todo` = the remaining log operations
of the compile.  Operations of other threads that panic only affect those threads (and possibly the lock).  When the trace
ends, the remaining operations of the compile run uninterrupted. -/
def runCompile (r : ρ) (s : Log) (todo : List COp) (tok : Bool) (tr : List Ev) : Res ρ × Log :=
  match todo with
  | [] => (.value r, s)
  | c :: rest =>
    match tr with
    | .other op :: tr' => runCompile r (step s op).1 (c :: rest) tok tr'
    | .mine :: tr' =>
      match mineStep s c tok with
      | .error s' => (.panicked, s')
      | .ok (s', tok') => runCompile r s' rest tok' tr'
    | [] =>
      match mineStep s c tok with
      | .error s' => (.panicked, s')
      | .ok (s', tok') => runCompile r s' rest tok' []
termination_by todo.length + tr.length
decreasing_by all_goals (simp_all; try omega)

/-- sequential history element (what the harness op `history` runs inside one process) -/
inductive HOp where
  | log (op : Op) | compile
  deriving DecidableEq, Repr

/-- observations of a sequential history; a compile answers `unit` (a value) or `panic` -/
def runHistory : Log → List HOp → List Obs
  | _, [] => []
  | s, .log op :: h => (step s op).2 :: runHistory (step s op).1 h
  | s, .compile :: h =>
    let (res, s') := runCompile () s compileOps false []
    (match res with | .value _ => Obs.unit | .panicked => Obs.panic) :: runHistory s' h

/-- `OnceLock::get_or_init` (sql/operators.rs `STD`, keywords.rs, codegen/ast.rs `KEYWORDS`) -/
def getOrInit (cell : Option α) (init : Unit → α) : α × Option α :=
  match cell with
  | some v => (v, some v)
  | none => (init (), some (init ()))

end Model.Order
