/-
Source-level operator trees (`SExpr`, what the parser produces), the resolved operator trees of RQ (`PExpr`),
`expand` (ast_expand.rs: BinOp/UnOp → std functions, the pow argument swap, `+x` = `x`),
`staticEval` (semantic/resolver/static_eval.rs, applied bottom-up by `finish_expr_resolve`),
and the documented meaning: `evalDoc` on source trees, `evalP` on RQ trees.

`case [c₁ => v₁, …, cₙ => vₙ]` is the chain `caseB c₁ v₁ (… (caseB cₙ vₙ caseEnd))`; `caseB c v rest` means
"`v` if `c` is true, else `rest`", `caseEnd` is NULL – so the meaning is compositional.
-/
import PrqlModel.Gen.Pratt
import PrqlModel.Gen.Expand
import PrqlModel.Model.Value
namespace Model.PExpr
open Gen.Pratt Model.Val

/-- literals of the fragment; `float m e` is the decimal `m / 10^e` -/
inductive Lit where
  | null
  | int (i : Int)
  | bool (b : Bool)
  | float (m : Int) (e : Nat)
  | str (s : List Char)
  deriving DecidableEq, Repr

/-- single-argument std functions of the fragment -/
inductive Fn1 where
  | abs
  deriving DecidableEq, Repr

inductive SExpr where
  | col (i : Nat)
  | lit (l : Lit)
  | un (o : UnOp) (e : SExpr)
  | bin (o : BinOp) (l r : SExpr)
  | caseB (c v rest : SExpr)
  | caseEnd
  /-- `(x | in lo..hi)` -/
  | inRange (x lo hi : SExpr)
  | fn1 (f : Fn1) (x : SExpr)
  /-- call of the user function `let f_o = x y -> x o y` -/
  | call2 (o : BinOp) (l r : SExpr)
  deriving DecidableEq, Repr

/-- RQ expression: `un`/`bin` are `Operator { name = std.…, args }` in RQ argument order -/
inductive PExpr where
  | col (i : Nat)
  | lit (l : Lit)
  | un (o : UnOp) (a : PExpr)
  | bin (o : BinOp) (a b : PExpr)
  | caseB (c v rest : PExpr)
  | caseEnd
  /-- `std.and [std.gte [x, lo], std.lte [x, hi]]` with the two `x` being one expression (same span) -/
  | between (x lo hi : PExpr)
  | fn1 (f : Fn1) (x : PExpr)
  deriving DecidableEq, Repr

/-! ### expand -/
def mkBin (o : BinOp) (l r : PExpr) : PExpr :=
  if Gen.Expand.swapArgs o then .bin o r l else .bin o l r

/-- `in` (resolver/transforms.rs): a bound that is the literal null is an open bound -/
def mkIn (x lo hi : PExpr) : PExpr :=
  match lo, hi with
  | .lit .null, .lit .null => .lit (.bool true)
  | .lit .null, hi => .bin .Lte x hi
  | lo, .lit .null => .bin .Gte x lo
  | lo, hi => .between x lo hi

def expand : SExpr → PExpr
  | .col i => .col i
  | .lit l => .lit l
  | .un o e => match Gen.Expand.unName o with
    | some _ => .un o (expand e)
    | none => if o = .Add then expand e else .un o (expand e)   -- `+x` is `x`; `==x` is not an expression operator
  | .bin o l r => mkBin o (expand l) (expand r)
  | .caseB c v rest => .caseB (expand c) (expand v) (expand rest)
  | .caseEnd => .caseEnd
  | .inRange x lo hi => mkIn (expand x) (expand lo) (expand hi)
  | .fn1 f x => .fn1 f (expand x)
  | .call2 o l r => mkBin o (expand l) (expand r)

/-! ### static evaluation (one node, children already done) -/
def tenPow : Nat → Nat
  | 0 => 1
  | n + 1 => 10 * tenPow n

/-- `Literal == Literal` on literals of one kind: floats compare by value -/
def Lit.same : Lit → Lit → Bool
  | .float m e, .float m' e' => m * tenPow e' == m' * tenPow e
  | x, y => x == y

/-- `Literal::as_ref()`: the variant name -/
def Lit.kind : Lit → Nat
  | .null => 0 | .int _ => 1 | .bool _ => 2 | .float _ _ => 3 | .str _ => 4

def evalUn (o : UnOp) (a : PExpr) : PExpr :=
  match o, a with
  | .Not, .lit (.bool b) => .lit (.bool !b)
  | .Neg, .lit (.int i) => .lit (.int (-i))
  | .Neg, .lit (.float m e) => .lit (.float (-m) e)
  | o, a => .un o a

def evalBin (o : BinOp) (a b : PExpr) : PExpr :=
  match o, a, b with
  | .Eq, .lit x, .lit y => if x.kind = y.kind then .lit (.bool (x.same y)) else .bin o a b
  | .Ne, .lit x, .lit y => if x.kind = y.kind then .lit (.bool !(x.same y)) else .bin o a b
  | .And, .lit (.bool x), .lit (.bool y) => .lit (.bool (x && y))
  | .Or, .lit (.bool x), .lit (.bool y) => .lit (.bool (x || y))
  | .Coalesce, .lit .null, b => b
  | o, a, b => .bin o a b

/-- `static_eval_case` on the chain: drop `false` branches, cut after a `true` branch -/
def pruneCase : PExpr → PExpr
  | .caseB (.lit (.bool true)) v _ => .caseB (.lit (.bool true)) v .caseEnd
  | .caseB (.lit (.bool false)) _ rest => pruneCase rest
  | .caseB c v rest => .caseB c v (pruneCase rest)
  | e => e

def evalCase (e : PExpr) : PExpr :=
  match pruneCase e with
  | .caseEnd => .lit .null
  | .caseB (.lit (.bool true)) v .caseEnd => v
  | e' => e'

/-- children first; a `case` list is simplified once, at its head.
`tail = true`: the expression is the remaining branch list of an enclosing `case` (conditions and values are evaluated,
the list itself is pruned by the head) -/
def sev : Bool → PExpr → PExpr
  | _, .un o a => evalUn o (sev false a)
  | _, .bin o a b => evalBin o (sev false a) (sev false b)
  | false, .caseB c v rest => evalCase (.caseB (sev false c) (sev false v) (sev true rest))
  | true, .caseB c v rest => .caseB (sev false c) (sev false v) (sev true rest)
  | false, .caseEnd => evalCase .caseEnd
  | true, .caseEnd => .caseEnd
  | _, .between x lo hi => mkIn (sev false x) (sev false lo) (sev false hi)   -- bounds are resolved before `in` looks at them
  | _, .fn1 f x => .fn1 f (sev false x)
  | _, .col i => .col i
  | _, .lit l => .lit l

def staticEval (e : PExpr) : PExpr := sev false e

/-! ### meaning -/
abbrev Env := List Value

def Lit.value : Lit → Option Value
  | .null => some .null
  | .int i => some (.num i)
  | .bool b => some (ofBool b)
  | .float m e => some (.num ((m : Rat) / (tenPow e : Nat)))
  | .str _ => none

def cmpOf : BinOp → Option Cmp
  | .Eq => some .eq | .Ne => some .ne | .Lt => some .lt | .Lte => some .le | .Gt => some .gt | .Gte => some .ge
  | _ => none

/-- meaning of a binary operator on values, operands in SOURCE order -/
def binVal (o : BinOp) (a b : Value) : Option Value :=
  match o with
  | .Add => vAdd a b | .Sub => vSub a b | .Mul => vMul a b
  | .DivFloat => vDivF a b | .DivInt => vDivI a b | .Mod => vMod a b | .Pow => vPow a b
  | .Eq => vCmp .eq a b | .Ne => vCmp .ne a b | .Lt => vCmp .lt a b | .Lte => vCmp .le a b
  | .Gt => vCmp .gt a b | .Gte => vCmp .ge a b
  | .And => some (vAnd a b) | .Or => some (vOr a b) | .Coalesce => some (vCoalesce a b)
  | .RegexSearch => none

def unVal (o : UnOp) (a : Value) : Option Value :=
  match o with
  | .Neg => some (vNeg a) | .Not => some (vNot a) | .Add => some a | .EqSelf => none

def fn1Val (f : Fn1) (a : Value) : Value :=
  match f with
  | .abs => vAbs a

def betweenVal (x lo hi : Value) : Option Value := do
  let a ← vCmp .ge x lo
  let b ← vCmp .le x hi
  pure (vAnd a b)

def caseVal (c : Value) (v rest : Option Value) : Option Value :=
  if c.truth = some true then v else rest

/-- comparison against the literal `null` tests null-ness: `==` / `!=` with `null` written on either side -/
def nullTest (o : BinOp) (operand : Value) : Option Value :=
  match o with
  | .Eq => some (vIsNull operand)
  | .Ne => some (vNot (vIsNull operand))
  | _ => none

def isNullLit : SExpr → Bool
  | .lit .null => true
  | _ => false

def isEqNe : BinOp → Bool
  | .Eq | .Ne => true
  | _ => false

/-- the documented meaning of a source expression -/
def evalDoc (ρ : Env) : SExpr → Option Value
  | .col i => some (ρ.getD i .null)
  | .lit l => l.value
  | .un o e => do unVal o (← evalDoc ρ e)
  | .bin o l r =>
    if isEqNe o && isNullLit l then do nullTest o (← evalDoc ρ r)
    else if isEqNe o && isNullLit r then do nullTest o (← evalDoc ρ l)
    else do binVal o (← evalDoc ρ l) (← evalDoc ρ r)
  | .caseB c v rest => do caseVal (← evalDoc ρ c) (evalDoc ρ v) (evalDoc ρ rest)
  | .caseEnd => some .null
  | .inRange x lo hi =>
    -- `lo..hi` with `null` written for a bound is the open range
    if isNullLit lo && isNullLit hi then some (ofBool true)
    else if isNullLit lo then do vCmp .le (← evalDoc ρ x) (← evalDoc ρ hi)
    else if isNullLit hi then do vCmp .ge (← evalDoc ρ x) (← evalDoc ρ lo)
    else do betweenVal (← evalDoc ρ x) (← evalDoc ρ lo) (← evalDoc ρ hi)
  | .fn1 f x => do pure (fn1Val f (← evalDoc ρ x))
  | .call2 o l r =>
    -- a function is a template: `f_eq x null` means `x == null`
    if isEqNe o && isNullLit l then do nullTest o (← evalDoc ρ r)
    else if isEqNe o && isNullLit r then do nullTest o (← evalDoc ρ l)
    else do binVal o (← evalDoc ρ l) (← evalDoc ρ r)

def PExpr.isNullLit : PExpr → Bool
  | .lit .null => true
  | _ => false

/-- meaning of the std functions, on RQ trees (arguments in RQ order) -/
def evalP (ρ : Env) : PExpr → Option Value
  | .col i => some (ρ.getD i .null)
  | .lit l => l.value
  | .un o e => do unVal o (← evalP ρ e)
  | .bin o a b =>
    if isEqNe o && a.isNullLit then do nullTest o (← evalP ρ b)
    else if isEqNe o && b.isNullLit then do nullTest o (← evalP ρ a)
    else if Gen.Expand.swapArgs o then do binVal o (← evalP ρ b) (← evalP ρ a)
    else do binVal o (← evalP ρ a) (← evalP ρ b)
  | .caseB c v rest => do caseVal (← evalP ρ c) (evalP ρ v) (evalP ρ rest)
  | .caseEnd => some .null
  | .between x lo hi => do betweenVal (← evalP ρ x) (← evalP ρ lo) (← evalP ρ hi)
  | .fn1 f x => do pure (fn1Val f (← evalP ρ x))

end Model.PExpr
