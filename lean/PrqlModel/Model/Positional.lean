/-
Mirror of the positional mapper of the SQL back end (sql/pq/positional_mapping.rs). A set operation (UNION / EXCEPT /
INTERSECT) matches the columns of its two inputs BY POSITION. When the pipeline that contains the set operation is cut
and pruned, the top input may end up with fewer columns, or in another order, than the relation had at the set operation;
the bottom relation is then re-projected the same way:

* `constraints`      (`compute_positional_mappings`): for every set operation of a pipeline, the columns of the top at
                      that point (all of them before the split; only the selected ones after it);
* `mappingOf`        (`compute_and_store_mapping`): positions of the columns after pruning among the columns before;
                      stored for the bottom instance only if complete and if none is stored yet;
* `activate`         (`activate_mapping`): compiling a relation instance TAKES its mapping out of the store and makes it
                      the active one - an instance without mapping resets the active mapping;
* `apply`            (`apply_active_mapping`): the requested output of the relation being compiled, re-projected.

Tie: every call of the four functions recorded while a corpus is compiled (cargo feature `verif`) is replayed
(tools/postrace.py).
-/
namespace Model.Positional

abbrev CId := Nat
abbrev RIId := Nat

inductive Tr where
  | compute (id : CId)
  | select (cols : List CId)
  | aggregate (compute : List CId)
  | setop (bottom : RIId)          -- Union / Except / Intersect
  | other
  deriving Repr, Inhabited, DecidableEq

/-- `add_columns`: with requirements only the selected columns are kept -/
def addColumns (selected : Option (List CId)) (cols : List CId) (cids : List CId) : List CId :=
  match selected with
  | some sel => cols ++ cids.filter (sel.contains ·)
  | none => cols ++ cids

def step (selected : Option (List CId)) (st : List (RIId × List CId) × List CId) (t : Tr) : List (RIId × List CId) × List CId :=
  let (cons, cols) := st
  match t with
  | .compute id => if cols.contains id then (cons, cols) else (cons, addColumns selected cols [id])
  | .select cids => (cons, addColumns selected [] cids)
  | .aggregate compute => (cons, addColumns selected [] compute)
  | .setop bottom => (cons ++ [(bottom, cols)], cols)
  | .other => (cons, cols)

/-- `compute_positional_mappings` -/
def constraints (selected : Option (List CId)) (p : List Tr) : List (RIId × List CId) :=
  (p.foldl (step selected) ([], [])).1

def position (before : List CId) (a : CId) : Option Nat :=
  let i := before.findIdx (· == a)
  if i < before.length then some i else none

/-- the positions of the columns of `after` among `before`; `none` unless every column has a counterpart -/
def mappingOf (before after : List CId) : Option (List Nat) :=
  let m := after.filterMap (position before)
  if m.length == after.length then some m else none

structure Mapper where
  store : List (RIId × List Nat) := []
  active : Option (List Nat) := none
  deriving Repr, Inhabited, DecidableEq

def lookup (store : List (RIId × List Nat)) (r : RIId) : Option (List Nat) :=
  (store.find? (·.1 == r)).map (·.2)

/-- `compute_and_store_mapping` -/
def computeAndStore (m : Mapper) (before after : List CId) (r : RIId) : Mapper :=
  match mappingOf before after with
  | some mp => if (lookup m.store r).isSome then m else { m with store := m.store ++ [(r, mp)] }
  | none => m

/-- `activate_mapping` -/
def activate (m : Mapper) (r : RIId) : Mapper :=
  { store := m.store.filter (·.1 != r), active := lookup m.store r }

/-- `apply_active_mapping` -/
def apply (m : Mapper) (output : List CId) : List CId :=
  match m.active with
  | some mp => if mp.any (fun i => decide (output.length ≤ i)) then output else mp.map fun i => output.getD i 0
  | none => output

end Model.Positional
