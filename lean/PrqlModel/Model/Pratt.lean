/-
The PRQL expression parser on token lists, as precedence climbing over the tables of `Gen/Pratt`
(parser/expr.rs: `term` → `unary(term)` → `range(term)` → `.pratt(infix levels)`), and the printer of source text
with the parentheses the DOCUMENTED table requires.

Raw tokens carry `TokSpec`s (`-` is one token, prefix or infix by position); `classify` resolves the position
(a symbol where a term may start is a unary operator, elsewhere a binary one), `PrecU.parse` does the climbing.
Ranges, `case`, calls and pipelines are terms for this parser; they are produced by the printer (`srcToks`)
and tied to the real parser through the compile correspondence of C02.
-/
import PrqlModel.Gen.Pratt
import PrqlModel.Model.PrecU
import PrqlModel.Model.PExpr
namespace Model.Pratt
open Gen.Pratt Model.PExpr

inductive Atom where
  | col (i : Nat)
  | lit (l : Lit)
  /-- `*` where a term may start is the wildcard identifier -/
  | star
  deriving DecidableEq, Repr

inductive RTok where
  | atom (a : Atom)
  | sym (t : TokSpec)
  | lp
  | rp
  /-- any other piece of source text (keywords, `[`, `=>`, `..`, function names) -/
  | word (s : List Char)
  deriving DecidableEq, Repr

abbrev PTok := PrecU.Tok Atom BinOp UnOp
abbrev PTree := PrecU.Tree Atom BinOp UnOp

def binOfTok (t : TokSpec) : Option BinOp := BinOp.all.find? fun o => o.tok == t
def unOfTok (t : TokSpec) : Option UnOp := unaryOrder.find? fun u => u.tok == t

/-- resolve prefix / infix by position; `none` when a symbol cannot stand where it is -/
def classify : Bool → List RTok → Option (List PTok)
  | _, [] => some []
  | _, .atom a :: r => (classify false r).map (.atom a :: ·)
  | _, .lp :: r => (classify true r).map (.lp :: ·)
  | _, .rp :: r => (classify false r).map (.rp :: ·)
  | true, .sym t :: r => match unOfTok t with
    | some u => (classify true r).map (.pre u :: ·)
    | none => if t = .ctrl '*' then (classify false r).map (.atom .star :: ·) else none
  | false, .sym t :: r => match binOfTok t with
    | some o => (classify true r).map (.op o :: ·)
    | none => none
  | _, .word _ :: _ => none

/-- one more than the highest infix binding power: unary operators take a bare term -/
def unaryLevel : Nat := (levels.map (·.1)).foldl max 0 + 1

def prattTbl : PrecU.Tbl BinOp UnOp := ⟨BinOp.level, BinOp.rassoc, fun _ => unaryLevel⟩

def toSExpr : PTree → SExpr
  | .leaf (.col i) => .col i
  | .leaf (.lit l) => .lit l
  | .leaf .star => .lit (.str ['*'])
  | .bin o l r => .bin o (toSExpr l) (toSExpr r)
  | .un u t => .un u (toSExpr t)

/-- the operator fragment of the expression parser: complete parse of a token list -/
def parseToks (ts : List RTok) : Option SExpr :=
  match classify true ts with
  | none => none
  | some cs =>
    if PrecU.adjacentPre cs then none
    else (PrecU.parseAll prattTbl cs).map toSExpr

/-! ### printing with the documented table -/

/-- the precedence table of the language reference (higher binds tighter) -/
def docLevel : BinOp → Nat
  | .Pow => 6
  | .Mul | .DivFloat | .DivInt | .Mod => 5
  | .Add | .Sub => 4
  | .Eq | .Ne | .Lt | .Lte | .Gt | .Gte | .RegexSearch => 3
  | .Coalesce => 2
  | .And => 1
  | .Or => 0

def docRassoc : BinOp → Bool
  | .Pow => true
  | _ => false

/-- parentheses required by the documented table: a looser child, or an equal one on the non-associating side;
every compound operand of a unary operator; a unary operand never needs them under a binary operator -/
def docNp : PrecU.Np BinOp UnOp
  | .b p, isLeft, .b c =>
    if docLevel p < docLevel c then false
    else if docLevel c < docLevel p then true
    else if isLeft then docRassoc p else !docRassoc p
  | .b _, _, .u _ => false
  | .u _, _, _ => true

def ofPTok : PTok → RTok
  | .atom a => .atom a
  | .op o => .sym o.tok
  | .pre u => .sym u.tok
  | .lp => .lp
  | .rp => .rp

def isLeaf : SExpr → Bool
  | .col _ => true
  | .lit _ => true
  | _ => false

def nodeOf : SExpr → Option (PrecU.Node BinOp UnOp)
  | .bin o _ _ => some (.b o)
  | .un u _ => some (.u u)
  | _ => none

def needsS (parent : PrecU.Node BinOp UnOp) (isLeft : Bool) (e : SExpr) : Bool :=
  match nodeOf e with
  | some c => docNp parent isLeft c
  | none => false

def wrapR (b : Bool) (ts : List RTok) : List RTok := if b then .lp :: (ts ++ [.rp]) else ts

def fn1Name : Fn1 → List Char
  | .abs => ['m', 'a', 't', 'h', '.', 'a', 'b', 's']

def userFnName (o : BinOp) : List Char := ['f', '_'] ++ o.lname

/-- source tokens of a tree, minimal parentheses by the documented table -/
def srcToks : SExpr → List RTok
  | .col i => [.atom (.col i)]
  | .lit l => [.atom (.lit l)]
  | .bin o l r =>
    wrapR (needsS (.b o) true l) (srcToks l) ++ (.sym o.tok :: wrapR (needsS (.b o) false r) (srcToks r))
  | .un u e => .sym u.tok :: wrapR (needsS (.u u) false e) (srcToks e)
  | .caseB c v rest =>
    [.word ['c', 'a', 's', 'e'], .word ['[']] ++ srcToks c ++ [.word ['=', '>']] ++ srcToks v ++ caseTail rest
  | .caseEnd => [.word ['c', 'a', 's', 'e'], .word ['['], .word [']']]
  | .inRange x lo hi =>
    [.lp] ++ srcToks x ++ [.word ['|'], .word ['i', 'n']] ++ wrapR (!isLeaf lo) (srcToks lo) ++ [.word ['.', '.']]
      ++ wrapR (!isLeaf hi) (srcToks hi) ++ [.rp]
  | .fn1 f x => [.lp, .word (fn1Name f)] ++ wrapR (!isLeaf x) (srcToks x) ++ [.rp]
  | .call2 o l r => [.lp, .word (userFnName o)] ++ wrapR (!isLeaf l) (srcToks l) ++ wrapR (!isLeaf r) (srcToks r) ++ [.rp]
where
  caseTail : SExpr → List RTok
  | .caseB c v rest => [.word [',']] ++ srcToks c ++ [.word ['=', '>']] ++ srcToks v ++ caseTail rest
  | .caseEnd => [.word [']']]
  | e => [.word [','], .word ['t', 'r', 'u', 'e'], .word ['=', '>']] ++ srcToks e ++ [.word [']']]

/-! ### rendering -/
def digitChar (d : Nat) : Char := Char.ofNat ('0'.toNat + d)

/-- decimal digits, most significant first (fuel = the number itself) -/
def natDigitsAux : Nat → Nat → List Char → List Char
  | 0, _, acc => acc
  | f + 1, n, acc => if n < 10 then digitChar n :: acc else natDigitsAux f (n / 10) (digitChar (n % 10) :: acc)

def natDigits (n : Nat) : List Char := natDigitsAux (n + 1) n []

def padFrac (e : Nat) (ds : List Char) : List Char := List.replicate (e - ds.length) '0' ++ ds

/-- decimal text of `m / 10^e` (e ≥ 1) -/
def floatText (m : Int) (e : Nat) : List Char :=
  let n := m.natAbs
  (if m < 0 then ['-'] else []) ++ natDigits (n / tenPow e) ++ ['.'] ++ padFrac e (natDigits (n % tenPow e))

def colName (i : Nat) : List Char := [Char.ofNat ('a'.toNat + i)]

def litSrc : Lit → List Char
  | .null => ['n', 'u', 'l', 'l']
  | .int i => (if i < 0 then ['-'] else []) ++ natDigits i.natAbs
  | .bool b => if b then ['t', 'r', 'u', 'e'] else ['f', 'a', 'l', 's', 'e']
  | .float m e => floatText m e
  | .str s => ['\''] ++ s ++ ['\'']

def tokSpecText : TokSpec → List Char
  | .ctrl c => [c]
  | .kind k => match Gen.Lex.multiCharOps.find? (fun x => x.2.1 == k) with
    | some x => x.1
    | none => []

def tokText : RTok → List Char
  | .atom (.col i) => colName i
  | .atom (.lit l) => litSrc l
  | .atom .star => ['*']
  | .sym t => tokSpecText t
  | .lp => ['(']
  | .rp => [')']
  | .word s => s

def isRangeWord : RTok → Bool
  | .word s => s == ['.', '.']
  | _ => false

/-- one space between tokens, none inside parentheses and around `..` -/
def render : List RTok → List Char
  | [] => []
  | [t] => tokText t
  | t :: u :: rest =>
    let glue := t == .lp || u == .rp || isRangeWord t || isRangeWord u
    tokText t ++ (if glue then [] else [' ']) ++ render (u :: rest)

def srcText (e : SExpr) : List Char := render (srcToks e)

end Model.Pratt
