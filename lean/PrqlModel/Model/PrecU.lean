/-
Generic precedence-climbing parser and minimal-parentheses printer for trees with binary infix AND unary prefix
operators (extension of `Lemmas/Prec.lean`, which has binary operators only).  Definitions only; the round-trip
theorem is in `Lemmas/PrecU.lean`.

A prefix operator `u` parses its operand at threshold `uprec u` and the result continues the enclosing loop:
* `uprec u` above every binary precedence  = the operand is a primary (PRQL `-a ** b` = `(-a) ** b`);
* `uprec NOT` just above `AND`              = SQL `NOT a = b AND c` = `(NOT (a = b)) AND c`.
-/
namespace PrecU

structure Tbl (Op U : Type) where
  prec : Op → Nat
  rassoc : Op → Bool
  uprec : U → Nat

inductive Tree (α Op U : Type) where
  | leaf : α → Tree α Op U
  | bin : Op → Tree α Op U → Tree α Op U → Tree α Op U
  | un : U → Tree α Op U → Tree α Op U
  deriving DecidableEq, Repr

inductive Tok (α Op U : Type) where
  | atom : α → Tok α Op U
  | op : Op → Tok α Op U
  | pre : U → Tok α Op U
  | lp : Tok α Op U
  | rp : Tok α Op U
  deriving DecidableEq, Repr

/-- an operator node: what the printer's decision depends on -/
inductive Node (Op U : Type) where
  | b : Op → Node Op U
  | u : U → Node Op U
  deriving DecidableEq, Repr

variable {α Op U : Type}

def nextMin (T : Tbl Op U) (o : Op) : Nat :=
  if T.rassoc o then T.prec o else T.prec o + 1

/-! ### printer -/

def wrap (b : Bool) (ts : List (Tok α Op U)) : List (Tok α Op U) :=
  if b then Tok.lp :: (ts ++ [Tok.rp]) else ts

/-- decision function: parent node, "child is the left operand", child node -/
abbrev Np (Op U : Type) := Node Op U → Bool → Node Op U → Bool

def needs (np : Np Op U) (parent : Node Op U) (isLeft : Bool) : Tree α Op U → Bool
  | .leaf _ => false
  | .bin c _ _ => np parent isLeft (.b c)
  | .un u _ => np parent isLeft (.u u)

def pr (np : Np Op U) : Tree α Op U → List (Tok α Op U)
  | .leaf a => [.atom a]
  | .bin o l r =>
    wrap (needs np (.b o) true l) (pr np l) ++ (.op o :: wrap (needs np (.b o) false r) (pr np r))
  | .un u t => .pre u :: wrap (needs np (.u u) false t) (pr np t)

/-! ### parser (precedence climbing, fuel = call depth) -/

mutual
def parseExpr (T : Tbl Op U) : Nat → Nat → List (Tok α Op U) → Option (Tree α Op U × List (Tok α Op U))
  | 0, _, _ => none
  | f+1, minP, ts =>
    match ts with
    | .atom a :: rest => parseLoop T f minP (.leaf a) rest
    | .lp :: rest =>
      match parseExpr T f 0 rest with
      | some (e, .rp :: rest') => parseLoop T f minP e rest'
      | _ => none
    | .pre u :: rest =>
      match parseExpr T f (T.uprec u) rest with
      | some (e, rest') => parseLoop T f minP (.un u e) rest'
      | none => none
    | _ => none
def parseLoop (T : Tbl Op U) : Nat → Nat → Tree α Op U → List (Tok α Op U) → Option (Tree α Op U × List (Tok α Op U))
  | 0, _, _, _ => none
  | f+1, minP, lhs, ts =>
    match ts with
    | .op o :: rest =>
      if minP ≤ T.prec o then
        match parseExpr T f (nextMin T o) rest with
        | some (rhs, rest') => parseLoop T f minP (.bin o lhs rhs) rest'
        | none => none
      else some (lhs, ts)
    | _ => some (lhs, ts)
end

def parse (T : Tbl Op U) (ts : List (Tok α Op U)) : Option (Tree α Op U × List (Tok α Op U)) :=
  parseExpr T (2 * ts.length) 0 ts

/-- complete parse: the whole token list is one expression -/
def parseAll (T : Tbl Op U) (ts : List (Tok α Op U)) : Option (Tree α Op U) :=
  match parse T ts with
  | some (t, []) => some t
  | _ => none

/-- two prefix operators next to each other (PRQL rejects `- -a`, `-!a`: the operand of a unary operator is a bare term) -/
def adjacentPre : List (Tok α Op U) → Bool
  | .pre _ :: .pre u :: rest => true || adjacentPre (.pre u :: rest)
  | _ :: rest => adjacentPre rest
  | [] => false

end PrecU
