/-
Mirror of four stages of `preprocess` (sql/pq/preprocess.rs), the passes that turn relational idioms of RQ into the
SQL set constructs:

* `distinct`  : `group cols (take ..)` (a Take with a partition) becomes DISTINCT, DISTINCT ON or a ROW_NUMBER() filter;
* `union`     : `append` becomes UNION, swallowing a directly following DISTINCT;
* `except`    : left join over all columns + filter "every bottom column is null" becomes EXCEPT;
* `intersect` : inner join over all columns becomes INTERSECT.

Plain data: a column id is a number, a relation instance is the list of its column ids, an expression is kept as far as
`collect_equals` / `col_refs` / `all_null` and the generated ROW_NUMBER filter look at it (everything else is an opaque
`other n`, numbered by the translator so that equality of the original values is equality of the numbers).

Tie to the code: the cargo feature `verif` brackets each of the four stages of every `preprocess` call made while a
corpus is compiled (input pipeline, output pipeline or error, instance columns, wildcard column ids, the three dialect
flags); tools/preptrace.py replays each recorded call through the functions below and compares the whole output.
-/
namespace Model.Preprocess

abbrev CId := Nat

inductive PE where
  | col (c : CId)
  | null
  | int (i : Int)
  | tru
  | eq (a b : PE)
  | and (a b : PE)
  | gte (a b : PE)
  | lte (a b : PE)
  | other (tag : Nat)
  deriving Repr, Inhabited, DecidableEq

/-- a sort column with its direction -/
structure CS where
  col : CId
  desc : Bool
  deriving Repr, Inhabited, DecidableEq

/-- a bound of a take range: an integer literal, or any other expression (`as_int` fails) -/
inductive Bd where
  | int (i : Int)
  | nonint
  deriving Repr, Inhabited, DecidableEq

inductive Side where
  | inner | left | right | full
  deriving Repr, Inhabited, DecidableEq

/-- window frame of the generated ROW_NUMBER column -/
inductive Frame where
  | rowsAll            -- ROWS, unbounded .. unbounded
  | rangeToCurrent     -- RANGE, unbounded .. 0
  deriving Repr, Inhabited, DecidableEq

inductive Tr where
  | from (cols : List CId)
  | join (side : Side) (cols : List CId) (filter : PE)
  | take (s e : Option Bd) (partition : List CId) (sort : List CS)
  | filter (e : PE)
  | select (cols : List CId)
  | aggregate (partition compute : List CId)
  | append (cols : List CId)
  | rowNumber (id : CId) (frame : Frame) (partition : List CId) (sort : List CS)
  | distinct
  | distinctOn (cols : List CId)
  | sqlSort (sort : List CS)
  | union (cols : List CId) (distinct : Bool)
  | except (cols : List CId) (distinct : Bool)
  | intersect (cols : List CId) (distinct : Bool)
  | other (tag : Nat)            -- Compute, Sort, Loop, ...: not looked at by these stages
  deriving Repr, Inhabited, DecidableEq

structure Cfg where
  supportsDistinctOn : Bool
  exceptAll : Bool
  intersectAll : Bool
  /-- column ids declared as the wildcard of a relation instance -/
  wildcards : List CId
  deriving Repr, Inhabited

/-- `AnchorContext::determine_select_columns` on the REVERSED pipeline -/
def selectColsRev : List Tr → List CId
  | [] => []
  | .from cols :: _ => cols
  | .join _ cols _ :: before => selectColsRev before ++ cols
  | .select cols :: _ => cols
  | .aggregate p c :: _ => p ++ c
  | _ :: before => selectColsRev before

def selectCols (p : List Tr) : List CId := selectColsRev p.reverse

/-- `vecs_contain_same_elements`: equality as sets -/
def sameElements (a b : List CId) : Bool := a.all (b.contains ·) && b.all (a.contains ·)

/-- `collect_equals`: `(a == b) and ((c == d) and ..)` to `([a, c, ..], [b, d, ..])`; anything else contributes nothing -/
def collectEquals : PE → List PE × List PE
  | .eq a b => ([a], [b])
  | .and x y =>
    let (l1, r1) := collectEquals x
    let (l2, r2) := collectEquals y
    (l1 ++ l2, r1 ++ r2)
  | _ => ([], [])

/-- `col_refs` -/
def colRefs (es : List PE) : List CId := es.filterMap fun e => match e with | .col c => some c | _ => none

/-- `all_in` -/
def allIn (cids : List CId) (es : List PE) : Bool := cids.all ((colRefs es).contains ·)

/-- `all_null` -/
def allNull (es : List PE) : Bool := es.all fun e => match e with | .null => true | _ => false

def containsWildcard (cfg : Cfg) (cids : List CId) : Bool := cids.any (cfg.wildcards.contains ·)

/-! ### distinct -/

def asInt : Option Bd → Except Unit (Option Int)
  | none => .ok none
  | some (.int i) => .ok (some i)
  | some .nonint => .error ()

def ascending (partition : List CId) : List CS := partition.map fun c => { col := c, desc := false }

/-- the condition of the generated filter -/
def rangeFilter (rn : CId) : Option Int → Option Int → PE
  | some s, some e =>
    if s == e then .eq (.col rn) (.int s) else .and (.gte (.col rn) (.int s)) (.lte (.col rn) (.int e))
  | some s, none => .gte (.col rn) (.int s)
  | none, some e => .lte (.col rn) (.int e)
  | none, none => .tru

/-- `create_filter_by_row_number` -/
def rowNumberFilter (rn : CId) (s e : Option Int) (partition : List CId) (sort : List CS) : List Tr :=
  [.rowNumber rn (if sort.isEmpty then .rowsAll else .rangeToCurrent) partition sort, .filter (rangeFilter rn s e)]

inductive DistinctChoice where
  | distinct | distinctOn | rowNumber
  deriving Repr, DecidableEq

/-- what the pass knows about a transform besides its shape: the column ids `CidCollector` finds in it (`none`: the
transform is neither a wrapped RQ transform nor a Join) and, for a Compute, the column it defines -/
structure Info where
  reads : Option (List CId)
  defines : Option CId
  deriving Repr, Inhabited, DecidableEq

/-- the columns known after a transform: a Join brings in the columns of its relation, a Compute defines one -/
def extendKnown (known : List CId) (t : Tr) (i : Info) : List CId :=
  match t with
  | .join _ cols _ => known ++ cols
  | _ => match i.defines with
    | some c => known ++ [c]
    | none => known

/-- `reads_only`: nothing that follows the take reads a column that was there before the take and is not in the partition
(`known` grows by the columns later Computes define and later Joins bring in) -/
def readsOnly (known : List CId) : List (Tr × Info) → Bool
  | [] => true
  | (t, i) :: rest =>
    match i.reads with
    | none => readsOnly known rest
    | some rs => rs.all ((extendKnown known t i).contains ·) && readsOnly (extendKnown known t i) rest

/-- the decision of `distinct` for one partitioned take; `frame` = the columns the whole pipeline ends with,
`laterOk` = `readsOnly partition <the transforms after the take>` -/
def distinctChoice (cfg : Cfg) (frame : List CId) (laterOk : Bool) (s e : Option Int) (partition : List CId) (sort : List CS) : DistinctChoice :=
  let takeOnlyFirst := s.getD 1 == 1 && e == some 1
  if takeOnlyFirst && sort.isEmpty && (sameElements frame partition && laterOk) then .distinct
  else if cfg.supportsDistinctOn && e == some 1 then .distinctOn
  else .rowNumber

/-- `distinct`: returns the new pipeline and the next free column id; `none` = "Invalid take arguments" -/
def distinctGo (cfg : Cfg) (frame : List CId) : CId → List (Tr × Info) → Option (List Tr × CId)
  | next, [] => some ([], next)
  | next, (.take s e partition sort, _) :: rest =>
    if partition.isEmpty then
      (distinctGo cfg frame next rest).map fun (r, n) => (.take s e partition sort :: r, n)
    else
      match asInt s, asInt e with
      | .ok s, .ok e =>
        match distinctChoice cfg frame (readsOnly partition rest) s e partition sort with
        | .distinct => (distinctGo cfg frame next rest).map fun (r, n) => (.distinct :: r, n)
        | .distinctOn =>
          let so := if sort.isEmpty then [] else ascending partition ++ sort
          (distinctGo cfg frame next rest).map fun (r, n) => (.sqlSort so :: .distinctOn partition :: r, n)
        | .rowNumber =>
          (distinctGo cfg frame (next + 1) rest).map fun (r, n) => (rowNumberFilter next s e partition sort ++ r, n)
      | _, _ => none
  | next, (t, _) :: rest => (distinctGo cfg frame next rest).map fun (r, n) => (t :: r, n)

def distinct (cfg : Cfg) (next : CId) (p : List (Tr × Info)) : Option (List Tr × CId) :=
  distinctGo cfg (selectCols (p.map (·.1))) next p

/-! ### union -/

/-- `union` -/
def union : List Tr → List Tr
  | [] => []
  | .append cols :: .distinct :: rest => .union cols true :: union rest
  | .append cols :: rest => .union cols false :: union rest
  | t :: rest => t :: union rest

/-! ### except -/

def headIsDistinct : List Tr → Bool
  | .distinct :: _ => true
  | _ => false

def dropHeadDistinct : List Tr → List Tr
  | .distinct :: b => b
  | b => b

inductive Outcome where
  | keep                      -- no rewrite at this position
  | rewrite (distinct : Bool)
  | error                     -- "The dialect .. does not support EXCEPT ALL / INTERSECT ALL"
  deriving Repr, DecidableEq

/-- the decision of `except` once `res` (REVERSED: most recent first) ends in `filter` after a left join -/
def exceptDecide (cfg : Cfg) (output : List CId) (joinCond : PE) (bottom : List CId) (filter : PE) (beforeRev : List Tr) : Outcome :=
  let top := selectColsRev beforeRev
  if !(allIn top (collectEquals joinCond).1) || !(allIn bottom (collectEquals joinCond).2) then .keep else
  if !(allIn bottom (collectEquals filter).1 && allNull (collectEquals filter).2) then .keep else
  if bottom.any (output.contains ·) then .keep else
  if !(top.all (output.contains ·)) then .keep else
  let distinct := headIsDistinct beforeRev
  if !distinct && !cfg.exceptAll then
    if containsWildcard cfg top || containsWildcard cfg bottom then .error else .keep
  else .rewrite distinct

/-- one iteration of the loop of `except` on the reversed result -/
def exceptStep (cfg : Cfg) (output : List CId) (resRev : List Tr) (t : Tr) : Option (List Tr) :=
  match t, resRev with
  | .filter f, .join .left bottom jc :: beforeRev =>
    match exceptDecide cfg output jc bottom f beforeRev with
    | .keep => some (t :: resRev)
    | .error => none
    | .rewrite d =>
      some (.except bottom d :: (if d then dropHeadDistinct beforeRev else beforeRev))
  | _, _ => some (t :: resRev)

def exceptGo (cfg : Cfg) (output : List CId) : List Tr → List Tr → Option (List Tr)
  | resRev, [] => some resRev.reverse
  | resRev, t :: rest =>
    match exceptStep cfg output resRev t with
    | some r => exceptGo cfg output r rest
    | none => none

/-- `except`; `none` = the dialect error -/
def except (cfg : Cfg) (p : List Tr) : Option (List Tr) := exceptGo cfg (selectCols p) [] p

/-! ### intersect -/

/-- the decision of `intersect` for an inner join; `nextIsDistinct` = the transform after the join is DISTINCT -/
def intersectDecide (cfg : Cfg) (output : List CId) (joinCond : PE) (bottom : List CId) (beforeRev : List Tr)
    (nextIsDistinct : Bool) : Outcome :=
  let top := selectColsRev beforeRev
  if !(allIn top (collectEquals joinCond).1 && allIn bottom (collectEquals joinCond).2) then .keep else
  if bottom.any (output.contains ·) then .keep else
  if !(top.all (output.contains ·)) then .keep else
  let distinct := headIsDistinct beforeRev || nextIsDistinct
  if !distinct && !cfg.intersectAll then
    if containsWildcard cfg top || containsWildcard cfg bottom then .error else .keep
  else .rewrite distinct

/-- `skip` = the INTERSECT just pushed swallows the DISTINCT that follows it -/
def intersectGo (cfg : Cfg) (output : List CId) : Bool → List Tr → List Tr → Option (List Tr)
  | _, resRev, [] => some resRev.reverse
  | true, resRev, .distinct :: rest => intersectGo cfg output false resRev rest
  | _, resRev, .join .inner bottom jc :: rest =>
    let nextIsDistinct := headIsDistinct rest
    match intersectDecide cfg output jc bottom resRev nextIsDistinct with
    | .keep => intersectGo cfg output false (.join .inner bottom jc :: resRev) rest
    | .error => none
    | .rewrite d =>
      intersectGo cfg output (d && nextIsDistinct) (.intersect bottom d :: (if d then dropHeadDistinct resRev else resRev)) rest
  | _, resRev, t :: rest => intersectGo cfg output false (t :: resRev) rest

/-- `intersect`; `none` = the dialect error -/
def intersect (cfg : Cfg) (p : List Tr) : Option (List Tr) := intersectGo cfg (selectCols p) false [] p

/-! ### prune_inputs

`prune_inputs` walks the pipeline from the back, collecting every column id the transforms mention (`CidCollector`; for a
Join the ids of its condition, for a From nothing), and cuts the column list of each relation instance down to the ids
collected so far - i.e. to what the instance's own Join condition and the transforms AFTER it mention. -/

/-- one step on the reversed pipeline: `(used, instance columns after pruning, in scan order)` -/
def pruneStep (st : List CId × List (List CId)) (ti : Tr × Info) : List CId × List (List CId) :=
  let used := st.1 ++ (ti.2.reads.getD [])
  match ti.1 with
  | .from cols => (used, st.2 ++ [cols.filter (used.contains ·)])
  | .join _ cols _ => (used, st.2 ++ [cols.filter (used.contains ·)])
  | _ => (used, st.2)

/-- `prune_inputs`: the pruned column lists of the From / Join instances, in PIPELINE order -/
def pruneInputs (p : List (Tr × Info)) : List (List CId) := ((p.reverse.foldl pruneStep ([], [])).2).reverse

end Model.Preprocess
