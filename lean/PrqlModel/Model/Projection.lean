/-
Mirror of `deduplicate_select_items` (sql/gen_projection.rs): the last step of the projection of every
SELECT block. A select item is a compound identifier (`table.column`, `column`), an aliased expression,
or something else (star, NULL, unnamed expression). The code walks the items once with a set `seen` of
WHOLE identifiers (since the repair `fix: deduplicate_select_items compares whole identifiers`):
 * a compound identifier is kept iff exactly that identifier was not selected before;
 * an aliased item is kept iff its alias (as a one-part identifier) was not seen before;
 * everything else is kept.
(Before the repair the parts of an identifier were inserted one by one and an item survived iff ANY part
was new - which merged `t1.k` into `t0.k`; see known_findings.json `same-name-column-dropped`, fixed.)
-/
namespace Model.Projection

abbrev Ident := List Char

inductive Item
  | compound (parts : List Ident)
  | aliased (alias : Ident)
  | other
  deriving DecidableEq, Repr

def dedupFrom (seen : List (List Ident)) : List Item → List Item
  | [] => []
  | .compound ps :: rest =>
    if seen.contains ps then dedupFrom seen rest else .compound ps :: dedupFrom (ps :: seen) rest
  | .aliased a :: rest =>
    if seen.contains [a] then dedupFrom seen rest else .aliased a :: dedupFrom ([a] :: seen) rest
  | .other :: rest => .other :: dedupFrom seen rest

def dedup (items : List Item) : List Item := dedupFrom [] items

/-- indices retained (what the hook reports) -/
def keptFrom (seen : List (List Ident)) (i : Nat) : List Item → List Nat
  | [] => []
  | .compound ps :: rest =>
    if seen.contains ps then keptFrom seen (i + 1) rest else i :: keptFrom (ps :: seen) (i + 1) rest
  | .aliased a :: rest =>
    if seen.contains [a] then keptFrom seen (i + 1) rest else i :: keptFrom ([a] :: seen) (i + 1) rest
  | .other :: rest => i :: keptFrom seen (i + 1) rest

def kept (items : List Item) : List Nat := keptFrom [] 0 items

/-- the identifier an item is remembered by -/
def Item.key : Item → Option (List Ident)
  | .compound ps => some ps
  | .aliased a => some [a]
  | .other => none

/-- the name under which an item appears in the result set -/
def Item.resultName : Item → Option Ident
  | .compound ps => ps.getLast?
  | .aliased a => some a
  | .other => none

/-- every identifier an item mentions -/
def Item.idents : Item → List Ident
  | .compound ps => ps
  | .aliased a => [a]
  | .other => []

/-! ### the alias decision of `translate_select_item` (sql/gen_expr.rs)

`inferred` = the name the emitted expression would get by itself (the last part of a compound identifier, never `*`),
`expected` = the name the frame gives the column (`column_names`), `fresh` = the next generated name. The item gets
`AS <alias>` iff the two differ (as Option, compared EXACTLY); the alias is the expected name, or a generated one. -/

/-- `none` = no alias (UnnamedExpr); `some a` = ExprWithAlias a -/
def aliasOf (inferred expected : Option Ident) (fresh : Ident) : Option Ident :=
  if inferred = expected then none else some (expected.getD fresh)

/-- the name under which the database returns the item -/
def resultName (inferred expected : Option Ident) (fresh : Ident) : Option Ident :=
  match aliasOf inferred expected fresh with
  | some a => some a
  | none => inferred

end Model.Projection
