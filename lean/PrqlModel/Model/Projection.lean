/-
Mirror of `deduplicate_select_items` (sql/gen_projection.rs): the last step of the projection of every
SELECT block. A select item is a compound identifier (`table.column`, `column`), an aliased expression,
or something else (star, NULL, unnamed expression). The code walks the items once with a set `seen`:
 * a compound identifier is kept iff ANY of its parts was not seen yet – parts are inserted left to
   right and the scan stops at the first new one (`Iterator::any` short-circuits);
 * an aliased item is kept iff its alias was not seen yet;
 * everything else is kept.
-/
namespace Model.Projection

abbrev Ident := List Char

inductive Item
  | compound (parts : List Ident)
  | aliased (alias : Ident)
  | other
  deriving DecidableEq, Repr

/-- `idents.iter().any(|ident| seen.insert(ident))` : (was one new?, the set afterwards) -/
def anyInsert (seen : List Ident) : List Ident → Bool × List Ident
  | [] => (false, seen)
  | i :: rest => if seen.contains i then anyInsert seen rest else (true, i :: seen)

def dedupFrom (seen : List Ident) : List Item → List Item
  | [] => []
  | .compound ps :: rest =>
    let r := anyInsert seen ps
    if r.1 then .compound ps :: dedupFrom r.2 rest else dedupFrom r.2 rest
  | .aliased a :: rest =>
    if seen.contains a then dedupFrom seen rest else .aliased a :: dedupFrom (a :: seen) rest
  | .other :: rest => .other :: dedupFrom seen rest

def dedup (items : List Item) : List Item := dedupFrom [] items

/-- indices retained (what the hook reports) -/
def keptFrom (seen : List Ident) (i : Nat) : List Item → List Nat
  | [] => []
  | .compound ps :: rest =>
    let r := anyInsert seen ps
    if r.1 then i :: keptFrom r.2 (i + 1) rest else keptFrom r.2 (i + 1) rest
  | .aliased a :: rest =>
    if seen.contains a then keptFrom seen (i + 1) rest else i :: keptFrom (a :: seen) (i + 1) rest
  | .other :: rest => i :: keptFrom seen (i + 1) rest

def kept (items : List Item) : List Nat := keptFrom [] 0 items

/-- the name under which an item appears in the result set -/
def Item.resultName : Item → Option Ident
  | .compound ps => ps.getLast?
  | .aliased a => some a
  | .other => none

/-- every identifier an item mentions -/
def Item.idents : Item → List Ident
  | .compound ps => ps
  | .aliased a => [a]
  | .other => []

end Model.Projection
