/-
Reference semantics of the PRQL relational core ("the documented meaning of each transform, applied
in pipeline order", book: stdlib/transforms/*.md, spec/null.md, sort.md "ordering guarantees").
Rows are positional (`List Value`): name resolution is done before (generator / Model.Scope), so this file
is only about *what relation a pipeline denotes*.  Relations are ORDERED lists of rows together with
the bookkeeping of which order is "in effect" (C03): `sorted` = a sort is in effect, `ties` = that order
has equal keys on different rows (SQL may then order them either way), `ambig` = the *set* of rows
already depended on such a choice (take on ties / without a sort), so a comparison of row multisets
would demand more than PRQL specifies.
Value semantics follow SQLite for the types used (NULL, 64-bit ints kept small, text, booleans as 0/1);
that part is trusted and validated against the real SQLite by the checks (tie C).
-/
namespace Model.Rel

inductive Value
  | null
  | int (i : Int)
  | str (s : List Char)
  | bool (b : Bool)
  deriving DecidableEq, Repr, Inhabited

abbrev Row := List Value

/-! ### scalar expressions -/

inductive BinOp
  | add | sub | mul
  | eq | ne | lt | le | gt | ge
  | and | or
  | coalesce
  | concat
  deriving DecidableEq, Repr

inductive Expr
  | col (i : Nat)
  | lit (v : Value)
  | bin (op : BinOp) (a b : Expr)
  | neg (a : Expr)
  | not (a : Expr)
  | isNull (a : Expr)            -- `a == null`
  | notNull (a : Expr)           -- `a != null`
  | ite (c t e : Expr)           -- `case [c => t, true => e]`; a `case` without default ends in `lit null`
  deriving Repr, Inhabited

/-- booleans are 0/1 when used as numbers (SQLite) -/
def Value.asInt? : Value → Option Int
  | .int i => some i
  | .bool b => some (if b then 1 else 0)
  | _ => none

/-- truth value of a condition: `some true` only for a true value; NULL is `none` -/
def Value.truth : Value → Option Bool
  | .bool b => some b
  | .int i => some (i != 0)
  | _ => none

def ofTruth : Option Bool → Value
  | some b => .bool b
  | none => .null

/-- total order used by ORDER BY / MIN / MAX / comparison: NULL < numbers < text (SQLite) -/
def cmpChars : List Char → List Char → Ordering
  | [], [] => .eq
  | [], _ :: _ => .lt
  | _ :: _, [] => .gt
  | a :: as, b :: bs => if a.toNat < b.toNat then .lt else if b.toNat < a.toNat then .gt else cmpChars as bs

def Value.cmp : Value → Value → Ordering
  | .null, .null => .eq
  | .null, _ => .lt
  | _, .null => .gt
  | .str a, .str b => cmpChars a b
  | .str _, _ => .gt
  | _, .str _ => .lt
  | a, b =>
    match a.asInt?, b.asInt? with
    | some x, some y => if x < y then .lt else if y < x then .gt else .eq
    | _, _ => .eq

def cmpOp (op : BinOp) (o : Ordering) : Bool :=
  match op with
  | .eq => o == .eq | .ne => o != .eq
  | .lt => o == .lt | .le => o != .gt
  | .gt => o == .gt | .ge => o != .lt
  | _ => false

def arith (op : BinOp) (x y : Int) : Int :=
  match op with
  | .add => x + y | .sub => x - y | .mul => x * y | _ => 0

def and3 : Option Bool → Option Bool → Option Bool
  | some false, _ => some false
  | _, some false => some false
  | some true, some true => some true
  | _, _ => none

def or3 : Option Bool → Option Bool → Option Bool
  | some true, _ => some true
  | _, some true => some true
  | some false, some false => some false
  | _, _ => none

def evalBin (op : BinOp) (a b : Value) : Value :=
  match op with
  | .add | .sub | .mul =>
    match a, b with
    | .null, _ => .null
    | _, .null => .null
    | _, _ => match a.asInt?, b.asInt? with
      | some x, some y => .int (arith op x y)
      | _, _ => .null
  | .eq | .ne | .lt | .le | .gt | .ge =>
    match a, b with
    | .null, _ => .null
    | _, .null => .null
    | _, _ => .bool (cmpOp op (a.cmp b))
  | .and => ofTruth (and3 a.truth b.truth)
  | .or => ofTruth (or3 a.truth b.truth)
  | .coalesce => match a with | .null => b | _ => a
  | .concat =>
    match a, b with
    | .str x, .str y => .str (x ++ y)
    | _, _ => .null

def Expr.eval (r : Row) : Expr → Value
  | .col i => r.getD i .null
  | .lit v => v
  | .bin op a b => evalBin op (a.eval r) (b.eval r)
  | .neg a => match (a.eval r) with
    | .null => .null
    | v => match v.asInt? with | some x => .int (-x) | none => .null
  | .not a => ofTruth ((a.eval r).truth.map (!·))
  | .isNull a => .bool ((a.eval r) == .null)
  | .notNull a => .bool ((a.eval r) != .null)
  | .ite c t e => if (c.eval r).truth == some true then t.eval r else e.eval r

/-- columns an expression reads -/
def Expr.reads : Expr → List Nat
  | .col i => [i]
  | .lit _ => []
  | .bin _ a b => a.reads ++ b.reads
  | .neg a | .not a | .isNull a | .notNull a => a.reads
  | .ite c t e => c.reads ++ t.reads ++ e.reads

/-! ### ordered relations -/

structure Table where
  rows : List Row
  /-- a sort is in effect -/
  sorted : Bool := false
  /-- the order in effect has ties between different rows -/
  ties : Bool := false
  /-- the row multiset already depends on an unspecified choice -/
  ambig : Bool := false
  deriving Repr, Inhabited

/-- sort key: expression and `descending` flag -/
abbrev SortKey := Expr × Bool

def cmpKeys (ks : List SortKey) (a b : Row) : Ordering :=
  match ks with
  | [] => .eq
  | (e, desc) :: rest =>
    let o := (e.eval a).cmp (e.eval b)
    let o := if desc then (match o with | .lt => .gt | .gt => .lt | .eq => .eq) else o
    match o with
    | .eq => cmpKeys rest a b
    | o => o

/-- stable insertion sort for an arbitrary comparison -/
def insBy (le : α → α → Bool) (x : α) : List α → List α
  | [] => [x]
  | y :: ys => if le x y then x :: y :: ys else y :: insBy le x ys

def isortBy (le : α → α → Bool) : List α → List α
  | [] => []
  | x :: xs => insBy le x (isortBy le xs)

def sortRows (ks : List SortKey) (rows : List Row) : List Row :=
  isortBy (fun a b => cmpKeys ks a b != .gt) rows

/-- two *different* rows with the same sort key exist -/
def hasTies (ks : List SortKey) (rows : List Row) : Bool :=
  rows.any fun a => rows.any fun b => a != b && cmpKeys ks a b == .eq

/-- 1-based inclusive positional range (`take lo..hi`) -/
def takeRange (lo hi : Option Nat) (l : List α) : List α :=
  let s := (lo.getD 1) - 1
  let l' := l.drop s
  match hi with
  | none => l'
  | some e => l'.take (e - s)

/-! ### aggregation -/

inductive AggFn | sum | count | min | max | countDistinct | any | all
  deriving DecidableEq, Repr

def dedup [BEq α] : List α → List α
  | [] => []
  | x :: xs => x :: (dedup xs).filter (· != x)

def aggVal (f : AggFn) (vals : List Value) : Value :=
  let nn := vals.filter (· != .null)
  match f with
  | .count => .int vals.length                      -- count counts null entries too
  | .sum => .int ((nn.filterMap Value.asInt?).foldl (· + ·) 0)   -- the sum of no values is 0
  | .min => nn.foldl (fun acc v => match acc with | .null => v | a => if v.cmp a == .lt then v else a) .null
  | .max => nn.foldl (fun acc v => match acc with | .null => v | a => if v.cmp a == .gt then v else a) .null
  | .countDistinct => .int (dedup nn).length
  | .any => .bool (nn.any fun v => v.truth == some true)
  | .all => .bool (nn.all fun v => v.truth == some true)

abbrev Agg := AggFn × Expr

def aggRow (aggs : List Agg) (rows : List Row) : Row :=
  aggs.map fun (f, e) => aggVal f (rows.map e.eval)

def keyOf (by_ : List Nat) (r : Row) : Row := by_.map fun i => r.getD i .null

/-- groups in order of first occurrence of their key; rows of a group keep their relative order -/
def groups (by_ : List Nat) (rows : List Row) : List (Row × List Row) :=
  (dedup (rows.map (keyOf by_))).map fun k => (k, rows.filter fun r => keyOf by_ r == k)

/-! ### window functions (C04) -/

inductive WinFn | sum | count | min | max | rowNumber | rank | rankDense | lag (n : Nat) | lead (n : Nat) | first | last
  /- the three below reproduce RECORDED DEFECTS of the unchanged compiler (known findings of C04); they are used only to
     recognise those findings, never as the reference: windowed SUM without COALESCE, FIRST/LAST_VALUE under SQL's implicit frame -/
  | sumNull | firstImplicit | lastImplicit
  deriving DecidableEq, Repr

/-- frame in ROWS mode relative to the current row: `lo..hi` offsets (none = unbounded) -/
structure Frame where
  lo : Option Int
  hi : Option Int
  deriving Repr

structure Window where
  partition : List Nat
  order : List SortKey
  /-- `none`: no explicit frame: whole partition (no order) / SQL default frame semantics is never relied on:
  with an order and no frame PRQL still means the whole partition for aggregates -/
  frame : Option Frame
  fn : WinFn
  arg : Expr
  deriving Repr

def frameSlice (fr : Option Frame) (i : Nat) (part : List Row) : List Row :=
  match fr with
  | none => part
  | some f =>
    let lo : Int := match f.lo with | none => 0 | some d => max 0 ((i : Int) + d)
    let hi : Int := match f.hi with | none => (part.length : Int) - 1 | some d => min ((part.length : Int) - 1) ((i : Int) + d)
    if hi < lo then [] else (part.drop lo.toNat).take (hi - lo + 1).toNat

/-- SQL's implicit frame: whole partition without ORDER BY, else up to and including the peers of the current row -/
def implicitFrame (order : List SortKey) (cur : Row) (part : List Row) : List Row :=
  if order.isEmpty then part else part.filter fun r => cmpKeys order r cur != .gt

def winVal (w : Window) (part : List Row) (i : Nat) : Value :=
  let cur := part.getD i []
  match w.fn with
  | .rowNumber => .int (i + 1)
  | .rank => .int ((part.filter fun r => cmpKeys w.order r cur == .lt).length + 1)
  | .rankDense => .int ((dedup ((part.filter fun r => cmpKeys w.order r cur == .lt).map fun r => w.order.map fun k => k.1.eval r)).length + 1)
  | .lag n => if n ≤ i then w.arg.eval (part.getD (i - n) []) else .null
  | .lead n => if i + n < part.length then w.arg.eval (part.getD (i + n) []) else .null
  | .first => match frameSlice w.frame i part with | [] => .null | r :: _ => w.arg.eval r
  | .last => match (frameSlice w.frame i part).getLast? with | none => .null | some r => w.arg.eval r
  | .sum => aggVal .sum ((frameSlice w.frame i part).map w.arg.eval)
  | .sumNull =>
    let vs := ((frameSlice w.frame i part).map w.arg.eval).filter (· != .null)
    if vs.isEmpty then .null else aggVal .sum vs
  | .firstImplicit => match implicitFrame w.order cur part with | [] => .null | r :: _ => w.arg.eval r
  | .lastImplicit => match (implicitFrame w.order cur part).getLast? with | none => .null | some r => w.arg.eval r
  | .count => aggVal .count ((frameSlice w.frame i part).map w.arg.eval)
  | .min => aggVal .min ((frameSlice w.frame i part).map w.arg.eval)
  | .max => aggVal .max ((frameSlice w.frame i part).map w.arg.eval)

/-- index of each row inside its (sorted) partition -/
def winColumn (w : Window) (rows : List Row) : List Value :=
  rows.map fun r =>
    let part := sortRows w.order (rows.filter fun r' => keyOf w.partition r' == keyOf w.partition r)
    -- position of this row in its partition: rows equal to `r` are interchangeable for every function
    -- except row_number/lag/lead on ties, which the ambiguity flag covers
    let i := (part.takeWhile fun r' => r' != r).length
    winVal w part i

/-! ### transforms -/

inductive JoinSide | inner | left | right | full
  deriving DecidableEq, Repr

inductive Src
  | base (t : Nat)      -- t-th table of the database
  | ref (i : Nat)       -- i-th `let` of the program
  deriving Repr

inductive Tr
  | select (es : List Expr)
  | derive (es : List Expr)                       -- sequential: a later item may read an earlier one
  | filter (e : Expr)
  | sort (ks : List SortKey)
  | take (lo hi : Option Nat)
  | aggregate (aggs : List Agg)                   -- without group: exactly one row
  | groupAgg (by_ : List Nat) (aggs : List Agg)   -- group by_ (aggregate aggs): keys ++ aggregates, one row per key
  | groupTake (by_ : List Nat) (ks : List SortKey) (lo hi : Option Nat)   -- group by_ (sort ks | take lo..hi)
  | groupSort (by_ : List Nat) (ks : List SortKey)                         -- group by_ (sort ks): no observable effect
  | window (by_ : List Nat) (ws : List Window)    -- (group by_)? derive of windowed columns (appended; a group moves its keys first)
  | join (side : JoinSide) (right : Src) (leftWidth rightWidth : Nat) (cond : Expr)   -- cond over left ++ right
  | append (right : Src)
  deriving Repr

structure Pipe where
  src : Src
  trs : List Tr
  deriving Repr

structure Prog where
  lets : List Pipe
  main : Pipe
  deriving Repr

abbrev Db := List (List Row)

def deriveRow (es : List Expr) (r : Row) : Row := es.foldl (fun acc e => acc ++ [e.eval acc]) r

def nulls (n : Nat) : Row := List.replicate n .null

def joinRows (side : JoinSide) (lw rw : Nat) (cond : Expr) (l r : List Row) : List Row :=
  let ok (a b : Row) : Bool := (cond.eval (a ++ b)).truth == some true
  let matched : List Row := l.flatMap fun a =>
    let ms := (r.filter (ok a)).map (a ++ ·)
    if ms.isEmpty && (side == .left || side == .full) then [a ++ nulls rw] else ms
  let unmatchedRight : List Row :=
    if side == .right || side == .full then
      (r.filter fun b => !(l.any fun a => ok a b)).map (nulls lw ++ ·)
    else []
  matched ++ unmatchedRight

/-- the range keeps every row of a list of length `n` -/
def coversAll (lo hi : Option Nat) (n : Nat) : Bool :=
  decide ((lo.getD 1) ≤ 1) && (match hi with | none => true | some e => decide (n ≤ e))

def differs (rows : List Row) : Bool := rows.any fun a => rows.any fun b => a != b

def step (resolve : Src → Table) (t : Table) : Tr → Table
  | .select es => { t with rows := t.rows.map fun r => es.map (·.eval r) }
  | .derive es => { t with rows := t.rows.map (deriveRow es) }
  | .filter e => { t with rows := t.rows.filter fun r => (e.eval r).truth == some true }
  | .sort ks =>
    let rows := sortRows ks t.rows
    { t with rows := rows, sorted := true, ties := hasTies ks rows }
  | .take lo hi =>
    let whole := coversAll lo hi t.rows.length
    { t with rows := takeRange lo hi t.rows,
             ambig := t.ambig || (!whole && (!t.sorted || t.ties) && differs t.rows) }
  | .aggregate aggs => { rows := [aggRow aggs t.rows], ambig := t.ambig }
  | .groupAgg by_ aggs =>
    { rows := (groups by_ t.rows).map fun (k, rs) => k ++ aggRow aggs rs, ambig := t.ambig }
  | .groupTake by_ ks lo hi =>
    let gs := groups by_ t.rows
    let amb := gs.any fun (_, rs) =>
      !(coversAll lo hi rs.length) && (ks.isEmpty || hasTies ks rs) && differs rs
    -- the group key columns come first in the resulting frame, then the others in their order
    let reorder (r : Row) : Row := keyOf by_ r ++ ((List.range r.length).filter (fun i => !by_.contains i)).map fun i => r.getD i .null
    { rows := gs.flatMap fun (_, rs) => (takeRange lo hi (sortRows ks rs)).map reorder, ambig := t.ambig || amb }
  | .groupSort _ _ => { t with sorted := false, ties := false }
  | .window by_ ws =>
    let cols := ws.map fun w => winColumn w t.rows
    let reorder (r : Row) : Row :=
      if by_.isEmpty then r
      else keyOf by_ r ++ ((List.range r.length).filter (fun i => !by_.contains i)).map fun i => r.getD i .null
    { t with rows := (List.range t.rows.length).map fun i => reorder (t.rows.getD i []) ++ cols.map fun c => c.getD i .null,
             sorted := t.sorted && by_.isEmpty, ties := t.ties }
  | .join side right lw rw cond =>
    let r := resolve right
    -- a left row matched by several right rows: their relative order is not specified by the left sort
    let fanout := t.rows.any fun a => ((r.rows.filter fun b => (cond.eval (a ++ b)).truth == some true).length ≥ 2 : Bool)
    { t with rows := joinRows side lw rw cond t.rows r.rows, ambig := t.ambig || r.ambig,
             sorted := t.sorted && side != .right && side != .full,
             ties := t.ties || fanout }
  | .append right =>
    let r := resolve right
    { rows := t.rows ++ r.rows, ambig := t.ambig || r.ambig }

/-- what a relation reference denotes: a base table of the instance, or an already evaluated `let` -/
def resolveSrc (db : Db) (lets : List Table) : Src → Table
  | .base i => { rows := db.getD i [] }
  | .ref i => lets.getD i default

def evalPipe (db : Db) (lets : List Table) (p : Pipe) : Table :=
  p.trs.foldl (step (resolveSrc db lets)) (resolveSrc db lets p.src)

/-- `let`s are evaluated in order; each sees the earlier ones -/
def evalLets (db : Db) (ls : List Pipe) : List Table :=
  ls.foldl (fun acc l => acc ++ [evalPipe db acc l]) []

/-- the relation a program denotes on a database instance -/
def evalSrc (db : Db) (p : Prog) : Table :=
  evalPipe db (evalLets db p.lets) p.main

/-- relation references made by a transform -/
def Tr.srcs : Tr → List Src
  | .join _ right _ _ _ => [right]
  | .append right => [right]
  | _ => []

end Model.Rel
