/-
Mirror of `preprocess::reorder` (sql/pq/preprocess.rs): every Compute is moved towards the front of the pipeline over
the transforms directly in front of it, as long as they are Sorts (always) or Takes (only if the compute is plain:
`infer_complexity(compute) == Complexity::Plain`); it stops at the first other transform and never moves to position 0.

The function is generic in the transform type; `cls` says what a transform is for the purpose of this pass. It is
instantiated with the transforms of Model.Anchor (tie: every recorded call of `reorder` is replayed, tools/anchortrace.py)
and with rows-level transforms of the reference semantics (Lemmas/Reorder: the moves do not change the rows).
-/
import PrqlModel.Model.Anchor
namespace Model.Reorder

inductive Cls where
  | fixed                       -- From, Join, and everything reorder does not move over
  | compute (plain : Bool)
  | sort
  | take
  deriving DecidableEq, Repr

/-- `should_swap` for a compute with the given plainness and the transform in front of it -/
def movable (plain : Bool) : Cls → Bool
  | .sort => true
  | .take => plain
  | _ => false

/-- move `c` towards the front over the movable transforms at the end of `accRev` (the part already processed,
REVERSED: most recent first); the transform at position 0 of the pipeline is never passed -/
def bubbleRev {α} (cls : α → Cls) (plain : Bool) (c : α) : List α → List α
  | [] => [c]
  | [first] => [c, first]                                      -- position 0 stays
  | x :: rest => if movable plain (cls x) then x :: bubbleRev cls plain c rest else c :: x :: rest

/-- one iteration of the outer loop, on the reversed processed part -/
def stepRev {α} (cls : α → Cls) (accRev : List α) (t : α) : List α :=
  match cls t with
  | .compute plain => bubbleRev cls plain t accRev
  | _ => t :: accRev

/-- `reorder` -/
def reorder {α} (cls : α → Cls) (p : List α) : List α := (p.foldl (stepRev cls) []).reverse

/-- classification of the back end's transforms -/
def clsTr : Model.Anchor.Tr → Cls
  | .compute c => .compute (c.cx == .plain)
  | .sort _ => .sort
  | .take _ _ _ => .take
  | _ => .fixed

def reorderTr (p : List Model.Anchor.Tr) : List Model.Anchor.Tr := reorder clsTr p

end Model.Reorder
