/-
RQ (the relational query IR, prqlc/src/ir/rq/{mod,transform,expr}.rs) at the level of its
*identifier discipline*, decoded from the real serde JSON, and `wfRq`, the executable statement of

  C16  "Every emitted relational query is closed and consistently identified".

What is kept of an RQ document: every column id (definition or use), every table id, the transform
structure (incl. windows, partitions, sorts, ranges, join filters, loops), relation kinds and the
declared column lists.  What is dropped: literal values, operator semantics, spans, `def`.

`wfRq rq = .ok ()` iff
  (tids)   table ids of `tables` are pairwise distinct and every `TableRef.source` of a table's relation
           is the id of a table declared *earlier* in the list (the main relation may use all of them);
  (defs)   every column id is defined exactly once in the whole query – by a table-instance column
           (`From`/`Join`/`Append` table refs) or by a `Compute`;
  (scope)  in every pipeline, every cid used by a transform (expression, window frame, partition, sort,
           select, aggregate, take, join filter) is *visible* at that point: it was provided by the
           pipeline's `From`, by a `Join`, or by an earlier `Compute`, and has not been cut off by a
           later `Select`/`Aggregate` (visible ⊆ defined-before, so this is also "defined before use");
           a `Loop` body is checked in the scope of the enclosing pipeline and leaves that scope unchanged;
           relations that are not pipelines (s-string, built-in function) have nothing visible;
  (shape)  every pipeline starts with `From` (and has no other `From`), ends with `Select`, and the arity
           of that `Select` equals the relation's declared `columns`.
On failure a reason code says which clause failed first.
-/
import PrqlModel.Model.Json
namespace Model.Rq
open Model

abbrev CId := Nat
abbrev TId := Nat

open Lean in
/-- `cs! "abc"` = `['a', 'b', 'c']` (model strings are `List Char`) -/
macro "cs!" s:str : term => do
  let chars := s.getString.toList.map fun c => Syntax.mkCharLit c
  `([$(chars.toArray),*])

/-- `RelationColumn` -/
inductive RelCol where
  | single (name : Option (List Char))
  | wildcard
  deriving DecidableEq, Repr

/-- `TableRef`: an instance of a declared table; every column of the instance gets its own cid -/
structure TableRef where
  source : TId
  columns : List (RelCol × CId)
  name : Option (List Char) := none
  preferCte : Bool := true
  deriving DecidableEq, Repr

def TableRef.cids (t : TableRef) : List CId := t.columns.map (·.2)

/-- `ColumnSort<CId>` -/
structure ColSort where
  desc : Bool := false
  column : CId
  deriving DecidableEq, Repr

mutual
/-- `rq::ExprKind`; literal values are dropped, string items of s-strings are dropped
(only their expression items are kept, in order); a `Case` is the flat list c₁, v₁, c₂, v₂, … -/
inductive Expr where
  | columnRef (c : CId)
  | literal
  | param (name : List Char)
  | sstring (items : Exprs)
  | case (branches : Exprs)
  | operator (name : List Char) (args : Exprs)
  | array (items : Exprs)
inductive Exprs where
  | nil
  | cons (e : Expr) (es : Exprs)
end

deriving instance DecidableEq, Repr for Expr, Exprs

def Exprs.ofList : List Expr → Exprs
  | [] => .nil
  | e :: es => .cons e (Exprs.ofList es)

mutual
/-- all column ids an expression mentions -/
def Expr.cids : Expr → List CId
  | .columnRef c => [c]
  | .literal => []
  | .param _ => []
  | .sstring xs => xs.cids
  | .case xs => xs.cids
  | .operator _ xs => xs.cids
  | .array xs => xs.cids
def Exprs.cids : Exprs → List CId
  | .nil => []
  | .cons e es => e.cids ++ es.cids
end

def optCids : Option Expr → List CId
  | none => []
  | some e => e.cids

/-- `rq::Window` (frame kind, frame range, partition, sort) -/
structure Window where
  rows : Bool := true
  frameStart : Option Expr := none
  frameEnd : Option Expr := none
  partition : List CId := []
  sort : List ColSort := []
  deriving DecidableEq, Repr

def Window.uses (w : Window) : List CId :=
  optCids w.frameStart ++ optCids w.frameEnd ++ w.partition ++ w.sort.map (·.column)

/-- `rq::Compute` -/
structure Compute where
  id : CId
  expr : Expr
  window : Option Window := none
  isAggregation : Bool := false
  deriving DecidableEq, Repr

def Compute.uses (c : Compute) : List CId :=
  c.expr.cids ++ (match c.window with | none => [] | some w => w.uses)

/-- `rq::Take` -/
structure Take where
  rangeStart : Option Expr := none
  rangeEnd : Option Expr := none
  partition : List CId := []
  sort : List ColSort := []
  deriving DecidableEq, Repr

def Take.uses (t : Take) : List CId :=
  optCids t.rangeStart ++ optCids t.rangeEnd ++ t.partition ++ t.sort.map (·.column)

inductive JoinSide where
  | inner | left | right | full
  deriving DecidableEq, Repr

/-- `rq::Transform` -/
inductive Transform where
  | from_ (t : TableRef)
  | compute (c : Compute)
  | select (cs : List CId)
  | filter (e : Expr)
  | aggregate (partition : List CId) (compute : List CId)
  | sort (s : List ColSort)
  | take (t : Take)
  | join (side : JoinSide) (w : TableRef) (filter : Expr)
  | append (t : TableRef)
  | loop (body : List Transform)
  deriving Repr

/-- `rq::RelationKind`; of a literal only the column names and the row lengths are kept -/
inductive RelKind where
  | externRef (path : List (List Char))
  | pipeline (ts : List Transform)
  | literal (columns : List (List Char)) (rowLens : List Nat)
  | sstring (items : Exprs)
  | builtin (name : List Char) (args : Exprs)
  deriving Repr

structure Relation where
  kind : RelKind
  columns : List RelCol
  deriving Repr

structure TableDecl where
  id : TId
  name : Option (List Char) := none
  relation : Relation
  deriving Repr

structure RelationalQuery where
  tables : List TableDecl
  relation : Relation
  deriving Repr

/-! ## what a query defines, uses and references -/

mutual
/-- column ids *defined* by a transform (instance columns, computes), loops included -/
def Transform.defs : Transform → List CId
  | .from_ t => t.cids
  | .compute c => [c.id]
  | .join _ w _ => w.cids
  | .append t => t.cids
  | .loop body => defsL body
  | _ => []
def defsL : List Transform → List CId
  | [] => []
  | t :: ts => t.defs ++ defsL ts
end

mutual
/-- table ids *referenced* by a transform -/
def Transform.tids : Transform → List TId
  | .from_ t => [t.source]
  | .join _ w _ => [w.source]
  | .append t => [t.source]
  | .loop body => tidsL body
  | _ => []
def tidsL : List Transform → List TId
  | [] => []
  | t :: ts => t.tids ++ tidsL ts
end

mutual
/-- column ids *used* (not defined) by a transform -/
def Transform.uses : Transform → List CId
  | .from_ _ => []
  | .compute c => c.uses
  | .select cs => cs
  | .filter e => e.cids
  | .aggregate p c => p ++ c
  | .sort s => s.map (·.column)
  | .take t => t.uses
  | .join _ _ f => f.cids
  | .append _ => []
  | .loop body => usesL body
def usesL : List Transform → List CId
  | [] => []
  | t :: ts => t.uses ++ usesL ts
end

def RelKind.defs : RelKind → List CId
  | .pipeline ts => defsL ts
  | _ => []
def RelKind.tids : RelKind → List TId
  | .pipeline ts => tidsL ts
  | _ => []
def RelKind.uses : RelKind → List CId
  | .pipeline ts => usesL ts
  | .sstring xs => xs.cids
  | .builtin _ xs => xs.cids
  | _ => []

/-- the relations of a query in document order: tables first, the main relation last -/
def RelationalQuery.relations (rq : RelationalQuery) : List Relation :=
  rq.tables.map (·.relation) ++ [rq.relation]

/-- every definition of a column id in the query, in document order -/
def RelationalQuery.defs (rq : RelationalQuery) : List CId :=
  (rq.relations.map (·.kind.defs)).flatten

/-- every use of a column id in the query -/
def RelationalQuery.uses (rq : RelationalQuery) : List CId :=
  (rq.relations.map (·.kind.uses)).flatten

/-! ## the predicate -/

inductive WfErr where
  | duplicateTid (t : TId)
  | undeclaredTid (t : TId)
  | duplicateCid (c : CId)
  | notVisible (c : CId)
  | emptyPipeline
  | missingFrom
  | misplacedFrom
  | missingSelect
  | selectArity (selected declared : Nat)
  deriving DecidableEq, Repr

abbrev Chk := Except WfErr

/-- first element that occurs again later -/
def firstDup : List Nat → Option Nat
  | [] => none
  | x :: xs => if x ∈ xs then some x else firstDup xs

/-- first element of `cs` that is not in `vis` -/
def firstMissing (vis cs : List Nat) : Option Nat := cs.find? (fun c => !vis.contains c)

def need (vis cs : List CId) : Chk Unit :=
  match firstMissing vis cs with
  | some c => .error (.notVisible c)
  | none => .ok ()

def needTids (declared ts : List TId) : Chk Unit :=
  match firstMissing declared ts with
  | some t => .error (.undeclaredTid t)
  | none => .ok ()

mutual
/-- one transform in the scope `vis`: are its uses visible, and what is visible afterwards -/
def scopeStep (vis : List CId) : Transform → Chk (List CId)
  | .from_ _ => .error .misplacedFrom
  | .compute c => match need vis c.uses with
    | .error e => .error e
    | .ok _ => .ok (vis ++ [c.id])
  | .select cs => match need vis cs with
    | .error e => .error e
    | .ok _ => .ok cs
  | .filter e => match need vis e.cids with
    | .error e => .error e
    | .ok _ => .ok vis
  | .aggregate p c => match need vis (p ++ c) with
    | .error e => .error e
    | .ok _ => .ok (p ++ c)
  | .sort s => match need vis (s.map (·.column)) with
    | .error e => .error e
    | .ok _ => .ok vis
  | .take t => match need vis t.uses with
    | .error e => .error e
    | .ok _ => .ok vis
  | .join _ w f => match need (vis ++ w.cids) f.cids with
    | .error e => .error e
    | .ok _ => .ok (vis ++ w.cids)
  | .append _ => .ok vis
  | .loop body => match scopeL vis body with
    | .error e => .error e
    | .ok _ => .ok vis
/-- a sequence of transforms -/
def scopeL (vis : List CId) : List Transform → Chk (List CId)
  | [] => .ok vis
  | t :: ts => match scopeStep vis t with
    | .error e => .error e
    | .ok v => scopeL v ts
end

/-- the last transform must be a `Select` of the declared arity -/
def checkLast (arity : Nat) : List Transform → Chk Unit
  | [] => .error .missingSelect
  | [.select cs] => if cs.length = arity then .ok () else .error (.selectArity cs.length arity)
  | [_] => .error .missingSelect
  | _ :: t :: ts => checkLast arity (t :: ts)

/-- (scope) + (shape) of one pipeline -/
def checkPipeline (arity : Nat) : List Transform → Chk Unit
  | [] => .error .emptyPipeline
  | .from_ t :: rest =>
    match scopeL t.cids rest with
    | .error e => .error e
    | .ok _ => checkLast arity rest
  | _ :: _ => .error .missingFrom

/-- (scope) + (shape) of one relation -/
def checkRelation (r : Relation) : Chk Unit :=
  match r.kind with
  | .pipeline ts => checkPipeline r.columns.length ts
  | .sstring xs => need [] xs.cids
  | .builtin _ xs => need [] xs.cids
  | .externRef _ => .ok ()
  | .literal _ _ => .ok ()

def checkRelations : List Relation → Chk Unit
  | [] => .ok ()
  | r :: rs => match checkRelation r with
    | .error e => .error e
    | .ok _ => checkRelations rs

/-- (tids) over the table list: declaration before use, no id declared twice; returns the ids declared -/
def checkTables (declared : List TId) : List TableDecl → Chk (List TId)
  | [] => .ok declared
  | t :: ts =>
    match needTids declared t.relation.kind.tids with
    | .error e => .error e
    | .ok _ =>
      if declared.contains t.id then .error (.duplicateTid t.id)
      else checkTables (t.id :: declared) ts

/-- (tids): the tables, then the main relation (which may use all of them) -/
def checkTids (rq : RelationalQuery) : Chk Unit :=
  match checkTables [] rq.tables with
  | .error e => .error e
  | .ok d => needTids d rq.relation.kind.tids

/-- (defs): every cid defined exactly once in the whole query -/
def checkDefs (rq : RelationalQuery) : Chk Unit :=
  match firstDup rq.defs with
  | some c => .error (.duplicateCid c)
  | none => .ok ()

/-- C16 as an executable predicate -/
def wfRq (rq : RelationalQuery) : Chk Unit :=
  match checkTids rq with
  | .error e => .error e
  | .ok _ =>
    match checkDefs rq with
    | .error e => .error e
    | .ok _ => checkRelations rq.relations


/-! ## the relaxed predicate (the property minus the two listed findings)

`wfRqLax` differs from `wfRq` in one point: the `sort` field of a `Take` and the `sort` of a window
only have to name columns *defined earlier in the same pipeline* (`seen`), not columns that are
still visible.  The real compiler carries a `sort` past `select`/`aggregate` (Flattener.sort in
semantic/resolver/flatten.rs is cleared by `group` only), so RQs with such stale sort columns are
emitted (known findings stale-sort-after-select / stale-sort-after-aggregate); everything else
the monitor sees has to satisfy the full predicate, and *every* RQ has to satisfy the relaxed one. -/

def Window.usesNoSort (w : Window) : List CId := optCids w.frameStart ++ optCids w.frameEnd ++ w.partition
def Compute.usesNoSort (c : Compute) : List CId :=
  c.expr.cids ++ (match c.window with | none => [] | some w => w.usesNoSort)
def Compute.sortUses (c : Compute) : List CId :=
  match c.window with | none => [] | some w => w.sort.map (·.column)
def Take.usesNoSort (t : Take) : List CId := optCids t.rangeStart ++ optCids t.rangeEnd ++ t.partition

mutual
def laxStep (seen vis : List CId) : Transform → Chk (List CId × List CId)
  | .from_ _ => .error .misplacedFrom
  | .compute c => match need vis c.usesNoSort, need seen c.sortUses with
    | .error e, _ => .error e
    | _, .error e => .error e
    | .ok _, .ok _ => .ok (seen ++ [c.id], vis ++ [c.id])
  | .select cs => match need vis cs with
    | .error e => .error e
    | .ok _ => .ok (seen, cs)
  | .filter e => match need vis e.cids with
    | .error e => .error e
    | .ok _ => .ok (seen, vis)
  | .aggregate p c => match need vis (p ++ c) with
    | .error e => .error e
    | .ok _ => .ok (seen, p ++ c)
  | .sort s => match need vis (s.map (·.column)) with
    | .error e => .error e
    | .ok _ => .ok (seen, vis)
  | .take t => match need vis t.usesNoSort, need seen (t.sort.map (·.column)) with
    | .error e, _ => .error e
    | _, .error e => .error e
    | .ok _, .ok _ => .ok (seen, vis)
  | .join _ w f => match need (vis ++ w.cids) f.cids with
    | .error e => .error e
    | .ok _ => .ok (seen ++ w.cids, vis ++ w.cids)
  | .append _ => .ok (seen, vis)
  | .loop body => match laxL seen vis body with
    | .error e => .error e
    | .ok _ => .ok (seen, vis)
def laxL (seen vis : List CId) : List Transform → Chk (List CId × List CId)
  | [] => .ok (seen, vis)
  | t :: ts => match laxStep seen vis t with
    | .error e => .error e
    | .ok (s, v) => laxL s v ts
end

def laxPipeline (arity : Nat) : List Transform → Chk Unit
  | [] => .error .emptyPipeline
  | .from_ t :: rest =>
    match laxL t.cids t.cids rest with
    | .error e => .error e
    | .ok _ => checkLast arity rest
  | _ :: _ => .error .missingFrom

def laxRelation (r : Relation) : Chk Unit :=
  match r.kind with
  | .pipeline ts => laxPipeline r.columns.length ts
  | _ => checkRelation r

def laxRelations : List Relation → Chk Unit
  | [] => .ok ()
  | r :: rs => match laxRelation r with
    | .error e => .error e
    | .ok _ => laxRelations rs

def wfRqLax (rq : RelationalQuery) : Chk Unit :=
  match checkTids rq with
  | .error e => .error e
  | .ok _ =>
    match checkDefs rq with
    | .error e => .error e
    | .ok _ => laxRelations rq.relations

def WfErr.code : WfErr → String
  | .duplicateTid t => s!"duplicate-tid {t}"
  | .undeclaredTid t => s!"undeclared-tid {t}"
  | .duplicateCid c => s!"duplicate-cid {c}"
  | .notVisible c => s!"not-visible {c}"
  | .emptyPipeline => "empty-pipeline"
  | .missingFrom => "missing-from"
  | .misplacedFrom => "misplaced-from"
  | .missingSelect => "missing-select"
  | .selectArity s d => s!"select-arity {s} {d}"

/-! ## decoding the serde JSON of `RelationalQuery` -/

namespace Decode
open Model.Json

/-- externally tagged enum value `{"Tag": payload}` -/
def tagOf (j : Json) : Option (List Char × Json) :=
  match members j with
  | some [(k, v)] => some (k, v)
  | _ => none

def listOf {α : Type} (f : Json → Option α) (j : Json) : Option (List α) :=
  match items j with
  | some xs => xs.mapM f
  | none => none

/-- `Option<String>`: `null` or a string -/
def optStr (j : Json) : Option (Option (List Char)) :=
  if isNull j then some none else (asStr j).map some

def relCol (j : Json) : Option RelCol :=
  match j with
  | .str s => if s = cs! "Wildcard" then some .wildcard else none
  | _ =>
    match tagOf j with
    | some (k, v) => if k = cs! "Single" then (optStr v).map .single else none
    | none => none

def colCid (j : Json) : Option (RelCol × CId) :=
  match items j with
  | some [c, n] => match relCol c, asNat n with
    | some c, some n => some (c, n)
    | _, _ => none
  | _ => none

def tableRef (j : Json) : Option TableRef :=
  match get? (cs! "source") j, get? (cs! "columns") j, get? (cs! "name") j, get? (cs! "prefer_cte") j with
  | some s, some c, some n, some p =>
    match asNat s, listOf colCid c, optStr n, asBool p with
    | some s, some c, some n, some p => some { source := s, columns := c, name := n, preferCte := p }
    | _, _, _, _ => none
  | _, _, _, _ => none

def colSort (j : Json) : Option ColSort :=
  match get? (cs! "column") j, get? (cs! "direction") j with
  | some c, some (.str d) =>
    match asNat c with
    | some c =>
      if d = cs! "Asc" then some { desc := false, column := c }
      else if d = cs! "Desc" then some { desc := true, column := c } else none
    | none => none
  | _, _ => none

/-- expressions, by fuel (the nesting depth of the document bounds the recursion) -/
def expr : Nat → Json → Option Expr
  | 0, _ => none
  | f + 1, j =>
    let exprs (v : Json) : Option Exprs := (listOf (expr f) v).map Exprs.ofList
    let item (v : Json) : Option (List Expr) :=
      match tagOf v with
      | some (k, p) =>
        if k = cs! "String" then (asStr p).map fun _ => []
        else if k = cs! "Expr" then
          match get? (cs! "expr") p with
          | some e => (expr f e).map fun x => [x]
          | none => none
        else none
      | none => none
    let branch (v : Json) : Option (List Expr) :=
      match get? (cs! "condition") v, get? (cs! "value") v with
      | some c, some x => match expr f c, expr f x with
        | some c, some x => some [c, x]
        | _, _ => none
      | _, _ => none
    match get? (cs! "kind") j with
    | none => none
    | some k =>
      match tagOf k with
      | none => none
      | some (t, v) =>
        if t = cs! "ColumnRef" then (asNat v).map .columnRef
        else if t = cs! "Literal" then some .literal
        else if t = cs! "Param" then (asStr v).map .param
        else if t = cs! "SString" then (listOf item v).map fun xs => .sstring (Exprs.ofList xs.flatten)
        else if t = cs! "Case" then (listOf branch v).map fun xs => .case (Exprs.ofList xs.flatten)
        else if t = cs! "Operator" then
          match get? (cs! "name") v, get? (cs! "args") v with
          | some n, some a => match asStr n, exprs a with
            | some n, some a => some (.operator n a)
            | _, _ => none
          | _, _ => none
        else if t = cs! "Array" then (exprs v).map .array
        else none

/-- fuel for a document -/
def fuelOf (j : Json) : Nat := Json.depth j + 1

def exprTop (j : Json) : Option Expr := expr (fuelOf j) j

def optExpr (j : Json) : Option (Option Expr) :=
  if isNull j then some none else (exprTop j).map some

/-- `Range<Expr>` -/
def range (j : Json) : Option (Option Expr × Option Expr) :=
  match get? (cs! "start") j, get? (cs! "end") j with
  | some s, some e => match optExpr s, optExpr e with
    | some s, some e => some (s, e)
    | _, _ => none
  | _, _ => none

def cidList (j : Json) : Option (List CId) := listOf asNat j

def window (j : Json) : Option Window :=
  match get? (cs! "frame") j, get? (cs! "partition") j, get? (cs! "sort") j with
  | some fr, some p, some s =>
    match get? (cs! "kind") fr, get? (cs! "range") fr with
    | some (.str k), some r =>
      match range r, cidList p, listOf colSort s with
      | some (a, b), some p, some s =>
        if k = cs! "Rows" then some { rows := true, frameStart := a, frameEnd := b, partition := p, sort := s }
        else if k = cs! "Range" then some { rows := false, frameStart := a, frameEnd := b, partition := p, sort := s }
        else none
      | _, _, _ => none
    | _, _ => none
  | _, _, _ => none

def compute (j : Json) : Option Compute :=
  match get? (cs! "id") j, get? (cs! "expr") j with
  | some i, some e =>
    match asNat i, exprTop e with
    | some i, some e =>
      let w : Option (Option Window) := match get? (cs! "window") j with
        | none => some none
        | some wj => if isNull wj then some none else (window wj).map some
      let a : Option Bool := match get? (cs! "is_aggregation") j with
        | none => some false
        | some b => asBool b
      match w, a with
      | some w, some a => some { id := i, expr := e, window := w, isAggregation := a }
      | _, _ => none
    | _, _ => none
  | _, _ => none

def take (j : Json) : Option Take :=
  match get? (cs! "range") j, get? (cs! "partition") j, get? (cs! "sort") j with
  | some r, some p, some s =>
    match range r, cidList p, listOf colSort s with
    | some (a, b), some p, some s => some { rangeStart := a, rangeEnd := b, partition := p, sort := s }
    | _, _, _ => none
  | _, _, _ => none

def joinSide (j : Json) : Option JoinSide :=
  match j with
  | .str s =>
    if s = cs! "Inner" then some .inner else if s = cs! "Left" then some .left
    else if s = cs! "Right" then some .right else if s = cs! "Full" then some .full else none
  | _ => none

def transform : Nat → Json → Option Transform
  | 0, _ => none
  | f + 1, j =>
    match tagOf j with
    | none => none
    | some (t, v) =>
      if t = cs! "From" then (tableRef v).map .from_
      else if t = cs! "Compute" then (compute v).map .compute
      else if t = cs! "Select" then (cidList v).map .select
      else if t = cs! "Filter" then (exprTop v).map .filter
      else if t = cs! "Aggregate" then
        match get? (cs! "partition") v, get? (cs! "compute") v with
        | some p, some c => match cidList p, cidList c with
          | some p, some c => some (.aggregate p c)
          | _, _ => none
        | _, _ => none
      else if t = cs! "Sort" then (listOf colSort v).map .sort
      else if t = cs! "Take" then (take v).map .take
      else if t = cs! "Join" then
        match get? (cs! "side") v, get? (cs! "with") v, get? (cs! "filter") v with
        | some s, some w, some e => match joinSide s, tableRef w, exprTop e with
          | some s, some w, some e => some (.join s w e)
          | _, _, _ => none
        | _, _, _ => none
      else if t = cs! "Append" then (tableRef v).map .append
      else if t = cs! "Loop" then (listOf (transform f) v).map .loop
      else none

def sstringItems (v : Json) : Option Exprs :=
  let item (v : Json) : Option (List Expr) :=
    match tagOf v with
    | some (k, p) =>
      if k = cs! "String" then (asStr p).map fun _ => []
      else if k = cs! "Expr" then
        match get? (cs! "expr") p with
        | some e => (exprTop e).map fun x => [x]
        | none => none
      else none
    | none => none
  (listOf item v).map fun xs => Exprs.ofList xs.flatten

def relKind (j : Json) : Option RelKind :=
  match tagOf j with
  | none => none
  | some (t, v) =>
    if t = cs! "ExternRef" then
      match tagOf v with
      | some (k, p) => if k = cs! "LocalTable" then (listOf asStr p).map .externRef else none
      | none => none
    else if t = cs! "Pipeline" then (listOf (transform (fuelOf v)) v).map .pipeline
    else if t = cs! "Literal" then
      match get? (cs! "columns") v, get? (cs! "rows") v with
      | some c, some r =>
        match listOf asStr c, listOf (fun row => (items row).map List.length) r with
        | some c, some r => some (.literal c r)
        | _, _ => none
      | _, _ => none
    else if t = cs! "SString" then (sstringItems v).map .sstring
    else if t = cs! "BuiltInFunction" then
      match get? (cs! "name") v, get? (cs! "args") v with
      | some n, some a => match asStr n, listOf exprTop a with
        | some n, some a => some (.builtin n (Exprs.ofList a))
        | _, _ => none
      | _, _ => none
    else none

def relation (j : Json) : Option Relation :=
  match get? (cs! "kind") j, get? (cs! "columns") j with
  | some k, some c => match relKind k, listOf relCol c with
    | some k, some c => some { kind := k, columns := c }
    | _, _ => none
  | _, _ => none

def tableDecl (j : Json) : Option TableDecl :=
  match get? (cs! "id") j, get? (cs! "name") j, get? (cs! "relation") j with
  | some i, some n, some r => match asNat i, optStr n, relation r with
    | some i, some n, some r => some { id := i, name := n, relation := r }
    | _, _, _ => none
  | _, _, _ => none

end Decode

/-- decode the JSON serialisation of `prqlc::ir::rq::RelationalQuery` -/
def ofJson (j : Json) : Option RelationalQuery :=
  match Json.get? (cs! "tables") j, Json.get? (cs! "relation") j with
  | some t, some r => match Decode.listOf Decode.tableDecl t, Decode.relation r with
    | some t, some r => some { tables := t, relation := r }
    | _, _ => none
  | _, _ => none

end Model.Rq
