/-
What the SQL back end assumes about an RQ when it loads it (prqlc/src/sql/pq/context.rs):

  AnchorContext::of        IdGenerator::load (next ids above every id in the query), then QueryLoader::load
  QueryLoader::load        for every table: fold it (register_compute for every Compute, loops included), then
                           table_decls.insert(decl.id, ..); then the main relation
  create_relation_instance for every TableRef the back end turns into a SqlTransform From/Join (and Append's bottom):
                           column_decls.insert(cid, RelationColumn(riid, cid, col)) for every instance column
  column_decls[&cid]       (ensure_column_name, contains_wildcard, anchor.rs, gen_expr.rs): indexing panics on a missing key
  lookup_table_decl(tid)   `table_decls.get(tid)?`, callers unwrap
  load_names               assert_eq!(determine_select_columns(pipeline).len(), output_cols.len())

The model registers the instance columns at the place of the table ref (the real code does it when it reaches the
transform; the set of keys is the same).  HashMaps are association lists in insertion order.
-/
import PrqlModel.Model.Rq
namespace Model.Rq.Backend
open Model.Rq

inductive ColumnDecl where
  | relationColumn (riid : Nat) (col : RelCol)
  | compute (c : Compute)
  deriving Repr

structure Ctx where
  columnDecls : List (CId × ColumnDecl) := []
  tableDecls : List TId := []
  nextRiid : Nat := 0
  deriving Repr

/-- `register_compute` -/
def Ctx.registerCompute (cx : Ctx) (c : Compute) : Ctx :=
  { cx with columnDecls := cx.columnDecls ++ [(c.id, .compute c)] }

/-- `create_relation_instance` -/
def Ctx.createInstance (cx : Ctx) (t : TableRef) : Ctx :=
  { cx with nextRiid := cx.nextRiid + 1,
            columnDecls := cx.columnDecls ++ t.columns.map fun kc => (kc.2, .relationColumn cx.nextRiid kc.1) }

mutual
def loadTransform (cx : Ctx) : Transform → Ctx
  | .from_ t => cx.createInstance t
  | .compute c => cx.registerCompute c
  | .join _ w _ => cx.createInstance w
  | .append t => cx.createInstance t
  | .loop body => loadTransforms cx body
  | _ => cx
def loadTransforms (cx : Ctx) : List Transform → Ctx
  | [] => cx
  | t :: ts => loadTransforms (loadTransform cx t) ts
end

def loadRelation (cx : Ctx) (r : Relation) : Ctx :=
  match r.kind with
  | .pipeline ts => loadTransforms cx ts
  | _ => cx

/-- `load_table` -/
def loadTable (cx : Ctx) (t : TableDecl) : Ctx :=
  let cx1 := loadRelation cx t.relation
  { cx1 with tableDecls := cx1.tableDecls ++ [t.id] }

/-- `QueryLoader::load` (plus the relation instances) -/
def load (rq : RelationalQuery) : Ctx := loadRelation (rq.tables.foldl loadTable {}) rq.relation

/-- `column_decls[&cid]` (none = the index expression panics) -/
def lookupColumn (cx : Ctx) (c : CId) : Option ColumnDecl :=
  (cx.columnDecls.find? (fun e => e.1 == c)).map (·.2)

/-- `determine_select_columns`, on the reversed pipeline (last transform first) -/
def dscRev : List Transform → List CId
  | [] => []
  | .from_ t :: _ => t.cids
  | .join _ w _ :: rest => dscRev rest ++ w.cids
  | .select cs :: _ => cs
  | .aggregate p c :: _ => p ++ c
  | _ :: rest => dscRev rest

def determineSelectColumns (ts : List Transform) : List CId := dscRev ts.reverse

/-- every table id a query references -/
def allTids (rq : RelationalQuery) : List TId := (rq.relations.map (·.kind.tids)).flatten

/-- `IdGenerator::load`: one above the largest id seen (`skip` = max) -/
def nextAbove (ids : List Nat) : Nat := ids.foldl (fun n i => max n (i + 1)) 0

end Model.Rq.Backend
