/-
Name resolution of column references against frames (C10).

Mirrors
  semantic/module.rs     Module::lookup: the *set* of declarations an identifier can denote - the root module itself plus the
                         redirects [this, that, _param, std] (regenerated: Gen.rootRedirects); inside `this`, the columns of the
                         frame are filed under the name of their input relation (one sub-namespace per input, reachable through
                         the redirects of `this`) or directly (computed / aliased columns); an input that still has a wildcard
                         column carries `_infer`
  resolver/names.rs      resolve_ident_core: exactly one match -> that one; several -> "Ambiguous name"; none -> fall back to
                         `_infer` (again: one / several / none -> inferred column / ambiguous / "Unknown name")
  resolver/transforms.rs infer_lineage + Lineage::apply_assign: the frame after select / derive / aggregate / group / join /
                         append / from (clear, push, "remove names from columns with the same name")
  resolver/functions.rs  resolve_function_args: the fields of a tuple argument are resolved left to right and every *aliased*
                         field is put into scope (directly in `this`) before the next one is resolved

A frame is a list of columns: `single name input` (a named or unnamed column, filed under an input relation or not) and
`all input` ("and other, unknown columns of this input": only such an input allows inference).  A frame without `all` is
*fully known* - that is where the property speaks.

Not modelled: module paths of more than one qualifier (`db.schema.t.c`), `this.`/`that.` qualifiers written by the user (the
join condition `==c` is modelled: one reference resolved in the left frame only, one in the right frame only), `select !{..}`,
types.  Expressions are represented by the list of column references they contain.
-/
import PrqlModel.Gen.StdNames
import PrqlModel.Model.Fn
namespace Model.Scope

abbrev Name := List Char

/-- a column reference as written: `name` or `qual.name` -/
structure Ref where
  qual : Option Name := none
  name : Name
  deriving DecidableEq, Repr

inductive Col where
  | single (name : Option Name) (input : Option Name)
  | all (input : Name)
  | thatSingle (name : Option Name) (input : Option Name)   -- only in the scope of a join condition: a column of `that`
  deriving DecidableEq, Repr

abbrev Frame := List Col

/-- what an identifier can denote -/
inductive Cand where
  | column (input : Option Name) (name : Name)
  | thatColumn (input : Option Name) (name : Name)          -- the same name filed under `that` is another declaration
  | global (name : Name)
  | inferred (input : Name) (name : Name)
  deriving DecidableEq, Repr

inductive ScopeErr where
  | unknown (r : Ref)
  | ambiguous (r : Ref)
  | notRelation
  deriving DecidableEq, Repr

/-- names a bare identifier hits outside the frame: declarations of the root module and the top level of `std` -/
structure Env where
  globals : List Name := []
  deriving Repr

def Env.std : Env := { globals := Gen.stdTopLevel }

def Col.cand? (r : Ref) : Col → Option Cand
  | .single (some n) inp =>
    if n = r.name then
      match r.qual with
      | none => some (.column inp n)
      | some q => if inp = some q then some (.column inp n) else none
    else none
  | .thatSingle (some n) inp =>
    if n = r.name then
      match r.qual with
      | none => some (.thatColumn inp n)
      | some q => if inp = some q then some (.thatColumn inp n) else none
    else none
  | _ => none

def Col.open? (r : Ref) : Col → Option Name
  | .all i =>
    match r.qual with
    | none => some i
    | some q => if q = i then some i else none
  | _ => none

/-- remove duplicates (first occurrences are kept) -/
def dedup {α : Type} [DecidableEq α] : List α → List α
  | [] => []
  | x :: xs => x :: (dedup xs).filter (fun y => y ≠ x)

def globalCands (env : Env) (r : Ref) : List Cand :=
  match r.qual with
  | none => if env.globals.contains r.name then [.global r.name] else []
  | some _ => []

/-- `Module::lookup`: the set of matches (duplicates removed: a module holds one declaration per name) -/
def lookup (env : Env) (fr : Frame) (r : Ref) : List Cand :=
  dedup (globalCands env r ++ fr.filterMap (Col.cand? r))

/-- the inputs whose `_infer` the fallback finds -/
def openInputs (fr : Frame) (r : Ref) : List Name := dedup (fr.filterMap (Col.open? r))

/-- `resolve_ident_core` -/
def resolve (env : Env) (fr : Frame) (r : Ref) : Except ScopeErr Cand :=
  match lookup env fr r with
  | [c] => .ok c
  | _ :: _ :: _ => .error (.ambiguous r)
  | [] =>
    match openInputs fr r with
    | [i] => .ok (.inferred i r.name)
    | _ :: _ :: _ => .error (.ambiguous r)
    | [] => .error (.unknown r)

/-- a frame is fully known when no input has a wildcard left -/
def Frame.closed (fr : Frame) : Bool := fr.all fun c => match c with | .all _ => false | _ => true

/-! ## frames after the core transforms -/

/-- an element of a tuple argument: optional alias, the references in the expression, and whether the expression is
just one reference (then the column keeps the name and the input of what it refers to) -/
structure Item where
  alias : Option Name := none
  refs : List Ref := []
  plain : Bool := false
  deriving DecidableEq, Repr

def Item.aliasCol (it : Item) : List Col :=
  match it.alias with
  | some a => [.single (some a) none]
  | none => []

/-- `Lineage::apply_assign`, base case: "remove names from columns with the same name", then push -/
def pushCol (fr : Frame) (c : Col) : Frame :=
  match c with
  | .single (some n) _ =>
    fr.map (fun d => match d with
      | .single (some m) inp => if m = n then .single none inp else d
      | d => d) ++ [c]
  | _ => fr ++ [c]

/-- the column an item becomes, `scope` being what the item was resolved in -/
def itemCol (env : Env) (scope : Frame) (it : Item) : Col :=
  match it.alias with
  | some a => .single (some a) none
  | none =>
    if it.plain then
      match it.refs with
      | [r] =>
        match resolve env scope r with
        | .ok (.column inp n) => .single (some n) inp
        | .ok (.thatColumn inp n) => .single (some n) inp
        | .ok (.inferred i n) => .single (some n) (some i)
        | _ => .single none none
      | _ => .single none none
    else .single none none

/-- tuple fields left to right: `acc` = the aliased fields already in scope; `out` = the frame being built -/
def applyItems (env : Env) (fr : Frame) : List Item → Frame → Frame → Frame
  | [], _, out => out
  | it :: rest, acc, out => applyItems env fr rest (acc ++ it.aliasCol) (pushCol out (itemCol env (fr ++ acc) it))

/-- the references of a tuple argument, each with the scope it is resolved in -/
def itemSites (fr : Frame) : List Item → Frame → List (Frame × Ref)
  | [], _ => []
  | it :: rest, acc => it.refs.map (fun r => (fr ++ acc, r)) ++ itemSites fr rest (acc ++ it.aliasCol)

/-- the columns the keys of a `group` denote are not visible inside the group's pipeline -/
def dropKeys (env : Env) (fr : Frame) (keys : List Item) : Frame :=
  let ks := keys.filterMap fun it =>
    match it.alias, it.plain, it.refs with
    | none, true, [r] => (match resolve env fr r with | .ok c => some c | .error _ => none)
    | _, _, _ => none
  fr.filter fun c => match c with
    | .single (some n) inp => !(ks.contains (.column inp n))
    | _ => true

inductive Source where
  | table (name : Name) (cols : Option (List Name))     -- `none`: not declared, all columns unknown
  | letRef (name : Name) (idx : Nat)                    -- a `let` relation, referred to by name
  | inline (idx : Nat)                                  -- a pipeline written in place (its inputs keep their names)
  | scalar                                              -- a scalar where a relation is required
  deriving DecidableEq, Repr

/-- the right-hand frame as it is seen from a join condition: under `that` -/
def asThat (fr : Frame) : Frame :=
  fr.map fun c => match c with
    | .single n i => .thatSingle n i
    | c => c

/-- `Lineage::rename` -/
def renameInputs (n : Name) (fr : Frame) : Frame :=
  fr.map fun c => match c with
    | .single nm _ => .single nm (some n)
    | .all _ => .all n
    | c => c

def Source.frame (done : List Frame) : Source → Option Frame
  | .table n (some cols) => some (cols.map fun c => .single (some c) (some n))
  | .table n none => some [.all n]
  | .letRef n i => (done[i]?).map (renameInputs n)
  | .inline i => done[i]?
  | .scalar => none

inductive Step where
  | select (items : List Item)
  | derive (items : List Item)
  | filter (refs : List Ref)
  | sort (items : List Item)
  | take
  | aggregate (items : List Item)
  | groupAgg (keys : List Item) (items : List Item)
  | groupWin (keys : List Item) (sort : List Item)
  | join (right : Source) (alias : Option Name) (both left rght : List Ref)
  | append (bottom : Source)
  deriving DecidableEq, Repr

def srcFrame (done : List Frame) (s : Source) (alias : Option Name) : Frame :=
  match s.frame done, alias with
  | some f, some a => renameInputs a f
  | some f, none => f
  | none, _ => []

/-- `append`: the top's names; an unnamed top column takes the bottom's name -/
def appendFrames : Frame → Frame → Frame
  | .single none inp :: ts, .single (some n) _ :: bs => .single (some n) inp :: appendFrames ts bs
  | t :: ts, _ :: bs => t :: appendFrames ts bs
  | ts, [] => ts
  | [], _ => []

/-- `infer_lineage` -/
def stepFrame (env : Env) (done : List Frame) (fr : Frame) : Step → Frame
  | .select items => applyItems env fr items [] []
  | .derive items => applyItems env fr items [] fr
  | .filter _ => fr
  | .sort _ => fr
  | .take => fr
  | .aggregate items => applyItems env fr items [] []
  | .groupAgg keys items =>
    let inner := dropKeys env fr keys
    applyItems env fr keys [] [] ++ applyItems env inner items [] []
  | .groupWin keys _ =>
    applyItems env fr keys [] [] ++ dropKeys env fr keys
  | .join right alias _ _ _ => fr ++ srcFrame done right alias
  | .append bottom => appendFrames fr (srcFrame done bottom none)

/-- the sources a step needs to be relations -/
def stepSources : Step → List Source
  | .join right _ _ _ _ => [right]
  | .append bottom => [bottom]
  | _ => []

/-- every reference of a step, with the scope it is resolved in -/
def stepSites (env : Env) (done : List Frame) (fr : Frame) : Step → List (Frame × Ref)
  | .select items => itemSites fr items []
  | .derive items => itemSites fr items []
  | .filter refs => refs.map fun r => (fr, r)
  | .sort items => itemSites fr items []
  | .take => []
  | .aggregate items => itemSites fr items []
  | .groupAgg keys items => itemSites fr keys [] ++ itemSites (dropKeys env fr keys) items []
  | .groupWin keys srt => itemSites fr keys [] ++ itemSites (dropKeys env fr keys) srt []
  | .join right alias both left rght =>
    let rf := srcFrame done right alias
    both.map (fun r => (fr ++ asThat rf, r)) ++ left.map (fun r => (fr, r)) ++ rght.map (fun r => (rf, r))
  | .append _ => []

structure Pipeline where
  src : Source
  alias : Option Name := none
  steps : List Step := []
  deriving DecidableEq, Repr

def stepsSites (env : Env) (done : List Frame) : Frame → List Step → List (Frame × Ref)
  | _, [] => []
  | fr, s :: rest => stepSites env done fr s ++ stepsSites env done (stepFrame env done fr s) rest

def stepsFrame (env : Env) (done : List Frame) : Frame → List Step → Frame
  | fr, [] => fr
  | fr, s :: rest => stepsFrame env done (stepFrame env done fr s) rest

def Pipeline.sources (p : Pipeline) : List Source := p.src :: (p.steps.map stepSources).flatten
def Pipeline.sites (env : Env) (done : List Frame) (p : Pipeline) : List (Frame × Ref) :=
  stepsSites env done (srcFrame done p.src p.alias) p.steps
def Pipeline.frame (env : Env) (done : List Frame) (p : Pipeline) : Frame :=
  stepsFrame env done (srcFrame done p.src p.alias) p.steps

structure Program where
  env : Env := {}
  lets : List Pipeline := []
  main : Pipeline
  deriving Repr

/-- frames of the `let` pipelines, in order -/
def letFrames (env : Env) : List Pipeline → List Frame → List Frame
  | [], done => done
  | p :: rest, done => letFrames env rest (done ++ [p.frame env done])

def letSites (env : Env) : List Pipeline → List Frame → List (Frame × Ref)
  | [], _ => []
  | p :: rest, done => p.sites env done ++ letSites env rest (done ++ [p.frame env done])

/-- every column reference of a program with the scope it is resolved in -/
def Program.sites (p : Program) : List (Frame × Ref) :=
  letSites p.env p.lets [] ++ p.main.sites p.env (letFrames p.env p.lets [])

/-- every relation-typed argument of a program (from / join / append), with the `let` frames known at that point -/
def Program.sources (p : Program) : List (List Frame × Source) :=
  let rec go : List Pipeline → List Frame → List (List Frame × Source)
    | [], _ => []
    | q :: rest, done => q.sources.map (fun s => (done, s)) ++ go rest (done ++ [q.frame p.env done])
  go p.lets [] ++ p.main.sources.map fun s => (letFrames p.env p.lets [], s)

def siteOk (env : Env) (s : Frame × Ref) : Bool :=
  match resolve env s.1 s.2 with
  | .ok _ => true
  | .error _ => false

def sourceOk (s : List Frame × Source) : Bool := (s.2.frame s.1).isSome

/-- the model's verdict -/
def accept (p : Program) : Bool := p.sources.all sourceOk && p.sites.all (siteOk p.env)

/-- the first error, in the order the resolver meets them (sources of a pipeline are reported as `notRelation`) -/
def firstError (p : Program) : Option ScopeErr :=
  if p.sources.all sourceOk then
    p.sites.findSome? fun s => match resolve p.env s.1 s.2 with
      | .ok _ => none
      | .error e => some e
  else some .notRelation

end Model.Scope
