/-
Mirror of the clause assembly of `translate_select_pipeline` (sql/gen_query.rs): one atomic pipeline becomes one SELECT.
The function "plucks" the transforms by kind, wherever they stand:

  projection  : the (exactly one) Select
  ORDER BY    : the LAST Sort
  LIMIT/OFFSET: all Takes, folded by `range_of_ranges` (mirror Model.Take)
  DISTINCT    : any Distinct; DISTINCT ON: the (exactly one) DistinctOn
  WHERE       : every Filter in front of the first Aggregate, in order (joined by AND)
  HAVING      : every Filter after it
  GROUP BY    : the partition of the first Aggregate

That this placement means what the pipeline means is the block theorem of C01 (`assemble_correct_rel`), whose `push` places
the transforms one after the other; `Lemmas/SelectPipe.lean` shows that both placements agree on every segment the split
table admits. Tie: every recorded call of translate_select_pipeline is replayed (tools/selecttrace.py).
-/
import PrqlModel.Model.Take
namespace Model.SelectPipe

abbrev CId := Nat

structure CS where
  col : CId
  desc : Bool
  deriving Repr, Inhabited, DecidableEq

inductive Tr where
  | from
  | join
  | select (cols : List CId)
  | filter (tag : Nat)
  | aggregate (partition compute : List CId)
  | sort (cs : List CS)
  | take (range : Model.Take.Range)
  | distinct
  | distinctOn (cols : List CId)
  | other
  deriving Repr, Inhabited, DecidableEq

def isAggregate : Tr → Bool
  | .aggregate _ _ => true
  | _ => false

def filtersOf (p : List Tr) : List Nat := p.filterMap fun t => match t with | .filter g => some g | _ => none
def selectsOf (p : List Tr) : List (List CId) := p.filterMap fun t => match t with | .select c => some c | _ => none
def sortsOf (p : List Tr) : List (List CS) := p.filterMap fun t => match t with | .sort c => some c | _ => none
def takesOf (p : List Tr) : List Model.Take.Range := p.filterMap fun t => match t with | .take r => some r | _ => none
def distinctOnsOf (p : List Tr) : List (List CId) := p.filterMap fun t => match t with | .distinctOn c => some c | _ => none
def aggregatesOf (p : List Tr) : List (List CId) := p.filterMap fun t => match t with | .aggregate pa _ => some pa | _ => none

structure Parts where
  /-- all Selects (the code insists on exactly one) -/
  projections : List (List CId)
  sorts : List (List CS)
  orderBy : List CS
  ranges : List Model.Take.Range
  take : Model.Take.Range
  isDistinct : Bool
  distinctOns : List (List CId)
  where_ : List Nat
  having : List Nat
  groupBy : List CId
  deriving Repr, Inhabited, DecidableEq

/-- `break_up` at the first Aggregate: the matching element goes into the second part -/
def breakUp (p : List Tr) : List Tr × List Tr :=
  let i := p.findIdx isAggregate
  (p.take i, p.drop i)

def parts (p : List Tr) : Parts :=
  let (before, after) := breakUp p
  { projections := selectsOf p,
    sorts := sortsOf p,
    orderBy := (sortsOf p).getLast?.getD [],
    ranges := takesOf p,
    take := Model.Take.rangeOfRanges (takesOf p),
    isDistinct := p.any (· == .distinct),
    distinctOns := distinctOnsOf p,
    where_ := filtersOf before,
    having := filtersOf after,
    groupBy := (aggregatesOf after).head?.getD [] }

end Model.SelectPipe
