/-
Model of the JSON encodings PRQL's compiler stages exchange (prqlc::json::{from_pl,to_pl,from_rq,to_rq}).

Part A – the two hand-written encodings:
  * `Span`  (prqlc-parser/src/span.rs:64-143): the string `"<source_id>:<start>-<end>"`; read back with
    `split_once(':')`, `split_once('-')` and `str::parse::<u16 / usize>`.
  * `Ident` (prqlc-parser/src/parser/pr/ident.rs:140-161): a sequence `[path…, name]`; read back as
    `Vec<String>` and `Ident::from_path` (last element is the name).
Part B – serde's derived object encoding for a representative AST (see below).
-/
import PrqlModel.Model.Json
namespace Model.Serde
open Model Model.Json Model.Dec

abbrev Str := List Char

/-! ## A1. Span -/

structure Span where
  sourceId : Nat
  start : Nat
  stop : Nat
  deriving DecidableEq, Repr

/-- the Rust field types: `source_id : u16`, `start, end : usize` (64-bit target) -/
def Span.wf (s : Span) : Bool := s.sourceId < 2 ^ 16 && s.start < 2 ^ 64 && s.stop < 2 ^ 64

/-- `impl Debug for Span`: `write!(f, "{}:{}-{}", source_id, start, end)` -/
def showSpan (s : Span) : Str :=
  natDigits s.sourceId ++ ':' :: (natDigits s.start ++ '-' :: natDigits s.stop)

/-- `str::split_once(c)` -/
def splitOnce (c : Char) : Str → Option (Str × Str)
  | [] => none
  | x :: r =>
    if x = c then some ([], r)
    else match splitOnce c r with
      | some (a, b) => some (x :: a, b)
      | none => none

/-- `str::parse::<uN>()`: optional `+`, one or more ASCII digits, value below `bound` -/
def parseUnsigned (bound : Nat) (s : Str) : Option Nat :=
  let ds := match s with
    | [] => s
    | c :: r => if c = '+' then r else s
  match readNat ds with
  | some n => if n < bound then some n else none
  | none => none

/-- `SpanVisitor::visit_str` -/
def parseSpan (v : Str) : Option Span :=
  match splitOnce ':' v with
  | none => none
  | some (fid, cs) =>
    match parseUnsigned (2 ^ 16) fid with
    | none => none
    | some f =>
      match splitOnce '-' cs with
      | none => none
      | some (a, b) =>
        match parseUnsigned (2 ^ 64) a, parseUnsigned (2 ^ 64) b with
        | some a, some b => some ⟨f, a, b⟩
        | _, _ => none

def encodeSpan (s : Span) : Json := .str (showSpan s)
def decodeSpan : Json → Option Span
  | .str t => parseSpan t
  | _ => none

/-! ## A2. Ident -/

structure Ident where
  path : List Str
  name : Str
  deriving DecidableEq, Repr

def strList : List Str → JList
  | [] => .nil
  | s :: r => .cons (.str s) (strList r)

/-- `Vec<String>::deserialize` -/
def unStrList : JList → Option (List Str)
  | .nil => some []
  | .cons (.str s) r => match unStrList r with
    | some l => some (s :: l)
    | none => none
  | .cons _ _ => none

/-- `Ident::from_path`: the last element is the name (`pop().unwrap()`: an empty vector is not an ident) -/
def fromPath : List Str → Option Ident
  | [] => none
  | [n] => some ⟨[], n⟩
  | p :: q :: r => match fromPath (q :: r) with
    | some i => some ⟨p :: i.path, i.name⟩
    | none => none

def encodeIdent (i : Ident) : Json := .arr (strList (i.path ++ [i.name]))
def decodeIdent : Json → Option Ident
  | .arr xs => match unStrList xs with
    | some l => fromPath l
    | none => none
  | _ => none

end Model.Serde
