/-
Model of the JSON encodings PRQL's compiler stages exchange (prqlc::json::{from_pl,to_pl,from_rq,to_rq}).

Part A – the two hand-written encodings:
  * `Span`  (prqlc-parser/src/span.rs:64-143): the string `"<source_id>:<start>-<end>"`; read back with
    `split_once(':')`, `split_once('-')` and `str::parse::<u16 / usize>`.
  * `Ident` (prqlc-parser/src/parser/pr/ident.rs:140-161): a sequence `[path…, name]`; read back as
    `Vec<String>` and `Ident::from_path` (last element is the name).
Part B – serde's derived object encoding for a representative AST (see below).
-/
import PrqlModel.Model.Json
import PrqlModel.Gen.Serde
namespace Model.Serde
open Model Model.Json Model.Dec

abbrev Str := List Char

/-! ## A1. Span -/

structure Span where
  sourceId : Nat
  start : Nat
  stop : Nat
  deriving DecidableEq, Repr

/-- the Rust field types: `source_id : u16`, `start, end : usize` (64-bit target) -/
def Span.wf (s : Span) : Bool := s.sourceId < 2 ^ 16 && s.start < 2 ^ 64 && s.stop < 2 ^ 64

/-- `impl Debug for Span`: `write!(f, "{}:{}-{}", source_id, start, end)` -/
def showSpan (s : Span) : Str :=
  natDigits s.sourceId ++ ':' :: (natDigits s.start ++ '-' :: natDigits s.stop)

/-- `str::split_once(c)` -/
def splitOnce (c : Char) : Str → Option (Str × Str)
  | [] => none
  | x :: r =>
    if x = c then some ([], r)
    else match splitOnce c r with
      | some (a, b) => some (x :: a, b)
      | none => none

/-- `str::parse::<uN>()`: optional `+`, one or more ASCII digits, value below `bound` -/
def parseUnsigned (bound : Nat) (s : Str) : Option Nat :=
  let ds := match s with
    | [] => s
    | c :: r => if c = '+' then r else s
  match readNat ds with
  | some n => if n < bound then some n else none
  | none => none

/-- `SpanVisitor::visit_str` -/
def parseSpan (v : Str) : Option Span :=
  match splitOnce ':' v with
  | none => none
  | some (fid, cs) =>
    match parseUnsigned (2 ^ 16) fid with
    | none => none
    | some f =>
      match splitOnce '-' cs with
      | none => none
      | some (a, b) =>
        match parseUnsigned (2 ^ 64) a, parseUnsigned (2 ^ 64) b with
        | some a, some b => some ⟨f, a, b⟩
        | _, _ => none

def encodeSpan (s : Span) : Json := .str (showSpan s)
def decodeSpan : Json → Option Span
  | .str t => parseSpan t
  | _ => none

/-! ## A2. Ident -/

structure Ident where
  path : List Str
  name : Str
  deriving DecidableEq, Repr

def strList : List Str → JList
  | [] => .nil
  | s :: r => .cons (.str s) (strList r)

/-- `Vec<String>::deserialize` -/
def unStrList : JList → Option (List Str)
  | .nil => some []
  | .cons (.str s) r => match unStrList r with
    | some l => some (s :: l)
    | none => none
  | .cons _ _ => none

/-- `Ident::from_path`: the last element is the name (`pop().unwrap()`: an empty vector is not an ident) -/
def fromPath : List Str → Option Ident
  | [] => none
  | [n] => some ⟨[], n⟩
  | p :: q :: r => match fromPath (q :: r) with
    | some i => some ⟨p :: i.path, i.name⟩
    | none => none

def encodeIdent (i : Ident) : Json := .arr (strList (i.path ++ [i.name]))
def decodeIdent : Json → Option Ident
  | .arr xs => match unStrList xs with
    | some l => fromPath l
    | none => none
  | _ => none

/-! ## B. serde's derived object encoding, on a representative AST

Mirrors `pr::Expr` (prqlc-parser/src/parser/pr/expr.rs:31): a struct whose externally tagged enum `kind` is
`#[serde(flatten)]`ed into it, next to three `Option` fields with `skip_serializing_if = "Option::is_none"`.
Variants modelled: Ident, Literal, Tuple, Array, Pipeline, Range, Binary, Unary, FuncCall (with its
`#[serde(default, skip_serializing_if = "HashMap::is_empty")] named_args`), Param, Internal.
Not modelled: Func (needs `Ty`), SString/FString, Case – same encoding rules, covered by the extracted-shape
checks of Props/C15 and by the differential run.

serde semantics modelled (serde_derive 1.x, trusted):
* struct → object, fields in declaration order; a skipped field is left out;
* reading a struct: every known key at most once (`duplicate field`), unknown keys ignored, a missing
  `Option` / `default` field is `None` / the default, `null` for an `Option` is `None`;
* externally tagged enum: unit variant → `"Name"`, other variants → `{"Name": payload}`;
* `flatten`: the struct's own keys are taken first; among the remaining entries the first whose key is a
  variant name selects the variant (`FlatMapDeserializer::deserialize_enum`).
-/

/-- an `f64` as far as JSON sees it: the text serde_json writes for a finite value, or a non-finite value
(written as `null`).  IEEE arithmetic is not modelled. -/
inductive FloatVal where
  | finite (text : Str)
  | nonFinite
  deriving DecidableEq, Repr

inductive Literal where
  | null
  | integer (i : Int)
  | float (f : FloatVal)
  | boolean (b : Bool)
  | string (s : Str)
  | rawString (s : Str)
  | date (s : Str)
  | time (s : Str)
  | timestamp (s : Str)
  | valueAndUnit (n : Int) (unit : Str)
  deriving DecidableEq, Repr

def i64ok (i : Int) : Bool := -(2 ^ 63 : Int) ≤ i && i < (2 ^ 63 : Int)

/-- unit-only enums (BinOp, UnOp, …) are an index into the variant list extracted from the source -/
def binOpNames : List Str := Gen.Serde.pr_BinOp.variantNames
def unOpNames : List Str := Gen.Serde.pr_UnOp.variantNames
abbrev BinOp := Fin binOpNames.length
abbrev UnOp := Fin unOpNames.length

def findFin : (names : List Str) → Str → Option (Fin names.length)
  | [], _ => none
  | n :: ns, s => if n = s then some ⟨0, by simp⟩ else (findFin ns s).map Fin.succ

def encEnum (names : List Str) (i : Fin names.length) : Json := .str (names.get i)
def decEnum (names : List Str) : Json → Option (Fin names.length)
  | .str s => findFin names s
  | _ => none

mutual
inductive Expr where
  | mk (kind : ExprKind) (span : Option Span) (alias : Option Str) (doc : Option Str)
inductive ExprKind where
  | ident (i : Ident)
  | literal (l : Literal)
  | tuple (xs : ExprList)
  | array (xs : ExprList)
  | pipeline (exprs : ExprList)
  | range (start stop : OptExpr)
  | binary (left : Expr) (op : BinOp) (right : Expr)
  | unary (op : UnOp) (e : Expr)
  | funcCall (name : Expr) (args : ExprList) (named : NamedArgs)
  | param (s : Str)
  | internal (s : Str)
inductive ExprList where
  | nil
  | cons (x : Expr) (xs : ExprList)
inductive OptExpr where
  | none
  | some (x : Expr)
/-- `HashMap<String, Expr>` as the sequence of entries in iteration order -/
inductive NamedArgs where
  | nil
  | cons (k : Str) (v : Expr) (rest : NamedArgs)
end

/-! ### names (proved equal to the extracted ones in Props/C15: `model_names_are_extracted`) -/
def kSpan : Str := ['s', 'p', 'a', 'n']
def kAlias : Str := ['a', 'l', 'i', 'a', 's']
def kDoc : Str := ['d', 'o', 'c', '_', 'c', 'o', 'm', 'm', 'e', 'n', 't']
def kExprs : Str := ['e', 'x', 'p', 'r', 's']
def kStart : Str := ['s', 't', 'a', 'r', 't']
def kEnd : Str := ['e', 'n', 'd']
def kLeft : Str := ['l', 'e', 'f', 't']
def kOp : Str := ['o', 'p']
def kRight : Str := ['r', 'i', 'g', 'h', 't']
def kExpr : Str := ['e', 'x', 'p', 'r']
def kName : Str := ['n', 'a', 'm', 'e']
def kArgs : Str := ['a', 'r', 'g', 's']
def kNamedArgs : Str := ['n', 'a', 'm', 'e', 'd', '_', 'a', 'r', 'g', 's']
def kN : Str := ['n']
def kUnit : Str := ['u', 'n', 'i', 't']

def tIdent : Str := ['I', 'd', 'e', 'n', 't']
def tLiteral : Str := ['L', 'i', 't', 'e', 'r', 'a', 'l']
def tTuple : Str := ['T', 'u', 'p', 'l', 'e']
def tArray : Str := ['A', 'r', 'r', 'a', 'y']
def tPipeline : Str := ['P', 'i', 'p', 'e', 'l', 'i', 'n', 'e']
def tRange : Str := ['R', 'a', 'n', 'g', 'e']
def tBinary : Str := ['B', 'i', 'n', 'a', 'r', 'y']
def tUnary : Str := ['U', 'n', 'a', 'r', 'y']
def tFuncCall : Str := ['F', 'u', 'n', 'c', 'C', 'a', 'l', 'l']
def tParam : Str := ['P', 'a', 'r', 'a', 'm']
def tInternal : Str := ['I', 'n', 't', 'e', 'r', 'n', 'a', 'l']

def lNull : Str := ['N', 'u', 'l', 'l']
def lInteger : Str := ['I', 'n', 't', 'e', 'g', 'e', 'r']
def lFloat : Str := ['F', 'l', 'o', 'a', 't']
def lBoolean : Str := ['B', 'o', 'o', 'l', 'e', 'a', 'n']
def lString : Str := ['S', 't', 'r', 'i', 'n', 'g']
def lRawString : Str := ['R', 'a', 'w', 'S', 't', 'r', 'i', 'n', 'g']
def lDate : Str := ['D', 'a', 't', 'e']
def lTime : Str := ['T', 'i', 'm', 'e']
def lTimestamp : Str := ['T', 'i', 'm', 'e', 's', 't', 'a', 'm', 'p']
def lValueAndUnit : Str := ['V', 'a', 'l', 'u', 'e', 'A', 'n', 'd', 'U', 'n', 'i', 't']

/-- the struct's own (non-flattened) keys and the variant names of the flattened enum: the real ones -/
def exprOwnKeys : List Str := Gen.Serde.pr_Expr.ownFieldNames
def exprKindTags : List Str := Gen.Serde.pr_ExprKind.variantNames

def tagOf : ExprKind → Str
  | .ident _ => tIdent
  | .literal _ => tLiteral
  | .tuple _ => tTuple
  | .array _ => tArray
  | .pipeline _ => tPipeline
  | .range _ _ => tRange
  | .binary _ _ _ => tBinary
  | .unary _ _ => tUnary
  | .funcCall _ _ _ => tFuncCall
  | .param _ => tParam
  | .internal _ => tInternal

/-! ### encoding -/

def one (k : Str) (v : Json) : Json := .obj (.cons k v .nil)

def encFloat : FloatVal → Json
  | .finite t => .num (.text t)
  | .nonFinite => .null            -- serde_json: `serialize_f64` writes `null` for NaN / ±inf

def encLiteral : Literal → Json
  | .null => .str lNull
  | .integer i => one lInteger (.num (.int i))
  | .float f => one lFloat (encFloat f)
  | .boolean b => one lBoolean (.bool b)
  | .string s => one lString (.str s)
  | .rawString s => one lRawString (.str s)
  | .date s => one lDate (.str s)
  | .time s => one lTime (.str s)
  | .timestamp s => one lTimestamp (.str s)
  | .valueAndUnit n u => one lValueAndUnit (.obj (.cons kN (.num (.int n)) (.cons kUnit (.str u) .nil)))

/-- a field with `skip_serializing_if = "Option::is_none"` -/
def optMember (k : Str) (o : Option Json) (rest : JMembers) : JMembers :=
  match o with
  | none => rest
  | some v => .cons k v rest

mutual
def encExpr : Expr → Json
  | .mk k sp al dc =>
    .obj (.cons (tagOf k) (encKind k)
      (optMember kSpan (sp.map encodeSpan) (optMember kAlias (al.map .str) (optMember kDoc (dc.map .str) .nil))))
def encKind : ExprKind → Json
  | .ident i => encodeIdent i
  | .literal l => encLiteral l
  | .tuple xs => .arr (encList xs)
  | .array xs => .arr (encList xs)
  | .pipeline xs => one kExprs (.arr (encList xs))
  | .range a b => .obj (.cons kStart (encOpt a) (.cons kEnd (encOpt b) .nil))
  | .binary l op r => .obj (.cons kLeft (encExpr l) (.cons kOp (encEnum binOpNames op) (.cons kRight (encExpr r) .nil)))
  | .unary op e => .obj (.cons kOp (encEnum unOpNames op) (.cons kExpr (encExpr e) .nil))
  | .funcCall n args .nil => .obj (.cons kName (encExpr n) (.cons kArgs (.arr (encList args)) .nil))
  | .funcCall n args (.cons k v r) =>
    .obj (.cons kName (encExpr n) (.cons kArgs (.arr (encList args)) (.cons kNamedArgs (.obj (.cons k (encExpr v) (encNamed r))) .nil)))
  | .param s => .str s
  | .internal s => .str s
def encList : ExprList → JList
  | .nil => .nil
  | .cons x xs => .cons (encExpr x) (encList xs)
def encOpt : OptExpr → Json
  | .none => .null
  | .some x => encExpr x
def encNamed : NamedArgs → JMembers
  | .nil => .nil
  | .cons k v r => .cons k (encExpr v) (encNamed r)
end

/-! ### decoding -/

def findAll (k : Str) : JMembers → List Json
  | .nil => []
  | .cons k' v ms => if k' = k then v :: findAll k ms else findAll k ms

/-- a struct field by key: `none` = the key occurs twice (serde: `duplicate field`),
`some none` = absent, `some (some v)` = present -/
def getU (k : Str) (ms : JMembers) : Option (Option Json) :=
  match findAll k ms with
  | [] => some none
  | [v] => some (some v)
  | _ => none

/-- a required field -/
def getReq (k : Str) (ms : JMembers) : Option Json :=
  match getU k ms with
  | some (some v) => some v
  | _ => none

/-- an `Option<T>` value: absent or `null` is `None` -/
def decOptWith {α : Type} (dec : Json → Option α) : Option Json → Option (Option α)
  | none => some none
  | some .null => some none
  | some v => match dec v with
    | some a => some (some a)
    | none => none

/-- the entry that selects the variant of the flattened enum: the first one whose key is not one of the
struct's own keys and is a variant name -/
def findVariant (own tags : List Str) : JMembers → Option (Str × Json)
  | .nil => none
  | .cons k v ms => if own.contains k then findVariant own tags ms
                    else if tags.contains k then some (k, v) else findVariant own tags ms

def single : Json → Option (Str × Json)
  | .obj (.cons k v .nil) => some (k, v)
  | _ => none

def decFloat : Json → Option FloatVal
  | .num (.text t) => some (.finite t)
  | .num (.int i) => some (.finite (printNum (.int i)))   -- serde accepts an integer token for f64
  | _ => none                                              -- in particular `null`: "invalid type: null, expected f64"

def decI64 : Json → Option Int
  | .num (.int i) => if i64ok i then some i else none
  | _ => none

def decLiteral (j : Json) : Option Literal :=
  match j with
  | .str s => if s = lNull then some .null else none
  | _ =>
    match single j with
    | none => none
    | some (k, v) =>
      if k = lInteger then (decI64 v).map .integer
      else if k = lFloat then (decFloat v).map .float
      else if k = lBoolean then (asBool v).map .boolean
      else if k = lString then (asStr v).map .string
      else if k = lRawString then (asStr v).map .rawString
      else if k = lDate then (asStr v).map .date
      else if k = lTime then (asStr v).map .time
      else if k = lTimestamp then (asStr v).map .timestamp
      else if k = lValueAndUnit then
        match v with
        | .obj ms =>
          match getReq kN ms, getReq kUnit ms with
          | some n, some u =>
            match decI64 n, asStr u with
            | some n, some u => some (.valueAndUnit n u)
            | _, _ => none
          | _, _ => none
        | _ => none
      else none

def decListWith (dec : Json → Option Expr) : JList → Option ExprList
  | .nil => some .nil
  | .cons x xs =>
    match dec x, decListWith dec xs with
    | some a, some r => some (.cons a r)
    | _, _ => none

def decNamedWith (dec : Json → Option Expr) : JMembers → Option NamedArgs
  | .nil => some .nil
  | .cons k v ms =>
    match dec v, decNamedWith dec ms with
    | some a, some r => some (.cons k a r)
    | _, _ => none

def decArrWith (dec : Json → Option Expr) : Json → Option ExprList
  | .arr xs => decListWith dec xs
  | _ => none

def decOptExprWith (dec : Json → Option Expr) : Option Json → Option OptExpr
  | none => some .none                       -- missing `Option` field
  | some .null => some .none
  | some v => match dec v with
    | some a => some (.some a)
    | none => none

def decKindWith (dec : Json → Option Expr) (tag : Str) (p : Json) : Option ExprKind :=
  if tag = tIdent then (decodeIdent p).map .ident
  else if tag = tLiteral then (decLiteral p).map .literal
  else if tag = tTuple then (decArrWith dec p).map .tuple
  else if tag = tArray then (decArrWith dec p).map .array
  else if tag = tPipeline then
    match p with
    | .obj ms => match getReq kExprs ms with
      | some v => (decArrWith dec v).map .pipeline
      | none => none
    | _ => none
  else if tag = tRange then
    match p with
    | .obj ms =>
      match getU kStart ms, getU kEnd ms with
      | some a, some b =>
        match decOptExprWith dec a, decOptExprWith dec b with
        | some a, some b => some (.range a b)
        | _, _ => none
      | _, _ => none
    | _ => none
  else if tag = tBinary then
    match p with
    | .obj ms =>
      match getReq kLeft ms, getReq kOp ms, getReq kRight ms with
      | some l, some o, some r =>
        match dec l, decEnum binOpNames o, dec r with
        | some l, some o, some r => some (.binary l o r)
        | _, _, _ => none
      | _, _, _ => none
    | _ => none
  else if tag = tUnary then
    match p with
    | .obj ms =>
      match getReq kOp ms, getReq kExpr ms with
      | some o, some e =>
        match decEnum unOpNames o, dec e with
        | some o, some e => some (.unary o e)
        | _, _ => none
      | _, _ => none
    | _ => none
  else if tag = tFuncCall then
    match p with
    | .obj ms =>
      match getReq kName ms, getReq kArgs ms, getU kNamedArgs ms with
      | some n, some a, some na =>
        match dec n, decArrWith dec a with
        | some n, some a =>
          match na with
          | none => some (.funcCall n a .nil)                 -- `#[serde(default)]`: the empty map
          | some (.obj nms) => (decNamedWith dec nms).map (.funcCall n a)
          | some _ => none
        | _, _ => none
      | _, _, _ => none
    | _ => none
  else if tag = tParam then (asStr p).map .param
  else if tag = tInternal then (asStr p).map .internal
  else none

def decExprWith (dec : Json → Option Expr) : Json → Option Expr
  | .obj ms =>
    match getU kSpan ms, getU kAlias ms, getU kDoc ms, findVariant exprOwnKeys exprKindTags ms with
    | some sp, some al, some dc, some (tag, p) =>
      match decOptWith decodeSpan sp, decOptWith asStr al, decOptWith asStr dc, decKindWith dec tag p with
      | some sp, some al, some dc, some k => some (.mk k sp al dc)
      | _, _, _, _ => none
    | _, _, _, _ => none
  | _ => none

/-- fuel = nesting depth still allowed -/
def decExprF : Nat → Json → Option Expr
  | 0, _ => none
  | f + 1, j => decExprWith (decExprF f) j

/-- `Expr::deserialize` on a JSON value -/
def decExpr (j : Json) : Option Expr := decExprF (depth j + 1) j

/-! ### well-formedness: what the Rust types guarantee -/

def Literal.wf : Literal → Bool
  | .integer i => i64ok i
  | .float (.finite t) => wfNum (.text t)
  | .valueAndUnit n _ => i64ok n
  | _ => true

/-- no non-finite float -/
def Literal.finite : Literal → Bool
  | .float .nonFinite => false
  | _ => true

def optSpanWf : Option Span → Bool
  | none => true
  | some s => s.wf

mutual
def Expr.wf : Expr → Bool
  | .mk k sp _ _ => ExprKind.wf k && optSpanWf sp
def ExprKind.wf : ExprKind → Bool
  | .literal l => l.wf && l.finite
  | .tuple xs => ExprList.wf xs
  | .array xs => ExprList.wf xs
  | .pipeline xs => ExprList.wf xs
  | .range a b => OptExpr.wf a && OptExpr.wf b
  | .binary l _ r => Expr.wf l && Expr.wf r
  | .unary _ e => Expr.wf e
  | .funcCall n a na => Expr.wf n && ExprList.wf a && NamedArgs.wf na
  | _ => true
def ExprList.wf : ExprList → Bool
  | .nil => true
  | .cons x xs => Expr.wf x && ExprList.wf xs
def OptExpr.wf : OptExpr → Bool
  | .none => true
  | .some x => Expr.wf x
def NamedArgs.wf : NamedArgs → Bool
  | .nil => true
  | .cons _ v r => Expr.wf v && NamedArgs.wf r
end

/-- only what the Rust field types guarantee (integer widths, number tokens): a non-finite float is allowed -/
def Literal.typed (l : Literal) : Bool := l.wf

mutual
def Expr.typed : Expr → Bool
  | .mk k sp _ _ => ExprKind.typed k && optSpanWf sp
def ExprKind.typed : ExprKind → Bool
  | .literal l => l.typed
  | .tuple xs => ExprList.typed xs
  | .array xs => ExprList.typed xs
  | .pipeline xs => ExprList.typed xs
  | .range a b => OptExpr.typed a && OptExpr.typed b
  | .binary l _ r => Expr.typed l && Expr.typed r
  | .unary _ e => Expr.typed e
  | .funcCall n a na => Expr.typed n && ExprList.typed a && NamedArgs.typed na
  | _ => true
def ExprList.typed : ExprList → Bool
  | .nil => true
  | .cons x xs => Expr.typed x && ExprList.typed xs
def OptExpr.typed : OptExpr → Bool
  | .none => true
  | .some x => Expr.typed x
def NamedArgs.typed : NamedArgs → Bool
  | .nil => true
  | .cons _ v r => Expr.typed v && NamedArgs.typed r
end

/-! ## C. the staged API (prqlc/src/lib.rs) -/

/-- the three stages; `compile` (lib.rs:189) is their composition -/
structure Stages (Src PL RQ Opt Sql Err : Type) where
  prqlToPl : Src → Except Err PL
  plToRq : PL → Except Err RQ
  rqToSql : Opt → RQ → Except Err Sql
  /-- `convert_json_err`: what `json::to_*` answers when serde_json rejects the text -/
  jsonErr : Err

/-- a serde `Serialize`/`Deserialize` pair seen through JSON values -/
structure Codec (α : Type) where
  encode : α → Json
  decode : Json → Option α

variable {Src PL RQ Opt Sql Err : Type}

/-- `serde_json::to_string` -/
def Codec.toText {α : Type} (c : Codec α) (a : α) : List Char := Json.print (c.encode a)
/-- `serde_json::from_str(..).map_err(convert_json_err)` -/
def Codec.fromText {α : Type} (c : Codec α) (e : Err) (t : List Char) : Except Err α :=
  match Json.parse t with
  | some j => match c.decode j with
    | some a => .ok a
    | none => .error e
  | none => .error e

/-- `prqlc::compile` -/
def compile (st : Stages Src PL RQ Opt Sql Err) (o : Opt) (s : Src) : Except Err Sql :=
  st.prqlToPl s >>= st.plToRq >>= st.rqToSql o

/-- source → PL → JSON → PL → RQ → JSON → RQ → SQL, as a language binding drives it -/
def staged (st : Stages Src PL RQ Opt Sql Err) (cpl : Codec PL) (crq : Codec RQ) (o : Opt) (s : Src) : Except Err Sql := do
  let pl ← st.prqlToPl s
  let pl' ← cpl.fromText st.jsonErr (cpl.toText pl)
  let rq ← st.plToRq pl'
  let rq' ← crq.fromText st.jsonErr (crq.toText rq)
  st.rqToSql o rq'

end Model.Serde
