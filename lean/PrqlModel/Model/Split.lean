/-
Mirror of the split decision of `split_off_back` / `is_split_required` (sql/pq/anchor.rs):
the pipeline is scanned back to front with the set of kinds of the transforms already kept
(`following`); the scan stops at the first transform that requires a split. The table itself is
regenerated from the source (Gen/Split). The requirement/complexity part of the scan
(`get_requirements`, `can_materialize`) is not mirrored here.
-/
import PrqlModel.Gen.Split
namespace Model.Split
open Gen.Split

/-- `is_split_required` as a pure function of the transform kind and the following kinds -/
def splitRequired (k : Kind) (following : List Kind) : Bool :=
  if splitsOnAnything k then !following.isEmpty
  else (splitSet k (following.contains .Aggregate)).any fun x => following.contains x

/-- `following` after keeping `k` -/
def record (k : Kind) (following : List Kind) : List Kind :=
  if recorded k then k :: following else following

/-- the scan: `rev` is the pipeline reversed; returns the kept atomic part in pipeline order -/
def scan : List Kind → List Kind → List Kind → List Kind
  | [], _, acc => acc
  | k :: rest, following, acc =>
    if splitRequired k following then acc
    else scan rest (record k following) (k :: acc)

def atomicSuffix (pipeline : List Kind) : List Kind := scan pipeline.reverse [] []

/-- recorded kinds of a segment -/
def recordedOf (seg : List Kind) : List Kind := seg.filter recorded

/-! ### specification: which ordered pairs can never share one SELECT block

`mustSplit a b aggFollows`: a transform of kind `a` that is followed (anywhere later in the same
segment) by one of kind `b` cannot be translated into the same SELECT, because SQL evaluates
FROM/JOIN → WHERE → GROUP BY/aggregates → HAVING → projection → DISTINCT → ORDER BY → LIMIT → set operations.
`aggFollows`: an Aggregate comes after `a` in the segment (a Filter after a plain Compute is then
either WHERE with the compute inlined or HAVING).  Written by hand from SQL's clause order and the
block semantics of Lemmas (step_push admissibility conditions). -/
def mustSplit (a b : Kind) (aggFollows : Bool) : Bool :=
  match a, b with
  | .Loop, _ => true
  | .AggCompute, _ | .Select, _ | .Sort, _ | .Append, _ => false
  | _, .From => true
  | .From, _ => false
  | .Join, _ => false
  | .Filter, .Join => true
  | .Filter, _ => false
  | .Compute, .Join => true
  | .Compute, .Filter => !aggFollows
  | .Compute, _ => false
  | .Aggregate, .Join | .Aggregate, .Aggregate | .Aggregate, .Compute => true
  | .Aggregate, _ => false
  | .Take, .Join | .Take, .Compute | .Take, .Filter | .Take, .Aggregate | .Take, .Sort => true
  | .Take, .Distinct | .Take, .DistinctOn => true      -- DISTINCT is applied before LIMIT
  | .Take, _ => false
  | .Distinct, .Join | .Distinct, .Compute | .Distinct, .Filter | .Distinct, .Aggregate
  | .Distinct, .Sort | .Distinct, .Take => true
  | .Distinct, _ => false
  | .DistinctOn, .Join | .DistinctOn, .Compute | .DistinctOn, .Filter | .DistinctOn, .Aggregate
  | .DistinctOn, .Sort | .DistinctOn, .Take | .DistinctOn, .DistinctOn => true
  | .DistinctOn, _ => false
  | .Union, .Join | .Union, .Compute | .Union, .Filter | .Union, .Aggregate | .Union, .Sort
  | .Union, .Take | .Union, .Distinct => true
  | .Union, _ => false
  | .Except, .Join | .Except, .Compute | .Except, .Filter | .Except, .Aggregate | .Except, .Sort
  | .Except, .Take | .Except, .Distinct => true
  | .Except, _ => false
  | .Intersect, .Join | .Intersect, .Compute | .Intersect, .Filter | .Intersect, .Aggregate
  | .Intersect, .Sort | .Intersect, .Take | .Intersect, .Distinct => true
  | .Intersect, _ => false

/-- pairs the table of the unchanged tree does NOT split although clause order demands it
(a genuine defect, see known_findings.json `take-then-distinct-in-one-select`) -/
def knownGap (a b : Kind) : Bool :=
  match a, b with
  | .Take, .Distinct | .Take, .DistinctOn => true
  | _, _ => false

end Model.Split
