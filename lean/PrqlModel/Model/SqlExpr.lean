/-
SQL side of the expression pipeline (C02).

* `translate d e` – mirror of `translate_expr` (sql/gen_expr.rs) + `translate_operator` (sql/operators.rs): SQL text and
  binding strength of an RQ expression for dialect `d ∈ {generic, sqlite}`, with the operator templates, strengths and
  associativities of `Gen/SqlOps` (`translate_operand` / `needs_parentheses` decide the parentheses).
* `sqlLex`, `sqlParse` – SQLite's documented expression grammar (operator precedence of lang_expr.html) on that text.
* `evalS` – SQLite's value of the parsed expression (INTEGER / REAL / NULL).
`sqlParse`/`evalS` are reference semantics (trusted, validated against the real SQLite on every run).
-/
import PrqlModel.Gen.SqlOps
import PrqlModel.Model.PExpr
import PrqlModel.Model.Pratt
namespace Model.SqlExpr
open Gen.SqlOps Gen.Pratt Model.PExpr Model.Val

inductive Dialect where
  | generic
  | sqlite
  deriving DecidableEq, Repr

def findOp (l : List OpDef) (name : List Char) : Option OpDef := l.find? fun d => d.name == name

/-- `find_operator_impl`: the dialect module first, then the root module -/
def lookupOp (d : Dialect) (name : List Char) : Option OpDef :=
  match d with
  | .generic => findOp root name
  | .sqlite => match findOp Gen.SqlOps.sqlite name with
    | some x => some x
    | none => findOp root name

/-- `needs_parentheses(child strength, is_left, parent strength, parent associativity)` -/
def needsParens (cs : Nat) (isLeft : Bool) (ps : Nat) (a : Assoc) : Bool :=
  if cs > ps then false
  else if cs < ps then true
  else !(a == .Both || (isLeft && (a == .Left || a == .Both)) || (!isLeft && (a == .Right || a == .Both)))

abbrev Piece' := List Char × Nat   -- translated operand: text, binding strength

/-- `translate_operand` on an already translated child -/
def operand (c : Piece') (isLeft : Bool) (ps : Nat) (a : Assoc) : List Char :=
  if needsParens c.2 isLeft ps a then ['('] ++ c.1 ++ [')'] else c.1

/-- sqlparser's `Display` of the binary operators in the range of `operator_from_name` -/
def _root_.Gen.SqlOps.SqlBin.text : SqlBin → List Char
  | .Multiply => ['*'] | .Plus => ['+'] | .Minus => ['-'] | .Eq => ['='] | .NotEq => ['<', '>']
  | .Gt => ['>'] | .Lt => ['<'] | .GtEq => ['>', '='] | .LtEq => ['<', '='] | .And => ['A', 'N', 'D'] | .Or => ['O', 'R']
  | .StringConcat => ['|', '|']

def sqlBinOf (name : List Char) : Option SqlBin := (operatorFromName.find? fun p => p.1 == name).map (·.2)

/-- append a translated operand to the text assembled so far; `-` directly followed by an operand that starts with `-`
would read as the comment marker `--`: the operand is parenthesised (commit 8bc968c; `minusGuard` is extracted) -/
def appendOperand (acc arg : List Char) : List Char :=
  if minusGuard && acc.getLast? == some '-' && arg.head? == some '-' then acc ++ ['('] ++ arg ++ [')'] else acc ++ arg

/-- `translate_operator`: fill the template of `name` with translated arguments -/
def fillTemplate (d : Dialect) (name : List Char) (args : List Piece') : Option Piece' :=
  match lookupOp d name with
  | none => none
  | some od =>
    match od.body with
    | none => none
    | some body =>
      let ps := od.strength.getD defaultOperatorStrength
      let text := body.foldl (fun acc p =>
        match p with
        | .text s => acc ++ s
        | .hole i req => appendOperand acc (operand (args.getD i ([], 0)) false (req.getD ps) .Both)) []
      match od.coalesce with
      | some dflt => some (['C', 'O', 'A', 'L', 'E', 'S', 'C', 'E', '('] ++ text ++ [',', ' '] ++ dflt ++ [')'], coalescedStrength)
      | none => some (text, ps)

def quoteSql (s : List Char) : List Char :=
  ['\''] ++ s.flatMap (fun c => if c == '\'' then ['\'', '\''] else [c]) ++ ['\'']

/-- `translate_literal` -/
def litSql : Lit → List Char
  | .null => ['N', 'U', 'L', 'L']
  | .int i => Model.Pratt.litSrc (.int i)
  | .bool b => if b then ['t', 'r', 'u', 'e'] else ['f', 'a', 'l', 's', 'e']
  | .float m e => Model.Pratt.floatText m e
  | .str s => quoteSql s

def fn1Std : Fn1 → List Char
  | .abs => ['s', 't', 'd', '.', 'm', 'a', 't', 'h', '.', 'a', 'b', 's']

/-- a binary std operator on translated operands (`nl`/`nr`: the operand is the literal NULL) -/
def binNode (d : Dialect) (o : BinOp) (nl nr : Bool) (a b : Piece') : Option Piece' :=
  let name := Gen.Expand.binName o
  if isEqNe o && (nl || nr) then
    -- process_null
    let x := if nl then b else a
    let t := operand x true isNullStrength .Both
    some (t ++ (if o = .Eq then [' ', 'I', 'S', ' ', 'N', 'U', 'L', 'L'] else [' ', 'I', 'S', ' ', 'N', 'O', 'T', ' ', 'N', 'U', 'L', 'L']), isNullStrength)
  else match sqlBinOf name with
    | some sb =>
      let s := sb.strength
      some (operand a true s sb.assoc ++ [' '] ++ sb.text ++ [' '] ++ operand b false s sb.assoc, s)
    | none => fillTemplate d name [a, b]

mutual
/-- `translate_expr`: SQL text and binding strength; `none` = the operator has no implementation in the dialect -/
def translate (d : Dialect) : PExpr → Option Piece'
  | .col i => some (Model.Pratt.colName i, otherExprStrength)
  | .lit l => some (litSql l, otherExprStrength)
  | .un o a => do
    let ta ← translate d a
    match Gen.Expand.unName o with
    | some name => fillTemplate d name [ta]
    | none => none
  | .bin o a b => do
    let ta ← translate d a
    let tb ← translate d b
    binNode d o a.isNullLit b.isNullLit ta tb
  | .caseB c v rest => do
    let tv ← translate d v
    match c, rest with
    | .lit (.bool true), .caseEnd => pure (['C', 'A', 'S', 'E', ' ', 'E', 'L', 'S', 'E', ' '] ++ tv.1 ++ [' ', 'E', 'N', 'D'], otherExprStrength)
    | _, _ =>
      let tc ← translate d c
      let tl ← caseBody d rest
      pure (['C', 'A', 'S', 'E', ' ', 'W', 'H', 'E', 'N', ' '] ++ tc.1 ++ [' ', 'T', 'H', 'E', 'N', ' '] ++ tv.1 ++ tl, otherExprStrength)
  | .caseEnd => some (['C', 'A', 'S', 'E', ' ', 'E', 'L', 'S', 'E', ' ', 'N', 'U', 'L', 'L', ' ', 'E', 'N', 'D'], otherExprStrength)
  | .between x lo hi => do
    let tx ← translate d x
    let tl ← translate d lo
    let th ← translate d hi
    let s := betweenOperandStrength
    pure (operand tx true s .Both ++ [' ', 'B', 'E', 'T', 'W', 'E', 'E', 'N', ' '] ++ operand tl true s .Both ++ [' ', 'A', 'N', 'D', ' '] ++ operand th true s .Both,
          otherExprStrength)
  | .fn1 f x => do
    let tx ← translate d x
    fillTemplate d (fn1Std f) [tx]
/-- the `WHEN … THEN …` list; a last branch whose condition is the literal `true` becomes `ELSE` -/
def caseBody (d : Dialect) : PExpr → Option (List Char)
  | .caseB c v rest => do
    let tv ← translate d v
    match c, rest with
    | .lit (.bool true), .caseEnd => pure ([' ', 'E', 'L', 'S', 'E', ' '] ++ tv.1 ++ [' ', 'E', 'N', 'D'])
    | _, _ =>
      let tc ← translate d c
      let tl ← caseBody d rest
      pure ([' ', 'W', 'H', 'E', 'N', ' '] ++ tc.1 ++ [' ', 'T', 'H', 'E', 'N', ' '] ++ tv.1 ++ tl)
  | .caseEnd => some [' ', 'E', 'L', 'S', 'E', ' ', 'N', 'U', 'L', 'L', ' ', 'E', 'N', 'D']
  | _ => none
end

def sqlPrint (d : Dialect) (e : PExpr) : Option (List Char) := (translate d e).map (·.1)

/-! ### SQLite: lexer -/
inductive STok where
  | word (s : List Char)
  | num (m e : Nat)      -- m / 10^e ; e = number of fraction digits (0 = INTEGER literal)
  | sym (s : List Char)
  | str (s : List Char)
  deriving DecidableEq, Repr

def isWordChar (c : Char) : Bool := c.isAlphanum || c == '_'

def digitsVal (ds : List Char) : Nat := ds.foldl (fun acc c => acc * 10 + (c.toNat - '0'.toNat)) 0

def twoCharSyms : List (List Char) := [['<', '>'], ['<', '='], ['>', '='], ['|', '|'], ['=', '='], ['!', '=']]

def sqlLexAux : Nat → List Char → Option (List STok)
  | 0, _ => none
  | _, [] => some []
  | f + 1, c :: rest =>
    if c == ' ' then sqlLexAux f rest
    else if c == '-' && rest.head? == some '-' then some []      -- `--` comments out the rest of the line
    else if c.isDigit then
      let ds := (c :: rest).takeWhile Char.isDigit
      let r := (c :: rest).dropWhile Char.isDigit
      match r with
      | '.' :: r' =>
        let fs := r'.takeWhile Char.isDigit
        (sqlLexAux f (r'.dropWhile Char.isDigit)).map (.num (digitsVal (ds ++ fs)) fs.length :: ·)
      | _ => (sqlLexAux f r).map (.num (digitsVal ds) 0 :: ·)
    else if c.isAlpha || c == '_' then
      let w := (c :: rest).takeWhile isWordChar
      (sqlLexAux f ((c :: rest).dropWhile isWordChar)).map (.word w :: ·)
    else if c == '\'' then
      let s := rest.takeWhile (· != '\'')
      match rest.dropWhile (· != '\'') with
      | _ :: r => (sqlLexAux f r).map (.str s :: ·)
      | [] => none
    else match rest with
      | c2 :: r2 =>
        if twoCharSyms.contains [c, c2] then (sqlLexAux f r2).map (.sym [c, c2] :: ·)
        else (sqlLexAux f rest).map (.sym [c] :: ·)
      | [] => some [.sym [c]]

def sqlLex (s : List Char) : Option (List STok) := sqlLexAux (s.length + 1) s

/-! ### SQLite: expression trees, parser -/
inductive SOp where
  | mul | div | mod | add | sub | lt | le | gt | ge | eq | ne | and | or | concat | regexp
  deriving DecidableEq, Repr

inductive SqlE where
  | col (i : Nat)
  | null
  | num (m e : Nat)
  | bool (b : Bool)
  | str (s : List Char)
  | bin (o : SOp) (l r : SqlE)
  | neg (e : SqlE)
  | not (e : SqlE)
  | isNull (e : SqlE)
  | notNull (e : SqlE)
  /-- `l IS r` / `l IS NOT r` with a right operand that is not the bare NULL -/
  | is (neg : Bool) (l r : SqlE)
  | between (x lo hi : SqlE)
  | fn1 (name : List Char) (a : SqlE)
  | fn2 (name : List Char) (a b : SqlE)
  | caseW (c v rest : SqlE)
  | caseElse (e : SqlE)
  deriving DecidableEq, Repr

/-- precedence of SQLite's binary operators (lang_expr.html, "Operators"), higher binds tighter; all left-associative -/
def SOp.prec : SOp → Nat
  | .or => 1 | .and => 2
  | .eq | .ne | .regexp => 4
  | .lt | .le | .gt | .ge => 5
  | .add | .sub => 7
  | .mul | .div | .mod => 8
  | .concat => 9

def precNot : Nat := 3
def precEqGroup : Nat := 4      -- IS NULL, IS NOT NULL, BETWEEN sit on the level of `=`
def precUnary : Nat := 10

def sopOf : STok → Option SOp
  | .sym ['*'] => some .mul | .sym ['/'] => some .div | .sym ['%'] => some .mod
  | .sym ['+'] => some .add | .sym ['-'] => some .sub
  | .sym ['<'] => some .lt | .sym ['<', '='] => some .le | .sym ['>'] => some .gt | .sym ['>', '='] => some .ge
  | .sym ['='] => some .eq | .sym ['=', '='] => some .eq | .sym ['<', '>'] => some .ne | .sym ['!', '='] => some .ne
  | .sym ['|', '|'] => some .concat
  | .word ['A', 'N', 'D'] => some .and | .word ['O', 'R'] => some .or | .word ['R', 'E', 'G', 'E', 'X', 'P'] => some .regexp
  | _ => none


def mkIs (neg : Bool) (l r : SqlE) : SqlE :=
  match r with
  | .null => if neg then .notNull l else .isNull l
  | r => .is neg l r

def colOfWord (w : List Char) : Option Nat :=
  match w with
  | [c] => if 'a' ≤ c && c ≤ 'z' then some (c.toNat - 'a'.toNat) else none
  | _ => none

mutual
def pExpr : Nat → Nat → List STok → Option (SqlE × List STok)
  | 0, _, _ => none
  | f + 1, minP, ts =>
    match ts with
    | .sym ['-'] :: rest => do
      let (e, r) ← pExpr f precUnary rest
      pLoop f minP (.neg e) r
    | .sym ['('] :: rest => do
      let (e, r) ← pExpr f 0 rest
      match r with
      | .sym [')'] :: r' => pLoop f minP e r'
      | _ => none
    | .num m e :: rest => pLoop f minP (.num m e) rest
    | .str s :: rest => pLoop f minP (.str s) rest
    | .word w :: rest =>
      if w = ['N', 'O', 'T'] then do
        let (e, r) ← pExpr f precNot rest
        pLoop f minP (.not e) r
      else if w = ['C', 'A', 'S', 'E'] then do
        let (e, r) ← pCase f rest
        pLoop f minP e r
      else if w = ['N', 'U', 'L', 'L'] then pLoop f minP .null rest
      else if w = ['t', 'r', 'u', 'e'] then pLoop f minP (.bool true) rest
      else if w = ['f', 'a', 'l', 's', 'e'] then pLoop f minP (.bool false) rest
      else match rest with
        | .sym ['('] :: r1 => do
          let (a, r2) ← pExpr f 0 r1
          match r2 with
          | .sym [')'] :: r3 => pLoop f minP (.fn1 w a) r3
          | .sym [','] :: r3 => do
            let (b, r4) ← pExpr f 0 r3
            match r4 with
            | .sym [')'] :: r5 => pLoop f minP (.fn2 w a b) r5
            | _ => none
          | _ => none
        | _ => match colOfWord w with
          | some i => pLoop f minP (.col i) rest
          | none => none
    | _ => none
def pLoop : Nat → Nat → SqlE → List STok → Option (SqlE × List STok)
  | 0, _, _, _ => none
  | f + 1, minP, lhs, ts =>
    match ts with
    | .word ['I', 'S'] :: .word ['N', 'O', 'T'] :: rest =>
      -- `IS NOT` is a binary operator on the level of `=`; `x IS NOT NULL` is the special case
      if minP ≤ precEqGroup then do
        let (rhs, r) ← pExpr f (precEqGroup + 1) rest
        pLoop f minP (mkIs true lhs rhs) r
      else some (lhs, ts)
    | .word ['I', 'S'] :: rest =>
      if minP ≤ precEqGroup then do
        let (rhs, r) ← pExpr f (precEqGroup + 1) rest
        pLoop f minP (mkIs false lhs rhs) r
      else some (lhs, ts)
    | .word ['B', 'E', 'T', 'W', 'E', 'E', 'N'] :: rest =>
      if minP ≤ precEqGroup then do
        let (lo, r) ← pExpr f (precEqGroup + 1) rest
        match r with
        | .word ['A', 'N', 'D'] :: r' => do
          let (hi, r2) ← pExpr f (precEqGroup + 1) r'
          pLoop f minP (.between lhs lo hi) r2
        | _ => none
      else some (lhs, ts)
    | t :: rest =>
      match sopOf t with
      | some o =>
        if minP ≤ o.prec then do
          let (rhs, r) ← pExpr f (o.prec + 1) rest
          pLoop f minP (.bin o lhs rhs) r
        else some (lhs, ts)
      | none => some (lhs, ts)
    | [] => some (lhs, [])
def pCase : Nat → List STok → Option (SqlE × List STok)
  | 0, _ => none
  | f + 1, ts =>
    match ts with
    | .word ['W', 'H', 'E', 'N'] :: rest => do
      let (c, r) ← pExpr f 0 rest
      match r with
      | .word ['T', 'H', 'E', 'N'] :: r1 => do
        let (v, r2) ← pExpr f 0 r1
        let (tl, r3) ← pCase f r2
        pure (.caseW c v tl, r3)
      | _ => none
    | .word ['E', 'L', 'S', 'E'] :: rest => do
      let (e, r) ← pExpr f 0 rest
      match r with
      | .word ['E', 'N', 'D'] :: r1 => pure (.caseElse e, r1)
      | _ => none
    | .word ['E', 'N', 'D'] :: rest => some (.caseElse .null, rest)
    | _ => none
end

def sqlParseToks (ts : List STok) : Option SqlE :=
  match pExpr (3 * ts.length + 3) 0 ts with
  | some (e, []) => some e
  | _ => none

def sqlParse (s : List Char) : Option SqlE := (sqlLex s).bind sqlParseToks

/-! ### SQLite: evaluation -/
abbrev SEnv := List SVal

def cmpOfS : SOp → Option Cmp
  | .eq => some .eq | .ne => some .ne | .lt => some .lt | .le => some .le | .gt => some .gt | .ge => some .ge
  | _ => none

def binS (o : SOp) (a b : SVal) : Option SVal :=
  match o with
  | .add => some (sAdd a b) | .sub => some (sSub a b) | .mul => some (sMul a b)
  | .div => some (sDiv a b) | .mod => some (sMod a b)
  | .eq => some (sCmp .eq a b) | .ne => some (sCmp .ne a b) | .lt => some (sCmp .lt a b) | .le => some (sCmp .le a b)
  | .gt => some (sCmp .gt a b) | .ge => some (sCmp .ge a b)
  | .and => some (sAnd a b) | .or => some (sOr a b)
  | .concat => none | .regexp => none

def fn1S (name : List Char) (a : SVal) : Option SVal :=
  if name = ['A', 'B', 'S'] then some (sAbs a)
  else if name = ['S', 'I', 'G', 'N'] then some (sSign a)
  else if name = ['R', 'O', 'U', 'N', 'D'] then some (sRound a)
  else if name = ['F', 'L', 'O', 'O', 'R'] then some (sFloor a)
  else none

def fn2S (name : List Char) (a b : SVal) : Option SVal :=
  if name = ['P', 'O', 'W'] then sPow a b
  else if name = ['C', 'O', 'A', 'L', 'E', 'S', 'C', 'E'] then some (sCoalesce a b)
  else none

def evalS (ρ : SEnv) : SqlE → Option SVal
  | .col i => some (ρ.getD i .null)
  | .null => some .null
  | .num m e => some (if e = 0 then .int m else .real ((m : Rat) / (tenPow e : Nat)))
  | .bool b => some (sBool b)
  | .str _ => none
  | .bin o l r => do binS o (← evalS ρ l) (← evalS ρ r)
  | .neg e => do pure (sNeg (← evalS ρ e))
  | .not e => do pure (sNot (← evalS ρ e))
  | .isNull e => do pure (sIsNull (← evalS ρ e))
  | .notNull e => do pure (sNot (sIsNull (← evalS ρ e)))
  | .is neg l r => do
    let a ← evalS ρ l
    let b ← evalS ρ r
    let same := if a.isNull || b.isNull then sBool (a.isNull && b.isNull) else sCmp .eq a b
    pure (if neg then sNot same else same)
  | .between x lo hi => do
    let vx ← evalS ρ x
    pure (sAnd (sCmp .ge vx (← evalS ρ lo)) (sCmp .le vx (← evalS ρ hi)))
  | .fn1 n a => do fn1S n (← evalS ρ a)
  | .fn2 n a b => do fn2S n (← evalS ρ a) (← evalS ρ b)
  | .caseW c v rest => do
    if (← evalS ρ c).truth = some true then evalS ρ v else evalS ρ rest
  | .caseElse e => evalS ρ e

/-! ### end to end: source tree → RQ → SQL text → SQLite's value -/
def envV (ρ : List (Option Int)) : Env := ρ.map fun | none => Value.null | some i => Value.num i
def envS (ρ : List (Option Int)) : SEnv := ρ.map fun | none => SVal.null | some i => SVal.int i

/-- the value SQLite computes for the SQL the compiler emits for `e`, on a row of integers / NULLs -/
def sqlValue (d : Dialect) (ρ : List (Option Int)) (e : SExpr) : Option Value := do
  let s ← sqlPrint d (staticEval (expand e))
  let q ← sqlParse s
  let v ← evalS (envS ρ) q
  pure v.toValue

end Model.SqlExpr
