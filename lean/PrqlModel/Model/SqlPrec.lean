/-
The SQL emitter seen as a "printer with a parenthesisation table" (instance of Model/PrecU), with every number taken from
`Gen/SqlOps` (gen_expr.rs strengths / associativities, std.sql.prql template annotations and `{x:N}` hole strengths), and
SQLite's documented operator table as the parser side.

Emitted infix operators: the `operator_from_name` ones (strength + associativity of `BinaryOperator`) and the templates of the
shape `{l[:N]} <sym> {r[:M]}` (div_f and mod of the root module, regex_search of sqlite). Emitted prefix operators: the
templates `-{l}` (neg) and `NOT {l}` (not). Everything else (functions, CASE, BETWEEN, literals, columns) is an atom.
-/
import PrqlModel.Model.PrecU
import PrqlModel.Model.SqlExpr
namespace Model.SqlPrec
open Gen.SqlOps Model.SqlExpr

/-- emitted infix operators -/
inductive EOp where
  | bin (b : SqlBin)
  | divF      -- `{l} / {r:12}`   (root module; the sqlite module wraps its own parentheses around it)
  | mod       -- `{l} % {r:12}`
  | regexp    -- `{text} REGEXP {pattern}` (sqlite module)
  deriving DecidableEq, Repr

inductive EU where
  | neg
  | not
  deriving DecidableEq, Repr

def EOp.all : List EOp := SqlBin.all.map .bin ++ [.divF, .mod, .regexp]
def EU.all : List EU := [.neg, .not]

/-- a template of the shape hole, text, hole: (left hole strength, text, right hole strength) -/
def infixShape (od : OpDef) : Option (Option Nat × List Char × Option Nat) :=
  match od.body with
  | some [.hole 0 a, .text s, .hole 1 b] => some (a, s, b)
  | _ => none

/-- a template of the shape text, hole -/
def prefixShape (od : OpDef) : Option (List Char × Option Nat) :=
  match od.body with
  | some [.text s, .hole 0 a] => some (s, a)
  | _ => none


/-- where the emitter's numbers for a template operator come from: dialect + std name -/
def EOp.def? : EOp → Option OpDef
  | .bin _ => none
  | .divF => lookupOp .generic ['s', 't', 'd', '.', 'd', 'i', 'v', '_', 'f']
  | .mod => lookupOp .generic ['s', 't', 'd', '.', 'm', 'o', 'd']
  | .regexp => lookupOp .sqlite ['s', 't', 'd', '.', 'r', 'e', 'g', 'e', 'x', '_', 's', 'e', 'a', 'r', 'c', 'h']

def EU.def? : EU → Option OpDef
  | .neg => lookupOp .generic ['s', 't', 'd', '.', 'n', 'e', 'g']
  | .not => lookupOp .generic ['s', 't', 'd', '.', 'n', 'o', 't']

def odStrength (od : Option OpDef) : Nat := (od.bind (·.strength)).getD defaultOperatorStrength

/-- binding strength the emitter attributes to an expression with this operator on top -/
def EOp.strength : EOp → Nat
  | .bin b => b.strength
  | o => odStrength o.def?

def EU.strength (u : EU) : Nat := odStrength u.def?

/-- strength required of the operand on one side, and the associativity passed to `needs_parentheses` -/
def EOp.required (o : EOp) (isLeft : Bool) : Nat × Assoc :=
  match o with
  | .bin b => (b.strength, b.assoc)
  | o =>
    match o.def?.bind infixShape with
    | some (a, _, b) => ((if isLeft then a else b).getD o.strength, .Both)
    | none => (o.strength, .Both)

def EU.required (u : EU) : Nat × Assoc :=
  match u.def?.bind prefixShape with
  | some (_, a) => (a.getD u.strength, .Both)
  | none => (u.strength, .Both)

abbrev ENode := PrecU.Node EOp EU

def nodeStrength : ENode → Nat
  | .b o => o.strength
  | .u u => u.strength

/-- the emitter's decision. Operands of infix templates are translated with `is_left = false` on BOTH sides
(translate_operator), operands of `operator_from_name` operators with their real side. -/
def npEmit : PrecU.Np EOp EU
  | .b (.bin b), isLeft, c => needsParens (nodeStrength c) isLeft b.strength b.assoc
  | .b o, isLeft, c => needsParens (nodeStrength c) false (o.required isLeft).1 (o.required isLeft).2
  | .u .neg, _, .u .neg => minusGuard || needsParens EU.neg.strength false EU.neg.required.1 EU.neg.required.2   -- text guard of translate_operator
  | .u u, _, c => needsParens (nodeStrength c) false u.required.1 u.required.2

/-- SQLite's operator table (lang_expr.html): the emitted operators placed on it -/
def EOp.sop : EOp → SOp
  | .bin .Multiply => .mul | .bin .Plus => .add | .bin .Minus => .sub
  | .bin .Eq => .eq | .bin .NotEq => .ne | .bin .Gt => .gt | .bin .Lt => .lt | .bin .GtEq => .ge | .bin .LtEq => .le
  | .bin .And => .and | .bin .Or => .or | .bin .StringConcat => .concat
  | .divF => .div | .mod => .mod | .regexp => .regexp

def sqliteTbl : PrecU.Tbl EOp EU where
  prec o := o.sop.prec
  rassoc _ := false
  uprec
    | .neg => precUnary
    | .not => precNot

/-- does SQLite regroup an operand the emitter leaves bare?  (the negation of the `Compat` clause for that triple) -/
def regroups (p : ENode) (isLeft : Bool) (c : ENode) : Bool :=
  match p, c with
  | .b p, .b c => if isLeft then !(decide (sqliteTbl.prec p ≤ sqliteTbl.prec c)) else !(decide (sqliteTbl.prec p < sqliteTbl.prec c))
  | .b p, .u u => if isLeft then !(decide (sqliteTbl.prec p < sqliteTbl.uprec u)) else !(decide (sqliteTbl.prec p + 1 ≤ sqliteTbl.uprec u))
  | .u u, .b c => !(decide (sqliteTbl.uprec u ≤ sqliteTbl.prec c))
  | .u u, .u v => !(decide (sqliteTbl.uprec u ≤ sqliteTbl.uprec v))

/-- the triples where the emitter omits parentheses that SQLite needs -/
def excluded (p : ENode) (isLeft : Bool) (c : ENode) : Bool := !npEmit p isLeft c && regroups p isLeft c

/-- the repaired decision: the emitter's, plus parentheses at the excluded triples -/
def npFix : PrecU.Np EOp EU := fun p l c => npEmit p l c || excluded p l c

def allNodes : List ENode := EOp.all.map .b ++ EU.all.map .u

def excludedList : List (ENode × Bool × ENode) :=
  allNodes.flatMap fun p => [true, false].flatMap fun l => allNodes.filterMap fun c =>
    if (match p with | .u _ => l == false | _ => true) && excluded p l c then some (p, l, c) else none

/-! ### the fragment of RQ expressions that is a tree over these operators -/
inductive SAtom where
  | col (i : Nat)
  | text (s : List Char)     -- SQL text of a sub-expression the emitter treats as an atom
  deriving DecidableEq, Repr

abbrev ETree := PrecU.Tree SAtom EOp EU

def eopOf (d : Dialect) (o : Gen.Pratt.BinOp) : Option EOp :=
  match sqlBinOf (Gen.Expand.binName o) with
  | some b => some (.bin b)
  | none =>
    match o, d with
    | .DivFloat, .generic => some .divF
    | .Mod, _ => some .mod
    | .RegexSearch, .sqlite => some .regexp
    | _, _ => none

/-- a sub-expression outside the operator fragment, if the emitter gives it the strength of an atom -/
def atomOf (d : Dialect) (e : Model.PExpr.PExpr) : Option ETree :=
  match translate d e with
  | some (s, k) => if otherExprStrength ≤ k then some (.leaf (.text s)) else none
  | none => none

/-- an atom whose text starts with `-`, as the operand of unary minus: the text guard of translate_operator wraps it, and a
parenthesised atom is an atom -/
def guardAtom : ETree → ETree
  | .leaf (.text s) => if minusGuard && s.head? == some '-' then .leaf (.text (['('] ++ s ++ [')'])) else .leaf (.text s)
  | t => t

open Model.PExpr in
/-- operator tree of an RQ expression; sub-expressions outside the operator fragment become text atoms -/
def toTree (d : Dialect) : PExpr → Option ETree
  | .col i => some (.leaf (.col i))
  | .un .Neg a => (toTree d a).map fun t => .un .neg (guardAtom t)
  | .un .Not a => (toTree d a).map (.un .not)
  | .bin o a b =>
    if isEqNe o && (a.isNullLit || b.isNullLit) then none   -- IS NULL has strength 5: outside this fragment
    else match eopOf d o with
      | some e => do pure (.bin e (← toTree d a) (← toTree d b))
      | none => atomOf d (.bin o a b)
  | e => atomOf d e

def eopText : EOp → List Char
  | .bin b => b.text
  | .divF => ['/'] | .mod => ['%'] | .regexp => ['R', 'E', 'G', 'E', 'X', 'P']

def tokText : PrecU.Tok SAtom EOp EU → List Char
  | .atom (.col i) => Model.Pratt.colName i
  | .atom (.text s) => s
  | .op o => eopText o
  | .pre .neg => ['-']
  | .pre .not => ['N', 'O', 'T']
  | .lp => ['(']
  | .rp => [')']

/-- SQLite tokens of the printed tree -/
def treeToks (np : PrecU.Np EOp EU) (t : ETree) : Option (List STok) :=
  ((PrecU.pr np t).mapM fun k => sqlLex (tokText k)).map List.flatten

end Model.SqlPrec
