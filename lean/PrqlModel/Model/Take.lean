/-
Mirror of `range_of_ranges` (sql/gen_expr.rs) and of the LIMIT/OFFSET arithmetic of
`translate_select_pipeline` (sql/gen_query.rs): several consecutive `take` ranges of one SELECT block are
folded into one range, which becomes `LIMIT end - (start-1) OFFSET start-1`.
Bounds are natural numbers ≥ 1 (enforced for `take` by the resolver); i64 overflow is not modelled.
-/
import PrqlModel.Lemmas.SpRel
namespace Model.Take
open Rel

abbrev Range := Option Nat × Option Nat

/-- the loop of `range_of_ranges` (current = none..none initially) -/
def foldRanges (rs : List Range) : Range :=
  rs.foldl (fun cur r => compose cur.1 cur.2 r.1 r.2) (none, none)

/-- the final normalisation: an empty intersection becomes `..0` -/
def normalize (r : Range) : Range :=
  match r with
  | (some s, some e) => if e < s then (none, some 0) else r
  | _ => r

def rangeOfRanges (rs : List Range) : Range := normalize (foldRanges rs)

/-- `(limit, offset)` as emitted: offset = start-1 (0 → no OFFSET clause), limit = end - offset -/
def limitOffsetOf (r : Range) : Option Nat × Nat :=
  let offset := (r.1.getD 1) - 1
  (r.2.map (fun e => e - offset), offset)

end Model.Take
