/-
Model of target / dialect selection.
Mirrors: `impl FromStr for Target` (prqlc/src/lib.rs), the `dialect` decision at the top of
`compile_query` (prqlc/src/sql/pq/gen_query.rs) and `sql::compile`'s use of `options.target`.
The dialect enumeration, its strum names and the default come from Gen/Dialects (regenerated).
-/
import PrqlModel.Gen.Dialects
namespace Model
open Gen

abbrev Str := List Char

/-- strum `EnumString` with `serialize_all = "lowercase"`: exact, case-sensitive match. -/
def dialectFromStr (s : Str) : Option Dialect :=
  Dialect.all.find? (fun d => Dialect.nameL d == s)

def sqlPrefix : Str := ['s', 'q', 'l', '.']
def anyName : Str := ['a', 'n', 'y']

/-- `str::strip_prefix` -/
def stripPrefix : Str → Str → Option Str
  | [], s => some s
  | _ :: _, [] => none
  | p :: ps, c :: cs => if p = c then stripPrefix ps cs else none

/-- `Target::from_str`: `ok none` is `Target::Sql(None)`; the error carries the offending text. -/
def targetFromStr (s : Str) : Except Str (Option Dialect) :=
  match stripPrefix sqlPrefix s with
  | some d =>
    if d = anyName then .ok none
    else match dialectFromStr d with
      | some x => .ok (some x)
      | none => .error s
  | none => .error s

/-- The decision at the top of `compile_query`: option first, then the header, then the default. -/
def chooseDialect (opt : Option Dialect) (header : Option Str) : Except Str Dialect :=
  match opt with
  | some d => .ok d
  | none =>
    match header with
    | none => .ok Dialect.default
    | some h =>
      match targetFromStr h with
      | .ok (some d) => .ok d
      | .ok none => .ok Dialect.default
      | .error e => .error e

/-- header text that names dialect `d` -/
def headerOf (d : Dialect) : Str := sqlPrefix ++ Dialect.nameL d

/-- The staged API in the model: SQL generation is *some* function of the query and the chosen
dialect; the whole of `sql::compile` sees the option and the header only through `chooseDialect`. -/
def compileWith {Rq Out : Type} (gen : Rq → Dialect → Out) (rq : Rq)
    (opt : Option Dialect) (header : Option Str) : Except Str Out :=
  match chooseDialect opt header with
  | .ok d => .ok (gen rq d)
  | .error e => .error e

end Model
