/-
Text positions: UTF-8 widths, byte <-> character offsets, line/column, and the span arithmetic of the
error paths.

Mirrors
 * `source[..byte].chars().count()`          prqlc-parser/src/lexer/mod.rs  `convert_lexer_error`
 * token-index range -> byte span             prqlc-parser/src/parser/mod.rs `parse_lr_to_pr` (`map_span` closure)
 * `span + 2`, `span_base.start + e.span()`   prqlc-parser/src/parser/expr.rs `interpolation`, parser/interpolation.rs `parse`
 * `compose_location`, the assert in `composed`   prqlc/src/error_message.rs
 * `Source::from` (line table) + `get_offset_line`   ariadne 0.5.1 src/source.rs
 * `SourceTree::new`, `source_ids`, `FileTreeCache::fetch`   prqlc/src/lib.rs, error_message.rs, parser.rs

Everything is total; a Rust panic (slice off a char boundary, `usize` underflow, the assert) is `none`.
Core Lean only.
-/
namespace Model.Text

abbrev Src := List Char

/-! ## UTF-8 -/

/-- number of bytes of the UTF-8 encoding of `c` (`char::len_utf8`) -/
def utf8Width (c : Char) : Nat :=
  if c.toNat < 0x80 then 1 else if c.toNat < 0x800 then 2 else if c.toNat < 0x10000 then 3 else 4

/-- `str::len` -/
def byteLen : Src → Nat
  | [] => 0
  | c :: cs => utf8Width c + byteLen cs

/-- `str.chars().count()` -/
abbrev charLen (s : Src) : Nat := s.length

/-- byte offset at which character number `k` starts -/
def byteOfChar (s : Src) (k : Nat) : Nat := byteLen (s.take k)

/-- `source[..b].chars().count()`. `none` = the slice panics in Rust (`b` is past the end or not on a
character boundary). -/
def charOfByte : Src → Nat → Option Nat
  | _, 0 => some 0
  | [], _ + 1 => none
  | c :: cs, b + 1 =>
    if b + 1 < utf8Width c then none
    else (charOfByte cs (b + 1 - utf8Width c)).map (· + 1)

/-- `str::is_char_boundary` (and within the string) -/
def isBoundary (s : Src) (b : Nat) : Bool := (charOfByte s b).isSome

/-- all of the first `n` characters are one byte wide -/
def asciiPrefix (s : Src) (n : Nat) : Prop := ∀ c ∈ s.take n, utf8Width c = 1

/-- step-counting twin of `charOfByte`: number of characters visited -/
def charOfByteSteps : Src → Nat → Nat
  | _, 0 => 0
  | [], _ + 1 => 0
  | c :: cs, b + 1 =>
    if b + 1 < utf8Width c then 1
    else 1 + charOfByteSteps cs (b + 1 - utf8Width c)

/-! ## Lines (ariadne `Source::from`, `get_offset_line`) -/

/-- ariadne's `SEPARATORS` -/
def isSep (c : Char) : Bool :=
  c == '\r' || c == '\n' || c == '\x0b' || c == '\x0c' || c == '\u0085' || c == '\u2028' || c == '\u2029'

/-- a new line of the line table starts right after the character `c` that is followed by `rest`:
`split_inclusive(SEPARATORS)` ends a piece after every separator, a `"\r"`-terminated piece swallows a
following `"\n"` piece, and no (empty) line is recorded after the last piece. -/
def breakAfter (c : Char) (rest : Src) : Bool :=
  isSep c && !(c == '\r' && rest.head? == some '\n') && !rest.isEmpty

/-- `brkAt s i`: a line of the table starts at character offset `i + 1` -/
def brkAt : Src → Nat → Bool
  | [], _ => false
  | c :: rest, 0 => breakAfter c rest
  | _ :: rest, i + 1 => brkAt rest i

/-- scan the first `off` characters keeping (line, column); `get_offset_line` finds by binary search the
last line whose offset is `≤ off` and subtracts that offset -/
def lineColAux : Src → Nat → Nat → Nat → Nat × Nat
  | _, 0, l, c => (l, c)
  | [], _ + 1, l, c => (l, c)
  | ch :: rest, off + 1, l, c =>
    if breakAfter ch rest then lineColAux rest off (l + 1) 0 else lineColAux rest off l (c + 1)

/-- `Source::get_offset_line(off)` as (line index, column), both 0-based, in characters -/
def lineCol (s : Src) (off : Nat) : Option (Nat × Nat) :=
  if off ≤ s.length then some (lineColAux s off 0 0) else none

/-- step-counting twin of `lineColAux` -/
def lineColSteps : Src → Nat → Nat
  | _, 0 => 0
  | [], _ + 1 => 0
  | _ :: rest, off + 1 => 1 + lineColSteps rest off

/-- the character offsets of line `l` (0-based) of the line table: `[start, stop)` including the terminator.
Used for "the rendered message quotes the line containing the span". -/
def lineStartsAux : Src → Nat → List Nat
  | [], _ => []
  | c :: rest, i => if breakAfter c rest then (i + 1) :: lineStartsAux rest (i + 1) else lineStartsAux rest (i + 1)

def lineStarts (s : Src) : List Nat := 0 :: lineStartsAux s 0

/-- the text of line `l` without trailing separators (what ariadne prints after ` N │ `) -/
def lineText (s : Src) (l : Nat) : Option Src :=
  match (lineStarts s)[l]? with
  | none => none
  | some a =>
    let b := ((lineStarts s)[l + 1]?).getD s.length
    let raw := (s.drop a).take (b - a)
    some (raw.reverse.dropWhile isSep).reverse

/-- declarative position: `(l, c)` is the line/column of character offset `off` -/
def IsPos (s : Src) (off : Nat) (lc : Nat × Nat) : Prop :=
  lc.2 ≤ off ∧
  (off - lc.2 = 0 ∨ brkAt s (off - lc.2 - 1) = true) ∧
  (∀ i, off - lc.2 ≤ i → i < off → brkAt s i = false) ∧
  lc.1 = ((List.range off).filter (brkAt s)).length

/-! ## Spans and the error paths -/

structure Span where
  start : Nat
  stop : Nat
  sourceId : Nat
  deriving DecidableEq, Repr

/-- `SourceLocation` -/
structure Loc where
  startLC : Nat × Nat
  endLC : Nat × Nat
  deriving DecidableEq, Repr

/-- `ErrorMessage::compose_location`: both ends through `get_offset_line`; reads the span as CHARACTER offsets -/
def composeLocation (s : Src) (sp : Span) : Option Loc :=
  match lineCol s sp.start, lineCol s sp.stop with
  | some a, some b => some ⟨a, b⟩
  | _, _ => none

/-- `ErrorMessages::composed` for one error whose source was found: `none` = the
`assert!(e.location.is_some(), "span … is out of bounds of the source")` fires. -/
def composedLocation (s : Src) (sp : Span) : Option Loc := composeLocation s sp

/-- outcome of `ErrorMessages::composed` for one error whose source text was found -/
inductive Composed where
  | ok (loc : Loc)
  /-- `assert!(e.location.is_some(), "span {:?} is out of bounds of the source (len = {})")` -/
  | panicOutOfBounds
  /-- ariadne `Label::new`: `assert!(span.start() <= span.end(), "Label start is after its end")` (in `compose_display`) -/
  | panicLabelOrder
  deriving DecidableEq, Repr

/-- `composed`: location first (assert), then the display (ariadne label) -/
def composed (s : Src) (sp : Span) : Composed :=
  match composeLocation s sp with
  | none => .panicOutOfBounds
  | some l => if sp.stop < sp.start then .panicLabelOrder else .ok l

/-- what the property demands of a span: ordered and inside the source, measured in characters -/
def SpanOk (s : Src) (sp : Span) : Prop := sp.start ≤ sp.stop ∧ sp.stop ≤ s.length

instance (s : Src) (sp : Span) : Decidable (SpanOk s sp) := by unfold SpanOk; exact inferInstance

/-- the reported location is the position of the span -/
def LocOk (s : Src) (sp : Span) (loc : Option Loc) : Prop :=
  ∃ l, loc = some l ∧ IsPos s sp.start l.startLC ∧ IsPos s sp.stop l.endLC

structure LexErr where
  reason : Src
  span : Span
  deriving DecidableEq, Repr

def strUnexpected : Src := ['u', 'n', 'e', 'x', 'p', 'e', 'c', 't', 'e', 'd', ' ']
def strEndOfInput : Src := ['e', 'n', 'd', ' ', 'o', 'f', ' ', 'i', 'n', 'p', 'u', 't']

/-- `convert_lexer_error` on the byte span `bs..be` chumsky reports. `none` = a Rust panic
(`source[..b]` off a boundary / out of range, or `char_end - char_start` underflow). -/
def convertLexerError (s : Src) (bs be sid : Nat) : Option LexErr :=
  match charOfByte s bs, charOfByte s be with
  | some cs, some ce =>
    if ce < cs then none
    else
      let found := (s.drop cs).take (ce - cs)
      let disp := if found.isEmpty then strEndOfInput else '\'' :: found ++ ['\'']
      some ⟨strUnexpected ++ disp, ⟨cs, ce, sid⟩⟩
  | _, _ => none

/-- a token as the parser sees it: its BYTE span in the source (`lr::Token.span`) -/
structure Tok where
  start : Nat
  stop : Nat
  deriving DecidableEq, Repr

/-- the `map_span` closure of `parse_lr_to_pr`: token-index range `i..j` -> span of first/last token -/
def mapSpan (toks : List Tok) (i j sid : Nat) : Span :=
  let start := ((toks[i]?).map (·.start)).getD 0
  let stop := ((toks[j - 1]?).map (·.stop)).getD start
  ⟨start, stop, sid⟩

/-- `impl Add<usize> for Span` -/
def Span.add (sp : Span) (n : Nat) : Span := ⟨sp.start + n, sp.stop + n, sp.sourceId⟩

/-- `interpolation::parse(string, span + 2)`: the base handed to the inner parser -/
def interpBase (tokSpan : Span) : Span := tokSpan.add 2

/-- rebasing of an inner span (offsets into the unescaped string value) in `interpolation::parse` -/
def interpRebase (base : Span) (innerStart innerStop : Nat) : Span :=
  ⟨base.start + innerStart, base.start + innerStop, base.sourceId⟩

/-- the text of an interpolated-string token: prefix letter, `nq` quotes, body, `nq` quotes -/
def interpToken (p q : Char) (nq : Nat) (body : Src) : Src :=
  p :: (List.replicate nq q ++ body ++ List.replicate nq q)

/-- characters between two byte offsets (`&source[a..b]`), `none` off a boundary -/
def sliceBytes (s : Src) (a b : Nat) : Option Src :=
  match charOfByte s a, charOfByte s b with
  | some ca, some cb => if ca ≤ cb then some ((s.drop ca).take (cb - ca)) else none
  | _, _ => none

/-- characters between two character offsets -/
def sliceChars (s : Src) (a b : Nat) : Src := (s.drop a).take (b - a)

/-! ## Several files (`SourceTree::new`, `parser::parse`, `FileTreeCache`) -/

/-- the list handed to `SourceTree::new` -/
structure Tree (P : Type) where
  files : List (P × Src)

variable {P : Type} [DecidableEq P]

/-- `source_ids`: `index + 1 ↦ path` -/
def Tree.sourceIds (t : Tree P) (id : Nat) : Option P :=
  if id = 0 then none else (t.files[id - 1]?).map (·.1)

/-- `sources`: a `HashMap` filled in order, a later insert of the same path wins -/
def Tree.sources (t : Tree P) (p : P) : Option Src :=
  (t.files.reverse.find? (fun f => f.1 = p)).map (·.2)

/-- the reversed map `path ↦ id` built in `parser::parse` (with distinct paths there is one candidate;
with a repeated path the `HashMap` keeps an unspecified one of them – the model takes the last) -/
def Tree.idOf (t : Tree P) (p : P) : Option Nat :=
  ((List.range t.files.length).reverse.find? (fun k => (t.files[k]?).map (·.1) = some p)).map (· + 1)

/-- the text `composed` looks a span up in: `source_ids[span.source_id]` then `cache.fetch(path)` -/
def Tree.textOf (t : Tree P) (id : Nat) : Option Src :=
  match t.sourceIds id with
  | some p => t.sources p
  | none => none

end Model.Text
