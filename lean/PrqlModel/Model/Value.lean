/-
Scalar values for the expression properties (C02).

* `Value`  – what a PRQL expression *means*: NULL or an exact rational number. Booleans are the numbers 0 / 1
  (the executable target has no boolean type; every truth test is "non-zero"). IEEE floats are not modelled:
  a real is an exact `Rat` (core Lean), used for `/`, float literals, `ROUND`, `* 1.0`, `POW`.
* `SVal`   – what SQLite computes: NULL, an INTEGER or a REAL (exact rational); the INTEGER / REAL distinction
  matters (`7 / 2 = 3`, `7 * 1.0 / 2 = 3.5`, `5.5 % 2 = 1.0`, `ROUND(3) = 3.0`).
Operations return `Option`: `none` = outside the modelled fragment (text, non-integral `%`, `0 ** -1`, huge exponents).
Trusted: that these tables are SQLite's behaviour (validated on every run against the real SQLite, tie C of C02).
-/
namespace Model.Val

inductive Value where
  | null
  | num (q : Rat)
  deriving DecidableEq, Repr

inductive SVal where
  | null
  | int (i : Int)
  | real (q : Rat)
  deriving DecidableEq, Repr

def ofBool (b : Bool) : Value := .num (if b then 1 else 0)
def ofBool3 : Option Bool → Value
  | none => .null
  | some b => ofBool b

def Value.truth : Value → Option Bool
  | .null => none
  | .num q => some (q != 0)

def Value.isNull : Value → Bool
  | .null => true
  | _ => false

def and3 : Option Bool → Option Bool → Option Bool
  | some false, _ => some false
  | _, some false => some false
  | some true, some true => some true
  | _, _ => none

def or3 : Option Bool → Option Bool → Option Bool
  | some true, _ => some true
  | _, some true => some true
  | some false, some false => some false
  | _, _ => none

def not3 : Option Bool → Option Bool
  | none => none
  | some b => some (!b)

/-- truncation toward zero -/
def truncQ (q : Rat) : Int := if 0 ≤ q then q.floor else q.ceil

def powNat (q : Rat) : Nat → Rat
  | 0 => 1
  | n + 1 => powNat q n * q

def maxExponent : Nat := 64

/-- `b ** e` for an integral exponent of small magnitude and a base below 2^64; `none` otherwise -/
def powQ (b e : Rat) : Option Rat :=
  if e.isInt && e.num.natAbs ≤ maxExponent && b.num.natAbs < 18446744073709551616 && b.den < 18446744073709551616 then
    if 0 ≤ e.num then some (powNat b e.num.natAbs)
    else if b = 0 then none else some (1 / powNat b e.num.natAbs)
  else none

/-- lift a total binary operation on numbers; NULL is absorbing -/
def lift2 (f : Rat → Rat → Option Value) : Value → Value → Option Value
  | .num a, .num b => f a b
  | _, _ => some .null

inductive Cmp where
  | eq | ne | lt | le | gt | ge
  deriving DecidableEq, Repr

def Cmp.test (c : Cmp) (a b : Rat) : Bool :=
  match c with
  | .eq => a = b
  | .ne => a ≠ b
  | .lt => a < b
  | .le => a ≤ b
  | .gt => b < a
  | .ge => b ≤ a

/-! ### documented operations -/
def vAdd := lift2 fun a b => some (.num (a + b))
def vSub := lift2 fun a b => some (.num (a - b))
def vMul := lift2 fun a b => some (.num (a * b))
/-- `/` is real division; a zero divisor yields NULL (the book is silent; SQL convention, stated as an assumption) -/
def vDivF := lift2 fun a b => some (if b = 0 then .null else .num (a / b))
/-- `//` truncates toward zero -/
def vDivI := lift2 fun a b => some (if b = 0 then .null else .num (truncQ (a / b)))
/-- `%` on integers: sign of the dividend; not defined here for non-integral operands -/
def vMod := lift2 fun a b =>
  if a.isInt && b.isInt then some (if b = 0 then .null else .num (Int.tmod a.num b.num)) else none
def vPow := lift2 fun b e => (powQ b e).map .num
def vCmp (c : Cmp) := lift2 fun a b => some (ofBool (c.test a b))
def vAnd (a b : Value) : Value := ofBool3 (and3 a.truth b.truth)
def vOr (a b : Value) : Value := ofBool3 (or3 a.truth b.truth)
def vNot (a : Value) : Value := ofBool3 (not3 a.truth)
def vNeg : Value → Value
  | .null => .null
  | .num q => .num (-q)
def vCoalesce (a b : Value) : Value := if a.isNull then b else a
def vIsNull (a : Value) : Value := ofBool a.isNull
def vAbs : Value → Value
  | .null => .null
  | .num q => .num (if 0 ≤ q then q else -q)

/-! ### SQLite operations -/
def SVal.toValue : SVal → Value
  | .null => .null
  | .int i => .num i
  | .real q => .num q

def SVal.isNull : SVal → Bool
  | .null => true
  | _ => false

def SVal.rat? : SVal → Option Rat
  | .null => none
  | .int i => some i
  | .real q => some q

def SVal.truth (v : SVal) : Option Bool := v.rat?.map (· != 0)

def sBool (b : Bool) : SVal := .int (if b then 1 else 0)
def sBool3 : Option Bool → SVal
  | none => .null
  | some b => sBool b

/-- arithmetic: INTEGER op INTEGER stays INTEGER, anything with a REAL is REAL -/
def sArith (fi : Int → Int → Int) (fq : Rat → Rat → Rat) : SVal → SVal → SVal
  | .int a, .int b => .int (fi a b)
  | .int a, .real b => .real (fq a b)
  | .real a, .int b => .real (fq a b)
  | .real a, .real b => .real (fq a b)
  | _, _ => .null

def sAdd := sArith (· + ·) (· + ·)
def sSub := sArith (· - ·) (· - ·)
def sMul := sArith (· * ·) (· * ·)
def sDiv : SVal → SVal → SVal
  | .int a, .int b => if b = 0 then .null else .int (Int.tdiv a b)
  | .int a, .real b => if b = 0 then .null else .real (a / b)
  | .real a, .int b => if b = 0 then .null else .real (a / b)
  | .real a, .real b => if b = 0 then .null else .real (a / b)
  | _, _ => .null
/-- `%` casts both operands to INTEGER; the result is REAL if an operand was -/
def sMod : SVal → SVal → SVal
  | .int a, .int b => if b = 0 then .null else .int (Int.tmod a b)
  | .int a, .real b => if truncQ b = 0 then .null else .real (Int.tmod a (truncQ b))
  | .real a, .int b => if b = 0 then .null else .real (Int.tmod (truncQ a) b)
  | .real a, .real b => if truncQ b = 0 then .null else .real (Int.tmod (truncQ a) (truncQ b))
  | _, _ => .null
def sCmp (c : Cmp) (a b : SVal) : SVal :=
  match a.rat?, b.rat? with
  | some x, some y => sBool (c.test x y)
  | _, _ => .null
def sAnd (a b : SVal) : SVal := sBool3 (and3 a.truth b.truth)
def sOr (a b : SVal) : SVal := sBool3 (or3 a.truth b.truth)
def sNot (a : SVal) : SVal := sBool3 (not3 a.truth)
def sNeg : SVal → SVal
  | .null => .null
  | .int i => .int (-i)
  | .real q => .real (-q)
def sIsNull (a : SVal) : SVal := sBool a.isNull
def sAbs : SVal → SVal
  | .null => .null
  | .int i => .int i.natAbs
  | .real q => .real (if 0 ≤ q then q else -q)
def sSign (a : SVal) : SVal :=
  match a.rat? with
  | none => .null
  | some q => .int (if q < 0 then -1 else if q = 0 then 0 else 1)
/-- one-argument `ROUND`: REAL result, halves away from zero -/
def roundQ (q : Rat) : Int := if 0 ≤ q then (q + 1/2).floor else (q - 1/2).ceil
def sRound (a : SVal) : SVal :=
  match a.rat? with
  | none => .null
  | some q => .real (roundQ q)
def sFloor : SVal → SVal
  | .null => .null
  | .int i => .int i
  | .real q => .real q.floor
/-- `POW` always yields a REAL -/
def sPow (b e : SVal) : Option SVal :=
  match b.rat?, e.rat? with
  | some x, some y => (powQ x y).map .real
  | _, _ => some .null
def sCoalesce (a b : SVal) : SVal := if a.isNull then b else a

end Model.Val
