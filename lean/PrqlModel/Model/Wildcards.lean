/-
Mirror of `translate_wildcards` (sql/gen_projection.rs): turns the column ids of a projection into the
select list with SQL stars. An RQ wildcard `w` of relation instance `r` means "the columns of `r` we have no
knowledge of"; the SQL star `r.*` shows ALL columns of `r` - the known ones (`original_cids r`) included. So
 * a known column requested right before / anywhere after the star is shown by the star and not repeated,
 * a known column that was not requested (or is shown on its own elsewhere) is put into the exclusion set of
   the star (`SELECT * EXCLUDE (..)`).
The code keeps one pending star `(cid, in_star)` (a HashSet), a map `excluded` and the output vector; here
sets are duplicate-free lists, the map is an association list (newest first = `HashMap::insert` overwrites),
and the output is kept reversed (`outRev`, head = last pushed) so that the pop-loop is structural.
-/
namespace Model.Wildcards

structure Env where
  /-- `some r` iff the column declaration of the cid is `RelationColumn(r, _, Wildcard)` -/
  wild : Nat → Option Nat
  /-- `relation_instances[r].original_cids` -/
  orig : Nat → List Nat

/-- duplicate-free version of a list (the code collects `original_cids` into a HashSet) -/
def nub : List Nat → List Nat
  | [] => []
  | x :: xs => if x ∈ xs then nub xs else x :: nub xs

abbrev Excl := List (Nat × List Nat)

/-- the exclusion set of a star (`excluded.get(&cid)`, none = nothing excluded) -/
def exOf (E : Excl) (w : Nat) : List Nat := (E.lookup w).getD []

structure St where
  star : Option (Nat × List Nat)
  excl : Excl
  outRev : List Nat

/-- `exclude(&mut star, &mut excluded)`: the pending star's remaining set becomes its exclusion (if not empty) -/
def flush (star : Option (Nat × List Nat)) (E : Excl) : Excl :=
  match star with
  | none => E
  | some (w, S) => if S.isEmpty then E else (w, S) :: E

/-- "remove preceding cols that will be included with this star" -/
def popLoop : List Nat → List Nat → List Nat × List Nat
  | [], S => ([], S)
  | p :: ps, S => if p ∈ S then popLoop ps (S.erase p) else (p :: ps, S)

def step (env : Env) (st : St) (cid : Nat) : St :=
  let hit := match st.star with
    | some (_, S) => decide (cid ∈ S)
    | none => false
  let star1 := st.star.map fun p => (p.1, p.2.erase cid)
  if hit then { st with star := star1 }
  else match env.wild cid with
    | some r =>
      let E := flush star1 st.excl
      let po := popLoop st.outRev ((nub (env.orig r)).erase cid)
      { star := some (cid, po.2), excl := E, outRev := cid :: po.1 }
    | none => { st with star := star1, outRev := cid :: st.outRev }

def init : St := ⟨none, [], []⟩

def runSt (env : Env) (cols : List Nat) : St := cols.foldl (step env) init

/-- `(output, excluded)` -/
def run (env : Env) (cols : List Nat) : List Nat × Excl :=
  let st := runSt env cols
  (st.outRev.reverse, flush st.star st.excl)

/-- what one select item shows, as column ids: a plain column itself; a star its wildcard plus every known
column of the instance that is not excluded -/
def shownOne (env : Env) (E : Excl) (c : Nat) : List Nat :=
  match env.wild c with
  | none => [c]
  | some r => c :: ((nub (env.orig r)).erase c).filter (fun x => !decide (x ∈ exOf E c))

def shown (env : Env) (E : Excl) (out : List Nat) : List Nat := out.flatMap (shownOne env E)

/-- what the EMITTED select list shows: `translate_select_items` takes a star's exclusion set out of the map
(`excluded.remove(&cid)`), so only the first occurrence of a star in the output carries its EXCLUDE list -/
def shownEmit (env : Env) : Excl → List Nat → List Nat
  | _, [] => []
  | E, c :: out =>
    shownOne env E c ++ shownEmit env (if (env.wild c).isSome then E.filter (fun p => p.1 != c) else E) out

/-- canonical text of the exclusion map: keys ascending (newest entry per key), sets ascending -/
def insertSorted (x : Nat) : List Nat → List Nat
  | [] => [x]
  | y :: ys => if x ≤ y then x :: y :: ys else y :: insertSorted x ys
def sortNat (l : List Nat) : List Nat := l.foldr insertSorted []

def exclCanon (E : Excl) : List (Nat × List Nat) :=
  (sortNat (nub (E.map (·.1)))).map fun k => (k, sortNat (exOf E k))

end Model.Wildcards
