/-
Mirror of the window machinery:
 * `windowParams`  – how the `window` transform's parameters become (kind, start, end)
                     (semantic/resolver/transforms.rs, "window" arm): expanding > rolling > rows > range > none;
 * `toSqlFrame`    – `try_into_window_frame` (sql/gen_expr.rs): sign of a bound → PRECEDING / CURRENT ROW / FOLLOWING;
 * `emitFrame`     – `translate_windowed`: the frame is written only if the function supports frames
                     (annotation `window_frame=true` in std.sql.prql) and it differs from `defaultFrame`;
 * the meaning of an SQL ROWS frame (`sqlRowsFrame`) and of SQL's implicit frame.
-/
import PrqlModel.Model.Rel
namespace Model.Window
open Model.Rel

inductive Kind | rows | range
  deriving DecidableEq, Repr

abbrev IRange := Option Int × Option Int

/-- `range_is_empty`: both bounds given and start > end (this is also how "parameter not given" is encoded: 0..-1) -/
def rangeIsEmpty (r : IRange) : Bool :=
  match r with
  | (some s, some e) => decide (s > e)
  | _ => false

def windowParams (expanding : Bool) (rolling : Int) (rows range : IRange) : Kind × IRange :=
  if expanding then (.rows, (none, some 0))
  else if rolling > 0 then (.rows, (some (-rolling + 1), some 0))
  else if !rangeIsEmpty rows then (.rows, rows)
  else if !rangeIsEmpty range then (.range, range)
  else (.rows, (none, none))

inductive Bound
  | unboundedPreceding | preceding (n : Nat) | currentRow | following (n : Nat) | unboundedFollowing
  deriving DecidableEq, Repr

def parseBound (i : Int) : Bound :=
  if i = 0 then .currentRow else if i > 0 then .following i.toNat else .preceding (-i).toNat

def toSqlFrame (r : IRange) : Bound × Bound :=
  ((match r.1 with | some s => parseBound s | none => .unboundedPreceding),
   (match r.2 with | some e => parseBound e | none => .unboundedFollowing))

/-- `default_frame` of translate_windowed -/
def defaultFrame (sortEmpty : Bool) : Kind × IRange :=
  if sortEmpty then (.rows, (none, none)) else (.range, (none, some 0))

/-- the frame clause written into OVER(…), if any -/
def emitFrame (supportsFrame sortEmpty : Bool) (f : Kind × IRange) : Option (Kind × Bound × Bound) :=
  if supportsFrame && f != defaultFrame sortEmpty then some (f.1, toSqlFrame f.2) else none

/-- offset of a bound relative to the current row (none = unbounded on that side) -/
def Bound.offset : Bound → Option Int
  | .unboundedPreceding | .unboundedFollowing => none
  | .preceding n => some (-(n : Int))
  | .currentRow => some 0
  | .following n => some n

/-- meaning of `ROWS BETWEEN b1 AND b2` for row `i` of its ordered partition -/
def sqlRowsFrame (b : Bound × Bound) (i : Nat) (part : List Row) : List Row :=
  frameSlice (some { lo := b.1.offset, hi := b.2.offset }) i part

/-- SQL's implicit frame: without ORDER BY the whole partition; with ORDER BY everything up to and
including the peers of the current row (RANGE UNBOUNDED PRECEDING .. CURRENT ROW) -/
def sqlImplicitFrame (order : List SortKey) (i : Nat) (part : List Row) : List Row :=
  if order.isEmpty then part
  else
    let cur := part.getD i []
    part.filter fun r => cmpKeys order r cur != .gt

end Model.Window
