/-
C01  Compiled SQL returns the relation the PRQL pipeline denotes.

What is proved here (for all inputs, by induction):
 * the split decision of the back end, over the table REGENERATED from anchor.rs, never lets two
   transforms into one SELECT block whose order contradicts SQL's clause order (`table_sound`,
   `split_respects_clause_order`);
 * for the block normal form WHERE → GROUP BY/aggregates → HAVING → projection → ORDER BY → LIMIT/OFFSET,
   clause-order evaluation of the assembled block equals pipeline-order evaluation of every admissible
   segment (`assemble_correct`, `assemble_correct_agg`), on the integer-valued core of Lemmas/Sp*.lean;
 * THE SAME ON THE REFERENCE SEMANTICS `Model.Rel` (the semantics the differential run uses, with NULLs, text,
   booleans, three-valued conditions, positional rows): `assemble_correct_rel` (rows equal as lists),
   `assemble_correct_rel_perm` (a sort dropped by a following aggregate: rows equal as multisets, and as lists
   again after the next sort without ties), `assemble_correct_rel_of_split` (the shape hypothesis is the split
   table itself), Lemmas/RelBlock*.lean;
 * the glue at a split: rewriting column ids through an injective redirect map and restricting rows
   to the columns read commute with evaluation (`split_glue_rename`, `split_glue_restrict`);
 * edge cases of the documented semantics on the reference model `Model.Rel` (aggregate over the empty
   relation yields one row, group over the empty relation none, count counts nulls, empty sum is 0).
The reference semantics `Model.Rel.evalSrc` is the oracle against which the real compiler + SQLite are
compared on generated programs and databases (tools/props/c01.py).
-/
import PrqlModel.Lemmas.Split
import PrqlModel.Lemmas.SpAgg
import PrqlModel.Lemmas.SpRename
import PrqlModel.Model.Rel
import PrqlModel.Lemmas.RelBlock
import PrqlModel.Lemmas.RelBlockPerm
import PrqlModel.Lemmas.RelBlockSplit
import PrqlModel.Lemmas.Reorder
import PrqlModel.Lemmas.Preprocess
import PrqlModel.Lemmas.Anchor
import PrqlModel.Lemmas.SelectPipe
import PrqlModel.Lemmas.AggPerm
namespace Props.C01
open Gen.Split Model.Split Lemmas.Split

/-- T1a (partial): the regenerated split table contains every pair that SQL's clause order forbids in one
block, except the pairs of `knownGap` -/
theorem table_sound_partial : tableSoundB = true := by decide

/-- T1a (full statement) is FALSE on the unchanged tree: a `Take` followed by a `Distinct`/`DistinctOn` is kept in
one SELECT although SQL applies DISTINCT before LIMIT (`take 2 | group {a} (take 1)` → `SELECT DISTINCT a … LIMIT 2`) -/
theorem table_sound_full_counterexample : tableSoundFullB = false := by decide
theorem take_distinct_not_split : atomicSuffix [.From, .Take, .Distinct] = [.From, .Take, .Distinct] := by decide

/-- T1b: in the atomic segment the scan keeps, no transform is followed by one it must be split from -/
theorem split_respects_clause_order (p pre mid post : List Kind) (a b : Kind)
    (h : atomicSuffix p = pre ++ a :: (mid ++ b :: post)) (hb : recorded b = true) (hk : knownGap a b = false) :
    mustSplit a b ((recordedOf (mid ++ b :: post)).contains .Aggregate) = false := by
  have hc : Compatible (atomicSuffix p) :=
    scan_compatible p.reverse [] [] rfl (by intro pre a post h; cases pre <;> simp at h)
  have hs := hc pre a (mid ++ b :: post) h
  have hbm : b ∈ recordedOf (mid ++ b :: post) := by
    simp [recordedOf, hb]
  cases hm : mustSplit a b ((recordedOf (mid ++ b :: post)).contains .Aggregate) with
  | false => rfl
  | true =>
    exfalso
    rcases table_sound_of_B table_sound_partial a b _ hm hk hb with hany | hin
    · simp only [splitRequired, hany, if_true] at hs
      have : (recordedOf (mid ++ b :: post)).isEmpty = false := by
        cases hr : recordedOf (mid ++ b :: post) with
        | nil => rw [hr] at hbm; cases hbm
        | cons _ _ => rfl
      simp [this] at hs
    · unfold splitRequired at hs
      split at hs
      · next hany =>
        have : (recordedOf (mid ++ b :: post)).isEmpty = false := by
          cases hr : recordedOf (mid ++ b :: post) with
          | nil => rw [hr] at hbm; cases hbm
          | cons _ _ => rfl
        simp [this] at hs
      · have : ((splitSet a ((recordedOf (mid ++ b :: post)).contains .Aggregate)).any
            fun x => (recordedOf (mid ++ b :: post)).contains x) = true := by
          apply List.any_eq_true.mpr
          exact ⟨b, hin, by simpa using hbm⟩
        rw [this] at hs; cases hs

/-- the kept segment is a suffix of the pipeline (nothing is reordered or dropped by the scan) -/
theorem atomic_is_suffix (p : List Kind) : ∃ pre, p = pre ++ atomicSuffix p := by
  obtain ⟨pre, h1, h2⟩ := scan_suffix p.reverse [] []
  obtain ⟨t, ht⟩ := h2
  refine ⟨t.reverse, ?_⟩
  have hp : p = (pre.reverse ++ t).reverse := by rw [ht]; simp
  have h3 : atomicSuffix p = pre := by simpa [atomicSuffix] using h1
  rw [h3]
  simpa using hp

-- non-vacuity: `from | filter | derive | sort | take | filter` is cut before the last filter's take
example : atomicSuffix [.From, .Filter, .Compute, .Sort, .Take, .Filter] = [.Filter] := by decide
example : atomicSuffix [.From, .Compute, .Filter, .Aggregate, .Filter, .Sort, .Take]
    = [.From, .Compute, .Filter, .Aggregate, .Filter, .Sort, .Take] := by decide

/-- T2: one SELECT block in clause order = the segment in pipeline order (filter/compute/sort/take core) -/
theorem assemble_correct (seg : List Seg.Tr) (t : List Seg.Row) (h : Seg.AdmSeg {} t seg) :
    Seg.evalBlock (Seg.assemble seg) t = Seg.evalSeg seg t :=
  Seg.assemble_correct seg t h

/-- T2': the same with GROUP BY / aggregates / HAVING: WHERE → GROUP BY → HAVING → ORDER BY → LIMIT -/
theorem assemble_correct_agg (seg : List Agg.Tr2) (b : Agg.Block2) (t : List Seg.Row)
    (h : Agg.AdmSeg2 b t seg) :
    seg.foldl (fun acc tr => Agg.step2 tr acc) (Agg.evalBlock2 b t) = Agg.evalBlock2 (seg.foldl Agg.push2 b) t :=
  Agg.assemble_correct2 seg b t h

/-! ### T2 on the reference semantics `Model.Rel` -/
section RelBlock
open Model.Rel Lemmas.RelBlock

/-- a table with three columns (int, int or NULL, text) and a segment
`filter a<5 | derive x=a+b | sort {-b} | group {c} (aggregate {sum x, min b}) | filter sum>1 | sort {c} | take 1..1` -/
def exTable : Table := { rows :=
  [[.int 1, .int 10, .str ['x']], [.int 2, .int 7, .str ['y']], [.int 9, .int 3, .str ['x']],
   [.int 3, .int 4, .str ['x']], [.int 4, .null, .str ['y']]] }
def exSegStrict : List Tr :=
  [.filter (.bin .lt (.col 0) (.lit (.int 5))), .sort [(.col 1, false)], .derive [.bin .add (.col 0) (.col 1)],
   .sort [(.col 3, true)], .select [.col 2, .col 3], .take (some 2) (some 3), .take none (some 1)]
def exSegAgg : List Tr :=
  [.filter (.bin .lt (.col 0) (.lit (.int 5))), .derive [.bin .add (.col 0) (.col 1)],
   .groupAgg [2] [(.sum, .col 3), (.min, .col 1)], .filter (.bin .gt (.col 1) (.lit (.int 1))),
   .sort [(.col 0, true)], .take (some 1) (some 1)]
def exSegDrop : List Tr :=
  [.filter (.bin .lt (.col 0) (.lit (.int 5))), .sort [(.col 1, true)],
   .groupAgg [2] [(.sum, .col 0), (.min, .col 1)], .filter (.bin .gt (.col 1) (.lit (.int 1))),
   .sort [(.col 0, false)], .take (some 1) (some 1)]

/-- T2-rel (one step): a `Model.Rel.step` on a table holding the block's rows = the block with the transform pushed -/
theorem step_push_rel (resolve : Src → Table) (b : Block) (t : List Row) (tr : Tr) (T : Table)
    (hT : T.rows = evalBlock b t) (hwf : b.Wf) (h : Adm b t tr) :
    (step resolve T tr).rows = evalBlock (push b tr) t :=
  step_push_rows resolve b t tr T hT hwf h

/-- T2-rel: for every table with `w` columns and every admissible segment of
filter / derive / select / sort / take / aggregate / group-aggregate, the rows the pipeline denotes are the rows of
the ONE assembled SELECT block evaluated in SQL clause order
(WHERE → GROUP BY/aggregates → HAVING → ORDER BY → projection → LIMIT/OFFSET, computed columns inlined) -/
theorem assemble_correct_rel (resolve : Src → Table) (w : Nat) (seg : List Tr) (T : Table)
    (hw : ∀ r ∈ T.rows, r.length = w) (h : AdmSeg (Block.init w) T.rows seg) :
    (seg.foldl (step resolve) T).rows = evalBlock (assemble w seg) T.rows :=
  Lemmas.RelBlock.assemble_correct resolve w seg T hw h

example : (∀ r ∈ exTable.rows, r.length = 3) ∧ AdmSeg (Block.init 3) exTable.rows exSegStrict := by
  refine ⟨by decide, rfl, ⟨rfl, Or.inl rfl⟩, trivial, ⟨rfl, Or.inr (by decide)⟩, trivial, ?_, ?_, trivial⟩
  · intro a h; cases h; decide
  · intro a h; cases h
example : evalBlock (assemble 3 exSegStrict) exTable.rows = [[.str ['y'], .int 9]] := by decide

example : (∀ r ∈ exTable.rows, r.length = 3) ∧ AdmSeg (Block.init 3) exTable.rows exSegAgg := by
  refine ⟨by decide, rfl, trivial, ⟨rfl, rfl, rfl⟩, rfl, ⟨rfl, Or.inl rfl⟩, ?_, trivial⟩
  intro a h; cases h; decide
example : evalBlock (assemble 3 exSegAgg) exTable.rows = [[.str ['y'], .int 9, .int 7]] := by decide

/-- T2-rel for a whole query of the differential run: `Model.Rel.evalSrc` of a program that is one pipeline over a
base table, with an admissible segment, is ONE SELECT block over that table -/
theorem evalSrc_is_one_block (db : Db) (p : Pipe) (w : Nat)
    (hw : ∀ r ∈ (resolveSrc db [] p.src).rows, r.length = w)
    (h : AdmSeg (Block.init w) (resolveSrc db [] p.src).rows p.trs) :
    (evalSrc db { lets := [], main := p }).rows = evalBlock (assemble w p.trs) (resolveSrc db [] p.src).rows :=
  evalSrc_assemble db p w hw h

example : (evalSrc [exTable.rows] { lets := [], main := { src := .base 0, trs := exSegAgg } }).rows
    = [[.str ['y'], .int 9, .int 7]] := by decide

/-- T2-rel with a sort dropped by an aggregate (`sort | group (aggregate)`; the compiler does not emit that sort):
the rows agree as multisets, and as lists when the segment re-sorts without ties afterwards -/
theorem assemble_correct_rel_perm (resolve : Src → Table) (w : Nat) (seg : List Tr) (T : Table)
    (hw : ∀ r ∈ T.rows, r.length = w) (h : AdmSegP true (Block.init w) T.rows seg) :
    (seg.foldl (step resolve) T).rows.Perm (evalBlock (assemble w seg) T.rows) ∧
    (finalEx true (Block.init w) seg = true →
      (seg.foldl (step resolve) T).rows = evalBlock (assemble w seg) T.rows) :=
  Lemmas.RelBlock.assemble_correct_perm resolve w seg T hw h

example : (∀ r ∈ exTable.rows, r.length = 3) ∧ AdmSegP true (Block.init 3) exTable.rows exSegDrop ∧
    finalEx true (Block.init 3) exSegDrop = true := by
  refine ⟨by decide, ⟨rfl, ⟨rfl, Or.inl ⟨rfl, rfl⟩⟩, ⟨rfl, rfl, rfl, Or.inr ?_⟩, rfl,
    ⟨rfl, Or.inr (by decide)⟩, ⟨rfl, ?_⟩, trivial⟩, by decide⟩
  · intro a ha hm
    simp only [List.mem_cons, List.not_mem_nil, or_false] at ha
    rcases ha with rfl | rfl
    · simp at hm
    · intro x hx y hy; revert x y; decide
  · intro a h; cases h; decide

/-- T2-rel with the split table as the hypothesis on the shape: a segment of supported transforms in which no
transform is followed by one it must be split from (`mustSplit`) needs only the DATA conditions
(take bounds ≥ 1, no ties for a sort replacing a sort, no sort dropped by an aggregate) -/
theorem assemble_correct_rel_of_split (resolve : Src → Table) (w : Nat) (seg : List Tr) (T : Table)
    (hw : ∀ r ∈ T.rows, r.length = w) (hs : ∀ tr ∈ seg, supported tr = true) (hns : NoSplit seg)
    (hd : DataAdmSeg (Block.init w) T.rows seg) :
    (seg.foldl (step resolve) T).rows = evalBlock (assemble w seg) T.rows :=
  assemble_correct_of_noSplit resolve w seg T hw hs hns hd

example : (∀ tr ∈ exSegAgg, supported tr = true) ∧ NoSplit exSegAgg := by
  refine ⟨by decide, ?_⟩
  simp [NoSplit, exSegAgg, kindOf, Model.Split.mustSplit]

/-- an aggregate does not depend on the order of its input rows (why the sort may be dropped); for min/max the
column must not hold "equal but different" values (`true` and `1`) -/
theorem aggregate_order_independent_rel (f : AggFn) {l1 l2 : List Value} (hp : l1.Perm l2)
    (hf : (f = .min ∨ f = .max) → Lemmas.AggPerm.ValAntisym l1) : aggVal f l1 = aggVal f l2 :=
  Lemmas.AggPerm.aggVal_perm f hp hf

example : Lemmas.AggPerm.ValAntisym [.int 3, .null, .str ['a'], .int 3, .int 5] := by
  intro x hx y hy; revert x y; decide
/-- the hypothesis is needed: `min` over a column mixing booleans and integers depends on the order -/
example : aggVal .min [.bool true, .int 1] ≠ aggVal .min [.int 1, .bool true] := by decide


/-! ### T2-chain: any cut of the pipeline into SELECT blocks (sub-queries / CTEs) denotes the same rows -/

/-- a chain of blocks: each element is (width of its input rows, its segment); every segment is admissible as ONE block
over the rows the pipeline has produced so far -/
def ChainAdm (resolve : Src → Table) : Table → List (Nat × List Tr) → Prop
  | _, [] => True
  | T, (w, seg) :: rest =>
    (∀ r ∈ T.rows, r.length = w) ∧ AdmSeg (Block.init w) T.rows seg ∧ ChainAdm resolve (seg.foldl (step resolve) T) rest

/-- the chain evaluated the SQL way: every block is one SELECT (clause order) over the result of the previous one -/
def evalChain : List Row → List (Nat × List Tr) → List Row
  | rows, [] => rows
  | rows, (w, seg) :: rest => evalChain (evalBlock (assemble w seg) rows) rest

/-- however the pipeline is cut into admissible blocks - one SELECT, or any number of nested sub-queries / CTEs - the
chain of SELECT blocks returns exactly the rows the transforms, applied in pipeline order, denote -/
theorem chain_correct_rel (resolve : Src → Table) (segs : List (Nat × List Tr)) (T : Table)
    (h : ChainAdm resolve T segs) :
    ((segs.flatMap (·.2)).foldl (step resolve) T).rows = evalChain T.rows segs := by
  induction segs generalizing T with
  | nil => rfl
  | cons ws rest ih =>
    obtain ⟨w, seg⟩ := ws
    obtain ⟨hw, hadm, hrest⟩ := h
    simp only [List.flatMap_cons, List.foldl_append, evalChain]
    rw [ih _ hrest, assemble_correct_rel resolve w seg T hw hadm]

/-- two different cuts of the same pipeline agree (so the compiler's choice of split points cannot matter) -/
theorem chain_cut_independent (resolve : Src → Table) (s1 s2 : List (Nat × List Tr)) (T : Table)
    (h1 : ChainAdm resolve T s1) (h2 : ChainAdm resolve T s2) (hsame : s1.flatMap (·.2) = s2.flatMap (·.2)) :
    evalChain T.rows s1 = evalChain T.rows s2 := by
  rw [← chain_correct_rel resolve s1 T h1, ← chain_correct_rel resolve s2 T h2, hsame]

/-- non-vacuity: `exSegAgg` cut after its aggregate (a sub-query boundary) - the chain is admissible and returns the same row -/
example : ChainAdm (fun _ => { rows := [] }) exTable [(3, exSegAgg.take 3), (3, exSegAgg.drop 3)] := by
  refine ⟨by decide, ⟨rfl, trivial, ⟨rfl, rfl, rfl⟩, trivial⟩, ?_, ?_, trivial⟩
  · decide
  · refine ⟨rfl, ⟨rfl, Or.inl rfl⟩, ?_, trivial⟩
    intro a h; cases h; decide
example : evalChain exTable.rows [(3, exSegAgg.take 3), (3, exSegAgg.drop 3)] = [[.str ['y'], .int 9, .int 7]] := by decide

end RelBlock

/-- T3a: the redirect of column ids at a split is an α-renaming: it commutes with evaluation -/
theorem split_glue_rename (ρ : Nat → Nat) (hinj : ∀ a b, ρ a = ρ b → a = b) (seg : List Seg.Tr) (t : List Seg.Row) :
    Seg.evalSeg (seg.map (Rename.renTr ρ)) (t.map (Rename.renRow ρ)) = (Seg.evalSeg seg t).map (Rename.renRow ρ) :=
  Rename.evalSeg_ren ρ hinj seg t


/-! ### T5 the set-operation rewrite (sql/pq/preprocess.rs `intersect` / `except`)

A join that equates every column of both sides, followed by a projection of the left side, is rewritten to INTERSECT (an
anti-join to EXCEPT).  `==` is SQL equality - it never holds when a side is NULL - and a join pairs EVERY equal row, while the set
operations treat NULLs as identical and count rows differently.  What is true, and what is not: -/
section SetOp
open Model.Rel

/-- `a.c1 == b.c1 && a.c2 == b.c2 && ..` on two rows: all columns equal and none NULL -/
def rowEqSql : Row → Row → Bool
  | [], [] => true
  | x :: xs, y :: ys => (x != .null) && (x == y) && rowEqSql xs ys
  | _, _ => false

/-- `from a | join b (all columns equal) | select {a.*}` as a bag: one copy of the left row per matching right row -/
def joinAllLeft (t b : List Row) : List Row := t.flatMap fun r => (b.filter (rowEqSql r)).map fun _ => r

/-- rows of `t` that also occur in `b`, NULLs compared as identical (what INTERSECT keeps, up to multiplicity) -/
def intersectRows (t b : List Row) : List Row := t.filter (b.contains ·)

theorem rowEqSql_eq {r s : Row} (h : rowEqSql r s = true) : r = s ∧ ∀ v ∈ r, v ≠ .null := by
  induction r generalizing s with
  | nil => cases s <;> simp_all [rowEqSql]
  | cons x xs ih =>
    cases s with
    | nil => simp [rowEqSql] at h
    | cons y ys =>
      simp only [rowEqSql, Bool.and_eq_true, bne_iff_ne, ne_eq, beq_iff_eq] at h
      obtain ⟨⟨hx, hxy⟩, hr⟩ := h
      obtain ⟨e, hn⟩ := ih hr
      refine ⟨by rw [hxy, e], ?_⟩
      intro v hv
      rcases List.mem_cons.mp hv with rfl | hv
      · exact hx
      · exact hn v hv

theorem rowEqSql_refl {r : Row} (h : ∀ v ∈ r, v ≠ .null) : rowEqSql r r = true := by
  induction r with
  | nil => rfl
  | cons x xs ih =>
    simp only [rowEqSql, Bool.and_eq_true, bne_iff_ne, ne_eq, beq_iff_eq]
    exact ⟨⟨h x (by simp), trivial⟩, ih fun v hv => h v (by simp [hv])⟩

/-- for rows WITHOUT NULLs the join keeps exactly the rows INTERSECT keeps (as sets): the rewrite is sound there -/
theorem join_all_mem_iff (t b : List Row) (r : Row) (hnn : ∀ v ∈ r, v ≠ .null) :
    r ∈ joinAllLeft t b ↔ r ∈ intersectRows t b := by
  simp only [joinAllLeft, intersectRows, List.mem_flatMap, List.mem_map, List.mem_filter, List.contains_iff_mem]
  constructor
  · rintro ⟨r', hr', s, ⟨hs, he⟩, rfl⟩
    obtain ⟨e, _⟩ := rowEqSql_eq he
    exact ⟨hr', e ▸ hs⟩
  · rintro ⟨hr, hb⟩
    exact ⟨r, hr, r, ⟨hb, rowEqSql_refl hnn⟩, rfl⟩

/-- a row the join keeps never contains NULL -/
theorem join_all_no_null (t b : List Row) (r : Row) (h : r ∈ joinAllLeft t b) : ∀ v ∈ r, v ≠ .null := by
  simp only [joinAllLeft, List.mem_flatMap, List.mem_map, List.mem_filter] at h
  obtain ⟨r', _, s, ⟨_, he⟩, rfl⟩ := h
  exact (rowEqSql_eq he).2

/-- ... but with a NULL the two differ (known finding setop-rewrite-null-equality: row (NULL, 2) in both tables) -/
theorem setop_rewrite_null_counterexample :
    joinAllLeft [[.int 1, .int 1], [.null, .int 2]] [[.int 1, .int 1], [.null, .int 2]] = [[.int 1, .int 1]] ∧
    intersectRows [[.int 1, .int 1], [.null, .int 2]] [[.int 1, .int 1], [.null, .int 2]] = [[.int 1, .int 1], [.null, .int 2]] := by
  decide

/-- ... and so do the multiplicities: two equal rows on each side give four joined rows, INTERSECT ALL gives two -/
theorem setop_rewrite_multiplicity_counterexample :
    (joinAllLeft [[.int 1], [.int 1]] [[.int 1], [.int 1]]).length = 4 ∧ (intersectRows [[.int 1], [.int 1]] [[.int 1], [.int 1]]).length = 2 := by
  decide

end SetOp

/-! ### T4 documented edge cases, on the reference semantics -/
open Model.Rel

/-- an aggregate without group yields exactly one row, also on empty input -/
theorem aggregate_one_row (resolve : Src → Table) (t : Table) (aggs : List Agg) :
    (step resolve t (.aggregate aggs)).rows.length = 1 := rfl

/-- a group over empty input yields no row -/
theorem group_empty (resolve : Src → Table) (by_ : List Nat) (aggs : List Agg) :
    (step resolve { rows := [] } (.groupAgg by_ aggs)).rows = [] := rfl

/-- count counts null entries -/
theorem count_counts_nulls (vals : List Value) : aggVal .count vals = .int vals.length := rfl

/-- the sum of no values is zero (also when all values are NULL) -/
theorem sum_empty_is_zero : aggVal .sum [] = .int 0 := rfl
theorem sum_all_null_is_zero (n : Nat) : aggVal .sum (List.replicate n .null) = .int 0 := by
  have : (List.replicate n Value.null).filter (· != Value.null) = [] := by
    apply List.filter_eq_nil_iff.mpr
    intro a ha
    rw [List.eq_of_mem_replicate ha]; decide
  simp [aggVal, this]

/-! ## the `reorder` pass of the back end (mirror: Model.Reorder, tied by replaying every recorded call)

Before the pipeline is split, every Compute is pulled in front of the Sorts - and, if it is a plain (row-wise)
expression, the Takes - directly in front of it, so that it lands in the same SELECT. -/
section Reorder
open Model.Reorder Lemmas.Reorder

/-- **reorder_moves_only_over_sorts_and_takes.** One step of the pass takes the processed pipeline `acc` (most recent
transform first) apart into the transforms the compute passes and the rest; it passes only Sorts and - when it is
plain - Takes, keeps everything else in place and in order, and never passes position 0. For any transform type. -/
theorem reorder_moves_only_over_sorts_and_takes {α} (cls : α → Cls) (plain : Bool) (c : α) (acc : List α) :
    ∃ moved rest, acc = moved ++ rest ∧ bubbleRev cls plain c acc = moved ++ c :: rest ∧
      (∀ x ∈ moved, cls x = .sort ∨ (cls x = .take ∧ plain = true)) ∧ (acc ≠ [] → rest ≠ []) := by
  obtain ⟨mv, rs, h1, h2, h3, h4⟩ := bubbleRev_spec cls plain c acc
  refine ⟨mv, rs, h1, h2, ?_, h4⟩
  intro x hx
  have := h3 x hx
  cases hc : cls x <;> simp_all [movable]

/-- a compute that is not plain (window function, aggregation, CASE) is never moved over a Take -/
theorem nonplain_never_passes_take : movable false .take = false := rfl

/-- **reorder_step_keeps_rows.** On the reference semantics (the row functions of Model.Rel): with the part in front
evaluated to rows of width `w`, pulling a row-wise derive in front of the sorts (keys over the existing columns) and
takes directly in front of it gives the same rows, whatever follows - for runs of any length. -/
theorem reorder_step_keeps_rows (w : Nat) (front mv after : List RT) (es : List Model.Rel.Expr) (rows : List Model.Rel.Row)
    (hmv : ∀ s ∈ mv, MovableOn w s) (hw : ∀ r ∈ evalR front rows, r.length = w) :
    evalR (front ++ mv ++ [.derive es] ++ after) rows = evalR (front ++ [.derive es] ++ mv ++ after) rows :=
  reorder_step_rows w front mv after es rows hmv hw

/-- the row functions are those of the reference semantics -/
theorem reorder_rows_are_rel_rows (resolve : Model.Rel.Src → Model.Rel.Table) (t : Model.Rel.Table)
    (es : List Model.Rel.Expr) (ks : List Model.Rel.SortKey) (lo hi : Option Nat) :
    (Model.Rel.step resolve t (.derive es)).rows = (RT.derive es).eval t.rows ∧
    (Model.Rel.step resolve t (.sort ks)).rows = (RT.sort ks).eval t.rows ∧
    (Model.Rel.step resolve t (.take lo hi)).rows = (RT.take lo hi).eval t.rows := eval_is_rel_step resolve t es ks lo hi

/-- **window_not_hoisted_over_take.** The restriction to plain computes is necessary: a compute that looks at other
rows (the column total, as a window `sum` does) gives different values when it is evaluated before the take. -/
theorem window_not_hoisted_over_take :
    let total : List Model.Rel.Row → List Model.Rel.Row := fun rows =>
      rows.map (· ++ [Model.Rel.Value.int (rows.foldl (fun a r => a + (match r.getD 0 .null with | .int n => n | _ => 0)) 0)])
    evalR [.take none (some 2), .fixed total] [[.int 1], [.int 2], [.int 3]] ≠
    evalR [.fixed total, .take none (some 2)] [[.int 1], [.int 2], [.int 3]] := windowed_over_take_counterexample

/-- non-vacuity: `sort c0 | take 2 | derive c0 + 1` on three rows of width 1: the hypotheses hold and the derive may lead -/
example : (∀ s ∈ [RT.sort [(.col 0, false)], RT.take none (some 2)], MovableOn 1 s) ∧
    (∀ r ∈ evalR [] [[Model.Rel.Value.int 3], [.int 1], [.int 2]], r.length = 1) := by
  refine ⟨?_, by decide⟩
  intro s hs
  simp only [List.mem_cons, List.not_mem_nil, or_false] at hs
  rcases hs with rfl | rfl
  · intro k hk i hi
    simp only [List.mem_cons, List.not_mem_nil, or_false] at hk
    subst hk
    simp [Model.Rel.Expr.reads] at hi
    omega
  · trivial

/-- the pass itself on a small pipeline of the back end's transforms: the plain compute passes the take and the sort, not the filter -/
example : reorderTr [.from [0], .filter (.col 0), .sort [0], .take .nil [] [], .compute { id := 1, expr := .col 0, win := none, isAgg := false }] =
    [.from [0], .filter (.col 0), .compute { id := 1, expr := .col 0, win := none, isAgg := false }, .sort [0], .take .nil [] []] := by decide

/-- … and a windowed compute stops at the take -/
example : reorderTr [.from [0], .sort [0], .take .nil [] [], .compute { id := 1, expr := .col 0, win := some [], isAgg := false }] =
    [.from [0], .sort [0], .take .nil [] [], .compute { id := 1, expr := .col 0, win := some [], isAgg := false }] := by decide

end Reorder

/-! ### the stages of `preprocess` that introduce DISTINCT, ROW_NUMBER filters and set operations
(mirror Model.Preprocess, tie: every recorded stage call is replayed, tools/preptrace.py) -/
section Stages
open Model.Preprocess Lemmas.Preprocess

/-- DISTINCT is chosen only for "the first row of each group", without a sort, when the partition is - as a set - the
frame the pipeline ends with AND nothing after the take reads a column outside of the partition -/
theorem distinct_only_for_first_row_of_whole_frame (cfg : Cfg) (frame : List CId) (laterOk : Bool) (s e : Option Int)
    (partition : List CId) (sort : List CS) (h : distinctChoice cfg frame laterOk s e partition sort = .distinct) :
    s.getD 1 = 1 ∧ e = some 1 ∧ sort = [] ∧ sameElements frame partition = true ∧ laterOk = true := by
  unfold distinctChoice at h
  dsimp only at h
  by_cases hc : (s.getD 1 == 1 && e == some 1 && sort.isEmpty && (sameElements frame partition && laterOk)) = true
  · simp only [Bool.and_eq_true, beq_iff_eq, List.isEmpty_iff] at hc
    exact ⟨hc.1.1.1, hc.1.1.2, hc.1.2, hc.2.1, hc.2.2⟩
  · rw [if_neg hc] at h
    by_cases h2 : (cfg.supportsDistinctOn && e == some 1) = true
    · rw [if_pos h2] at h; cases h
    · rw [if_neg h2] at h; cases h

/-- ... where "nothing after the take reads outside of the partition" means: every column id a later transform mentions is a
partition column, a column a later Compute defines, or a column a later Join brings in -/
theorem later_transforms_read_only_the_partition (partition : List CId) (rest : List (Model.Preprocess.Tr × Info))
    (h : readsOnly partition rest = true) :
    ∀ ti ∈ rest, ∀ rs, ti.2.reads = some rs → ∀ c ∈ rs,
      c ∈ partition ∨ (∃ tj ∈ rest, tj.2.defines = some c) ∨ (∃ tj ∈ rest, ∃ sd cols f, tj.1 = .join sd cols f ∧ c ∈ cols) :=
  readsOnly_spec partition rest h

/-- DISTINCT ON is chosen only on a dialect that has it and only when one row per group is asked for; in every other case
the take becomes a filter on ROW_NUMBER() -/
theorem distinct_on_only_for_one_row (cfg : Cfg) (frame : List CId) (laterOk : Bool) (s e : Option Int) (partition : List CId)
    (sort : List CS) (h : distinctChoice cfg frame laterOk s e partition sort = .distinctOn) :
    cfg.supportsDistinctOn = true ∧ e = some 1 := by
  unfold distinctChoice at h
  dsimp only at h
  by_cases hc : (s.getD 1 == 1 && e == some 1 && sort.isEmpty && (sameElements frame partition && laterOk)) = true
  · rw [if_pos hc] at h; cases h
  · rw [if_neg hc] at h
    by_cases h2 : (cfg.supportsDistinctOn && e == some 1) = true
    · simpa using h2
    · rw [if_neg h2] at h; cases h

/-- what DISTINCT means where it is right: over rows of one width, the first row of every group of ALL columns is each
distinct row once (in order of first occurrence) - on the reference semantics Model.Rel, any number of rows -/
theorem group_take_first_over_all_columns_is_distinct (resolve : Model.Rel.Src → Model.Rel.Table) (t : Model.Rel.Table) (w : Nat)
    (hw : ∀ r ∈ t.rows, r.length = w) :
    (Model.Rel.step resolve t (.groupTake (List.range w) [] none (some 1))).rows = Model.Rel.dedup t.rows :=
  groupTake_all_columns_rows resolve t w hw

example : (∀ r ∈ exTable.rows, r.length = 3) := by decide

/-- `group by_ (sort ks | take 1)` keeps exactly one row per group, whichever row that is: the key columns of the result are
the distinct keys of the input, each once. (The admissible-result oracle of tools/grouptake.py rests on this: with no sort
in the group body the kept row is unspecified, the number of rows per key is not.) -/
theorem group_take_one_keys_unique (resolve : Model.Rel.Src → Model.Rel.Table) (t : Model.Rel.Table) (by_ : List Nat)
    (ks : List Model.Rel.SortKey) :
    ((Model.Rel.step resolve t (.groupTake by_ ks none (some 1))).rows.map fun r => r.take by_.length)
        = Model.Rel.dedup (t.rows.map (Model.Rel.keyOf by_)) ∧
    ((Model.Rel.step resolve t (.groupTake by_ ks none (some 1))).rows.map fun r => r.take by_.length).Nodup := by
  have h := groupTake_first_keys resolve t by_ ks
  exact ⟨h, h ▸ Lemmas.AggPerm.nodup_dedup _⟩

/-- why the repaired guard of `preprocess::distinct` is right when the partition is NARROWER than the frame at the take: if nothing
later needs a column outside of the partition, the SELECT projects the partition columns only, and `SELECT DISTINCT <partition>` is the
projection of the group-take result onto its key columns - for tables of any size, whichever row each group keeps -/
theorem distinct_over_the_partition_is_the_group_take_projected (resolve : Model.Rel.Src → Model.Rel.Table) (t : Model.Rel.Table)
    (by_ : List Nat) (ks : List Model.Rel.SortKey) :
    Model.Rel.dedup (t.rows.map (Model.Rel.keyOf by_)) =
      (Model.Rel.step resolve t (.groupTake by_ ks none (some 1))).rows.map fun r => r.take by_.length :=
  (group_take_one_keys_unique resolve t by_ ks).1.symm

/-- ... and the restriction to ALL columns is necessary: grouping by the first of two columns keeps one row, DISTINCT two -/
theorem distinct_needs_all_columns_counterexample :
    (Model.Rel.step (fun _ => default) { rows := [[.int 1, .int 1], [.int 1, .int 2]] } (.groupTake [0] [] none (some 1))).rows.length = 1 ∧
    (Model.Rel.dedup [[Model.Rel.Value.int 1, .int 1], [.int 1, .int 2]]).length = 2 := by decide

/-- The defect repaired by `ea940a9` (finding distinct-judged-on-final-frame, fixed): the pass used to compare the partition
only with the frame the WHOLE pipeline ends with. For
`from t | select {a, b} | group {a} (take 1) | filter b > 0 | select {a}` the partition {a} equals the final frame {a}, DISTINCT
was chosen, the later filter kept `b` in the SELECT DISTINCT list - and by the previous theorem that keeps two rows where the
pipeline keeps one. The filter reads column 1, which is not in the partition: the take is now a ROW_NUMBER filter ... -/
theorem distinct_not_chosen_when_a_later_transform_reads_outside :
    distinct { supportsDistinctOn := false, exceptAll := true, intersectAll := true, wildcards := [] } 2
      [(.from [0, 1], ⟨none, none⟩), (.select [0, 1], ⟨some [0, 1], none⟩), (.take none (some (.int 1)) [0] [], ⟨some [0], none⟩),
       (.filter (.other 0), ⟨some [1], none⟩), (.select [0], ⟨some [0], none⟩)]
      = some ([.from [0, 1], .select [0, 1], .rowNumber 2 .rowsAll [0] [], .filter (.lte (.col 2) (.int 1)), .filter (.other 0), .select [0]], 3) := by
  decide

/-- ... and stays DISTINCT when the later transforms stay inside the partition (a sort by the key, a derive from it) -/
example :
    distinct { supportsDistinctOn := false, exceptAll := true, intersectAll := true, wildcards := [] } 2
      [(.from [0, 1], ⟨none, none⟩), (.select [0, 1], ⟨some [0, 1], none⟩), (.take none (some (.int 1)) [0] [], ⟨some [0], none⟩),
       (.other 7, ⟨some [5, 0], some 5⟩), (.other 8, ⟨some [5], none⟩), (.select [0], ⟨some [0], none⟩)]
      = some ([.from [0, 1], .select [0, 1], .distinct, .other 7, .other 8, .select [0]], 2) := by
  decide

/-- the ROW_NUMBER filter is the positional take: `take lo..hi` keeps exactly the rows whose 1-based position in the
(sorted) group satisfies the range condition, in their order - lists of any length, any bounds -/
theorem row_number_filter_is_positional_take {α} (lo hi : Option Nat) (l : List α) :
    Model.Rel.takeRange lo hi l = (l.zipIdx.filter fun p => rnKeep lo hi (p.2 + 1)).map (·.1) :=
  takeRange_eq_filter_rowNumber lo hi l

/-- value of the generated filter condition for row number `n` -/
def evalRange (rn : CId) (n : Int) : PE → Option Bool
  | .tru => some true
  | .eq (.col c) (.int i) => if c = rn then some (n == i) else none
  | .gte (.col c) (.int i) => if c = rn then some (decide (i ≤ n)) else none
  | .lte (.col c) (.int i) => if c = rn then some (decide (n ≤ i)) else none
  | .and a b => match evalRange rn n a, evalRange rn n b with
    | some x, some y => some (x && y)
    | _, _ => none
  | _ => none

/-- the condition `create_filter_by_row_number` writes is the range condition, for every pair of bounds -/
theorem range_filter_means_the_range (rn : CId) (s e : Option Int) (n : Int) :
    evalRange rn n (rangeFilter rn s e) =
      some ((match s with | none => true | some s => decide (s ≤ n)) && (match e with | none => true | some e => decide (n ≤ e))) := by
  cases s with
  | none => cases e <;> simp [rangeFilter, evalRange]
  | some s =>
    cases e with
    | none => simp [rangeFilter, evalRange]
    | some e =>
      by_cases h : s = e
      · subst h
        simp only [rangeFilter, beq_self_eq_true, if_true, evalRange, Option.some.injEq]
        rw [Bool.eq_iff_iff]
        simp only [beq_iff_eq, Bool.and_eq_true, decide_eq_true_eq]
        omega
      · have : (s == e) = false := by simpa using h
        simp [rangeFilter, this, evalRange]

/-- a pipeline without partitioned takes passes `distinct` unchanged, and no column id is drawn -/
theorem distinct_leaves_plain_pipelines (cfg : Cfg) (next : CId) (p : List (Model.Preprocess.Tr × Info))
    (h : ∀ t ∈ p, ∀ s e pa so, t.1 = Model.Preprocess.Tr.take s e pa so → pa = []) :
    distinct cfg next p = some (p.map (·.1), next) := by
  unfold distinct
  exact distinctGo_no_partition cfg _ next p h

/-- what the four stages leave behind, for every pipeline and every dialect configuration: NO Append and NO Take with a partition
reaches the splitter and the clause assembly (both rely on it: `translate_select_pipeline` places nothing else, the splitter
has no rule for them) -/
theorem stages_leave_only_placeable_transforms (cfg : Cfg) (next : CId) (p : List (Model.Preprocess.Tr × Info))
    (q1 : List Model.Preprocess.Tr) (n : CId) (q3 q4 : List Model.Preprocess.Tr)
    (h1 : distinct cfg next p = some (q1, n)) (h3 : except cfg (union q1) = some q3) (h4 : intersect cfg q3 = some q4) :
    ∀ t ∈ q4, Placeable t := by
  have a1 : ∀ t ∈ q1, NoPartTake t := distinctGo_noPartTake cfg _ next p q1 n h1
  have a2 : ∀ t ∈ union q1, Placeable t := union_placeable q1 a1
  have a3 : ∀ t ∈ q3, Placeable t := exceptGo_placeable cfg _ [] (union q1) q3 h3 (by simp) a2
  exact intersectGo_placeable cfg _ false [] q3 q4 h4 (by simp) a3

/-- the hypotheses are satisfiable: a partitioned take, an append followed by DISTINCT and an anti-join in one pipeline -/
example : ∃ q1 n q3 q4,
    distinct { supportsDistinctOn := false, exceptAll := true, intersectAll := true, wildcards := [] } 9
      [(.from [0], ⟨none, none⟩), (.take none (some (.int 2)) [0] [], ⟨some [0], none⟩), (.append [1], ⟨some [], none⟩), (.distinct, ⟨none, none⟩),
       (.join .left [2] (.eq (.col 0) (.col 2)), ⟨some [0, 2], none⟩), (.filter (.eq (.col 2) .null), ⟨some [2], none⟩), (.select [0], ⟨some [0], none⟩)] = some (q1, n) ∧
    except { supportsDistinctOn := false, exceptAll := true, intersectAll := true, wildcards := [] } (union q1) = some q3 ∧
    intersect { supportsDistinctOn := false, exceptAll := true, intersectAll := true, wildcards := [] } q3 = some q4 ∧
    q4 = [.from [0], .rowNumber 9 .rowsAll [0] [], .filter (.lte (.col 9) (.int 2)), .union [1] true, .except [2] false, .select [0]] := by
  refine ⟨[.from [0], .rowNumber 9 .rowsAll [0] [], .filter (.lte (.col 9) (.int 2)), .append [1], .distinct,
           .join .left [2] (.eq (.col 0) (.col 2)), .filter (.eq (.col 2) .null), .select [0]], 10,
          [.from [0], .rowNumber 9 .rowsAll [0] [], .filter (.lte (.col 9) (.int 2)), .union [1] true, .except [2] false, .select [0]],
          _, by decide, by decide, by decide, rfl⟩

/-- `prune_inputs`: of the columns of a relation instance exactly those survive that the instance's own transform or a
transform BEHIND it mentions - in their order, nothing invented; a column that only a transform IN FRONT of the instance
mentions does not keep it alive -/
theorem prune_keeps_what_is_mentioned_behind (before after : List (Model.Preprocess.Tr × Info)) (cols : List CId) (i : Info) :
    ∃ kept rest, ((before ++ (.from cols, i) :: after).reverse.foldl pruneStep ([], [])).2 =
        (after.reverse.foldl pruneStep ([], [])).2 ++ kept :: rest ∧ kept.Sublist cols ∧
      ∀ c, c ∈ kept ↔ c ∈ cols ∧ (c ∈ i.reads.getD [] ∨ ∃ t ∈ after, c ∈ t.2.reads.getD []) :=
  pruned_from_mem before after cols i

example : pruneInputs [(.from [0, 1, 2, 3], ⟨none, none⟩), (.select [0, 1, 2], ⟨some [0, 1, 2], none⟩),
      (.join .inner [4, 5, 6] (.eq (.col 0) (.col 4)), ⟨some [0, 4], none⟩), (.filter (.other 0), ⟨some [1], none⟩), (.select [0, 5], ⟨some [0, 5], none⟩)]
    = [[0, 1, 2], [4, 5]] := by decide

/-- after `union` no Append is left -/
theorem union_eliminates_append (p : List Model.Preprocess.Tr) : ∀ t ∈ union p, isAppend t = false := union_no_append p

/-- decision logic of `except`, stated outright: a left join + filter becomes EXCEPT only if the join condition equates
every top column and every bottom column, the filter tests every bottom column against null (and only nulls), the final
frame contains all of top and nothing of bottom; EXCEPT ALL only on a dialect that has it, EXCEPT DISTINCT only behind a
DISTINCT -/
theorem except_rewrite_guard (cfg : Cfg) (output : List CId) (jc : PE) (bottom : List CId) (f : PE) (beforeRev : List Model.Preprocess.Tr)
    (d : Bool) (h : exceptDecide cfg output jc bottom f beforeRev = .rewrite d) :
    allIn (selectColsRev beforeRev) (collectEquals jc).1 = true ∧ allIn bottom (collectEquals jc).2 = true ∧
    allIn bottom (collectEquals f).1 = true ∧ allNull (collectEquals f).2 = true ∧
    bottom.any (output.contains ·) = false ∧ (selectColsRev beforeRev).all (output.contains ·) = true ∧
    (d = false → cfg.exceptAll = true) ∧ (d = true → ∃ b, beforeRev = .distinct :: b) := by
  unfold exceptDecide at h
  dsimp only at h
  have hd : headIsDistinct beforeRev = true → ∃ b, beforeRev = .distinct :: b := by
    intro hh
    cases beforeRev with
    | nil => simp [headIsDistinct] at hh
    | cons x xs => cases x <;> simp_all [headIsDistinct]
  revert h hd
  generalize allIn (selectColsRev beforeRev) (collectEquals jc).1 = A
  generalize allIn bottom (collectEquals jc).2 = B
  generalize allIn bottom (collectEquals f).1 = C
  generalize allNull (collectEquals f).2 = D
  generalize (bottom.any fun x => output.contains x) = E
  generalize ((selectColsRev beforeRev).all fun x => output.contains x) = F
  generalize headIsDistinct beforeRev = G
  generalize (containsWildcard cfg (selectColsRev beforeRev) || containsWildcard cfg bottom) = W
  generalize cfg.exceptAll = X
  intro h hd
  cases A <;> cases B <;> cases C <;> cases D <;> cases E <;> cases F <;> cases G <;> cases X <;> cases W <;> cases d <;>
    simp_all

/-- what the anti-join denotes is EXCEPT (as a set) exactly on NULL-free rows -/
theorem anti_join_is_except_on_null_free_rows (t b : List Model.Rel.Row) (r : Model.Rel.Row) (hnn : ∀ v ∈ r, v ≠ .null) :
    r ∈ antiJoinAll t b ↔ r ∈ exceptRows t b := anti_join_mem_iff t b r hnn

/-- ... and differs with a NULL (the row (NULL) of top is kept by the anti-join, removed by EXCEPT) -/
theorem except_rewrite_null_counterexample :
    antiJoinAll [[.null]] [[.null]] = [[.null]] ∧ exceptRows [[.null]] [[Model.Rel.Value.null]] = [] := by decide

/-- the stages on the shapes they are made for -/
example : union [.from [0], .append [1], .distinct, .select [0]] = [.from [0], .union [1] true, .select [0]] := by decide
example : except { supportsDistinctOn := false, exceptAll := true, intersectAll := true, wildcards := [] }
    [.from [0], .join .left [1] (.eq (.col 0) (.col 1)), .filter (.eq (.col 1) .null), .select [0]]
    = some [.from [0], .except [1] false, .select [0]] := by decide
example : except { supportsDistinctOn := false, exceptAll := false, intersectAll := true, wildcards := [] }
    [.from [0], .join .left [1] (.eq (.col 0) (.col 1)), .filter (.eq (.col 1) .null), .select [0]]
    = some [.from [0], .join .left [1] (.eq (.col 0) (.col 1)), .filter (.eq (.col 1) .null), .select [0]] := by decide
example : except { supportsDistinctOn := false, exceptAll := false, intersectAll := true, wildcards := [1] }
    [.from [0], .join .left [1] (.eq (.col 0) (.col 1)), .filter (.eq (.col 1) .null), .select [0]] = none := by decide
example : intersect { supportsDistinctOn := false, exceptAll := true, intersectAll := false, wildcards := [] }
    [.from [0], .join .inner [1] (.eq (.col 0) (.col 1)), .distinct, .select [0]]
    = some [.from [0], .intersect [1] true, .select [0]] := by decide

end Stages

/-! ### the clause assembly of `translate_select_pipeline` (mirror Model.SelectPipe, tie: every recorded call replayed,
tools/selecttrace.py) and its link to the block theorem -/
section ClauseAssembly
open Model.SelectPipe Lemmas.SelectPipe

/-- plucking by kind (what the code does) places every clause where placing the transforms one after the other does, on
every segment with one aggregate at most and no sort in front of it: WHERE = the filters in front of the aggregate, HAVING =
those after it, GROUP BY = its partition, ORDER BY = the last sort, LIMIT / OFFSET = the composition of all takes -/
theorem pluck_is_sequential_placement (p : List Model.SelectPipe.Tr) (h : Admissible p) :
    (p.foldl pushK {}).where_ = (parts p).where_ ∧
    (p.foldl pushK {}).having = (parts p).having ∧
    (p.foldl pushK {}).groupBy = (parts p).groupBy ∧
    (p.foldl pushK {}).order.getD [] = (parts p).orderBy ∧
    (p.foldl pushK {}).range = Model.Take.foldRanges (parts p).ranges :=
  Lemmas.SelectPipe.pluck_is_sequential_placement p h

example : Admissible [.from, .filter 0, .filter 1, .aggregate [2] [3], .filter 4, .sort [⟨3, true⟩], .take (some 2, some 5), .select [2, 3]] := by
  constructor <;> intro pa c rest hd <;> simp [List.findIdx_cons, isAggregate] at hd <;> obtain ⟨_, _, rfl⟩ := hd
  · intro t ht; simp at ht; rcases ht with rfl | rfl | rfl | rfl <;> rfl
  · rfl

/-- without "no sort in front of the aggregate" they differ (finding stale-sort-after-aggregate of C16 lives here) -/
theorem pluck_keeps_a_stale_sort :
    (parts [.sort [⟨0, false⟩], .aggregate [] [1]]).orderBy = [⟨0, false⟩] ∧
    ([Model.SelectPipe.Tr.sort [⟨0, false⟩], .aggregate [] [1]].foldl pushK {}).order = none :=
  stale_sort_counterexample

/-- `all` of gen_query.rs: the filters of one clause joined into ONE condition, `e1 AND (e2 AND (.. AND en))` -/
def allAnd : List Model.Rel.Expr → Option Model.Rel.Expr
  | [] => none
  | e :: rest => match allAnd rest with
    | some c => some (.bin .and e c)
    | none => some e

theorem holds_and (a b : Model.Rel.Expr) (r : Model.Rel.Row) :
    Lemmas.RelBlock.holds (.bin .and a b) r = (Lemmas.RelBlock.holds a r && Lemmas.RelBlock.holds b r) := by
  simp only [Lemmas.RelBlock.holds, Model.Rel.Expr.eval, Model.Rel.evalBin]
  cases ha : (a.eval r).truth with
  | none =>
    cases hb : (b.eval r).truth with
    | none => simp [Model.Rel.and3, Model.Rel.ofTruth, Model.Rel.Value.truth]
    | some y => cases y <;> simp [Model.Rel.and3, Model.Rel.ofTruth, Model.Rel.Value.truth]
  | some x =>
    cases hb : (b.eval r).truth with
    | none => cases x <;> simp [Model.Rel.and3, Model.Rel.ofTruth, Model.Rel.Value.truth]
    | some y => cases x <;> cases y <;> simp [Model.Rel.and3, Model.Rel.ofTruth, Model.Rel.Value.truth]

/-- a row passes the joined condition iff it passes every filter (three-valued: NULL does not pass), for any number of
filters - the WHERE / HAVING clause built by `filter_of_conditions` means the filters applied one after the other -/
theorem joined_condition_means_all_filters (es : List Model.Rel.Expr) (c : Model.Rel.Expr) (r : Model.Rel.Row)
    (h : allAnd es = some c) : Lemmas.RelBlock.holds c r = Lemmas.RelBlock.allHold es r := by
  induction es generalizing c with
  | nil => simp [allAnd] at h
  | cons e rest ih =>
    cases hr : allAnd rest with
    | none =>
      have hnil : rest = [] := by
        cases rest with
        | nil => rfl
        | cons x xs =>
          simp only [allAnd] at hr
          cases hx : allAnd xs <;> simp [hx] at hr
      subst hnil
      simp only [allAnd, Option.some.injEq] at h
      subst h
      simp [Lemmas.RelBlock.allHold]
    | some c' =>
      simp only [allAnd, hr, Option.some.injEq] at h
      subst h
      have := ih c' hr
      rw [holds_and, this]
      simp [Lemmas.RelBlock.allHold]

/-- the kind of clause a transform of the reference semantics contributes -/
def skel : Model.Rel.Tr → Model.SelectPipe.Tr
  | .filter _ => .filter 0
  | .sort _ => .sort []
  | .take lo hi => .take (lo, hi)
  | .aggregate _ => .aggregate [] []
  | .groupAgg _ _ => .aggregate [] []
  | .select _ => .select []
  | _ => .other

def grouped : Lemmas.RelBlock.Grouping → Bool
  | .none => false
  | _ => true

/-- the clause skeleton of a block of the block theorem -/
def blockShape (b : Lemmas.RelBlock.Block) : Nat × Nat × Bool × Bool × (Option Nat × Option Nat) :=
  (b.wheres.length, b.havings.length, grouped b.group, b.order.isSome, b.range)

def shapeShape (s : Shape) : Nat × Nat × Bool × Bool × (Option Nat × Option Nat) :=
  (s.where_.length, s.having.length, s.grouped, s.order.isSome, s.range)

/-- `push` of the block theorem (assemble_correct_rel) and the sequential placement `pushK` put every transform into the
same clause -/
theorem push_places_like_pushK (b : Lemmas.RelBlock.Block) (s : Shape) (tr : Model.Rel.Tr)
    (h : blockShape b = shapeShape s) : blockShape (Lemmas.RelBlock.push b tr) = shapeShape (pushK s (skel tr)) := by
  simp only [blockShape, shapeShape, Prod.mk.injEq] at h
  obtain ⟨h1, h2, h3, h4, h5⟩ := h
  cases tr <;> simp only [Lemmas.RelBlock.push, skel, pushK, blockShape, shapeShape]
  case filter e =>
    cases hg : b.group <;> simp_all [grouped] <;> (first | omega | simp_all)
  all_goals simp_all [grouped]

/-- hence the block assembled from a segment has the clause skeleton of the sequential placement of its kinds, for segments
of any length -/
theorem assemble_places_like_pushK (w : Nat) (seg : List Model.Rel.Tr) :
    blockShape (Lemmas.RelBlock.assemble w seg) = shapeShape ((seg.map skel).foldl pushK {}) := by
  unfold Lemmas.RelBlock.assemble
  have : ∀ (b : Lemmas.RelBlock.Block) (s : Shape), blockShape b = shapeShape s →
      blockShape (seg.foldl Lemmas.RelBlock.push b) = shapeShape ((seg.map skel).foldl pushK s) := by
    induction seg with
    | nil => intro b s h; exact h
    | cons t ts ih => intro b s h; exact ih _ _ (push_places_like_pushK b s t h)
  exact this _ _ rfl

end ClauseAssembly

/-! ### the real splitter (requirements, complexity caps, `can_materialize`: mirror Model.Anchor, replayed call by call) cuts
where the split table allows - never later -/
section RealSplitter
open Model.Anchor Lemmas.Anchor

/-- the transforms `split_off_back` scans over (the atomic part before its Selects are dropped), in pipeline order -/
def scanned (decls : List Comp) (p : List Model.Anchor.Tr) (out : List CId) : List Model.Anchor.Tr :=
  (passedRev decls p.reverse { required := shouldSelect (allowUpTo (fromCids out) Cx.highest) true }).reverse

/-- the pipeline is the part left in front followed by the scanned part (nothing is reordered or lost) ... -/
theorem real_splitter_cuts_a_suffix (decls : List Comp) (p : List Model.Anchor.Tr) (out : List CId) :
    p = (splitOffBack decls p out).rest ++ scanned decls p out := by
  have h := scanRev_splits decls p.reverse { required := shouldSelect (allowUpTo (fromCids out) Cx.highest) true }
  have h2 := congrArg List.reverse h
  simp only [List.reverse_reverse, List.reverse_append] at h2
  unfold splitOffBack scanned
  exact h2

/-- ... and the kinds of the scanned part are a suffix of what the scan over the split table alone keeps: whatever the
requirements and the compute declarations, the real scan stops where the table says or earlier -/
theorem real_splitter_refines_table_scan (decls : List Comp) (p : List Model.Anchor.Tr) (out : List CId) :
    ∃ pre, atomicSuffix (p.map Model.Anchor.Tr.kind) = pre ++ (scanned decls p out).map Model.Anchor.Tr.kind := by
  obtain ⟨pre, h⟩ := scan_refines_tableScan decls p.reverse { required := shouldSelect (allowUpTo (fromCids out) Cx.highest) true } []
  refine ⟨pre, ?_⟩
  unfold atomicSuffix scanned
  rw [← List.map_reverse]
  simpa using h

/-- hence the clause-order theorem holds for the block the REAL splitter forms: no transform in it is followed by one it
must be split from (pairs of the listed gap Take|Distinct aside) -/
theorem real_splitter_respects_clause_order (decls : List Comp) (p : List Model.Anchor.Tr) (out : List CId)
    (pre mid post : List Kind) (a b : Kind)
    (h : (scanned decls p out).map Model.Anchor.Tr.kind = pre ++ a :: (mid ++ b :: post)) (hb : recorded b = true)
    (hk : knownGap a b = false) :
    mustSplit a b ((recordedOf (mid ++ b :: post)).contains .Aggregate) = false := by
  obtain ⟨pre0, h0⟩ := real_splitter_refines_table_scan decls p out
  rw [h] at h0
  exact split_respects_clause_order (p.map Model.Anchor.Tr.kind) (pre0 ++ pre) mid post a b (by rw [h0]; simp) hb hk

/-- a block of the split table never holds two aggregates (first hypothesis of `pluck_is_sequential_placement`): an Aggregate
followed by an Aggregate is a pair the table splits -/
theorem table_block_has_at_most_one_aggregate (p pre mid post : List Kind)
    (h : atomicSuffix p = pre ++ Kind.Aggregate :: (mid ++ Kind.Aggregate :: post)) : False := by
  have := split_respects_clause_order p pre mid post .Aggregate .Aggregate h (by decide) (by decide)
  simp [mustSplit] at this

/-- ... and so does the block of the real splitter -/
theorem real_block_has_at_most_one_aggregate (decls : List Comp) (p : List Model.Anchor.Tr) (out : List CId)
    (pre mid post : List Kind)
    (h : (scanned decls p out).map Model.Anchor.Tr.kind = pre ++ Kind.Aggregate :: (mid ++ Kind.Aggregate :: post)) : False := by
  have := real_splitter_respects_clause_order decls p out pre mid post .Aggregate .Aggregate h (by decide) (by decide)
  simp [mustSplit] at this

/-- the two scans on a pipeline where a compute cannot be materialised: the table alone would keep `derive | take`, the real
scan stops in front of the windowed derive that the take's range needs plain -/
example : (scanned [] [.from [0], .compute { id := 1, expr := .col 0, win := some [], isAgg := false }, .filter (.col 1)] [0, 1]).length ≤
    (atomicSuffix [.From, .Compute, .Filter]).length := by decide

end RealSplitter

end Props.C01
